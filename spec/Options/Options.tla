------------------------------- MODULE Options -------------------------------
(* Implementation-shaped model of mitmproxy.optmanager.OptManager and save/load (mitmproxy/optmanager.py).

   vals     : _options, name -> abstract value (only options that exist)
   deferred : OptManager.deferred as a sequence of <<name, value>> in dict insertion order (process_deferred and
              update assign keyword arguments in that order); a value <<"bad">> is an unconverted string that cannot be parsed
   file     : the config file used by the "inplace" save mode, name -> value as it would be loaded
   One action per public call.  update_known() is modelled statement by statement:
     for k, v in known.items(): _Option.set (typecheck, assign)      = AssignAll (stops at the first TypeError)
     changed.send(updated)                                            = Notify (listeners in receiver order:
                                                                        subscribe()d callables first, then receivers
                                                                        connected to .changed)
     rollback(): except OptionsError: _options = old; changed.send   = the second Notify with the old values
   A listener may carry a cascade <<trigger name, trigger value, target name, target value>>: told that the trigger
   was assigned and reading the trigger value, it assigns the target with a nested update() of its own (as the
   Intercept addon switches intercept_active when intercept is set).  The nested update_known has its own rollback
   context and notification round; the outer rollback swaps in the snapshot of ALL options taken before the outer
   assignment, so an accepted nested assignment is undone together with a rejected outer update.
   Deliberate deviations of the code, as constants:
     TypeCheckFirst = TRUE      : update_known() type-checks every known key before the rollback block (repair of
                                  finding C44-F1): an ill-typed value raises TypeError with nothing assigned and nobody told.
                                  FALSE is the code before the repair, kept as a design variant the monitor rejects:
                                  rollback() catches only OptionsError, so the TypeError of a later key left the
                                  earlier keys of the same call assigned (C44.rejected_not_restored)
     Lossy = {"nel"}            : strings of these classes are not reproduced by save + load (ruamel writes U+0085
                                  inside a quoted scalar as a line break, the loader folds it to a space)    *)
EXTENDS Mon_Options, TLC
CONSTANTS Opts,        \* <<[name, type, default]>> options that exist from the start
          Late,        \* <<[name, type, default]>> options that may be added later (deferred values wait for them)
          Listeners,   \* <<[id, subs |-> <<names>>, forbid |-> {<<name, value>>}, casc |-> <<>> or <<trig, val, tgt, val>>]>>
                       \* in notification order
          Updates,     \* set of [via |-> "update"|"setattr"|"defer"|"set"|"set_defer", kvs |-> <<<<name, value>>>>]
          Modes,       \* save/load modes explored
          StrCls,      \* class of pool string k
          Lossy, TypeCheckFirst, MaxOps
VARIABLES vals, deferred, file, started, ops, mon, obs
vars == <<vals, deferred, file, started, ops, mon, obs>>

Decl == Opts \o Late
NameSeq == [i \in 1..Len(Decl) |-> Decl[i].name]
DeclOf(n) == Decl[CHOOSE i \in 1..Len(Decl) : Decl[i].name = n]
InDeclOrder(S) == SelectSeq(NameSeq, LAMBDA n : n \in S)
Fn(names, f(_)) == [n \in names |-> f(n)]
TypesRec == [n \in ToSet(NameSeq) |-> DeclOf(n).type]
DefaultsRec == [n \in ToSet(NameSeq) |-> DeclOf(n).default]
WellTyped(n, v) == v[1] \in TagsOf(DeclOf(n).type)

Init == /\ vals = [n \in { Opts[i].name : i \in 1..Len(Opts) } |-> DeclOf(n).default]
        /\ deferred = <<>> /\ file = <<>> /\ started = FALSE /\ ops = 0 /\ mon = MonInit /\ obs = <<>>
Emit(evs) == obs' = evs /\ mon' = FoldEvents(MonStep, mon, evs)
Live == mon.bad = <<>>
Run == Live /\ started /\ ops < MaxOps /\ ops' = ops + 1 /\ UNCHANGED started

\* the harness builds the OptManager, subscribes the listeners and reports what exists
Setup == /\ Live /\ ~started /\ started' = TRUE /\ UNCHANGED <<vals, deferred, file, ops>>
         /\ Emit(<<[k |-> "decl", types |-> TypesRec, defaults |-> DefaultsRec,
                    listeners |-> [i \in 1..Len(Listeners) |-> [id |-> Listeners[i].id, subs |-> Listeners[i].subs]],
                    vals |-> vals]>>)

\* for k, v in known.items(): check_option_type(...) -- then -- for k, v in known.items(): self._options[k].set(v)
\* (err: some value is ill-typed; v: what the old assignment loop had assigned before it met that value)
RECURSIVE AssignAll(_, _)
AssignAll(vs, kvs) ==
  IF kvs = <<>> THEN [v |-> vs, err |-> FALSE]
  ELSE IF ~WellTyped(kvs[1][1], kvs[1][2]) THEN [v |-> vs, err |-> TRUE]
  ELSE AssignAll([vs EXCEPT ![kvs[1][1]] = kvs[1][2]], Tail(kvs))

\* changed.send(updated=keys): every concerned receiver reads the options; one may raise OptionsError; one may make a
\* nested update (d = 0: outer round; d = 1: the round of a nested update, whose keys never hold a trigger)
Fires(L, vs, keys) == /\ L.casc # <<>> /\ L.casc[1] \in keys /\ L.casc[1] \in DOMAIN vs /\ L.casc[3] \in DOMAIN vs
                      /\ vs[L.casc[1]] = L.casc[2] /\ vs[L.casc[3]] # L.casc[4]
RECURSIVE Notify(_, _, _, _, _, _)
Notify(i, vs, keys, notes, nest, d) ==
  IF i > Len(Listeners) THEN [notes |-> notes, rej |-> FALSE, v |-> vs, nest |-> nest]
  ELSE LET L == Listeners[i] IN
       IF ToSet(L.subs) \cap keys = {} THEN Notify(i + 1, vs, keys, notes, nest, d)
       ELSE LET n2 == Append(notes, [l |-> L.id, upd |-> InDeclOrder(keys), vals |-> vs])
            IN IF \E fv \in L.forbid : fv[1] \in DOMAIN vs /\ vs[fv[1]] = fv[2]
               THEN [notes |-> n2, rej |-> TRUE, v |-> vs, nest |-> nest]
               ELSE IF d = 0 /\ Fires(L, vs, keys)
               THEN \* opts.update(target=value) inside the callback: assign, notify {target}, own rollback
                    LET tgt == L.casc[3]
                        vs2 == [vs EXCEPT ![tgt] = L.casc[4]]
                        inner == Notify(1, vs2, {tgt}, n2, nest, 1)
                    IN IF inner.rej
                       THEN [notes |-> Notify(1, vs, {tgt}, inner.notes, nest, 1).notes, rej |-> TRUE, v |-> vs,
                             nest |-> nest]
                       ELSE Notify(i + 1, vs2, keys, inner.notes,
                                   Append(nest, [name |-> tgt, val |-> L.casc[4]]), d)
               ELSE Notify(i + 1, vs, keys, n2, nest, d)
Round(vs, keys, notes, nest) == Notify(1, vs, keys, notes, nest, 0)

KeysOf(kvs) == { kvs[i][1] : i \in 1..Len(kvs) }
WantOf(kvs) == [n \in KeysOf(kvs) |-> kvs[CHOOSE i \in 1..Len(kvs) : kvs[i][1] = n][2]]

\* update_known(kvs) for names that exist
UpdateKnown(old, kvs) ==
  LET keys == KeysOf(kvs)
      a == AssignAll(old, kvs)
  IN IF kvs = <<>> THEN [v |-> old, outcome |-> "ok", exc |-> "", notes |-> <<>>, nest |-> <<>>]
     ELSE IF a.err
          THEN IF TypeCheckFirst
               THEN [v |-> old, outcome |-> "raised", exc |-> "TypeError", notes |-> <<>>, nest |-> <<>>]
               ELSE [v |-> a.v, outcome |-> "raised", exc |-> "TypeError", notes |-> <<>>, nest |-> <<>>]
     ELSE LET n1 == Round(a.v, keys, <<>>, <<>>)
          IN IF n1.rej
             THEN LET rb == Round(old, keys, n1.notes, n1.nest)     \* _options = snapshot; changed.send(updated)
                  IN [v |-> rb.v, outcome |-> "raised", exc |-> "OptionsError", notes |-> rb.notes, nest |-> rb.nest]
             ELSE [v |-> n1.v, outcome |-> "ok", exc |-> "", notes |-> n1.notes, nest |-> n1.nest]

UpdEv(via, kvs, r) == [k |-> "update", via |-> via, keys |-> InDeclOrder(KeysOf(kvs)), want |-> WantOf(kvs),
                       outcome |-> r.outcome, exc |-> r.exc, vals |-> r.v, notes |-> r.notes, nested |-> r.nest]

Known(kvs) == SelectSeq(kvs, LAMBDA kv : kv[1] \in DOMAIN vals)
Unknown(kvs) == SelectSeq(kvs, LAMBDA kv : kv[1] \notin DOMAIN vals)
\* dict.update keeps the position of a key that is already present
RECURSIVE Merge(_, _)
Merge(d, kvs) ==
  IF kvs = <<>> THEN d
  ELSE LET kv == Head(kvs) IN
       Merge(IF \E i \in 1..Len(d) : d[i][1] = kv[1]
             THEN [i \in 1..Len(d) |-> IF d[i][1] = kv[1] THEN kv ELSE d[i]]
             ELSE Append(d, kv), Tail(kvs))

\* OptManager.update(kvs) / setattr(opts, name, value): every name exists
DoUpdate(u) ==
  /\ Run /\ u.via \in {"update", "setattr"} /\ Unknown(u.kvs) = <<>>
  /\ LET r == UpdateKnown(vals, u.kvs)
     IN vals' = r.v /\ UNCHANGED <<deferred, file>> /\ Emit(<<UpdEv(u.via, u.kvs, r)>>)

\* OptManager.update_defer(kvs): unknown = update_known(kvs); deferred.update(unknown)
DoDefer(u) ==
  /\ Run /\ u.via = "defer"
  /\ LET r == UpdateKnown(vals, Known(u.kvs))
     IN /\ vals' = r.v /\ UNCHANGED file
        /\ deferred' = IF r.outcome = "ok" THEN Merge(deferred, Unknown(u.kvs)) ELSE deferred
        /\ Emit(<<UpdEv(u.via, Known(u.kvs), r)>>)

\* OptManager.set(specs, defer=...): parse the values of known options (may raise), stash or refuse unknown names,
\* then update(processed)
DoSet(u) ==
  /\ Run /\ u.via \in {"set", "set_defer"}
  /\ LET kn == Known(u.kvs)
         un == Unknown(u.kvs)
         fail(r0) == [v |-> vals, outcome |-> "raised", exc |-> "OptionsError", notes |-> <<>>, nest |-> <<>>]
     IN IF \E i \in 1..Len(kn) : kn[i][2][1] = "bad"
        THEN UNCHANGED <<vals, deferred, file>> /\ Emit(<<UpdEv(u.via, kn, fail(0))>>)
        ELSE IF u.via = "set" /\ un # <<>>
        THEN UNCHANGED <<vals, deferred, file>> /\ Emit(<<UpdEv(u.via, kn, fail(0))>>)
        ELSE LET r == UpdateKnown(vals, kn)
             IN /\ vals' = r.v /\ UNCHANGED file
                /\ deferred' = Merge(deferred, un)
                /\ Emit(<<UpdEv(u.via, kn, r)>>)

\* add_option(...): _options[name] = _Option(...); changed.send(updated={name})   (no rollback context here)
AddOption(i) ==
  /\ Run /\ Late[i].name \notin DOMAIN vals
  /\ LET n == Late[i].name
         v2 == [x \in DOMAIN vals \cup {n} |-> IF x = n THEN Late[i].default ELSE vals[x]]
         r == Round(v2, {n}, <<>>, <<>>)
     IN /\ vals' = r.v /\ UNCHANGED <<deferred, file>>
        /\ Emit(<<[k |-> "update", via |-> "addopt", keys |-> <<n>>, want |-> [x \in {n} |-> Late[i].default],
                   outcome |-> "ok", exc |-> "", vals |-> r.v, notes |-> r.notes, nested |-> r.nest]>>)

\* process_deferred(): parse unconverted strings (may raise), update(update), then forget what was applied
ProcessDeferred ==
  /\ Run /\ deferred # <<>>
  /\ LET due == SelectSeq(deferred, LAMBDA kv : kv[1] \in DOMAIN vals)
     IN IF \E i \in 1..Len(due) : due[i][2][1] = "bad"
        THEN /\ UNCHANGED <<vals, deferred, file>>
             /\ Emit(<<UpdEv("process_deferred", due,
                             [v |-> vals, outcome |-> "raised", exc |-> "OptionsError", notes |-> <<>>, nest |-> <<>>])>>)
        ELSE LET r == UpdateKnown(vals, due)
             IN /\ vals' = r.v /\ UNCHANGED file
                /\ deferred' = IF r.outcome = "ok" THEN SelectSeq(deferred, LAMBDA kv : kv[1] \notin DOMAIN vals)
                               ELSE deferred
                /\ Emit(<<UpdEv("process_deferred", due, r)>>)

\* reset(): every option back to its default; changed.send(updated=all names)
Reset ==
  /\ Run /\ \E n \in DOMAIN vals : vals[n] # DeclOf(n).default
  /\ LET v2 == [n \in DOMAIN vals |-> DeclOf(n).default]
         r == Round(v2, DOMAIN vals, <<>>, <<>>)
     IN /\ vals' = r.v /\ UNCHANGED <<deferred, file>>
        /\ Emit(<<[k |-> "update", via |-> "reset", keys |-> InDeclOrder(DOMAIN vals), want |-> v2,
                   outcome |-> "ok", exc |-> "", vals |-> r.v, notes |-> r.notes, nested |-> r.nest]>>)

\* what a value becomes on the way through the config file
Mangle(v) == IF v[1] \in {"s", "q"}
             THEN [i \in 1..Len(v) |-> IF i > 1 /\ v[i] \in 1..Len(StrCls) /\ StrCls[v[i]] \in Lossy THEN 99 ELSE v[i]]
             ELSE v
\* serialize(): data = parse(old text); data[k] = value for every changed option; dump.  load(): update_defer(data)
SaveLoad(mode) ==
  /\ Run /\ UNCHANGED <<vals, deferred>>
  /\ LET changed == { n \in DOMAIN vals : vals[n] # DeclOf(n).default }
         base == IF mode = "inplace" THEN file ELSE <<>>
         f2 == [n \in changed \cup (DOMAIN base \cap DOMAIN vals) |-> IF n \in changed THEN Mangle(vals[n]) ELSE base[n]]
     IN /\ file' = IF mode = "inplace" THEN f2 ELSE file
        /\ Emit(<<[k |-> "saveload", mode |-> mode, outcome |-> "ok", exc |-> "", vals |-> vals,
                   loaded |-> [n \in DOMAIN vals |-> IF n \in DOMAIN f2 THEN f2[n] ELSE DeclOf(n).default],
                   scls |-> StrCls]>>)

Next == \/ Setup
        \/ \E u \in Updates : DoUpdate(u)
        \/ \E u \in Updates : DoDefer(u)
        \/ \E u \in Updates : DoSet(u)
        \/ \E i \in 1..Len(Late) : AddOption(i)
        \/ ProcessDeferred
        \/ Reset
        \/ \E mode \in Modes : SaveLoad(mode)
Spec == Init /\ [][Next]_vars
Report == mon.bad # <<>> => PrintT(<<"BAD", mon.bad>>)
=============================================================================
