----------------------------- MODULE Mon_Options -----------------------------
(* Monitor for C44: option updates are transactional, typed and survive a config round trip.

   Abstract option values are tagged tuples: <<"b",0|1>> bool, <<"i",n>> int, <<"s",k>> string number k of the
   scenario's string pool (99 = a string that is not in the pool), <<"n">> None, <<"q",k1,..>> sequence of strings,
   <<"x">> anything else (projection of a value of no supported kind, e.g. a list holding a non-string).
   Event records (projected from the real mitmproxy.optmanager.OptManager by props/C44.py):
     [k |-> "decl",   types |-> [name |-> "bool"|"int"|"str"|"opt_str"|"opt_int"|"seq_str"],   \* every option, also
                      defaults |-> [name |-> value],                                            \* the late ones
                      listeners |-> << [id |-> n, subs |-> <<names it is subscribed to>>] >>,
                      vals |-> [name |-> value] ]                        \* options that exist, with their values
     [k |-> "update", via |-> "update"|"set"|"set_defer"|"defer"|"addopt"|"process_deferred"|"reset"|"setattr",
                      keys |-> <<names of existing options the call assigns, in declaration order>>,
                      want |-> [name |-> requested value] (for the keys),
                      outcome |-> "ok"|"raised", exc |-> "" or the exception class,
                      vals |-> [name |-> value] after the call,
                      notes |-> << [l |-> listener id, upd |-> <<names it was told>>, vals |-> what it then read] >>,
                      nested |-> << [name, val] >>]   \* updates a listener made (and saw accepted) from inside its callback
     [k |-> "saveload", mode |-> "fresh"|"inplace"|"late", outcome, exc, vals |-> current values,
                      loaded |-> values of fresh options after save + load, scls |-> <<class of pool string k>>]
   The option set only grows ("addopt"); `vals` of an event lists the options existing after it.          *)
EXTENDS Verif

MonInit == [bad |-> <<>>, wit |-> {}, ready |-> FALSE,
            types |-> <<>>, defaults |-> <<>>, listeners |-> <<>>, prev |-> <<>>]

TagsOf(t) == CASE t = "bool" -> {"b"} [] t = "int" -> {"i"} [] t = "str" -> {"s"}
               [] t = "opt_str" -> {"s", "n"} [] t = "opt_int" -> {"i", "n"} [] t = "seq_str" -> {"q"}
               [] OTHER -> {}
Typed(m, vals) == \A n \in DOMAIN vals : vals[n][1] \in TagsOf(m.types[n])
UntypedName(m, vals) == CHOOSE n \in DOMAIN vals : vals[n][1] \notin TagsOf(m.types[n])

\* every record of values an event shows (the option state, what listeners read, what was loaded)
Shown(ev) == <<ev.vals>> \o [i \in 1..Len(Get(ev, "notes", <<>>)) |-> ev.notes[i].vals]
                         \o (IF "loaded" \in DOMAIN ev THEN <<ev.loaded>> ELSE <<>>)
TypeClause(m, ev) ==
  LET sh == Shown(ev)
      badIdx == { i \in 1..Len(sh) : ~Typed(m, sh[i]) }
  IN IF badIdx = {} THEN <<>>
     ELSE LET i == CHOOSE j \in badIdx : TRUE
          IN <<"C44.not_declared_type", m.types[UntypedName(m, sh[i])]>>

NotesOf(ev, l) == SelectSeq(ev.notes, LAMBDA x : x.l = l)
Concerned(m, keys) == { i \in 1..Len(m.listeners) : ToSet(m.listeners[i].subs) \cap keys # {} }

SameOn(a, b, names) == \A n \in names : n \in DOMAIN a /\ n \in DOMAIN b /\ a[n] = b[n]
\* options that existed before the call are all where they were (options the call itself added are not constrained)
Restored(m, vals) == DOMAIN m.prev \subseteq DOMAIN vals /\ SameOn(m.prev, vals, DOMAIN m.prev)

SubsOf(m, l) == ToSet(m.listeners[CHOOSE i \in 1..Len(m.listeners) : m.listeners[i].id = l].subs)
AgreeOn(a, b, names) == \A n \in names \cap DOMAIN b : n \in DOMAIN a /\ a[n] = b[n]
UpdateClause(m, ev) ==
  LET keys == ToSet(ev.keys)
      heard == { ev.notes[i].l : i \in 1..Len(ev.notes) }
      nested == Get(ev, "nested", <<>>)
      nnames == { nested[i].name : i \in 1..Len(nested) }
      \* value an assigned option must end with: the last nested assignment of it, else what the call asked for
      Eff(n) == IF n \in nnames
                THEN nested[CHOOSE i \in 1..Len(nested) : nested[i].name = n /\ \A j \in (i + 1)..Len(nested) : nested[j].name # n].val
                ELSE ev.want[n]
      assigned == keys \cup nnames
  IN IF ev.outcome = "raised" THEN
       \* every option: also those a listener assigned on the way (nested updates are part of the rejected call)
       IF ~Restored(m, ev.vals) THEN <<"C44.rejected_not_restored", ev.exc, ev.via>>
       ELSE IF \E l \in heard : ~Restored(m, Last(NotesOf(ev, l)).vals)
            THEN <<"C44.listener_not_restored", ev.exc, ev.via>>
       ELSE <<>>
     ELSE
       IF \/ \E n \in assigned : n \notin DOMAIN ev.vals \/ ev.vals[n] # Eff(n)
          \/ ~SameOn(m.prev, ev.vals, DOMAIN m.prev \ assigned)
       THEN <<"C44.accepted_not_assigned", ev.via>>
       ELSE IF keys = {} THEN <<>>
       ELSE IF \E i \in Concerned(m, keys) :
                 ~\E j \in 1..Len(ev.notes) : ev.notes[j].l = m.listeners[i].id /\ ToSet(ev.notes[j].upd) = keys
            THEN <<"C44.notify_mismatch", ev.via, "missing">>
       ELSE IF \E i \in 1..Len(ev.notes) : ToSet(ev.notes[i].upd) # keys
                                            /\ ~\E n \in nnames : ToSet(ev.notes[i].upd) = {n}
            THEN <<"C44.notify_mismatch", ev.via, "names">>
       ELSE IF \E l \in heard : ~AgreeOn(Last(NotesOf(ev, l)).vals, ev.vals, IF nnames = {} THEN DOMAIN ev.vals ELSE SubsOf(m, l))
            THEN <<"C44.notify_mismatch", ev.via, "stale_values">>
       ELSE <<>>

\* class of the (first) string of value v that the loaded value w does not reproduce
ClassOf(ev, v, w) ==
  LET diff == { i \in 2..Len(v) : i > Len(w) \/ w[i] # v[i] }
      i == IF diff = {} \/ Len(w) # Len(v) THEN 2 ELSE CHOOSE j \in diff : \A x \in diff : j <= x
  IN IF v[1] \in {"s", "q"} /\ Len(v) >= 2 /\ v[i] \in 1..Len(ev.scls) THEN ev.scls[v[i]] ELSE "-"
NonDefault(m, ev) == { n \in DOMAIN ev.vals : ev.vals[n] # m.defaults[n] }
SaveLoadClause(m, ev) ==
  IF ev.outcome = "raised" THEN <<"C44.roundtrip_raised", ev.exc, ev.mode>>
  ELSE LET lost == { n \in NonDefault(m, ev) : n \notin DOMAIN ev.loaded \/ ev.loaded[n] # ev.vals[n] }
       IN IF lost = {} THEN <<>>
          ELSE LET n == CHOOSE x \in lost : TRUE
               IN <<"C44.roundtrip_differs", m.types[n],
                    ClassOf(ev, ev.vals[n], IF n \in DOMAIN ev.loaded THEN ev.loaded[n] ELSE <<>>)>>

Clause(m, ev) ==
  IF ev.k = "decl" \/ ~m.ready THEN <<>>
  ELSE IF TypeClause(m, ev) # <<>> THEN TypeClause(m, ev)
  ELSE IF ev.k = "update" THEN UpdateClause(m, ev)
  ELSE IF ev.k = "saveload" THEN SaveLoadClause(m, ev)
  ELSE <<>>

UpdWit(m, ev) ==
  IF ev.outcome = "ok"
  THEN (IF Len(ev.keys) = 1 THEN {"accepted"} ELSE IF Len(ev.keys) > 1 THEN {"accepted_multi"} ELSE {})
       \cup (IF ev.via \in {"defer", "set_defer"} THEN {"deferred"} ELSE {})
       \cup (IF ev.via = "process_deferred" /\ Len(ev.keys) > 0 THEN {"process_deferred"} ELSE {})
       \cup (IF ev.via = "reset" THEN {"reset"} ELSE {})
       \cup (IF ev.via = "addopt" THEN {"addopt"} ELSE {})
       \cup (IF Get(ev, "nested", <<>>) # <<>> THEN {"nested_accepted"} ELSE {})
  ELSE (IF ev.exc = "TypeError" THEN {"rejected_type"} ELSE {})
       \cup (IF ev.exc = "OptionsError" /\ ev.notes # <<>> THEN {"rejected_listener"} ELSE {})
       \cup (IF ev.exc = "OptionsError" /\ ev.notes = <<>> THEN {"rejected_parse"} ELSE {})
       \cup (IF ev.exc = "OptionsError" /\ \E i \in 1..Len(ev.notes) : ~Restored(m, ev.notes[i].vals)
             THEN {"listener_saw_rejected_value"} ELSE {})
       \cup (IF Len(ev.keys) > 1 THEN {"rejected_multi"} ELSE {})
       \cup (IF ev.exc = "OptionsError" /\ Get(ev, "nested", <<>>) # <<>> THEN {"nested_then_rejected"} ELSE {})
SlWit(m, ev) ==
  {"roundtrip"} \cup (IF \E n \in NonDefault(m, ev) : ev.vals[n][1] \in {"s", "q"} /\ Len(ev.vals[n]) >= 2
                      THEN {"roundtrip_strings"} ELSE {})
                \cup (IF ev.mode = "late" THEN {"roundtrip_deferred"} ELSE {})

MonStep(m, ev) ==
  IF ev.k = "decl" THEN
    [m EXCEPT !.ready = TRUE, !.types = ev.types, !.defaults = ev.defaults, !.listeners = ev.listeners,
              !.prev = ev.vals]
  ELSE IF ev.k = "update" THEN
    [m EXCEPT !.bad = Clause(m, ev), !.prev = ev.vals, !.wit = @ \cup (IF m.ready THEN UpdWit(m, ev) ELSE {})]
  ELSE IF ev.k = "saveload" THEN
    [m EXCEPT !.bad = Clause(m, ev), !.wit = @ \cup (IF m.ready THEN SlWit(m, ev) ELSE {})]
  ELSE m
Wit(m) == m.wit
=============================================================================
