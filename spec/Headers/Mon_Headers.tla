----------------------------- MODULE Mon_Headers -----------------------------
(* Monitor for C35: a header collection behaves as a case-insensitive ordered multimap.

   A name is <<letter, spelling>>: names with the same letter are equal under case folding (kconv), the spelling
   distinguishes "x-a" / "X-A" / "X-a".  A field is <<name, value>>, values are small integers (interned strings).
   The monitor keeps the reference field list f.  After a mutating operation it checks only what the statement
   fixes (untouched fields keep spelling and relative order, the addressed name has exactly the assigned values in the
   assigned order, new fields carry the given spelling, insert positions) and then adopts the observed field list,
   because WHERE among the untouched fields a replaced/added value is placed is not fixed by the statement.

   Event records (props/C35.py, real mitmproxy.http.Headers):
     [k |-> "init",  given |-> fields, fields |-> fields]
     [k |-> "mut",   op |-> "setitem"|"set_all"|"add"|"insert"|"delitem"|"pop"|"pop_default"|"setdefault"|"clear"|"popitem",
                     key |-> name, vals |-> <<values>>, idx |-> Nat, exc |-> ""|class name,
                     res |-> <<values>>, dflt |-> BOOLEAN, rkey |-> name, after |-> fields]
     [k |-> "copy",  via |-> STRING, res |-> fields]            \* fields of the new object; work continues on one of them
     [k |-> "probe", keys |-> <<names>>, ga |-> <<value lists>>, gi |-> <<value lists>>, gix |-> <<""|"KeyError">>,
                     get |-> <<value lists>>, gn |-> <<BOOLEAN>>, has |-> <<BOOLEAN>>, len |-> Nat, iter |-> <<names>>,
                     itemsm |-> fields, items |-> <<<<name, values>>>>, keysm |-> <<names>>,
                     eqs |-> <<[o |-> fields, r |-> BOOLEAN]>>, wire |-> [valid, ok |-> BOOLEAN, back |-> fields],
                     hasother |-> BOOLEAN, other |-> fields, after |-> fields]                                  *)
EXTENDS Verif

KC(name) == name[1]
Sel(f, kc) == SelectSeq(f, LAMBDA x : KC(x[1]) = kc)
Unt(f, kc) == SelectSeq(f, LAMBDA x : KC(x[1]) # kc)
Vals(fs) == [i \in 1..Len(fs) |-> fs[i][2]]
Names(fs) == [i \in 1..Len(fs) |-> fs[i][1]]
Norm(fs) == [i \in 1..Len(fs) |-> <<KC(fs[i][1]), fs[i][2]>>]
RemoveAt2(s, i) == SubSeq(s, 1, i - 1) \o SubSeq(s, i + 1, Len(s))
RECURSIVE KeysInOrder(_)
KeysInOrder(f) == IF f = <<>> THEN <<>>
                  ELSE LET k == KC(f[1][1]) IN <<k>> \o KeysInOrder(Unt(Tail(f), k))
Spellings(f, kc) == { f[i][1] : i \in { j \in 1..Len(f) : KC(f[j][1]) = kc } }
LastIdx(f, kc) == LET S == { i \in 1..Len(f) : KC(f[i][1]) = kc } IN CHOOSE i \in S : \A j \in S : j <= i

MonInit == [bad |-> <<>>, wit |-> {}, f |-> <<>>, hasother |-> FALSE, other |-> <<>>]

\* ---- lookups ----------------------------------------------------------------------------------------------
KeyBad(f, p, i) ==
  LET vs == Vals(Sel(f, KC(p.keys[i]))) IN
  IF p.ga[i] # vs THEN "get_all"
  ELSE IF vs = <<>> /\ p.gix[i] # "KeyError" THEN "getitem_missing"
  ELSE IF vs # <<>> /\ (p.gix[i] # "" \/ p.gi[i] # vs) THEN "getitem"
  ELSE IF vs = <<>> /\ ~p.gn[i] THEN "get_missing"
  ELSE IF vs # <<>> /\ (p.gn[i] \/ p.get[i] # vs) THEN "get"
  ELSE IF p.has[i] # (vs # <<>>) THEN "contains"
  ELSE ""
NameSeqOk(f, ns) == LET ks == KeysInOrder(f) IN
  /\ Len(ns) = Len(ks)
  /\ \A j \in 1..Len(ks) : KC(ns[j]) = ks[j] /\ ns[j] \in Spellings(f, ks[j])
ItemsOk(f, its) == /\ NameSeqOk(f, [j \in 1..Len(its) |-> its[j][1]])
                   /\ \A j \in 1..Len(its) : its[j][2] = Vals(Sel(f, KC(its[j][1])))
EqBad(f, e) == IF e.o = f /\ ~e.r THEN "eq_same_false"
               ELSE IF Norm(e.o) # Norm(f) /\ e.r THEN "eq_different_true" ELSE ""
ProbeBad(m, p) ==
  LET f == m.f
      KB == { i \in 1..Len(p.keys) : KeyBad(f, p, i) # "" }
      EB == { i \in 1..Len(p.eqs) : EqBad(f, p.eqs[i]) # "" }
  IN IF KB # {} THEN <<"C35.lookup", KeyBad(f, p, CHOOSE i \in KB : \A j \in KB : i <= j)>>
     ELSE IF p.len # Len(KeysInOrder(f)) THEN <<"C35.lookup", "len">>
     ELSE IF ~NameSeqOk(f, p.iter) THEN <<"C35.lookup", "iter">>
     ELSE IF p.itemsm # f THEN <<"C35.lookup", "items_multi">>
     ELSE IF ~ItemsOk(f, p.items) THEN <<"C35.lookup", "items">>
     ELSE IF p.keysm # Names(f) THEN <<"C35.lookup", "keys_multi">>
     ELSE IF EB # {} THEN <<"C35.eq", EqBad(f, p.eqs[CHOOSE i \in EB : \A j \in EB : i <= j])>>
     ELSE IF p.wire.valid /\ ~p.wire.ok THEN <<"C35.wire", "raised">>
     ELSE IF p.wire.valid /\ p.wire.back # f THEN <<"C35.wire", "roundtrip">>
     ELSE IF m.hasother /\ p.hasother /\ p.other # m.other THEN <<"C35.copy", "not_independent">>
     ELSE IF p.after # f THEN <<"C35.lookup", "mutates">>
     ELSE <<>>
ProbeWit(m, p) ==
  LET f == m.f IN
  (IF \E i \in 1..Len(p.keys) : Len(Sel(f, KC(p.keys[i]))) > 1 THEN {"lookup_multi"} ELSE {})
  \cup (IF \E i \in 1..Len(p.keys) : Sel(f, KC(p.keys[i])) # <<>> /\ p.keys[i] \notin Spellings(f, KC(p.keys[i]))
        THEN {"lookup_other_case"} ELSE {})
  \cup (IF \E i \in 1..Len(p.keys) : Sel(f, KC(p.keys[i])) = <<>> THEN {"lookup_missing"} ELSE {})
  \cup (IF Len(KeysInOrder(f)) < Len(f) THEN {"repeated_name"} ELSE {})
  \cup (IF \E i \in 1..Len(f) : Cardinality(Spellings(f, KC(f[i][1]))) > 1 THEN {"mixed_spelling"} ELSE {})
  \cup (IF \E i \in 1..Len(p.eqs) : p.eqs[i].o = f THEN {"eq_same"} ELSE {})
  \cup (IF \E i \in 1..Len(p.eqs) : Norm(p.eqs[i].o) # Norm(f) THEN {"eq_different"} ELSE {})
  \cup (IF p.wire.valid /\ f # <<>> THEN {"wire"} ELSE {})
  \cup (IF m.hasother /\ p.hasother THEN {"copy_independent"} ELSE {})

\* ---- mutations --------------------------------------------------------------------------------------------
AppendedOk(f, after, key, v) ==           \* one field <<key, v>> was added after the last field of that name
  /\ Len(after) = Len(f) + 1 /\ Sel(after, KC(key)) # <<>>
  /\ LET i == LastIdx(after, KC(key)) IN after[i] = <<key, v>> /\ RemoveAt2(after, i) = f
MutCause(f, ev) ==
  LET kc == KC(ev.key)
      old == Sel(f, kc)
      a == ev.after
  IN
  CASE ev.op \in {"setitem", "set_all"} ->
         IF ev.exc # "" THEN "raised"
         ELSE IF Unt(a, kc) # Unt(f, kc) THEN "untouched"
         ELSE IF Vals(Sel(a, kc)) # ev.vals THEN "values"
         ELSE IF \E i \in 1..Len(a) : KC(a[i][1]) = kc /\ a[i][1] # ev.key /\ a[i][1] \notin Spellings(f, kc) THEN "spelling"
         ELSE ""
    [] ev.op = "add" ->
         IF ev.exc # "" THEN "raised"
         ELSE IF Unt(a, kc) # Unt(f, kc) THEN "untouched"
         ELSE IF Vals(Sel(a, kc)) # Vals(old) \o ev.vals THEN "values"
         ELSE IF ~AppendedOk(f, a, ev.key, ev.vals[1]) THEN "spelling_or_order"
         ELSE ""
    [] ev.op = "insert" ->
         LET p == Min2(ev.idx, Len(f)) + 1 IN
         IF ev.exc # "" THEN "raised"
         ELSE IF Len(a) # Len(f) + 1 THEN "values"
         ELSE IF a[p] # <<ev.key, ev.vals[1]>> THEN "position_or_spelling"
         ELSE IF RemoveAt2(a, p) # f THEN "untouched"
         ELSE ""
    [] ev.op = "delitem" ->
         IF old = <<>> THEN (IF ev.exc # "KeyError" THEN "missing_no_keyerror" ELSE IF a # f THEN "untouched" ELSE "")
         ELSE IF ev.exc # "" THEN "raised" ELSE IF a # Unt(f, kc) THEN "untouched" ELSE ""
    [] ev.op \in {"pop", "pop_default"} ->
         IF old = <<>> THEN
            (IF ev.op = "pop" /\ ev.exc # "KeyError" THEN "missing_no_keyerror"
             ELSE IF ev.op = "pop_default" /\ (ev.exc # "" \/ ~ev.dflt) THEN "default"
             ELSE IF a # f THEN "untouched" ELSE "")
         ELSE IF ev.exc # "" THEN "raised"
         ELSE IF ev.dflt \/ ev.res # Vals(old) THEN "result"
         ELSE IF a # Unt(f, kc) THEN "untouched" ELSE ""
    [] ev.op = "setdefault" ->
         IF ev.exc # "" THEN "raised"
         ELSE IF old # <<>> THEN (IF ev.res # Vals(old) THEN "result" ELSE IF a # f THEN "untouched" ELSE "")
         ELSE IF ev.res # ev.vals THEN "result"
         ELSE IF ~AppendedOk(f, a, ev.key, ev.vals[1]) THEN "spelling_or_order" ELSE ""
    [] ev.op = "clear" -> IF ev.exc # "" THEN "raised" ELSE IF a # <<>> THEN "values" ELSE ""
    [] ev.op = "popitem" ->
         IF f = <<>> THEN (IF ev.exc # "KeyError" THEN "missing_no_keyerror" ELSE IF a # f THEN "untouched" ELSE "")
         ELSE IF ev.exc # "" THEN "raised"
         ELSE IF ev.rkey \notin Spellings(f, KC(ev.rkey)) THEN "result"
         ELSE IF ev.res # Vals(Sel(f, KC(ev.rkey))) THEN "result"
         ELSE IF a # Unt(f, KC(ev.rkey)) THEN "untouched" ELSE ""
    [] OTHER -> "unknown_op"
MutWit(f, ev) ==
  LET kc == KC(ev.key) old == Sel(f, kc) IN
  {"op_" \o ev.op}
  \cup (IF ev.op \in {"setitem", "set_all"} /\ Len(old) > Len(ev.vals) /\ ev.vals # <<>> THEN {"replace_fewer"} ELSE {})
  \cup (IF ev.op \in {"setitem", "set_all"} /\ Len(old) < Len(ev.vals) /\ old # <<>> THEN {"replace_more"} ELSE {})
  \cup (IF ev.op \in {"setitem", "set_all", "add", "delitem", "pop"} /\ old # <<>> /\ ev.key \notin Spellings(f, kc)
        THEN {"mutate_other_case"} ELSE {})
  \cup (IF ev.op \in {"setitem", "set_all", "delitem", "pop"} /\ old # <<>> /\ Unt(f, kc) # <<>>
           /\ (\E i, j \in 1..Len(f) : i < j /\ KC(f[i][1]) = kc /\ KC(f[j][1]) # kc)
           /\ (\E i, j \in 1..Len(f) : i < j /\ KC(f[i][1]) # kc /\ KC(f[j][1]) = kc)
        THEN {"interleaved"} ELSE {})
  \cup (IF ev.op \in {"delitem", "pop"} /\ old = <<>> THEN {"missing_key"} ELSE {})
  \cup (IF ev.op = "insert" /\ ev.idx < Len(f) THEN {"insert_inside"} ELSE {})

MonStep(m, ev) ==
  IF ev.k = "init" THEN
     [m EXCEPT !.bad = IF ev.fields # ev.given THEN <<"C35.init", "fields">> ELSE <<>>, !.f = ev.fields,
               !.wit = @ \cup {"init"}]
  ELSE IF ev.k = "mut" THEN
     LET c == MutCause(m.f, ev) IN
     [m EXCEPT !.bad = IF c # "" THEN <<"C35.mutation", ev.op, c>> ELSE <<>>, !.f = ev.after,
               !.wit = @ \cup MutWit(m.f, ev)]
  ELSE IF ev.k = "copy" THEN
     [m EXCEPT !.bad = IF ev.res # m.f THEN <<"C35.copy", "not_equal", ev.via>> ELSE <<>>,
               !.hasother = TRUE, !.other = m.f, !.wit = @ \cup {"copy_" \o ev.via}]
  ELSE IF ev.k = "probe" THEN
     [m EXCEPT !.bad = ProbeBad(m, ev), !.wit = @ \cup ProbeWit(m, ev)]
  ELSE m
Wit(m) == m.wit
=============================================================================
