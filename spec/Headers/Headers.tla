------------------------------- MODULE Headers -------------------------------
(* Implementation-shaped model of mitmproxy.http.Headers (coretypes.multidict._MultiDict / MultiDict + http.Headers).
   fields is the `fields` tuple; a field is <<name, value>>, a name <<letter, spelling>> (kconv = the letter).
   One action per public mutator, written the way the code works:
     Construct        Headers(fields)
     SetAll / SetItem _MultiDict.set_all: walk the fields, overwrite matching positions with the new values in order
                      (keeping the OLD spelling), drop surplus old ones, append surplus new ones under the GIVEN name
     Add / Insert     insert(index): fields[:index] + (item,) + fields[index:]
     DelItem          KeyError unless present; filter
     Pop / SetDefault / PopItem / Clear   the MutableMapping mixins on top of __getitem__/__setitem__/__delitem__/__iter__
     Copy             Serializable.copy / from_state / Headers(fields) of the same fields
   After every step the harness runs the whole battery of lookups (Probe); the model predicts their results with the
   code's rules: get_all filters by kconv, __getitem__ folds (reported as the value list), __iter__ yields the FIRST
   spelling of each name, __len__ counts distinct kconv names, == compares field tuples exactly.             *)
EXTENDS Mon_Headers, TLC
CONSTANTS KeyNames, Values,   \* names / values used as operation arguments
          ValLists,        \* value lists for set_all
          InsIdx,          \* indices for insert
          Inits,           \* set of <<initial field list, number of operations explored from it>>
          ProbeKeys        \* sequence of names looked up in every probe
VARIABLES given, maxops, pc, fields, hasother, other, ops, mon, obs
vars == <<given, maxops, pc, fields, hasother, other, ops, mon, obs>>

Live == mon.bad = <<>>
Emit(evs) == obs' = evs /\ mon' = FoldEvents(MonStep, mon, evs)
NoName == <<"", 0>>

FirstSpelling(f, kc) == f[CHOOSE i \in 1..Len(f) : KC(f[i][1]) = kc /\ \A j \in 1..(i - 1) : KC(f[j][1]) # kc][1]
IterNames(f) == LET ks == KeysInOrder(f) IN [j \in 1..Len(ks) |-> FirstSpelling(f, ks[j])]
Toggle(name) == <<name[1], IF name[2] = 0 THEN 1 ELSE 0>>
EqOthers(f) == <<[o |-> f, r |-> TRUE], [o |-> f \o <<<<(<<"a", 0>>), 1>>>>, r |-> FALSE]>>
               \o (IF f # <<>> THEN <<[o |-> <<<<Toggle(f[1][1]), f[1][2]>>>> \o Tail(f), r |-> FALSE]>> ELSE <<>>)
Probe(f, ho, oth) ==
  LET n == Len(ProbeKeys)
      vs(i) == Vals(Sel(f, KC(ProbeKeys[i])))
      it == IterNames(f)
  IN [k |-> "probe", keys |-> ProbeKeys,
      ga |-> [i \in 1..n |-> vs(i)], gi |-> [i \in 1..n |-> vs(i)],
      gix |-> [i \in 1..n |-> IF vs(i) = <<>> THEN "KeyError" ELSE ""],
      get |-> [i \in 1..n |-> vs(i)], gn |-> [i \in 1..n |-> vs(i) = <<>>], has |-> [i \in 1..n |-> vs(i) # <<>>],
      len |-> Len(it), iter |-> it, itemsm |-> f,
      items |-> [j \in 1..Len(it) |-> <<it[j], Vals(Sel(f, KC(it[j])))>>], keysm |-> Names(f),
      eqs |-> EqOthers(f), wire |-> [valid |-> TRUE, ok |-> TRUE, back |-> f],
      hasother |-> ho, other |-> oth, after |-> f]
Mut(op, key, vals, idx, exc, res, dflt, rkey, after) ==
  [k |-> "mut", op |-> op, key |-> key, vals |-> vals, idx |-> idx, exc |-> exc, res |-> res, dflt |-> dflt,
   rkey |-> rkey, after |-> after]

Init == /\ \E it \in Inits : given = it[1] /\ maxops = it[2]
        /\ pc = "new" /\ fields = <<>> /\ hasother = FALSE /\ other = <<>> /\ ops = 0
        /\ mon = MonInit /\ obs = <<>>

Construct == /\ Live /\ pc = "new"
             /\ pc' = "run" /\ fields' = given /\ UNCHANGED <<given, maxops, hasother, other, ops>>
             /\ Emit(<<[k |-> "init", given |-> given, fields |-> given], Probe(given, FALSE, <<>>)>>)

Can == Live /\ pc = "run" /\ ops < maxops
Step(f2, ev) == /\ ops' = ops + 1 /\ fields' = f2 /\ UNCHANGED <<given, maxops, pc, hasother, other>>
                /\ Emit(<<ev, Probe(f2, hasother, other)>>)

RECURSIVE SA(_, _, _, _)
SA(fs, kc, vs, key) ==
  IF fs = <<>> THEN [i \in 1..Len(vs) |-> <<key, vs[i]>>]
  ELSE IF KC(Head(fs)[1]) = kc
       THEN (IF vs # <<>> THEN <<<<Head(fs)[1], Head(vs)>>>> \o SA(Tail(fs), kc, Tail(vs), key)
             ELSE SA(Tail(fs), kc, vs, key))
       ELSE <<Head(fs)>> \o SA(Tail(fs), kc, vs, key)
Ins(f, i, key, v) == SubSeq(f, 1, Min2(i, Len(f))) \o <<<<key, v>>>> \o SubSeq(f, Min2(i, Len(f)) + 1, Len(f))
Present(key) == Sel(fields, KC(key)) # <<>>

\* __setitem__ = set_all(key, [value])
SetItem(key, v) ==
  /\ Can
  /\ LET f2 == SA(fields, KC(key), <<v>>, key)
     IN Step(f2, Mut("setitem", key, <<v>>, 0, "", <<>>, FALSE, NoName, f2))
SetAll(key, vs) ==
  /\ Can
  /\ LET f2 == SA(fields, KC(key), vs, key)
     IN Step(f2, Mut("set_all", key, vs, 0, "", <<>>, FALSE, NoName, f2))
\* add = insert(len(fields), ...)
Add(key, v) ==
  /\ Can
  /\ LET f2 == Ins(fields, Len(fields), key, v)
     IN Step(f2, Mut("add", key, <<v>>, 0, "", <<>>, FALSE, NoName, f2))
Insert(i, key, v) ==
  /\ Can
  /\ LET f2 == Ins(fields, i, key, v)
     IN Step(f2, Mut("insert", key, <<v>>, i, "", <<>>, FALSE, NoName, f2))
\* __delitem__: KeyError unless `key in self`
DelItem(key) ==
  /\ Can
  /\ IF Present(key)
     THEN LET f2 == Unt(fields, KC(key)) IN Step(f2, Mut("delitem", key, <<>>, 0, "", <<>>, FALSE, NoName, f2))
     ELSE Step(fields, Mut("delitem", key, <<>>, 0, "KeyError", <<>>, FALSE, NoName, fields))
\* MutableMapping.pop(key): value = self[key]; del self[key]
Pop(key) ==
  /\ Can
  /\ IF Present(key)
     THEN LET f2 == Unt(fields, KC(key))
          IN Step(f2, Mut("pop", key, <<>>, 0, "", Vals(Sel(fields, KC(key))), FALSE, NoName, f2))
     ELSE Step(fields, Mut("pop", key, <<>>, 0, "KeyError", <<>>, FALSE, NoName, fields))
PopDefault(key) ==
  /\ Can
  /\ IF Present(key)
     THEN LET f2 == Unt(fields, KC(key))
          IN Step(f2, Mut("pop_default", key, <<>>, 0, "", Vals(Sel(fields, KC(key))), FALSE, NoName, f2))
     ELSE Step(fields, Mut("pop_default", key, <<>>, 0, "", <<>>, TRUE, NoName, fields))
\* MutableMapping.setdefault: return self[key], or self[key] = default; return default
SetDefault(key, v) ==
  /\ Can
  /\ IF Present(key)
     THEN Step(fields, Mut("setdefault", key, <<v>>, 0, "", Vals(Sel(fields, KC(key))), FALSE, NoName, fields))
     ELSE LET f2 == SA(fields, KC(key), <<v>>, key)
          IN Step(f2, Mut("setdefault", key, <<v>>, 0, "", <<v>>, FALSE, NoName, f2))
\* MutableMapping.clear: popitem until KeyError
Clear ==
  /\ Can
  /\ Step(<<>>, Mut("clear", NoName, <<>>, 0, "", <<>>, FALSE, NoName, <<>>))
\* MutableMapping.popitem: key = next(iter(self)); value = self[key]; del self[key]
PopItem ==
  /\ Can
  /\ IF fields = <<>>
     THEN Step(fields, Mut("popitem", NoName, <<>>, 0, "KeyError", <<>>, FALSE, NoName, fields))
     ELSE LET key == fields[1][1]
              f2 == Unt(fields, KC(key))
          IN Step(f2, Mut("popitem", NoName, <<>>, 0, "", Vals(Sel(fields, KC(key))), FALSE, key, f2))
\* Serializable.copy / from_state(get_state()) / Headers(fields): a second object with the same fields
Copy(via) == /\ Can
             /\ ops' = ops + 1 /\ hasother' = TRUE /\ other' = fields /\ UNCHANGED <<given, maxops, pc, fields>>
             /\ Emit(<<[k |-> "copy", via |-> via, res |-> fields], Probe(fields, TRUE, fields)>>)

Next == \/ Construct
        \/ \E key \in KeyNames, v \in Values : SetItem(key, v)
        \/ \E key \in KeyNames, vs \in ValLists : SetAll(key, vs)
        \/ \E key \in KeyNames, v \in Values : Add(key, v)
        \/ \E i \in InsIdx, key \in KeyNames, v \in Values : Insert(i, key, v)
        \/ \E key \in KeyNames : DelItem(key)
        \/ \E key \in KeyNames : Pop(key)
        \/ \E key \in KeyNames : PopDefault(key)
        \/ \E key \in KeyNames, v \in Values : SetDefault(key, v)
        \/ Clear
        \/ PopItem
        \/ \E via \in {"copy", "from_state", "ctor"} : Copy(via)
Spec == Init /\ [][Next]_vars
Report == mon.bad # <<>> => PrintT(<<"BAD", mon.bad>>)
=============================================================================
