--------------------------- MODULE Mon_SelfConnect ---------------------------
(* Monitor for C23: mitmproxy never proxies a connection back to its own listening sockets.

   Observed on the real ConnectionHandler.open_connection with the real Proxyserver.server_connect answering the
   server_connect hook (props/C23.py); the socket-opening calls are replaced by recorders.  Event records:
     [k |-> "listen", socks |-> << [lk, port, tp, ip, mt, host], ... >>]
          the listening sockets of the running proxy.  lk = kind of the bound address, decided by the harness's own
          address parser: "loop4" (in 127.0.0.0/8) | "loop6" (::1) | "any4" (0.0.0.0) | "any6" (::) | "ip4" | "ip6"
          (an explicit non-loopback address); tp = "tcp" | "udp" (the socket's transport); ip = small id of the
          explicit address (0 for loopback / wildcard binds); mt = the transport spec of the mode that owns the
          socket ("tcp" | "udp" | "both"; signature only); host = the bound address as text (model prediction only)
     [k |-> "configure"]            the mode option was changed at runtime (Proxyserver.configure ran; the servers have
                                    not changed yet).  Every actual change of the listening sockets is a "listen" record.
     [k |-> "open", dk, port, tp, ip, host]
          a layer asks for an upstream connection.  dk = what the destination host denotes, decided by the same
          parser: "localhost" | "localhost_case" | "localhost_dot" | "lo4" (127.0.0.1) | "lo4_other" (rest of
          127.0.0.0/8) | "lo6" ("::1") | "lo6_alt" (another spelling of ::1) | "lo_mapped" (::ffff:127.x.y.z) |
          "any4" (0.0.0.0) | "any6" ("::") | "any6_alt" | "any_mapped" (::ffff:0.0.0.0) | "explicit_ip" (an explicit listen address of the
          scenario family, spelled as getsockname() spells it) | "explicit_ip_alt" (same address, other
          spelling) | "ip_other" | "name_other";
          ip = id of the explicit listen address the host is numerically equal to (0: none)
     [k |-> "hook_raised", exc]     server_connect raised (logged and swallowed by the addon manager)
     [k |-> "hook", err]            server_connect hook done; err = "none" | "destination_unknown" | "other"
                                    (class of server.error)
     [k |-> "connect"]              a socket open was attempted for the pending request
     [k |-> "completed", err]       the layer received OpenConnectionCompleted; err class as above
     [k |-> "end"]                                                                                         *)
EXTENDS Verif

MonInit == [bad |-> <<>>, wit |-> {}, first |-> <<>>, nlisten |-> 0, scheduled |-> FALSE, socks |-> <<>>, d |-> [dk |-> "", port |-> 0, tp |-> "", ip |-> 0], pending |-> FALSE]

LoopbackDest == {"localhost", "localhost_case", "localhost_dot", "lo4", "lo4_other", "lo6", "lo6_alt", "lo_mapped"}
WildcardDest == {"any4", "any6", "any6_alt", "any_mapped"}
LoopOrAll(s) == s.lk \in {"loop4", "loop6", "any4", "any6"}

\* the statement: destination d denotes listening socket s (same port, same transport, and ...)
Denotes(d, s) ==
  /\ d.port = s.port /\ d.tp = s.tp
  /\ \/ s.lk \in {"ip4", "ip6"} /\ d.ip # 0 /\ d.ip = s.ip      \* its explicit listen address
     \/ LoopOrAll(s) /\ d.dk \in LoopbackDest                   \* any loopback address or name when listening on
                                                                \*   loopback or all interfaces
     \/ d.dk \in WildcardDest                                   \* the wildcard address itself (unconditional in the
                                                                \*   statement: however the listener is bound)
Hits(m) == { i \in 1..Len(m.socks) : Denotes(m.d, m.socks[i]) }
First(S) == CHOOSE i \in S : \A j \in S : i <= j
\* signature of a violation: how the socket is bound, whether its mode serves both transports, what the host denotes
Sig(m) == LET s == m.socks[First(Hits(m))] IN
          << IF s.lk \in {"loop4", "loop6"} THEN "loopback" ELSE IF s.lk \in {"any4", "any6"} THEN "all" ELSE "explicit",
             IF s.mt = "both" THEN "both_mode" ELSE "single_mode",
             m.d.dk >>

Clause(m, ev) ==
  IF ~m.pending \/ Hits(m) = {} THEN <<>>
  ELSE CASE ev.k = "hook" /\ ev.err # "destination_unknown" -> <<"C23.self_connect_not_refused">> \o Sig(m)
         [] ev.k = "connect" -> <<"C23.connection_opened_to_self">> \o Sig(m)
         [] ev.k = "completed" /\ ev.err # "destination_unknown" -> <<"C23.no_destination_unknown_error">> \o Sig(m)
         [] ev.k = "end" -> <<"C23.request_never_failed">> \o Sig(m)
         [] OTHER -> <<>>

MonStep(m, ev) ==
  LET m1 == [m EXCEPT !.bad = Clause(m, ev)] IN
  CASE ev.k = "listen" -> [m1 EXCEPT !.socks = ev.socks, !.nlisten = @ + 1, !.scheduled = FALSE,
                                     !.first = IF m.nlisten = 0 THEN ev.socks ELSE @]
    [] ev.k = "configure" -> [m1 EXCEPT !.scheduled = TRUE]
    [] ev.k = "open" -> [m1 EXCEPT !.d = [dk |-> ev.dk, port |-> ev.port, tp |-> ev.tp, ip |-> ev.ip], !.pending = TRUE,
                                   !.wit = @ \cup (IF m.scheduled THEN {"open_between_configure_and_update"} ELSE {})
                                             \cup (IF ~m.scheduled /\ m.nlisten = 2 THEN {"open_while_servers_start"} ELSE {})]
    [] ev.k = "hook" ->
         [m1 EXCEPT !.wit = @ \cup
            (IF Hits(m) # {} /\ ev.err = "destination_unknown"
             THEN {"self_refused", "self_refused_" \o m.d.dk}
                  \cup (IF m.d.dk \in WildcardDest /\ ~LoopOrAll(m.socks[First(Hits(m))])
                        THEN {"self_refused_wildcard_explicit_listener"} ELSE {})
                  \cup (IF m.nlisten >= 3 /\ ~\E i \in 1..Len(m.first) : Denotes(m.d, m.first[i])
                        THEN {"self_refused_listener_added_at_runtime"} ELSE {})
             ELSE {})
            \cup (IF Hits(m) = {} /\ ev.err = "none" THEN {"other_let_through"} ELSE {})
            \cup (IF Hits(m) = {} /\ ev.err = "destination_unknown" THEN {"other_refused"} ELSE {})]
    [] ev.k = "connect" -> [m1 EXCEPT !.wit = @ \cup {"connect_attempted"}]
    [] ev.k = "completed" -> [m1 EXCEPT !.pending = FALSE]
    [] OTHER -> m1
Wit(m) == m.wit
=============================================================================
