----------------------------- MODULE SelfConnect -----------------------------
(* Implementation-shaped model of the path an upstream connection request takes:
     mitmproxy/proxy/server.py        ConnectionHandler.open_connection
     mitmproxy/addons/proxyserver.py  Proxyserver.server_connect  (the self-connect guard)

   Configs[c] is a sequence of listening sockets (records as in the "listen" event, see Mon_SelfConnect); a mode
   with transport "both" contributes a tcp and a udp socket with mt = "both".  Dests is a set of destination
   records [host, dk, ip]: host is the literal text, dk / ip what the harness's parser says it denotes.
   Actions:
     Listen(c)        Proxyserver running with the servers of configuration c
     Open(d, p, tp)   a layer yields OpenConnection -> open_connection starts, address is (d.host, p)
     ConnectHook      handle_hook(ServerConnectHook) -> Proxyserver.server_connect:
                        for server in servers: for listen_host, listen_port in server.listen_addrs:
                          connect_port == listen_port
                          and connect_host in ("localhost", "127.0.0.1", "::1", listen_host)    (text comparison)
                          and server.mode.transport_protocol == data.server.transport_protocol   ("both" never equals)
                        -> server.error = "Request destination unknown. ..."
     Refuse           open_connection: if connection.error: ServerConnectErrorHook, OpenConnectionCompleted(err)
     Connect          open_connection: asyncio.open_connection / open_udp_connection, then completion
     Finish
   Guard \in {"text", "denotes"}: "text" is the code as it is; "denotes" is the guard the statement asks for (used to
   see that the monitor accepts such a design and rejects the textual one).                              *)
EXTENDS Mon_SelfConnect, TLC
CONSTANTS Configs, Dests, Ports, Guard
VARIABLES pc, socks, req, err, mon, obs
vars == <<pc, socks, req, err, mon, obs>>

NoReq == [host |-> "", dk |-> "", ip |-> 0, port |-> 0, tp |-> ""]
Init == pc = "down" /\ socks = <<>> /\ req = NoReq /\ err = "none" /\ mon = MonInit /\ obs = <<>>
Live == mon.bad = <<>>
Emit(evs) == obs' = evs /\ mon' = FoldEvents(MonStep, mon, evs)

Listen(c) ==
  /\ Live /\ pc = "down" /\ pc' = "idle" /\ socks' = Configs[c] /\ UNCHANGED <<req, err>>
  /\ Emit(<<[k |-> "listen", socks |-> Configs[c]]>>)

Open(d, p, tp) ==
  /\ Live /\ pc = "idle" /\ pc' = "hook"
  /\ req' = [host |-> d.host, dk |-> d.dk, ip |-> d.ip, port |-> p, tp |-> tp]
  /\ UNCHANGED <<socks, err>>
  /\ Emit(<<[k |-> "open", dk |-> d.dk, port |-> p, tp |-> tp, ip |-> d.ip, host |-> d.host]>>)

TextGuard(s) == /\ req.port = s.port
                /\ req.host \in {"localhost", "127.0.0.1", "::1", s.host}
                /\ s.mt = req.tp
SelfByCode == IF Guard = "text" THEN \E i \in 1..Len(socks) : TextGuard(socks[i])
              ELSE \E i \in 1..Len(socks) : Denotes(req, socks[i])

ConnectHook ==
  /\ Live /\ pc = "hook" /\ pc' = "decided" /\ UNCHANGED <<socks, req>>
  /\ err' = IF SelfByCode THEN "destination_unknown" ELSE "none"
  /\ Emit(<<[k |-> "hook", err |-> err']>>)

Refuse == /\ Live /\ pc = "decided" /\ err # "none" /\ pc' = "done" /\ UNCHANGED <<socks, req, err>>
          /\ Emit(<<[k |-> "completed", err |-> err]>>)
\* the harness lets every socket open fail with an OSError: completion carries an error of class "other"
Connect == /\ Live /\ pc = "decided" /\ err = "none" /\ pc' = "done" /\ UNCHANGED <<socks, req, err>>
           /\ Emit(<<[k |-> "connect"], [k |-> "completed", err |-> "other"]>>)
Finish == /\ Live /\ pc = "done" /\ pc' = "ended" /\ UNCHANGED <<socks, req, err>>
          /\ Emit(<<[k |-> "end"]>>)

Next == \/ \E c \in DOMAIN Configs : Listen(c)
        \/ \E d \in Dests, p \in Ports, tp \in {"tcp", "udp"} : Open(d, p, tp)
        \/ ConnectHook
        \/ Refuse
        \/ Connect
        \/ Finish
Spec == Init /\ [][Next]_vars
Report == mon.bad # <<>> => PrintT(<<"BAD", mon.bad>>)
=============================================================================
