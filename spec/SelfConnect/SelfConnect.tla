----------------------------- MODULE SelfConnect -----------------------------
(* Implementation-shaped model of the path an upstream connection request takes:
     mitmproxy/proxy/server.py        ConnectionHandler.open_connection
     mitmproxy/addons/proxyserver.py  Proxyserver.server_connect  (the self-connect guard)

   Configs[c] is a sequence of listening sockets (records as in the "listen" event, see Mon_SelfConnect); a mode
   with transport "both" contributes a tcp and a udp socket with mt = "both".  Dests is a set of destination
   records [host, dk, ip]: host is the literal text, dk / ip what the harness's parser says it denotes.
   Actions:
     Listen(c)        Proxyserver running with the servers of configuration c
     Open(d, p, tp)   a layer yields OpenConnection -> open_connection starts, address is (d.host, p)
     ConnectHook      handle_hook(ServerConnectHook) -> Proxyserver.server_connect (after commit 9a745e7b9):
                        connect_ip = _parse_ip(connect_host)          (zone dropped, IPv4-mapped unwrapped)
                        connect_is_local = localhost (any case, trailing dots) or connect_ip.is_loopback/is_unspecified
                        for server in servers: skip unless mode transport in ("both", requested transport)
                          for listen_host, listen_port in server.listen_addrs:
                            connect_port == listen_port and (connect_is_local or connect_host == listen_host
                                                             or connect_ip == _parse_ip(listen_host))
                        -> server.error = "Request destination unknown. ..."
     Refuse           open_connection: if connection.error: ServerConnectErrorHook, OpenConnectionCompleted(err)
     Connect          open_connection: asyncio.open_connection / open_udp_connection, then completion
     Configure(r), UpdateBegin, UpdateDone   Proxyserver.configure({"mode"}) at runtime schedules Servers.update; the task
                      swaps the instance list (removed servers stop), then the new servers start.  Requests of other
                      client connections may arrive before, between and after these steps.
     Finish
   Guard: "parsed" = the code as it is; "text" = the code before the fix (named deviation, kept so that TLC shows the
   monitor rejects it); "denotes" = the weakest guard the statement asks for (TLC shows the monitor accepts it).   *)
EXTENDS Mon_SelfConnect, TLC
CONSTANTS Configs, Dests, Ports, Guard,
          Reconf,        \* runtime reconfigurations: name -> [from, to, kept] (kept = sockets of servers present in both)
          ReHosts, RePorts,   \* destinations used around a reconfiguration (keeps the table small)
          CacheSockets   \* FALSE = the code (server_connect reads the live server list).  TRUE: a design that caches the
                         \* socket list and invalidates it in configure() (thorough requires the monitor to reject it)
VARIABLES pc, socks, req, err, cfg, upd, target, opens, cache, mon, obs
vars == <<pc, socks, req, err, cfg, upd, target, opens, cache, mon, obs>>

NoReq == [host |-> "", dk |-> "", ip |-> 0, port |-> 0, tp |-> ""]
\* the cached socket list of the design variant: a record of stable shape (valid = FALSE: not computed yet)
Unset == [valid |-> FALSE, list |-> <<>>]
Init == /\ pc = "down" /\ socks = <<>> /\ req = NoReq /\ err = "none" /\ cfg = "" /\ upd = "none" /\ target = ""
        /\ opens = 0 /\ cache = Unset /\ mon = MonInit /\ obs = <<>>
Live == mon.bad = <<>>
Emit(evs) == obs' = evs /\ mon' = FoldEvents(MonStep, mon, evs)

\* socks = the sockets of the servers in Proxyserver.servers right now (what the guard can see) = the sockets that are
\* listening (a removed server is stopped when the list is swapped; a new one has no address until it has started)
Listen(c) ==
  /\ Live /\ pc = "down" /\ pc' = "idle" /\ socks' = Configs[c] /\ cfg' = c
  /\ UNCHANGED <<req, err, upd, target, opens, cache>>
  /\ Emit(<<[k |-> "listen", socks |-> Configs[c]]>>)

Reduced(h, p, tp) == h \in ReHosts /\ p \in RePorts /\ tp = "tcp"
\* one request against a static configuration (all destinations), or up to two around a reconfiguration (reduced set)
Open(d, p, tp) ==
  /\ Live /\ pc = "idle" /\ pc' = "hook"
  /\ \/ opens = 0 /\ upd = "none"
     \/ opens < 2 /\ upd # "none" /\ Reduced(d.host, p, tp)
  /\ req' = [host |-> d.host, dk |-> d.dk, ip |-> d.ip, port |-> p, tp |-> tp]
  /\ UNCHANGED <<socks, err, cfg, upd, target, opens, cache>>
  /\ Emit(<<[k |-> "open", dk |-> d.dk, port |-> p, tp |-> tp, ip |-> d.ip, host |-> d.host]>>)

\* options change at runtime: Proxyserver.configure({"mode"}) validates and SCHEDULES Servers.update as a task
Configure(r) ==
  /\ Live /\ pc = "idle" /\ upd = "none" /\ Reconf[r].from = cfg
  /\ (opens = 0 \/ Reduced(req.host, req.port, req.tp))
  /\ upd' = "scheduled" /\ target' = r /\ cache' = Unset
  /\ UNCHANGED <<pc, socks, req, err, cfg, opens>>
  /\ Emit(<<[k |-> "configure"]>>)
\* the task runs: Servers.update swaps _instances (removed servers stop, new ones are created and start())
UpdateBegin ==
  /\ Live /\ pc = "idle" /\ upd = "scheduled" /\ upd' = "running" /\ socks' = Reconf[target].kept
  /\ UNCHANGED <<pc, req, err, cfg, target, opens, cache>>
  /\ Emit(<<[k |-> "listen", socks |-> Reconf[target].kept]>>)
\* the new servers are up
UpdateDone ==
  /\ Live /\ pc = "idle" /\ upd = "running" /\ upd' = "done" /\ socks' = Configs[Reconf[target].to]
  /\ cfg' = Reconf[target].to
  /\ UNCHANGED <<pc, req, err, target, opens, cache>>
  /\ Emit(<<[k |-> "listen", socks |-> Configs[Reconf[target].to]]>>)

\* the guard before commit 9a745e7b9: text comparison; a mode serving both transports never matched
TextGuard(s) == /\ req.port = s.port
                /\ req.host \in {"localhost", "127.0.0.1", "::1", s.host}
                /\ s.mt = req.tp
\* the guard as it is now: parsed addresses.  connect_is_local = "localhost" ignoring case / trailing dots, or an
\* address that is_loopback or is_unspecified (IPv4-mapped forms unwrapped); a server is considered when its mode's
\* transport is "both" or the requested one (= it owns a socket of that transport)
LocalDest == req.dk \in LoopbackDest \cup WildcardDest
ParsedGuard(s) == /\ req.port = s.port /\ s.tp = req.tp
                  /\ \/ LocalDest
                     \/ req.host = s.host
                     \/ req.ip # 0 /\ req.ip = s.ip
\* what the guard iterates over
Seen == IF CacheSockets THEN (IF cache.valid THEN cache.list ELSE socks) ELSE socks
SelfByCode == CASE Guard = "text" -> \E i \in 1..Len(Seen) : TextGuard(Seen[i])
                [] Guard = "parsed" -> \E i \in 1..Len(Seen) : ParsedGuard(Seen[i])
                [] OTHER -> \E i \in 1..Len(Seen) : Denotes(req, Seen[i])

ConnectHook ==
  /\ Live /\ pc = "hook" /\ pc' = "decided" /\ UNCHANGED <<socks, req, cfg, upd, target, opens>>
  /\ cache' = IF CacheSockets THEN [valid |-> TRUE, list |-> Seen] ELSE cache
  /\ err' = IF SelfByCode THEN "destination_unknown" ELSE "none"
  /\ Emit(<<[k |-> "hook", err |-> err']>>)

Refuse == /\ Live /\ pc = "decided" /\ err # "none" /\ pc' = "idle" /\ opens' = opens + 1
          /\ UNCHANGED <<socks, req, err, cfg, upd, target, cache>>
          /\ Emit(<<[k |-> "completed", err |-> err]>>)
\* the harness lets every socket open fail with an OSError: completion carries an error of class "other"
Connect == /\ Live /\ pc = "decided" /\ err = "none" /\ pc' = "idle" /\ opens' = opens + 1
           /\ UNCHANGED <<socks, req, err, cfg, upd, target, cache>>
           /\ Emit(<<[k |-> "connect"], [k |-> "completed", err |-> "other"]>>)
Finish == /\ Live /\ pc = "idle" /\ opens >= 1 /\ upd \in {"none", "done"} /\ pc' = "ended"
          /\ UNCHANGED <<socks, req, err, cfg, upd, target, opens, cache>>
          /\ Emit(<<[k |-> "end"]>>)

Next == \/ \E c \in DOMAIN Configs : Listen(c)
        \/ \E d \in Dests, p \in Ports, tp \in {"tcp", "udp"} : Open(d, p, tp)
        \/ \E r \in DOMAIN Reconf : Configure(r)
        \/ UpdateBegin
        \/ UpdateDone
        \/ ConnectHook
        \/ Refuse
        \/ Connect
        \/ Finish
Spec == Init /\ [][Next]_vars
Report == mon.bad # <<>> => PrintT(<<"BAD", mon.bad>>)
=============================================================================
