----------------------------- MODULE SelfConnect -----------------------------
(* Implementation-shaped model of the path an upstream connection request takes:
     mitmproxy/proxy/server.py        ConnectionHandler.open_connection
     mitmproxy/addons/proxyserver.py  Proxyserver.server_connect  (the self-connect guard)

   Configs[c] is a sequence of listening sockets (records as in the "listen" event, see Mon_SelfConnect); a mode
   with transport "both" contributes a tcp and a udp socket with mt = "both".  Dests is a set of destination
   records [host, dk, ip]: host is the literal text, dk / ip what the harness's parser says it denotes.
   Actions:
     Listen(c)        Proxyserver running with the servers of configuration c
     Open(d, p, tp)   a layer yields OpenConnection -> open_connection starts, address is (d.host, p)
     ConnectHook      handle_hook(ServerConnectHook) -> Proxyserver.server_connect (after commit 9a745e7b9):
                        connect_ip = _parse_ip(connect_host)          (zone dropped, IPv4-mapped unwrapped)
                        connect_is_local = localhost (any case, trailing dots) or connect_ip.is_loopback/is_unspecified
                        for server in servers: skip unless mode transport in ("both", requested transport)
                          for listen_host, listen_port in server.listen_addrs:
                            connect_port == listen_port and (connect_is_local or connect_host == listen_host
                                                             or connect_ip == _parse_ip(listen_host))
                        -> server.error = "Request destination unknown. ..."
     Refuse           open_connection: if connection.error: ServerConnectErrorHook, OpenConnectionCompleted(err)
     Connect          open_connection: asyncio.open_connection / open_udp_connection, then completion
     Finish
   Guard: "parsed" = the code as it is; "text" = the code before the fix (named deviation, kept so that TLC shows the
   monitor rejects it); "denotes" = the weakest guard the statement asks for (TLC shows the monitor accepts it).   *)
EXTENDS Mon_SelfConnect, TLC
CONSTANTS Configs, Dests, Ports, Guard
VARIABLES pc, socks, req, err, mon, obs
vars == <<pc, socks, req, err, mon, obs>>

NoReq == [host |-> "", dk |-> "", ip |-> 0, port |-> 0, tp |-> ""]
Init == pc = "down" /\ socks = <<>> /\ req = NoReq /\ err = "none" /\ mon = MonInit /\ obs = <<>>
Live == mon.bad = <<>>
Emit(evs) == obs' = evs /\ mon' = FoldEvents(MonStep, mon, evs)

Listen(c) ==
  /\ Live /\ pc = "down" /\ pc' = "idle" /\ socks' = Configs[c] /\ UNCHANGED <<req, err>>
  /\ Emit(<<[k |-> "listen", socks |-> Configs[c]]>>)

Open(d, p, tp) ==
  /\ Live /\ pc = "idle" /\ pc' = "hook"
  /\ req' = [host |-> d.host, dk |-> d.dk, ip |-> d.ip, port |-> p, tp |-> tp]
  /\ UNCHANGED <<socks, err>>
  /\ Emit(<<[k |-> "open", dk |-> d.dk, port |-> p, tp |-> tp, ip |-> d.ip, host |-> d.host]>>)

\* the guard before commit 9a745e7b9: text comparison; a mode serving both transports never matched
TextGuard(s) == /\ req.port = s.port
                /\ req.host \in {"localhost", "127.0.0.1", "::1", s.host}
                /\ s.mt = req.tp
\* the guard as it is now: parsed addresses.  connect_is_local = "localhost" ignoring case / trailing dots, or an
\* address that is_loopback or is_unspecified (IPv4-mapped forms unwrapped); a server is considered when its mode's
\* transport is "both" or the requested one (= it owns a socket of that transport)
LocalDest == req.dk \in LoopbackDest \cup WildcardDest
ParsedGuard(s) == /\ req.port = s.port /\ s.tp = req.tp
                  /\ \/ LocalDest
                     \/ req.host = s.host
                     \/ req.ip # 0 /\ req.ip = s.ip
SelfByCode == CASE Guard = "text" -> \E i \in 1..Len(socks) : TextGuard(socks[i])
                [] Guard = "parsed" -> \E i \in 1..Len(socks) : ParsedGuard(socks[i])
                [] OTHER -> \E i \in 1..Len(socks) : Denotes(req, socks[i])

ConnectHook ==
  /\ Live /\ pc = "hook" /\ pc' = "decided" /\ UNCHANGED <<socks, req>>
  /\ err' = IF SelfByCode THEN "destination_unknown" ELSE "none"
  /\ Emit(<<[k |-> "hook", err |-> err']>>)

Refuse == /\ Live /\ pc = "decided" /\ err # "none" /\ pc' = "done" /\ UNCHANGED <<socks, req, err>>
          /\ Emit(<<[k |-> "completed", err |-> err]>>)
\* the harness lets every socket open fail with an OSError: completion carries an error of class "other"
Connect == /\ Live /\ pc = "decided" /\ err = "none" /\ pc' = "done" /\ UNCHANGED <<socks, req, err>>
           /\ Emit(<<[k |-> "connect"], [k |-> "completed", err |-> "other"]>>)
Finish == /\ Live /\ pc = "done" /\ pc' = "ended" /\ UNCHANGED <<socks, req, err>>
          /\ Emit(<<[k |-> "end"]>>)

Next == \/ \E c \in DOMAIN Configs : Listen(c)
        \/ \E d \in Dests, p \in Ports, tp \in {"tcp", "udp"} : Open(d, p, tp)
        \/ ConnectHook
        \/ Refuse
        \/ Connect
        \/ Finish
Spec == Init /\ [][Next]_vars
Report == mon.bad # <<>> => PrintT(<<"BAD", mon.bad>>)
=============================================================================
