----------------------------- MODULE SmallAddons -----------------------------
(* Implementation-shaped model of six small addons of mitmproxy/addons: blocklist.py, anticache.py, anticomp.py,
   disable_h2c.py, stickyauth.py (request hook) and strip_dns_https_records.py (dns_response hook), in the order of
   addons/__init__.py default_addons().  One action per option update (optmanager.update -> configure of every
   addon, rollback on OptionsError) and one action per addon hook of the flow that is travelling down the chain;
   the loops of the code are the recursive operators.  Flows are views (records of the facts the code looks at). *)
EXTENDS Mon_SmallAddons, TLC
CONSTANTS Reqs,          \* catalogue: sequence of views of arriving requests
          StickyVals,    \* sequence of filter records the environment may set stickyauth to (Off = unset, op "bad" = invalid)
          BlockVals,     \* sequence of rule lists the environment may set block_list to
          BoolOpts,      \* subset of {"anticache", "anticomp", "strip_ech", "http3"} the environment toggles
          Dns,           \* catalogue: sequence of answer sections
          KillEndsLoop,  \* TRUE = the code since e416bb69b: BlockList.request returns after flow.kill(); FALSE = before:
                         \* the loop went on and a second matching 444 rule raised ControlException (finding X07-F1).
                         \* Ordinary status rules never end the loop: the LAST matching one decides the status.
          EmptyEntryRefused, \* TRUE = the code since 9b5994b83: parse_spec("") raises ValueError -> OptionsError;
                         \* FALSE = before: IndexError, only logged, option accepted, items truncated (finding X07-F2)
          MaxOps
VARIABLES sa, ac, acomp, bl, ech, h3,     \* ctx.options.* (bl = BlockList.items, sa = StickyAuth.flt)
          hosts,                           \* StickyAuth.hosts: set of <<host, value>>
          cur, pc,                         \* the flow in the request hooks and the next addon of the chain (0 = none)
          nops, mon, obs
vars == <<sa, ac, acomp, bl, ech, h3, hosts, cur, pc, nops, mon, obs>>

Chain == <<"blocklist", "anticache", "anticomp", "disable_h2c", "stickyauth">>
AllBool == {"anticache", "anticomp", "strip_ech", "http3"}

Emit(evs) == obs' = evs /\ mon' = FoldEvents(MonStep, mon, evs)
InitEv == [k |-> "init", ac |-> FALSE, acomp |-> FALSE, ech |-> TRUE, h3 |-> TRUE]    \* the options' defaults
Init == /\ sa = Off /\ ac = FALSE /\ acomp = FALSE /\ bl = <<>> /\ ech = TRUE /\ h3 = TRUE
        /\ hosts = {} /\ cur = NoView /\ pc = 0 /\ nops = 0
        /\ mon = MonStep(MonInit, InitEv) /\ obs = <<InitEv>>
Live == mon.bad = <<>>
Idle == pc = 0 /\ nops < MaxOps

(* ---- options.update(...) -------------------------------------------------------------------------------------- *)
ConfEv(opt, val, ok) == [k |-> "conf", opt |-> opt, val |-> val, ok |-> ok, exc |-> IF ok THEN "" ELSE "OptionsError"]
SetBool(opt, b) ==
  /\ Live /\ Idle /\ opt \in BoolOpts
  /\ nops' = nops + 1
  /\ ac' = IF opt = "anticache" THEN b ELSE ac
  /\ acomp' = IF opt = "anticomp" THEN b ELSE acomp
  /\ ech' = IF opt = "strip_ech" THEN b ELSE ech
  /\ h3' = IF opt = "http3" THEN b ELSE h3
  /\ UNCHANGED <<sa, bl, hosts, cur, pc>>
  /\ Emit(<<ConfEv(opt, b, TRUE)>>)
\* StickyAuth.configure: flowfilter.parse, ValueError -> OptionsError -> optmanager rolls back and configures again
\* with the old text; self.hosts is never cleared
SetSticky(i) ==
  /\ Live /\ Idle
  /\ nops' = nops + 1
  /\ UNCHANGED <<ac, acomp, bl, ech, h3, hosts, cur, pc>>
  /\ LET f == StickyVals[i] IN
     /\ sa' = IF f.op = "bad" THEN sa ELSE f
     /\ Emit(<<ConfEv("stickyauth", f, f.op # "bad")>>)
\* BlockList.configure: items = [], parse_spec for every entry; the first failing entry raises OptionsError (the
\* rollback re-parses the old list).  An EMPTY entry is refused like any other malformed one (EmptyEntryRefused); before
\* 9b5994b83 it died with IndexError in option[0]: not an OptionsError, so the addon manager only logged it -- the
\* option was accepted and items kept what was parsed so far.
RECURSIVE Parse(_)
Parse(rules) ==
  IF rules = <<>> THEN [items |-> <<>>, res |-> "ok"]
  ELSE LET r == Head(rules) IN
       IF r.form = "empty" /\ ~EmptyEntryRefused THEN [items |-> <<>>, res |-> "logged"]
       ELSE IF RuleBad(r) THEN [items |-> <<>>, res |-> "refused"]
       ELSE LET t == Parse(Tail(rules)) IN [t EXCEPT !.items = <<r>> \o @]
SetBlockList(i) ==
  /\ Live /\ Idle
  /\ nops' = nops + 1
  /\ LET p == Parse(BlockVals[i]) IN
     /\ bl' = IF p.res = "refused" THEN bl ELSE p.items
     /\ Emit(<<ConfEv("block_list", BlockVals[i], p.res # "refused")>>)
  /\ UNCHANGED <<sa, ac, acomp, ech, h3, hosts, cur, pc>>

(* ---- request hooks, in chain order ---------------------------------------------------------------------------- *)
Arrive(r) ==
  /\ Live /\ Idle
  /\ nops' = nops + 1
  /\ cur' = Reqs[r] /\ pc' = 1
  /\ UNCHANGED <<sa, ac, acomp, bl, ech, h3, hosts>>
  /\ Emit(<<[k |-> "flow", v |-> Reqs[r]]>>)
At(a) == pc > 0 /\ Chain[pc] = a
Advance(v, exc, a) ==
  /\ cur' = IF pc = Len(Chain) THEN NoView ELSE v
  /\ pc' = IF pc = Len(Chain) THEN 0 ELSE pc + 1
  /\ Emit(<<[k |-> "hook", a |-> a, v |-> v, exc |-> exc]>>)

Killable(v) == v.live /\ ~v.killed                 \* Flow.killable
Kill(v) == [v EXCEPT !.killed = TRUE, !.live = FALSE]   \* Flow.kill()
\* BlockList.request: for spec in self.items: if spec.matches(flow): mark; kill() and return, or make a response and go on
RECURSIVE BlLoop(_, _)
BlLoop(rules, v) ==
  IF rules = <<>> THEN [v |-> v, exc |-> ""]
  ELSE LET r == Head(rules) IN
       IF ~Holds(r.flt, v) THEN BlLoop(Tail(rules), v)
       ELSE LET v1 == [v EXCEPT !.mark = TRUE] IN
            IF r.st = NoResponse
            THEN IF Killable(v1) THEN BlLoop(IF KillEndsLoop THEN <<>> ELSE Tail(rules), Kill(v1))
                 ELSE [v |-> v1, exc |-> "ControlException"]          \* kill() of a flow that is already killed
            ELSE BlLoop(Tail(rules), [v1 EXCEPT !.resp = r.st, !.rbody = FALSE])
BlockListRequest ==
  /\ Live /\ At("blocklist")
  /\ UNCHANGED <<sa, ac, acomp, bl, ech, h3, hosts, nops>>
  /\ LET r == IF cur.resp # 0 \/ cur.err \/ cur.killed \/ ~cur.live THEN [v |-> cur, exc |-> ""] ELSE BlLoop(bl, cur)
     IN Advance(r.v, r.exc, "blocklist")
AntiCacheRequest ==                                  \* Request.anticache: headers.pop for both names
  /\ Live /\ At("anticache")
  /\ UNCHANGED <<sa, ac, acomp, bl, ech, h3, hosts, nops>>
  /\ Advance(IF ac THEN [cur EXCEPT !.inm = FALSE, !.ims = FALSE] ELSE cur, "", "anticache")
AntiCompRequest ==                                   \* Request.anticomp: headers["accept-encoding"] = "identity"
  /\ Live /\ At("anticomp")
  /\ UNCHANGED <<sa, ac, acomp, bl, ech, h3, hosts, nops>>
  /\ Advance(IF acomp THEN [cur EXCEPT !.ae = "identity"] ELSE cur, "", "anticomp")
DisableH2cRequest ==                                 \* DisableH2C.process_flow
  /\ Live /\ At("disable_h2c")
  /\ UNCHANGED <<sa, ac, acomp, bl, ech, h3, hosts, nops>>
  /\ LET v1 == IF cur.upg = "h2c" THEN [cur EXCEPT !.upg = "none", !.conn = FALSE, !.h2s = FALSE] ELSE cur
         v2 == IF Preface(v1) /\ Killable(v1) THEN Kill(v1) ELSE v1
     IN Advance(v2, "", "disable_h2c")
StickyAuthRequest ==                                 \* StickyAuth.request
  /\ Live /\ At("stickyauth")
  /\ UNCHANGED <<sa, ac, acomp, bl, ech, h3, nops>>
  /\ LET known == Lookup(hosts, cur.host) IN
     IF sa.op = "off" THEN /\ UNCHANGED hosts /\ Advance(cur, "", "stickyauth")
     ELSE IF cur.auth # 0 THEN /\ hosts' = Put(hosts, cur.host, cur.auth) /\ Advance(cur, "", "stickyauth")
     ELSE IF Holds(sa, cur) /\ known # 0 THEN /\ UNCHANGED hosts /\ Advance([cur EXCEPT !.auth = known], "", "stickyauth")
     ELSE /\ UNCHANGED hosts /\ Advance(cur, "", "stickyauth")

(* ---- dns_response ----------------------------------------------------------------------------------------------- *)
StripOne(a) ==
  IF a.t # "https" THEN a ELSE
  LET a1 == IF ech THEN [a EXCEPT !.ech = FALSE] ELSE a
      keep == NonH3Of(a1.alpn) IN
  IF ~h3 /\ a1.hasalpn /\ H3Of(a1.alpn) # <<>>
  THEN [a1 EXCEPT !.alpn = keep, !.hasalpn = keep # <<>>]       \* alpns or None
  ELSE a1
DnsResponse(d) ==
  /\ Live /\ Idle
  /\ nops' = nops + 1
  /\ UNCHANGED <<sa, ac, acomp, bl, ech, h3, hosts, cur, pc>>
  /\ Emit(<<[k |-> "dns", ans |-> Dns[d], msg |-> 1, addech |-> FALSE],
            [k |-> "dnshook", ans |-> [i \in 1..Len(Dns[d]) |-> StripOne(Dns[d][i])], msg |-> 1, addech |-> FALSE, exc |-> ""]>>)

Next == \/ \E o \in AllBool, b \in BOOLEAN : SetBool(o, b)
        \/ \E i \in 1..Len(StickyVals) : SetSticky(i)
        \/ \E i \in 1..Len(BlockVals) : SetBlockList(i)
        \/ \E r \in 1..Len(Reqs) : Arrive(r)
        \/ BlockListRequest \/ AntiCacheRequest \/ AntiCompRequest \/ DisableH2cRequest \/ StickyAuthRequest
        \/ \E d \in 1..Len(Dns) : DnsResponse(d)
Spec == Init /\ [][Next]_vars
\* states that differ only in the collected witness set are the same state for the exploration
View == <<sa, ac, acomp, bl, ech, h3, hosts, cur, pc, nops, obs, [mon EXCEPT !.wit = {}]>>

Report == mon.bad # <<>> => PrintT(<<"BAD", mon.bad>>)
\* design-level facts
HostsFunctional == \A p, q \in hosts : p[1] = q[1] => p = q
KilledNotLive == cur.killed => ~cur.live
=============================================================================
