--------------------------- MODULE Mon_SmallAddons ---------------------------
(* X07 (coverage extension, not one of the 54 given properties): the small rewriting addons do what their option
   help texts, docstrings and docs/src/content/overview/features.md say -- and nothing else to the flow.

   Statement judged here (ours; sources in brackets):
   all     - a request / dns_response hook of these addons does not raise, and changes nothing of the flow but what
             the addon is about [obvious expectation].  An invalid option value (stickyauth: not a filter
             expression; block_list: not "/flow-filter/status-code" with exactly two segments, an integer status and
             a valid filter) is refused and the previous setting stays in force; a valid one is accepted
             [blocklist.parse_spec docstring "enforces number of segments", option help].
   stickyauth ["Set sticky auth filter. Matched against requests."; features.md "Authorization headers are simply
             replayed to the server once they have been seen ... analogous to the sticky cookie option"]:
             while the option is set, a request WITHOUT Authorization that matches the filter gets the Authorization
             value most recently seen for ITS host (seen = carried by a request that passed the hook); a request
             that has its own Authorization keeps it; a request that does not match, or whose host has no value
             yet, or any request while the option is unset, is left alone.  A value is never given to another host.
   anticache ["Strip out request headers that might cause the server to return 304-not-modified"; features.md names
             if-none-match and if-modified-since]: option set => neither header is left (any spelling, every
             occurrence); unset => request untouched.
   anticomp ["Try to convince servers to send us un-compressed data"; Request.anticomp docstring "only accept
             uncompressed responses"]: option set => Accept-Encoding offers identity only; unset => untouched.
   block_list [option help; features.md]: a live request without response or error that matches at least one rule is
             blocked -- with an EMPTY response whose status is the status of a matching rule, or, if a matching rule
             says 444, possibly killed without response instead; a request that matches no rule is neither answered
             nor killed.  (Which of several matching rules wins is not documented and not judged.)
   disable_h2c [class docstring]: "Upgrade: h2c" => Upgrade and HTTP2-Settings are gone after the hook; any other
             request keeps its Upgrade / Connection / HTTP2-Settings headers; a killable "PRI * HTTP/2.0" request
             is killed; nothing else is.
   strip_ech ["Strip Encrypted ClientHello (ECH) data from DNS HTTPS records ..."]: option set => no HTTPS record of
             the answer section carries an ech parameter after dns_response; unset => ech untouched; every other
             record, parameter and field is untouched, except that h3 / h3-* ALPN ids may disappear while the http3
             option is off (never while it is on; an alpn parameter never becomes empty; other ids are kept).

   NOT clauses (predictions of the model only): that the LAST matching block_list rule wins, that the Connection
   header goes with an h2c upgrade, that blocked flows are marked metadata["blocklisted"], that flows with a response
   / error / not live are skipped by block_list, that h3 ids really are removed while http3 is off, that stickyauth
   also remembers values of requests that do not match the filter and forgets nothing on reconfiguration.

   Events (harness projection; a view v is a record of small values, see README):
     [k |-> "init", ac, acomp, ech, h3]                       option values at the start (BOOLEAN)
     [k |-> "conf", opt, val, ok, exc]                        options.update(opt = val); ok = no exception
          val: BOOLEAN | filter [op, n, neg] (op "off" = unset, "bad" = invalid text)
               | sequence of rules [flt, st, form]  (form "ok" | "segments" | "status" | "empty")
     [k |-> "flow", v]                                        a new HTTP flow enters the request hooks
     [k |-> "hook", a, v, exc]                                addon a's request hook returned; v = view after it
     [k |-> "dns", ans, msg, addech] / [k |-> "dnshook", ans, msg, addech, exc]   answers before / after dns_response
          answer: [t |-> "https" | "other", ech, hasalpn, alpn |-> << [id, h3] >>, rest]; msg, rest: interned
          remainder of the message / record (equal number = nothing changed); addech: an HTTPS record of the
          ADDITIONAL section carries ech (observation only)                                                       *)
EXTENDS Verif

Off == [op |-> "off", n |-> 0, neg |-> FALSE]
NoView == [host |-> 0, auth |-> 0, meth |-> "", path |-> "", ver |-> "", inm |-> FALSE, ims |-> FALSE, ae |-> "",
           upg |-> "", conn |-> FALSE, h2s |-> FALSE, live |-> FALSE, resp |-> 0, rbody |-> FALSE, killed |-> FALSE,
           err |-> FALSE, mark |-> FALSE, rest |-> 0]
Fields == <<"host", "auth", "meth", "path", "ver", "inm", "ims", "ae", "upg", "conn", "h2s", "live", "resp", "rbody",
            "killed", "err", "mark", "rest">>
NoResponse == 444

MonInit == [bad |-> <<>>, wit |-> {}, sa |-> Off, ac |-> FALSE, acomp |-> FALSE, bl |-> <<>>, ech |-> TRUE, h3 |-> TRUE,
            lastM |-> {}, lastA |-> {}, lastE |-> {}, seen |-> {}, cur |-> NoView, has |-> FALSE,
            dns |-> <<>>, dnsmsg |-> 0, addech |-> FALSE, hasdns |-> FALSE]

\* host -> value maps as sets of pairs
Lookup(S, h) == IF \E p \in S : p[1] = h THEN (CHOOSE p \in S : p[1] = h)[2] ELSE 0
Put(S, h, t) == {p \in S : p[1] # h} \cup {<<h, t>>}

\* the documented meaning of the filter expressions the harness writes (its texts are the trusted base)
Base(f, v) == CASE f.op = "all" -> TRUE
                [] f.op = "get" -> v.meth = "GET"
                [] f.op = "post" -> v.meth = "POST"
                [] f.op = "priv" -> v.path = "priv"
                [] f.op = "host" -> v.host = f.n
                [] f.op = "hasauth" -> v.auth # 0
                [] f.op = "inm" -> v.inm
                [] OTHER -> FALSE
Holds(f, v) == Base(f, v) # f.neg

\* what an addon is about: the only fields of the view its hook may change
May(a) == CASE a = "stickyauth" -> {"auth"}
            [] a = "anticache" -> {"inm", "ims"}
            [] a = "anticomp" -> {"ae"}
            [] a = "blocklist" -> {"resp", "rbody", "killed", "live", "mark"}
            [] a = "disable_h2c" -> {"upg", "conn", "h2s", "killed", "live"}
            [] OTHER -> {}
FirstTouched(a, pre, post) ==
  LET t == SelectSeq(Fields, LAMBDA f : f \notin May(a) /\ pre[f] # post[f]) IN IF t = <<>> THEN "" ELSE t[1]

(* ---- stickyauth ---------------------------------------------------------------------------------------------- *)
Sticky(m, pre, post) ==
  LET on == m.sa.op # "off"
      match == on /\ Holds(m.sa, pre)
      h == pre.host
      must == match /\ Lookup(m.lastM, h) # 0
      allowed == {Lookup(m.lastA, h), Lookup(m.lastE, h), Lookup(m.lastM, h)} \ {0} IN
  IF pre.auth # 0 THEN (IF post.auth # pre.auth THEN <<"X07.own_auth_replaced">> ELSE <<>>)
  ELSE IF post.auth = 0 THEN (IF must THEN <<"X07.auth_not_added">> ELSE <<>>)
  ELSE IF ~on THEN <<"X07.changed_while_off", "stickyauth">>
  ELSE IF ~match THEN <<"X07.auth_added_unmatched">>
  ELSE IF <<h, post.auth>> \notin m.seen
       THEN <<"X07.auth_foreign", IF \E p \in m.seen : p[2] = post.auth THEN "other_host" ELSE "never_seen">>
  ELSE IF post.auth \notin allowed THEN <<"X07.auth_stale">>
  ELSE <<>>
StickyWit(m, pre) ==
  LET on == m.sa.op # "off"
      match == on /\ Holds(m.sa, pre)
      h == pre.host IN
  IF pre.auth # 0 THEN (IF on THEN {"auth_recorded", "auth_own_kept"} ELSE {"auth_seen_while_off"})
  ELSE (IF match /\ Lookup(m.lastM, h) # 0 THEN {"auth_added"} ELSE {})
       \cup (IF match /\ Cardinality({p \in m.seen : p[1] = h}) > 1 THEN {"auth_added_latest"} ELSE {})
       \cup (IF on /\ ~match /\ Lookup(m.lastA, h) # 0 THEN {"auth_skip_unmatched"} ELSE {})
       \cup (IF match /\ Lookup(m.lastA, h) = 0 /\ m.lastA # {} THEN {"auth_skip_other_host"} ELSE {})
       \cup (IF ~on /\ Lookup(m.lastE, h) # 0 THEN {"auth_skip_off"} ELSE {})

(* ---- anticache / anticomp -------------------------------------------------------------------------------------- *)
Cache(m, pre, post) ==
  IF m.ac THEN (IF post.inm THEN <<"X07.cache_header_kept", "if-none-match">>
                ELSE IF post.ims THEN <<"X07.cache_header_kept", "if-modified-since">> ELSE <<>>)
  ELSE IF post # pre THEN <<"X07.changed_while_off", "anticache">> ELSE <<>>
Comp(m, pre, post) ==
  IF m.acomp THEN (IF post.ae # "identity" THEN <<"X07.compression_still_offered", pre.ae>> ELSE <<>>)
  ELSE IF post # pre THEN <<"X07.changed_while_off", "anticomp">> ELSE <<>>

(* ---- block_list ------------------------------------------------------------------------------------------------- *)
Matching(m, pre) == {i \in 1..Len(m.bl) : Holds(m.bl[i].flt, pre)}
BlockDomain(pre) == pre.live /\ pre.resp = 0 /\ ~pre.err /\ ~pre.killed
Block(m, pre, post) ==
  LET M == {m.bl[i].st : i \in Matching(m, pre)} IN
  IF ~BlockDomain(pre) THEN <<>>
  ELSE IF M = {} THEN (IF post.resp # 0 \/ post.killed THEN <<"X07.blocked_unmatched", IF post.killed THEN "killed" ELSE "answered">>
                       ELSE IF post.live # pre.live THEN <<"X07.touched_other", "blocklist", "live">> ELSE <<>>)
  ELSE IF post.killed THEN (IF NoResponse \notin M THEN <<"X07.block_wrong_action", "killed">> ELSE <<>>)
  ELSE IF post.live # pre.live THEN <<"X07.touched_other", "blocklist", "live">>
  ELSE IF post.resp = 0 THEN <<"X07.block_missed", IF M = {NoResponse} THEN "kill" ELSE "status">>
  ELSE IF post.resp \notin M \ {NoResponse} THEN <<"X07.block_wrong_action", "status">>
  ELSE IF post.rbody THEN <<"X07.block_response_not_empty">>
  ELSE <<>>
BlockWit(m, pre, post) ==
  LET I == Matching(m, pre)  M == {m.bl[i].st : i \in I} IN
  IF ~BlockDomain(pre)
  THEN (IF m.bl # <<>> /\ I # {} THEN {IF ~pre.live THEN "block_skip_not_live" ELSE "block_skip_answered"} ELSE {})
  ELSE (IF M = {} /\ m.bl # <<>> THEN {"block_none_matched"} ELSE {})
       \cup (IF M # {} /\ NoResponse \notin M THEN {"block_status"} ELSE {})
       \cup (IF M = {NoResponse} THEN {"block_kill"} ELSE {})
       \cup (IF Cardinality(I) > 1 THEN {"block_multi"} ELSE {})
       \cup (IF Cardinality(M) > 1 /\ NoResponse \in M THEN {"block_multi_mixed"} ELSE {})
       \cup (IF Cardinality({i \in I : m.bl[i].st = NoResponse}) > 1 THEN {"block_two_kills"} ELSE {})
       \* observation, not a clause: the code lets the LAST matching rule decide the status
       \cup (IF Cardinality(M \ {NoResponse}) > 1 /\ ~post.killed /\ post.resp # 0
             THEN {IF post.resp = m.bl[CHOOSE i \in I : \A j \in I : j <= i].st THEN "obs:last_rule_wins" ELSE "obs:other_rule_wins"}
             ELSE {})

(* ---- disable_h2c ------------------------------------------------------------------------------------------------ *)
Preface(v) == v.meth = "PRI" /\ v.path = "star" /\ v.ver = "h2"
H2c(m, pre, post) ==
  LET killable == pre.live /\ ~pre.killed IN
  IF pre.upg = "h2c" /\ post.upg # "none" THEN <<"X07.h2c_upgrade_kept">>
  ELSE IF pre.upg = "h2c" /\ post.h2s THEN <<"X07.h2c_settings_kept">>
  ELSE IF pre.upg = "h2c" /\ post.conn /\ ~pre.conn THEN <<"X07.touched_other", "disable_h2c", "upgrade_headers">>
  ELSE IF pre.upg # "h2c" /\ (post.upg # pre.upg \/ post.conn # pre.conn \/ post.h2s # pre.h2s)
       THEN <<"X07.touched_other", "disable_h2c", "upgrade_headers">>
  ELSE IF Preface(pre) /\ killable /\ ~post.killed THEN <<"X07.preface_not_killed">>
  ELSE IF ~Preface(pre) /\ post.killed # pre.killed THEN <<"X07.killed_without_cause", "disable_h2c">>
  ELSE IF post.live # pre.live /\ ~(post.killed /\ ~pre.killed) THEN <<"X07.touched_other", "disable_h2c", "live">>
  ELSE <<>>
H2cWit(m, pre) ==
  (IF pre.upg = "h2c" THEN {"h2c_stripped"} \cup (IF ~pre.conn THEN {"h2c_no_connection"} ELSE {})
                           \cup (IF ~pre.h2s THEN {"h2c_no_settings"} ELSE {}) ELSE {})
  \cup (IF pre.upg = "other" THEN {"other_upgrade_kept"} ELSE {})
  \cup (IF Preface(pre) THEN {IF pre.live /\ ~pre.killed THEN "preface_killed" ELSE "preface_not_killable"} ELSE {})
  \cup (IF pre.meth = "PRI" /\ ~Preface(pre) THEN {"pri_but_no_preface"} ELSE {})

(* ---- hooks ------------------------------------------------------------------------------------------------------ *)
Hook(m, ev) ==
  LET a == ev.a  pre == m.cur  post == ev.v
      t == FirstTouched(a, pre, post)
      b == IF ev.exc # "" THEN <<"X07.hook_raised", a, ev.exc>>
           ELSE IF t # "" THEN <<"X07.touched_other", a, t>>
           ELSE CASE a = "stickyauth" -> Sticky(m, pre, post)
                  [] a = "anticache" -> Cache(m, pre, post)
                  [] a = "anticomp" -> Comp(m, pre, post)
                  [] a = "blocklist" -> Block(m, pre, post)
                  [] a = "disable_h2c" -> H2c(m, pre, post)
                  [] OTHER -> <<"X07.unknown_addon", a>>
      w == CASE a = "stickyauth" -> StickyWit(m, pre)
             [] a = "anticache" -> (IF m.ac /\ (pre.inm \/ pre.ims) THEN {"cache_stripped"} ELSE {})
                                   \cup (IF m.ac /\ pre.inm /\ pre.ims THEN {"cache_stripped_both"} ELSE {})
                                   \cup (IF ~m.ac /\ (pre.inm \/ pre.ims) THEN {"cache_left_off"} ELSE {})
             [] a = "anticomp" -> (IF m.acomp /\ pre.ae = "compressed" THEN {"comp_replaced"} ELSE {})
                                  \cup (IF m.acomp /\ pre.ae = "absent" THEN {"comp_added"} ELSE {})
                                  \cup (IF ~m.acomp /\ pre.ae = "compressed" THEN {"comp_left_off"} ELSE {})
             [] a = "blocklist" -> BlockWit(m, pre, post)
             [] a = "disable_h2c" -> H2cWit(m, pre)
             [] OTHER -> {}
      rec == a = "stickyauth" /\ pre.auth # 0
      on == m.sa.op # "off" IN
  [m EXCEPT !.bad = b, !.cur = post, !.wit = @ \cup w,
            !.seen = IF rec THEN @ \cup {<<pre.host, pre.auth>>} ELSE @,
            !.lastE = IF rec THEN Put(@, pre.host, pre.auth) ELSE @,
            !.lastA = IF rec /\ on THEN Put(@, pre.host, pre.auth) ELSE @,
            !.lastM = IF rec /\ on /\ Holds(m.sa, pre) THEN Put(@, pre.host, pre.auth) ELSE @]

(* ---- options ---------------------------------------------------------------------------------------------------- *)
RuleBad(r) == r.form # "ok" \/ r.flt.op = "bad"
Invalid(ev) == CASE ev.opt = "stickyauth" -> ev.val.op = "bad"
                 [] ev.opt = "block_list" -> \E i \in 1..Len(ev.val) : RuleBad(ev.val[i])
                 [] OTHER -> FALSE
FormOf(ev) == IF ev.opt # "block_list" THEN "filter"
              ELSE LET i == CHOOSE i \in 1..Len(ev.val) : RuleBad(ev.val[i]) /\ \A j \in 1..(i - 1) : ~RuleBad(ev.val[j])
                   IN IF ev.val[i].form # "ok" THEN ev.val[i].form ELSE "filter"
Conf(m, ev) ==
  LET inv == Invalid(ev)
      m1 == IF ev.opt = "stickyauth" THEN [m EXCEPT !.lastM = {}] ELSE m IN   \* what MUST be remembered restarts
  IF inv /\ ev.ok THEN [m EXCEPT !.bad = <<"X07.bad_option_accepted", ev.opt, FormOf(ev)>>]
  ELSE IF ~inv /\ ~ev.ok THEN [m EXCEPT !.bad = <<"X07.good_option_refused", ev.opt, ev.exc>>]
  ELSE IF ~ev.ok THEN [m1 EXCEPT !.wit = @ \cup {"refused_" \o ev.opt, "refused_form_" \o FormOf(ev)}]   \* old setting stays
  ELSE CASE ev.opt = "stickyauth" -> [m1 EXCEPT !.sa = ev.val, !.wit = @ \cup (IF m.sa.op # "off" THEN {"sticky_reconfigured"} ELSE {})]
         [] ev.opt = "block_list" -> [m1 EXCEPT !.bl = ev.val, !.wit = @ \cup (IF m.bl # <<>> THEN {"block_reconfigured"} ELSE {})]
         [] ev.opt = "anticache" -> [m1 EXCEPT !.ac = ev.val]
         [] ev.opt = "anticomp" -> [m1 EXCEPT !.acomp = ev.val]
         [] ev.opt = "strip_ech" -> [m1 EXCEPT !.ech = ev.val]
         [] ev.opt = "http3" -> [m1 EXCEPT !.h3 = ev.val]
         [] OTHER -> m1

(* ---- dns_response ------------------------------------------------------------------------------------------------- *)
H3Of(s) == SelectSeq(s, LAMBDA x : x.h3)
NonH3Of(s) == SelectSeq(s, LAMBDA x : ~x.h3)
DnsBad(m, p, q) ==
  IF q.t # p.t THEN <<"X07.touched_other", "strip_dns", "type">>
  ELSE IF q.rest # p.rest THEN <<"X07.touched_other", "strip_dns", "rest">>
  ELSE IF p.t # "https" THEN (IF q # p THEN <<"X07.touched_other", "strip_dns", "non_https">> ELSE <<>>)
  ELSE IF m.ech /\ q.ech THEN <<"X07.ech_kept">>
  ELSE IF ~m.ech /\ q.ech # p.ech THEN <<"X07.changed_while_off", "strip_ech">>
  ELSE IF q.hasalpn /\ q.alpn = <<>> THEN <<"X07.alpn_empty">>
  ELSE IF m.h3 /\ (q.alpn # p.alpn \/ q.hasalpn # p.hasalpn) THEN <<"X07.alpn_changed_while_http3_on">>
  ELSE IF NonH3Of(q.alpn) # NonH3Of(p.alpn) \/ ~(ToSet(H3Of(q.alpn)) \subseteq ToSet(H3Of(p.alpn)))
          \/ (q.hasalpn /\ ~p.hasalpn) \/ (~q.hasalpn /\ NonH3Of(p.alpn) # <<>>)
       THEN <<"X07.alpn_damaged">>
  ELSE <<>>
DnsHook(m, ev) ==
  LET pre == m.dns  post == ev.ans
      B == {i \in 1..Min2(Len(pre), Len(post)) : DnsBad(m, pre[i], post[i]) # <<>>}
      b == IF ~m.hasdns THEN <<"X07.hook_without_flow">>
           ELSE IF ev.exc # "" THEN <<"X07.hook_raised", "strip_dns", ev.exc>>
           ELSE IF ev.msg # m.dnsmsg THEN <<"X07.touched_other", "strip_dns", "message">>
           ELSE IF Len(post) # Len(pre) THEN <<"X07.touched_other", "strip_dns", "count">>
           ELSE IF B = {} THEN <<>>
           ELSE LET i == CHOOSE i \in B : \A j \in B : i <= j IN DnsBad(m, pre[i], post[i])
      H == {i \in 1..Len(pre) : pre[i].t = "https"}
      w == (IF m.ech /\ \E i \in H : pre[i].ech THEN {"ech_stripped"} ELSE {})
           \cup (IF ~m.ech /\ \E i \in H : pre[i].ech THEN {"ech_left_off"} ELSE {})
           \cup (IF Cardinality({i \in H : pre[i].ech}) > 1 THEN {"ech_two_records"} ELSE {})
           \cup (IF \E i \in 1..Len(pre) : pre[i].t # "https" THEN {"dns_other_record"} ELSE {})
           \cup (IF ~m.h3 /\ \E i \in H : H3Of(pre[i].alpn) # <<>> /\ NonH3Of(pre[i].alpn) # <<>> THEN {"alpn_mixed_http3_off"} ELSE {})
           \cup (IF ~m.h3 /\ \E i \in H : H3Of(pre[i].alpn) # <<>> /\ NonH3Of(pre[i].alpn) = <<>> THEN {"alpn_only_h3_http3_off"} ELSE {})
           \cup (IF m.h3 /\ \E i \in H : H3Of(pre[i].alpn) # <<>> THEN {"alpn_h3_http3_on"} ELSE {})
           \* observations, not clauses
           \cup (IF m.ech /\ m.addech /\ ev.addech THEN {"obs:additional_section_ech_kept"} ELSE {})
           \cup (IF Len(post) = Len(pre) /\ \E i \in H : H3Of(pre[i].alpn) # <<>> /\ H3Of(post[i].alpn) = <<>> THEN {"obs:h3_removed"} ELSE {})
  IN [m EXCEPT !.bad = b, !.wit = @ \cup w, !.hasdns = FALSE]

MonStep(m, ev) ==
  IF m.bad # <<>> THEN m ELSE
  CASE ev.k = "init" -> [m EXCEPT !.ac = ev.ac, !.acomp = ev.acomp, !.ech = ev.ech, !.h3 = ev.h3]
    [] ev.k = "conf" -> Conf(m, ev)
    [] ev.k = "flow" -> [m EXCEPT !.cur = ev.v, !.has = TRUE]
    [] ev.k = "hook" -> IF ~m.has THEN [m EXCEPT !.bad = <<"X07.hook_without_flow">>] ELSE Hook(m, ev)
    [] ev.k = "dns" -> [m EXCEPT !.dns = ev.ans, !.dnsmsg = ev.msg, !.addech = ev.addech, !.hasdns = TRUE]
    [] ev.k = "dnshook" -> DnsHook(m, ev)
    [] OTHER -> m

Wit(m) == m.wit
=============================================================================
