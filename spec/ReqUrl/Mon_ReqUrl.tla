------------------------------ MODULE Mon_ReqUrl ------------------------------
(* Monitor for C33: request URL, host, port and authority stay consistent.

   All strings the request exposes are read by the harness's own RFC 3986 reader (props/C33.py) and reported in
   canonical form: hosts as names of their canonical spelling (lower case, IDNA A-labels, compressed IPv6), ports as
   effective numbers, paths as names of path + non-empty query + non-empty fragment ("" path = "/").
   A snapshot of the request is
     sn = [uok, us, uh, up, upath     request.url as the reference reader sees it (uok = FALSE: not a valid URL)
           s, h, p, path              request.scheme / host / port / path
           hh, hhh, hhp               Host header: "absent" | "ok" | "bad" (not host[:port]), its host, its port (-1: none)
           au, auh, aup]              authority:   "empty"  | "ok" | "bad", ...
   Event records:
     [k |-> "new", ver, sn]                       a request as received (ver = "h1" | "h2")
     [k |-> "seturl", hc, pf, u, exc, sn]         request.url = <a valid URL>; u = [s, h, p, path] is what the reference
                                                  reader makes of that URL; hc = class of its host (dns, idn, ipv4, ipv6);
                                                  pf = "empty_params" if its last path segment ends in ";", else "plain"
     [k |-> "reassign", exc, chg, sn]             request.url = request.url; chg = names of the attributes whose raw
                                                  value is different afterwards
     [k |-> "sethost", hc, h, exc, sn]            request.host = ...   (h = canonical name of the new host)
     [k |-> "setport", p, exc, sn]                request.port = p                                              *)
EXTENDS Verif

MonInit == [bad |-> <<>>, wit |-> {}, sn |-> [k |-> "none"], hc |-> "dns", ver |-> "h1",
            fresh |-> FALSE]      \* the request's state is what a successful URL assignment left behind

Eff(s, p) == IF p # -1 THEN p ELSE IF s = "https" THEN 443 ELSE 80

\* the Host header / authority that existed before the edit must denote (h, p) afterwards
Points(m, ev, h, p) ==
  IF m.sn.hh # "absent" /\ ~(ev.sn.hh = "ok" /\ ev.sn.hhh = h /\ Eff(ev.sn.s, ev.sn.hhp) = p)
     THEN <<"C33.host_header_stale", IF ev.k \in {"sethost", "seturl"} THEN ev.hc ELSE m.hc, m.ver>>
  ELSE IF m.sn.au # "empty" /\ ~(ev.sn.au = "ok" /\ ev.sn.auh = h /\ Eff(ev.sn.s, ev.sn.aup) = p)
     THEN <<"C33.authority_stale", IF ev.k \in {"sethost", "seturl"} THEN ev.hc ELSE m.hc, m.ver>>
  ELSE <<>>

Clause(m, ev) ==
  CASE ev.k = "seturl" ->
         IF ev.exc # "" THEN <<"C33.seturl_raised", ev.hc, ev.exc>>
         ELSE IF ~ev.sn.uok THEN <<"C33.url_not_equivalent", ev.hc, "not_a_url">>
         ELSE IF ev.sn.us # ev.u.s THEN <<"C33.url_not_equivalent", ev.hc, "scheme">>
         ELSE IF ev.sn.uh # ev.u.h THEN <<"C33.url_not_equivalent", ev.hc, "host">>
         ELSE IF ev.sn.up # ev.u.p THEN <<"C33.url_not_equivalent", ev.hc, "port">>
         ELSE IF ev.sn.upath # ev.u.path THEN <<"C33.url_not_equivalent", ev.hc, "path_" \o ev.pf>>
         ELSE IF ev.sn.s # ev.sn.us THEN <<"C33.attributes_inconsistent", ev.hc, "scheme">>
         ELSE IF ev.sn.h # ev.sn.uh THEN <<"C33.attributes_inconsistent", ev.hc, "host">>
         ELSE IF ev.sn.p # ev.sn.up THEN <<"C33.attributes_inconsistent", ev.hc, "port">>
         ELSE IF ev.sn.path # ev.sn.upath THEN <<"C33.attributes_inconsistent", ev.hc, "path">>
         ELSE Points(m, ev, ev.u.h, ev.u.p)      \* a URL edit is a host / port (/ scheme) change as well
    [] ev.k = "reassign" ->
         IF ~m.fresh THEN <<>>
         ELSE IF ev.exc # "" THEN <<"C33.reassign_raised", m.hc, ev.exc>>
         ELSE IF ev.chg # <<>> THEN <<"C33.reassign_changed", m.hc, ev.chg[1]>>
         ELSE <<>>
    [] ev.k = "sethost" ->
         IF ev.exc # "" THEN <<"C33.edit_raised", ev.hc, ev.exc>>
         ELSE IF ev.sn.h # ev.h THEN <<"C33.edit_not_applied", ev.hc, "host">>
         ELSE Points(m, ev, ev.h, ev.sn.p)
    [] ev.k = "setport" ->
         IF ev.exc # "" THEN <<"C33.edit_raised", m.hc, ev.exc>>
         ELSE IF ev.sn.p # ev.p THEN <<"C33.edit_not_applied", m.hc, "port">>
         ELSE Points(m, ev, ev.sn.h, ev.p)
    [] OTHER -> <<>>

W(c, s) == IF c THEN {s} ELSE {}
MonStep(m, ev) ==
  LET m1 == [m EXCEPT !.bad = Clause(m, ev)]
      ok == ev.k # "new" /\ ev.exc = "" IN
  CASE ev.k = "new" -> [m1 EXCEPT !.sn = ev.sn, !.ver = ev.ver, !.hc = "dns", !.fresh = FALSE]
    [] ev.k = "seturl" ->
         [m1 EXCEPT !.sn = ev.sn, !.hc = IF ok THEN ev.hc ELSE @, !.fresh = ok,
                    !.wit = @ \cup W(ok, "seturl_" \o ev.hc) \cup W(ok /\ m.sn.hh # "absent", "seturl_with_host_header")
                              \* only the scheme changes, and the port is written for one scheme and elided for the other
                              \cup W(ok /\ m.fresh /\ ev.u.h = m.sn.h /\ ev.u.p = m.sn.p /\ ev.u.s # m.sn.s /\ ev.u.p \in {80, 443}
                                     /\ (m.sn.hh # "absent" \/ m.sn.au # "empty"), "scheme_only_url_edit_elision_flips")
                              \cup W(ok /\ m.fresh /\ ev.u.h = m.sn.h /\ ev.u.p = m.sn.p /\ ev.u.s # m.sn.s /\ ev.u.p \notin {80, 443}
                                     /\ (m.sn.hh # "absent" \/ m.sn.au # "empty"), "scheme_only_url_edit_explicit_port")]
    [] ev.k = "reassign" ->
         [m1 EXCEPT !.sn = ev.sn, !.fresh = m.fresh /\ ok, !.wit = @ \cup W(m.fresh /\ ok, "reassign_" \o m.hc)]
    [] ev.k = "sethost" ->
         [m1 EXCEPT !.sn = ev.sn, !.hc = IF ok THEN ev.hc ELSE @, !.fresh = FALSE,
                    !.wit = @ \cup W(ok /\ m.sn.hh # "absent", "sethost_with_host_header")
                              \cup W(ok /\ m.sn.au # "empty", "sethost_with_authority_" \o m.ver)]
    [] ev.k = "setport" ->
         [m1 EXCEPT !.sn = ev.sn, !.fresh = FALSE,
                    !.wit = @ \cup W(ok /\ m.sn.hh # "absent", "setport_with_host_header")
                              \cup W(ok /\ m.sn.au # "empty", "setport_with_authority_" \o m.ver)
                              \cup W(ok /\ ev.p = Eff(ev.sn.s, -1), "setport_to_default")]
    [] OTHER -> m1
Wit(m) == m.wit
=============================================================================
