------------------------------- MODULE ReqUrl -------------------------------
(* Implementation-shaped model of http.Request.url / host / port setters and getters, _update_host_and_authority
   (mitmproxy/http.py) and url.parse / unparse / hostport (mitmproxy/net/http/url.py).

   Hosts and paths are names; HC gives a host's class ("dns", "idn", "ipv4", "ipv6"), Canon the canonical name of a
   path as it is written in a URL (an empty path is "/", an empty query or fragment disappears).
   Deviations of the code that the model carries on purpose:
     NoBrackets  (FALSE since /repo 4d0254b30; TRUE describes the code before: hostport() wrote an IPv6 host without
                 brackets, so url / Host / authority became unreadable)
     UnicodeUrl  the url getter writes an IDN host as U-label, and url.parse() cannot take non-ASCII text       *)
EXTENDS Mon_ReqUrl, TLC
CONSTANTS HC,         \* host name -> class
          Canon,      \* path form -> canonical path name
          Stored,     \* path form -> canonical name of what url.parse keeps (urlparse drops an empty ";params" part)
          Urls,       \* set of <<scheme, host, form, portspec, pathform>>;  form: "plain" | "upper" | "alabel" | "ulabel" | "bracket"
                      \*   portspec: "none" | "default" | "alt" | "cross"
          HostEdits,  \* set of host names for request.host = ...
          PortEdits,  \* set of ports for request.port = ...
          Shapes,     \* set of <<ver, host header present, authority present>>
          MaxOps
VARIABLES req, ops, mon, obs
vars == <<req, ops, mon, obs>>

NoBrackets == FALSE
UnicodeUrl == TRUE

Default(s) == IF s = "https" THEN 443 ELSE 80
Other(s) == IF s = "https" THEN "http" ELSE "https"
NoAuth == [st |-> "none", h |-> "", p |-> 0]
\* url.hostport(scheme, host, port) as the reference reader sees it
Val(s, h, p) == IF HC[h] = "ipv6" /\ NoBrackets THEN [st |-> "bad", h |-> "", p |-> 0]
                ELSE [st |-> "ok", h |-> h, p |-> IF Default(s) = p THEN -1 ELSE p]
\* _update_host_and_authority: only an existing Host header / a non-empty authority are rewritten
Update(r) == [r EXCEPT !.hh = IF @.st = "none" THEN @ ELSE Val(r.s, r.h, r.p),
                       !.au = IF @.st = "none" THEN @ ELSE Val(r.s, r.h, r.p)]

Sn(r) ==
  LET uok == ~(HC[r.h] = "ipv6" /\ NoBrackets) IN
  [uok |-> uok, us |-> IF uok THEN r.s ELSE "", uh |-> IF uok THEN r.h ELSE "", up |-> IF uok THEN r.p ELSE 0,
   upath |-> IF uok THEN r.path ELSE "",
   s |-> r.s, h |-> r.h, p |-> r.p, path |-> r.path,
   hh |-> IF r.hh.st = "none" THEN "absent" ELSE r.hh.st, hhh |-> r.hh.h, hhp |-> r.hh.p,
   au |-> IF r.au.st = "none" THEN "empty" ELSE r.au.st, auh |-> r.au.h, aup |-> r.au.p]

Init == req = [ver |-> "-"] /\ ops = 0 /\ mon = MonInit /\ obs = <<>>
Emit(evs) == obs' = evs /\ mon' = FoldEvents(MonStep, mon, evs)
Live == mon.bad = <<>>
Step == ops < MaxOps /\ ops' = ops + 1 /\ req.ver # "-"

NewReq(sh) ==
  /\ req.ver = "-" /\ UNCHANGED ops
  /\ LET orig == [st |-> "ok", h |-> "orig", p |-> -1]
         r == [ver |-> sh[1], s |-> "http", h |-> "orig", p |-> 80, path |-> "root",
               hh |-> IF sh[2] THEN orig ELSE NoAuth, au |-> IF sh[3] THEN orig ELSE NoAuth] IN
     req' = r /\ Emit(<<[k |-> "new", ver |-> sh[1], sn |-> Sn(r)]>>)

\* request.url = u: url.parse, then scheme, host, port, path are assigned one by one (host and port setters call
\* _update_host_and_authority; the final state does not depend on the order)
SetUrl(u) ==
  /\ Live /\ Step
  /\ LET s == u[1]  h == u[2]
         p == CASE u[4] \in {"none", "default"} -> Default(s) [] u[4] = "alt" -> 8080 [] OTHER -> Default(Other(s))
         ref == [s |-> s, h |-> h, p |-> p, path |-> Canon[u[5]]]
         fails == u[3] = "ulabel" /\ UnicodeUrl                         \* parsed.encode("ascii") raises
         r == IF fails THEN req ELSE Update([req EXCEPT !.s = s, !.h = h, !.p = p, !.path = Stored[u[5]]]) IN
     /\ req' = r
     /\ Emit(<<[k |-> "seturl", hc |-> HC[h], pf |-> IF Stored[u[5]] # Canon[u[5]] THEN "empty_params" ELSE "plain", u |-> ref, exc |-> IF fails THEN "UnicodeEncodeError" ELSE "", sn |-> Sn(r)]>>)

\* request.url = request.url
Reassign ==
  /\ Live /\ Step /\ UNCHANGED req
  /\ LET exc == IF HC[req.h] = "ipv6" /\ NoBrackets THEN "ValueError"           \* "http://::1/" does not parse
                ELSE IF HC[req.h] = "idn" /\ UnicodeUrl THEN "UnicodeEncodeError" ELSE "" IN
     Emit(<<[k |-> "reassign", exc |-> exc, chg |-> <<>>, sn |-> Sn(req)]>>)

SetHost(h) ==
  /\ Live /\ Step
  /\ LET r == Update([req EXCEPT !.h = h]) IN
     req' = r /\ Emit(<<[k |-> "sethost", hc |-> HC[h], h |-> h, exc |-> "", sn |-> Sn(r)]>>)

SetPort(p) ==
  /\ Live /\ Step
  /\ LET r == Update([req EXCEPT !.p = p]) IN
     req' = r /\ Emit(<<[k |-> "setport", p |-> p, exc |-> "", sn |-> Sn(r)]>>)

Next == \/ \E sh \in Shapes : NewReq(sh)
        \/ \E u \in Urls : SetUrl(u)
        \/ Reassign
        \/ \E h \in HostEdits : SetHost(h)
        \/ \E p \in PortEdits : SetPort(p)
Spec == Init /\ [][Next]_vars
Report == mon.bad # <<>> => PrintT(<<"BAD", mon.bad>>)
=============================================================================
