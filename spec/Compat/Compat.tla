------------------------------ MODULE Compat ------------------------------
(* Implementation-shaped model of mitmproxy.io.compat.migrate_flow + Flow.from_state behind FlowReader.stream (C38).

   Chain   : the version labels of the converter table, oldest first; Chain[Len(Chain)] is FLOW_FORMAT_VERSION
   Rules   : label -> [del, add, ren]: what converters[label] does to the key-presence facts of a state
             (del: facts removed; add: <<guard, fact>> added when guard = "" or guard is present;
              ren: <<a, b>> a renamed to b when present).  The field moves are DATA (props/C38.py), the loop is here:
       while True:  v = version;  if v == FLOW_FORMAT_VERSION: break
                    elif v in converters: data = converters[v](data)      -- Convert
                    else: raise ValueError("cannot read files with flow format version ...")   -- Reject
   Files   : the input files: [src, recs], recs a sequence of [ver, t, step, shape]
   FromState mirrors Flow.from_state/set_state: unknown type -> ValueError; a key the flow class does not consume
   -> `assert state == {}` -> AssertionError (NotConsumed).  Handlers as in FlowReader.stream (InnerMapped/OuterMapped). *)
EXTENDS Mon_Compat, TLC
CONSTANTS Chain,        \* sequence of version labels
          Rules,        \* sequence aligned with Chain: Rules[i] is what converters[Chain[i]] does (i < Len(Chain))
          Files,        \* sequence of input files
          NotConsumed,  \* flow type -> top-level facts the flow class does not consume
          InnerMapped, OuterMapped
VARIABLES file, ri, ver, shape, phase, fail, mon, obs
vars == <<file, ri, ver, shape, phase, fail, mon, obs>>

Current == Chain[Len(Chain)]
Supported == { Chain[i] : i \in 1..(Len(Chain) - 1) }
NextLabel(v) == Chain[IndexOf(Chain, v) + 1]
NoFile == [src |-> "none", recs |-> <<>>]

Init == /\ file = NoFile /\ ri = 0 /\ ver = "" /\ shape = {} /\ phase = "idle" /\ fail = <<>>
        /\ mon = MonInit /\ obs = <<>>
Emit(evs) == obs' = evs /\ mon' = FoldEvents(MonStep, mon, evs)
Live == mon.bad = <<>>

RuleOf(v) == Rules[IndexOf(Chain, v)]
NotConsumedOf(t) == IF t \in DOMAIN NotConsumed THEN NotConsumed[t] ELSE {}

Apply(r, S) ==
  LET afterDel == S \ r.del
      renamed == (afterDel \ { p[1] : p \in { q \in r.ren : q[1] \in afterDel } })
                 \cup { p[2] : p \in { q \in r.ren : q[1] \in afterDel } }
  IN renamed \cup { p[2] : p \in { q \in r.add : q[1] = "" \/ q[1] \in renamed } }

\* records of a file: the `input` event, and for current-format files the identity check of migrate_flow
InputEvs(src, rec, i) ==
  <<[k |-> "input", src |-> src, ver |-> rec.ver, t |-> rec.t, step |-> rec.step, shape |-> rec.shape]>>
  \o (IF src = "current" THEN <<[k |-> "migrated", a |-> i, b |-> i]>> ELSE <<>>)

\* open a file / tnetstring.load of the next record
Open(fi) ==
  /\ Live /\ phase = "idle" /\ file = NoFile
  /\ LET f == Files[fi] IN
     /\ file' = f /\ ri' = 1 /\ ver' = f.recs[1].ver /\ shape' = ToSet(f.recs[1].shape) /\ phase' = "migrating"
     /\ Emit(InputEvs(f.src, f.recs[1], 1))
  /\ UNCHANGED fail

\* converters[v](data)
Convert ==
  /\ Live /\ phase = "migrating" /\ fail = <<>> /\ ri <= Len(file.recs) /\ ver \in Supported
  /\ LET s2 == Apply(RuleOf(ver), shape) IN
     /\ shape' = s2 /\ ver' = NextLabel(ver)
     /\ Emit(IF file.recs[ri].step
             THEN <<[k |-> "step", from |-> ver, to |-> NextLabel(ver), shape |-> s2]>> ELSE <<>>)
  /\ UNCHANGED <<file, ri, phase, fail>>

\* version not in the table: ValueError inside the inner try
Reject ==
  /\ Live /\ phase = "migrating" /\ fail = <<>> /\ ri <= Len(file.recs) /\ ver # Current /\ ver \notin Supported
  /\ fail' = <<"convert", "ValueError">>
  /\ UNCHANGED <<file, ri, ver, shape, phase>>
  /\ Emit(<<>>)

\* Flow.from_state(state) at the current version; then the next record, if any
FromState ==
  /\ Live /\ phase = "migrating" /\ fail = <<>> /\ ri <= Len(file.recs) /\ ver = Current
  /\ LET t == file.recs[ri].t
         extra == shape \cap NotConsumedOf(t)
     IN IF extra # {} THEN /\ fail' = <<"convert", "AssertionError">> /\ UNCHANGED <<ri, ver, shape>> /\ Emit(<<>>)
        ELSE IF ri < Len(file.recs)
             THEN /\ ri' = ri + 1 /\ ver' = file.recs[ri + 1].ver /\ shape' = ToSet(file.recs[ri + 1].shape)
                  /\ UNCHANGED fail
                  /\ Emit(InputEvs(file.src, file.recs[ri + 1], ri + 1))
             ELSE /\ ri' = ri + 1 /\ UNCHANGED <<ver, shape, fail>> /\ Emit(<<>>)
  /\ UNCHANGED <<file, phase>>

Maps(S, e) == "*" \in S \/ e \in S
Handle(stage, exc) == IF stage = "convert" /\ Maps(InnerMapped, exc) THEN "fre"
                      ELSE IF Maps(OuterMapped, exc) THEN "fre" ELSE "other"

\* the consumer of FlowReader.stream() sees the end of the iteration
Loaded ==
  /\ Live /\ phase = "migrating" /\ (fail # <<>> \/ ri > Len(file.recs))
  /\ phase' = IF fail = <<>> THEN "loaded" ELSE "done"
  /\ UNCHANGED <<file, ri, ver, shape, fail>>
  /\ LET end == IF fail = <<>> THEN "clean" ELSE Handle(fail[1], fail[2])
         n == IF fail = <<>> THEN Len(file.recs) ELSE ri - 1
         ids == [i \in 1..Len(file.recs) |-> i]
     IN Emit(<<[k |-> "loaded", end |-> end, n |-> n, cur |-> TRUE,
                exc |-> IF end = "clean" THEN "" ELSE IF end = "fre" THEN "FlowReadException" ELSE fail[2],
                explains |-> end = "fre" /\ fail[2] = "ValueError" /\ ver \notin Supported]>>
             \o (IF end = "clean" THEN <<[k |-> "content", a |-> ids, b |-> ids]>> ELSE <<>>))   \* converters keep content

\* FlowWriter.add of every loaded flow, FlowReader again: current states migrate by identity
Resave ==
  /\ Live /\ phase = "loaded"
  /\ phase' = "done"
  /\ UNCHANGED <<file, ri, ver, shape, fail>>
  /\ LET ids == [i \in 1..Len(file.recs) |-> i] IN
     Emit(<<[k |-> "resaved", a |-> ids, b |-> ids, end |-> "clean"]>>)

Next == \/ \E fi \in 1..Len(Files) : Open(fi)
        \/ Convert \/ Reject \/ FromState \/ Loaded \/ Resave
Spec == Init /\ [][Next]_vars
Report == mon.bad # <<>> => PrintT(<<"BAD", mon.bad>>)
=============================================================================
