---------------------------- MODULE Mon_Compat ----------------------------
(* Monitor for C38: flows from older mitmproxy versions load correctly.

   One trace = one flow file.  Event records (projected by props/C38.py):
     [k |-> "input", src |-> "dump" | "synthetic" | "current" | "future" | "unsupported",
                     ver |-> version label ("0.11" .. "3.0", "4" .. current, or e.g. "22"), t |-> flow type,
                     step |-> BOOLEAN, shape |-> <<facts>>]       one record of the file (before loading)
     [k |-> "step", from |-> label, to |-> label, shape |-> <<facts>>]   one converter applied (observation only)
     [k |-> "migrated", a |-> state id, b |-> state id]   compat.migrate_flow(state) on a current-format state
     [k |-> "loaded", end |-> "clean" | "fre" | "other", exc |-> class name, n |-> flows yielded,
                      cur |-> BOOLEAN (every yielded flow reports the current format version),
                      explains |-> BOOLEAN (the error text names the offending version)]   FlowReader.stream()
     [k |-> "content", a |-> <<content ids of the records, by an independent reading of the file>>,
                       b |-> <<content ids of the loaded flows>>]      (record i <-> flow i; only after a clean load)
     [k |-> "resaved", a |-> <<state ids after load>>, b |-> <<state ids after save + load>>, end |-> as above]
   Clauses (only what the statement says):
     old_version_not_loaded   a file of a supported older version loads cleanly into >= 1 current flows
     old_content_lost         ... and flow i carries the content an independent reading of record i gives (request /
                              response / messages; for WebSocket records: every message, close code, closing side)
     current_state_changed    migration is the identity on current-format states
     resave_not_fixpoint      saving the migrated flows and loading them again reproduces the same states
     future_version_*         newer, unknown versions are rejected with FlowReadException naming the version   *)
EXTENDS Verif

MonInit == [bad |-> <<>>, wit |-> {}, src |-> "none", ver |-> "", ts |-> <<>>]
\* signature feature: the type of the record the reader stopped at (the one after the n flows it yielded)
TypeAt(m, n) == IF n + 1 <= Len(m.ts) THEN m.ts[n + 1] ELSE m.ts[Len(m.ts)]

LoadedClause(m, ev) ==
  IF m.src \in {"dump", "synthetic", "current"} THEN
       IF ev.end # "clean" THEN <<"C38.old_version_not_loaded", TypeAt(m, ev.n), ev.exc>>
       ELSE IF ev.n = 0 THEN <<"C38.old_version_not_loaded", TypeAt(m, 0), "no flows">>
       ELSE IF ~ev.cur THEN <<"C38.old_version_not_loaded", TypeAt(m, 0), "not current">>
       ELSE <<>>
  ELSE IF m.src = "future" THEN
       IF ev.end = "clean" THEN <<"C38.future_version_accepted">>
       ELSE IF ev.end = "other" THEN <<"C38.future_version_other_exception", ev.exc>>
       ELSE IF ~ev.explains THEN <<"C38.future_error_not_explanatory">>
       ELSE <<>>
  ELSE <<>>

MonStep(m, ev) ==
  IF ev.k = "input" THEN
     [m EXCEPT !.src = ev.src, !.ver = ev.ver, !.ts = Append(@, ev.t), !.wit = @ \cup {ev.src, ev.ver, ev.t}]
  ELSE IF ev.k = "step" THEN
     [m EXCEPT !.wit = @ \cup {ev.from}]
  ELSE IF ev.k = "migrated" THEN
     [m EXCEPT !.bad = IF m.src = "current" /\ ev.a # ev.b THEN <<"C38.current_state_changed", m.ts[Len(m.ts)]>> ELSE <<>>,
               !.wit = @ \cup {"migrate_identity"}]
  ELSE IF ev.k = "loaded" THEN
     [m EXCEPT !.bad = LoadedClause(m, ev),
               !.wit = @ \cup (IF ev.end = "clean" THEN {"loaded_clean"} ELSE {"rejected"})]
  ELSE IF ev.k = "content" THEN
     [m EXCEPT !.bad = IF m.src \in {"dump", "synthetic", "current"} /\ Len(ev.a) = Len(ev.b) /\ ev.a # ev.b
                       THEN <<"C38.old_content_lost",
                              m.ts[CHOOSE i \in 1..Len(ev.a) : ev.a[i] # ev.b[i] /\ \A j \in 1..(i - 1) : ev.a[j] = ev.b[j]]>>
                       ELSE <<>>,
               !.wit = @ \cup {"content_compared"}
                         \cup (IF "websocket" \in ToSet(m.ts) /\ Len(ev.a) = Len(ev.b) THEN {"old_websocket_content"} ELSE {})]
  ELSE IF ev.k = "resaved" THEN
     [m EXCEPT !.bad = IF m.src \in {"dump", "synthetic", "current"} /\ (ev.end # "clean" \/ ev.a # ev.b)
                       THEN <<"C38.resave_not_fixpoint", m.ts[1]>> ELSE <<>>,
               !.wit = @ \cup {"resaved"}]
  ELSE m
Wit(m) == m.wit
=============================================================================
