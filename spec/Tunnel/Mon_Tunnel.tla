----------------------------- MODULE Mon_Tunnel -----------------------------
(* X05 (coverage extension, not one of the 54 given properties): a tunnel layer hides a tunnelling handshake from
   the layer below it; HttpUpstreamProxy is the tunnel whose handshake is an HTTP CONNECT exchange.

   Statement judged here.  Sources: the docstrings of mitmproxy/proxy/tunnel.py ("A specialized layer that
   simplifies the implementation of tunneling protocols"; tunnel_connection = the outer connection which provides
   the tunnel protocol I/O, conn = the inner connection which provides data I/O; "If the connection already exists
   when we receive the start event, we buffer commands until we have established the tunnel"; on_handshake_error is
   "Called if either receive_handshake_data returns an error or we receive a close during handshake" and closes the
   tunnel connection), the Layer docstring (err = yield OpenConnection(server): execution continues after the
   connection has been established), the HttpConnectUpstreamHook docstring ("An HTTP CONNECT request is about to be
   sent to an upstream proxy ... can be used to set custom authentication headers"), the help text of
   http_connect_send_host_header ("Include host header with CONNECT requests") and of upstream_auth, RFC 9110 9.3.6
   (any 2xx answer to CONNECT switches to tunnel mode right after the header section; anything else is a refusal).
     S1  While the handshake of a tunnel whose connection existed at Start is in progress, the layer below sees no
         event; afterwards it sees every event exactly once, in arrival order (Start first).
     S2  OpenConnection for the inner connection is answered exactly once and only after the handshake ended:
         without error iff the tunnel connection could be opened and the handshake succeeded, and the inner
         connection then reads open (closed after a failure).
     S3  A handshake that fails (refusal, unparsable answer, connection closed during the handshake) ends with the
         tunnel connection closed by mitmproxy.
     S4  Once the tunnel is open it is transparent: what the peer sends after the handshake reaches the layer below
         as data of the inner connection, unaltered, in order, exactly once, and nothing of the handshake does; the
         peer's close is forwarded once, after the data that preceded it (the ConnectionClosed that follows mitmproxy's
         own close may be forwarded too, at most once); SendData / CloseConnection / half-close
         of the inner connection come out as the same command for the tunnel connection, in order, exactly once;
         commands for other connections pass unchanged; nothing else is written to or closes the tunnel connection.
     S5  HTTP CONNECT: the http_connect_upstream hook fires once per handshake, before the request; the request is
         sent only after the hook completed and is a well-formed "CONNECT host:port HTTP/1.1" head (IPv6 literal in
         brackets), with a Host header iff http_connect_send_host_header, carrying the Proxy-Authorization header
         the hook set (none if it set none); the verdict (2xx: open, bytes after the blank line are tunnel data;
         else: failure) depends on the bytes received, not on how they were segmented.
   Everything else the model knows (error texts, state bits after a close, which queue holds an event) is prediction.

   Event records (props/X05.py):
     [k |-> "cfg", kind |-> "plain"|"http", mode |-> "start"|"start_half"|"command", same, react, hosthdr, auth]
        (start: the tunnel connection is open at Start; start_half: it is open but the peer's EOF has been read already)
     [k |-> "in", what |-> "start" | "cdata"(id, op) | "cclose" | "open_done"(ok) | "hook_done"
                         | "tdata"(hb, pay, hs) | "tclose"(echo)]        environment -> tunnel layer
        tdata: hb = the segment holds bytes of the response head, pay = bytes after the head, hs = what the peer's
        answer amounts to once this segment is in: "na" (no head bytes), "more", "ok", "refused", "malformed"
        (ground truth: the harness's peer wrote the answer).
     [k |-> "c", ev |-> "start"(st) | "cdata"(id, op, did) | "cclose" | "tdata"(off, n) | "tclose"(re) | "reply"(ok, st, why)
                       | "xdata" | "xclose" | "other"]                  the layer below handles an event
     [k |-> "out", what |-> "open" | "hook" | "connect"(wf, tgt, host, auth) | "send"(c, id) | "close"(c, half)]
     [k |-> "raised", exc]   [k |-> "end"]                                                                     *)
EXTENDS Verif

NoCfg == [kind |-> "", mode |-> "", same |-> FALSE, react |-> FALSE, hosthdr |-> FALSE, auth |-> FALSE]
MonInit == [bad |-> <<>>, wit |-> {}, cfg |-> NoCfg,
            hs |-> "none",       \* handshake as the statement sees it: none | opening | pre | await | ok | failed
            cause |-> "",        \* open_failed | refused | malformed | closed
            hk |-> "idle",       \* CONNECT exchange of this handshake: idle | due | fired | done | sent
            openwait |-> FALSE, hookwait |-> FALSE,   \* blocking commands of the tunnel layer itself
            cwait |-> FALSE,     \* the layer below waits for the answer to OpenConnection
            pend |-> <<>>,       \* events for the layer below that it has not handled yet: <<kind, id, flag>>
            owed |-> <<>>,       \* what the commands of the layer below must come out as
            dl |-> 0, rx |-> 0,  \* tunnel payload bytes handed to mitmproxy / handled by the layer below
            pclose |-> "no",     \* close of the open tunnel delivered, to be forwarded: no | must (peer) | may (echo of an own close)
            fclosed |-> FALSE,   \* the failure of this handshake was followed by a close command
            peerfin |-> FALSE, half |-> FALSE, echo |-> FALSE]

Busy(m) == m.openwait \/ m.hookwait
InHs(m) == m.hs \in {"opening", "pre", "await"}
Held(m) == Busy(m) \/ InHs(m)

\* obligations that must be met whenever the environment acts next (everything synchronous has run by then)
Quiet(m) ==
  IF m.owed # <<>> THEN <<"X05.child_command_lost", Head(m.owed).what>>
  ELSE IF Busy(m) THEN <<>>
  ELSE IF m.hk = "due" THEN <<"X05.hook_not_fired">>
  ELSE IF m.hk = "done" THEN <<"X05.connect_not_sent">>
  ELSE IF m.cwait /\ m.hs \in {"ok", "failed"} THEN <<"X05.open_reply_missing", m.hs, m.cause>>
  ELSE IF m.hs = "failed" /\ m.cause # "open_failed" /\ ~m.fclosed THEN <<"X05.failed_handshake_not_closed", m.cause>>
  ELSE IF Held(m) \/ m.cwait THEN <<>>
  ELSE IF m.pend # <<>> THEN <<"X05.event_delayed_or_lost", Head(m.pend)[1]>>
  ELSE IF m.hs = "ok" /\ m.rx < m.dl THEN <<"X05.tunnel_data_lost">>
  ELSE IF m.pclose = "must" THEN <<"X05.close_not_forwarded">>
  ELSE <<>>

PendFlag(m) == IF m.hs \in {"pre", "await"} /\ ~m.cwait THEN "buffered"
               ELSE IF m.cwait THEN "during_open" ELSE IF Busy(m) THEN "busy" ELSE ""

\* ---- environment -> tunnel
In(m, ev) ==
  LET q == Quiet(m)
      m0 == [m EXCEPT !.bad = q] IN
  IF q # <<>> THEN m0 ELSE
  CASE ev.what = "start" ->
         LET m1 == [m0 EXCEPT !.pend = Append(@, <<"start", 0, IF m.cfg.mode # "command" /\ m.cfg.kind = "http" THEN "buffered" ELSE "">>)] IN
         IF m.cfg.mode # "command"
         THEN (IF m.cfg.kind = "http" THEN [m1 EXCEPT !.hs = "pre", !.hk = "due"] ELSE [m1 EXCEPT !.hs = "ok"])
         ELSE m1
    [] ev.what = "cdata" ->
         [m0 EXCEPT !.pend = Append(@, <<"cdata", ev.id, PendFlag(m)>>),
                    !.wit = @ \cup (IF m.hookwait THEN {"arrive_during_hook"} ELSE {})
                               \cup (IF m.openwait THEN {"arrive_while_opening"} ELSE {})]
    [] ev.what = "cclose" -> [m0 EXCEPT !.pend = Append(@, <<"cclose", 0, PendFlag(m)>>)]
    [] ev.what = "open_done" ->
         IF ~m.openwait THEN [m0 EXCEPT !.bad = <<"X05.env_protocol", "open_done">>]
         ELSE IF ~ev.ok THEN [m0 EXCEPT !.openwait = FALSE, !.hs = "failed", !.cause = "open_failed"]
         ELSE IF m.cfg.kind = "http" THEN [m0 EXCEPT !.openwait = FALSE, !.hs = "pre", !.hk = "due"]
         ELSE [m0 EXCEPT !.openwait = FALSE, !.hs = "ok"]
    [] ev.what = "hook_done" ->
         IF ~m.hookwait THEN [m0 EXCEPT !.bad = <<"X05.env_protocol", "hook_done">>]
         ELSE [m0 EXCEPT !.hookwait = FALSE, !.hk = "done"]
    [] ev.what = "tdata" ->
         IF ev.hb
         THEN (IF m.hs # "await" THEN [m0 EXCEPT !.bad = <<"X05.env_protocol", "answer_unasked">>]
               ELSE IF ev.hs = "more" THEN [m0 EXCEPT !.wit = @ \cup {"head_split"}]
               ELSE IF ev.hs = "ok" THEN [m0 EXCEPT !.hs = "ok", !.dl = @ + ev.pay,
                                                    !.wit = @ \cup (IF ev.pay > 0 THEN {"early_data"} ELSE {"head_alone"})]
               ELSE [m0 EXCEPT !.hs = "failed", !.cause = ev.hs,
                               !.wit = @ \cup (IF ev.pay > 0 THEN {"refusal_with_body"} ELSE {})])
         ELSE IF m.hs = "ok" THEN [m0 EXCEPT !.dl = @ + ev.pay,
                                             !.wit = @ \cup (IF m.half THEN {"data_after_half_close"} ELSE {})]
         ELSE m0
    [] ev.what = "tclose" ->
         LET m1 == [m0 EXCEPT !.peerfin = ~ev.echo, !.echo = ev.echo,
                              !.wit = @ \cup (IF m.hookwait THEN {"close_during_hook"} ELSE {})] IN
         IF m.hs \in {"pre", "await"} THEN [m1 EXCEPT !.hs = "failed", !.cause = "closed"]
         ELSE IF m.hs = "ok" /\ m.pclose = "no" THEN [m1 EXCEPT !.pclose = IF ev.echo THEN "may" ELSE "must"]
         ELSE m1
    [] OTHER -> m0

\* ---- the layer below handles an event
Pop(m, kind, id) ==
  IF m.pend = <<>> THEN [m EXCEPT !.bad = <<"X05.event_invented", kind>>]
  ELSE IF Head(m.pend)[1] # kind \/ Head(m.pend)[2] # id THEN [m EXCEPT !.bad = <<"X05.event_reordered", kind>>]
  ELSE [m EXCEPT !.pend = Tail(@),
                 !.wit = @ \cup (IF Head(m.pend)[3] = "buffered" THEN {"buffered_event_delivered"}
                                 ELSE IF Head(m.pend)[3] = "during_open" THEN {"event_queued_during_open"} ELSE {})]
Owe(m, r) == [m EXCEPT !.owed = Append(@, r)]
OSend(c, id) == [what |-> "send", c |-> c, id |-> id, half |-> FALSE]
OClose(c, half) == [what |-> "close", c |-> c, id |-> 0, half |-> half]
OOpen == [what |-> "open", c |-> "tunnel", id |-> 0, half |-> FALSE]

ChildCmd(m, m1, ev) ==
  CASE ev.op = "send" -> [Owe(m1, OSend("tunnel", ev.id)) EXCEPT !.wit = @ \cup (IF m.peerfin THEN {"send_after_peer_close"} ELSE {})]
    [] ev.op = "close" -> Owe(m1, OClose("tunnel", FALSE))
    [] ev.op = "half" -> [Owe(m1, OClose("tunnel", TRUE)) EXCEPT !.half = TRUE]
    [] ev.op = "echo" -> Owe(m1, OSend("client", ev.id))
    [] ev.op = "open" ->
         [Owe(m1, OOpen) EXCEPT !.cwait = TRUE, !.hs = "opening", !.cause = "", !.hk = "idle", !.fclosed = FALSE,
                               !.pclose = "no", !.peerfin = FALSE, !.half = FALSE, !.echo = FALSE,
                               !.wit = @ \cup (IF m.hs # "none" THEN {"reopen"} ELSE {})]
    [] OTHER -> m1

Child(m, ev) ==
  IF ev.ev \in {"xdata", "xclose", "other"} THEN [m EXCEPT !.bad = <<"X05.tunnel_event_leaked", ev.ev>>]
  ELSE IF ev.ev # "reply" /\ m.hs \in {"pre", "await"} /\ ~m.cwait
       THEN [m EXCEPT !.bad = <<"X05.child_event_during_handshake", ev.ev>>]
  ELSE
  CASE ev.ev = "start" ->
         LET m1 == Pop(m, "start", 0) IN
         [m1 EXCEPT !.wit = @ \cup (IF m.hs = "failed" THEN {"start_after_failed_handshake"} ELSE {})]
    [] ev.ev = "cdata" ->
         LET m1 == Pop(m, "cdata", ev.id) IN
         IF m1.bad # <<>> \/ ~ev.did THEN m1 ELSE ChildCmd(m, m1, ev)
    [] ev.ev = "cclose" -> Owe(Pop(m, "cclose", 0), OClose("client", FALSE))
    [] ev.ev = "tdata" ->
         IF m.hs # "ok" THEN [m EXCEPT !.bad = <<"X05.data_without_open_tunnel", m.hs>>]
         ELSE IF ev.off < 0 THEN [m EXCEPT !.bad = <<"X05.tunnel_data_mismatch", "altered">>]
         ELSE IF ev.off < m.rx THEN [m EXCEPT !.bad = <<"X05.tunnel_data_mismatch", "duplicate">>]
         ELSE IF ev.off > m.rx THEN [m EXCEPT !.bad = <<"X05.tunnel_data_mismatch", "gap">>]
         ELSE IF ev.off + ev.n > m.dl THEN [m EXCEPT !.bad = <<"X05.tunnel_data_mismatch", "invented">>]
         ELSE [m EXCEPT !.rx = @ + ev.n, !.wit = @ \cup {"tunnel_data"}]
    [] ev.ev = "tclose" ->
         IF m.pclose \notin {"must", "may"} THEN [m EXCEPT !.bad = <<"X05.spurious_close", m.hs>>]
         ELSE IF m.rx < m.dl THEN [m EXCEPT !.bad = <<"X05.close_before_preceding_data">>]
         ELSE LET m1 == [m EXCEPT !.pclose = "done",
                                  !.wit = @ \cup (IF m.echo THEN {"echo_close_forwarded"} ELSE {"peer_close_forwarded"})] IN
              IF Get(ev, "re", FALSE) THEN Owe(m1, OClose("tunnel", FALSE)) ELSE m1
    [] ev.ev = "reply" ->
         IF ~m.cwait THEN [m EXCEPT !.bad = <<"X05.reply_unasked">>]
         ELSE IF m.hs \notin {"ok", "failed"} THEN [m EXCEPT !.bad = <<"X05.reply_before_handshake_done", m.hs>>]
         ELSE IF ev.ok # (m.hs = "ok") THEN [m EXCEPT !.bad = <<"X05.wrong_reply", m.hs, m.cause>>]
         ELSE IF ev.st # (IF ev.ok THEN "open" ELSE "closed") THEN [m EXCEPT !.bad = <<"X05.reply_state_mismatch", m.hs, ev.st>>]
         ELSE [m EXCEPT !.cwait = FALSE,
                        !.wit = @ \cup {IF ev.ok THEN "reply_ok" ELSE "reply_" \o m.cause}]
    [] OTHER -> m

\* ---- a command reaches the environment
Connect(m, ev) ==
  IF m.hk # "done" THEN <<"X05.connect_unexpected", m.hk>>
  ELSE IF ~ev.wf THEN <<"X05.connect_request", "malformed">>
  ELSE IF ev.tgt # 1 THEN <<"X05.connect_request", "target">>
  ELSE IF ev.host # (IF m.cfg.hosthdr THEN "ok" ELSE "none") THEN <<"X05.connect_request", "host">>
  ELSE IF ev.auth # (IF m.cfg.auth THEN "ok" ELSE "none") THEN <<"X05.connect_request", "auth">>
  ELSE <<>>

Outp(m, ev) ==
  IF Get(ev, "c", "tunnel") \notin {"tunnel", "client"} THEN [m EXCEPT !.bad = <<"X05.inner_command_leaked", ev.what>>]
  ELSE
  CASE ev.what = "open" ->
         IF m.owed # <<>> /\ Head(m.owed).what = "open" THEN [m EXCEPT !.owed = Tail(@), !.openwait = TRUE]
         ELSE [m EXCEPT !.bad = <<"X05.unexpected_open">>]
    [] ev.what = "hook" ->
         IF m.hk = "due" /\ m.owed = <<>> THEN [m EXCEPT !.hk = "fired", !.hookwait = TRUE]
         ELSE [m EXCEPT !.bad = <<"X05.unexpected_hook", m.hk>>]
    [] ev.what = "connect" ->
         LET b == Connect(m, ev) IN
         IF b # <<>> THEN [m EXCEPT !.bad = b]
         ELSE [m EXCEPT !.hk = "sent", !.hs = IF @ = "pre" THEN "await" ELSE @,
                        !.wit = @ \cup {IF m.cfg.auth THEN "connect_auth" ELSE "connect_noauth",
                                        IF m.cfg.hosthdr THEN "connect_host" ELSE "connect_nohost"}]
    [] ev.what \in {"send", "close"} ->
         LET r == [what |-> ev.what, c |-> ev.c, id |-> Get(ev, "id", 0), half |-> Get(ev, "half", FALSE)] IN
         IF m.owed # <<>> /\ Head(m.owed) = r
         THEN [m EXCEPT !.owed = Tail(@),
                        !.wit = @ \cup {IF ev.c = "client" THEN "passthrough_" \o ev.what
                                        ELSE IF ev.what = "send" THEN "child_send"
                                        ELSE IF r.half THEN "child_half_close" ELSE "child_close"}]
         ELSE IF ev.what = "close" /\ ev.c = "tunnel" /\ ~r.half /\ m.owed = <<>>
                 /\ m.hs = "failed" /\ m.cause # "open_failed" /\ ~m.fclosed
         THEN [m EXCEPT !.fclosed = TRUE, !.wit = @ \cup {"failure_closed"}]
         ELSE IF m.owed # <<>> THEN [m EXCEPT !.bad = <<"X05.child_command_altered", Head(m.owed).what, ev.what>>]
         ELSE [m EXCEPT !.bad = <<"X05.unexpected_" \o ev.what, ev.c>>]
    [] OTHER -> [m EXCEPT !.bad = <<"X05.unexpected_command", ev.what>>]

MonStep(m, ev) ==
  IF m.bad # <<>> THEN m ELSE
  CASE ev.k = "cfg" -> [m EXCEPT !.cfg = [kind |-> ev.kind, mode |-> ev.mode, same |-> ev.same, react |-> ev.react,
                                          hosthdr |-> ev.hosthdr, auth |-> ev.auth]]
    [] ev.k = "in" -> In(m, ev)
    [] ev.k = "c" -> Child(m, ev)
    [] ev.k = "out" -> Outp(m, ev)
    [] ev.k = "raised" -> [m EXCEPT !.bad = <<"X05.layer_raised", ev.exc>>]
    [] ev.k = "end" -> [m EXCEPT !.bad = Quiet(m)]
    [] OTHER -> m

Wit(m) == m.wit
=============================================================================
