------------------------------- MODULE Tunnel -------------------------------
(* Implementation-shaped model of mitmproxy.proxy.tunnel.TunnelLayer (base class = kind "plain", trivial
   handshake) and mitmproxy.proxy.layers.http._upstream_proxy.HttpUpstreamProxy (kind "http", send_connect) above a
   layer that obeys client messages (props/X05.py::Child), inside the environment of mitmproxy.proxy.server
   (transports, close_connection, the ConnectionClosed a cancelled reader still delivers).

   One action per event the environment feeds to Layer.handle_event (Start, client data/close, tunnel data/close,
   OpenConnectionCompleted, HookCompleted) plus the peer's own steps (PeerRespond/PeerWrite/PeerClose, invisible to
   mitmproxy).  The methods of the code are the operators below; the whole layer state is the record s:
     ts   tunnel_state            rep  command_to_reply_to is set      eq  _event_queue
     tp   what the tunnel layer's generator is paused on (Layer._paused): none | open | hook;  stack: its continuation
     tq   the tunnel layer's _paused_event_queue       cq  the child's _paused_event_queue, cwait: child paused
     buf  response-head units in HttpUpstreamProxy.buf  tc/cc  state bits of tunnel_connection / conn
     net  what the peer has written and mitmproxy not yet read: "h1","h2" (head halves), "p" (PU payload bytes), "fin" *)
EXTENDS Mon_Tunnel, TLC
CONSTANTS Cfgs,        \* configurations: a sequence of records like the cfg event without k
          Ops,         \* client messages the environment may send
          Rks,         \* answers of the proxy peer: subset of {"ok","refused","malformed"}
          MaxClient, MaxPeer, MaxOpens, MaxCut,
          CClose,      \* may the client close (one more pass-through event)
          ReopenHttp   \* FALSE: an HttpUpstreamProxy instance performs one handshake (as in mitmproxy); TRUE: exploration
VARIABLES s, mon, obs
vars == <<s, mon, obs>>
PU == 7

O(st, r) == [st EXCEPT !.out = Append(@, r)]
Inner(st) == IF st.cfg.same THEN [r |-> st.tc.r, w |-> st.tc.w] ELSE st.cc
StName(c) == IF c.r /\ c.w THEN "open" ELSE IF c.r THEN "r" ELSE IF c.w THEN "w" ELSE "closed"
SetInner(st, b) == IF st.cfg.same THEN st ELSE [st EXCEPT !.cc = [r |-> b, w |-> b]]
HeadUnits(u) == Len(SelectSeq(u, LAMBDA x : x \in {"h1", "h2"}))
PayBytes(u) == PU * Len(SelectSeq(u, LAMBDA x : x = "p"))
OutClose(c, half) == [k |-> "out", what |-> "close", c |-> c, half |-> half]

\* server.py close_connection (+ handle_connection after the reader task was cancelled)
DrvClose(st, half) ==
  IF ~st.tc.reg \/ (half /\ ~st.tc.w) THEN st
  ELSE LET t1 == IF half THEN [st.tc EXCEPT !.w = FALSE] ELSE [st.tc EXCEPT !.r = FALSE, !.w = FALSE] IN
       IF t1.r \/ t1.w THEN [st EXCEPT !.tc = t1]
       ELSE IF t1.reading THEN [st EXCEPT !.tc = [t1 EXCEPT !.reading = FALSE, !.echo = TRUE], !.net = <<>>]
       ELSE IF t1.echo THEN [st EXCEPT !.tc = t1]
       ELSE [st EXCEPT !.tc = [t1 EXCEPT !.dying = TRUE]]      \* the task unregisters it once it runs again

\* TunnelLayer._handle_command for commands of the inner connection
CmdSend(st, id) == O(st, [k |-> "out", what |-> "send", c |-> "tunnel", id |-> id])
CmdClose(st, half) ==
  LET s1 == IF st.cfg.same THEN st ELSE [st EXCEPT !.cc.w = FALSE] IN
  DrvClose(O(s1, OutClose("tunnel", half)), half)
\* ... OpenConnection: command_to_reply_to, ESTABLISHING, then the generator blocks in  err = yield OpenConnection(tunnel_connection)
\* (everything still on the stack is the suspended continuation)
CmdOpen(st) ==
  [O(st, [k |-> "out", what |-> "open", c |-> "tunnel"])
     EXCEPT !.rep = TRUE, !.ts = "establishing", !.tp = "open", !.tc.reg = TRUE,
            !.nested = @ \/ \E i \in 1..Len(st.stack) : st.stack[i].t \notin {"drainT", "drainC"}]

\* props/X05.py::Child._handle_event
ChildOp(st, ev) ==
  LET rec(did) == [k |-> "c", ev |-> "cdata", id |-> ev.id, op |-> ev.op, did |-> did] IN
  CASE ev.op = "open" ->
         LET can == ~st.cw /\ ~st.cr /\ ~st.tc.reg /\ (st.cfg.kind # "http" \/ st.hsn = 0 \/ ReopenHttp) IN
         IF can THEN CmdOpen([O(st, rec(TRUE)) EXCEPT !.cwait = TRUE]) ELSE O(st, rec(FALSE))
    [] ev.op = "send" -> IF st.cw THEN CmdSend(O(st, rec(TRUE)), ev.id) ELSE O(st, rec(FALSE))
    [] ev.op = "close" -> IF st.cw \/ st.cr THEN CmdClose([O(st, rec(TRUE)) EXCEPT !.cw = FALSE, !.cr = FALSE], FALSE)
                          ELSE O(st, rec(FALSE))
    [] ev.op = "half" -> IF st.cw THEN CmdClose([O(st, rec(TRUE)) EXCEPT !.cw = FALSE], TRUE) ELSE O(st, rec(FALSE))
    [] OTHER -> O(O(st, rec(TRUE)), [k |-> "out", what |-> "send", c |-> "client", id |-> ev.id])
ChildRun(st, ev) ==
  CASE ev.t = "start" -> [O(st, [k |-> "c", ev |-> "start", st |-> StName(Inner(st))]) EXCEPT !.cw = Inner(st).w, !.cr = Inner(st).r]
    [] ev.t = "cdata" -> ChildOp(st, ev)
    [] ev.t = "cclose" -> O(O(st, [k |-> "c", ev |-> "cclose"]), OutClose("client", FALSE))
    [] ev.t = "ctdata" -> O(st, [k |-> "c", ev |-> "tdata", off |-> ev.off, n |-> ev.n])
    [] ev.t = "ctclose" ->
         LET re == st.cfg.react /\ st.cw
             s1 == [O(st, [k |-> "c", ev |-> "tclose", re |-> re]) EXCEPT !.cr = FALSE] IN
         IF re THEN CmdClose([s1 EXCEPT !.cw = FALSE], FALSE) ELSE s1
    [] OTHER -> st

(* The generators of the two layers as an explicit machine: st.stack holds what is still to be done, innermost first
   (a task = a call that has not run yet or the rest of a method after a yield from).  A blocking command of the tunnel
   layer (tp # "none") freezes the stack; OpenDone / HookDone resume it.
     top(ev)    Layer.handle_event of the tunnel layer            th(ev)    TunnelLayer._handle_event
     drainT     Layer.__continue: replay _paused_event_queue      sh        start_handshake
     hsdata(u)  DataReceived while ESTABLISHING: receive_handshake_data + the done/err branches
     hsfin(err) _handshake_finished     clearrep / cleareq: its last statements     setts(v): tunnel_state = v
     etc(ev)    event_to_child + Layer.handle_event of the child  cr(ev)    Child._handle_event
     drainC     Layer.__continue of the child                     setinner(b)                                   *)
Push(st, tasks) == [st EXCEPT !.stack = tasks \o @]
T(t) == [t |-> t]
Why(err) == IF err = "" THEN "none" ELSE IF err = "refused" THEN "refused_code" ELSE err
Exec(st, k) ==
  CASE k.t = "top" -> IF st.tp # "none" THEN [st EXCEPT !.tq = Append(@, k.ev)]
                      ELSE Push(st, <<[t |-> "th", ev |-> k.ev], T("drainT")>>)
    [] k.t = "drainT" -> IF st.tq = <<>> THEN st
                         ELSE Push([st EXCEPT !.tq = Tail(@)], <<[t |-> "th", ev |-> Head(st.tq)], T("drainT")>>)
    [] k.t = "th" ->
         LET ev == k.ev IN
         CASE ev.t = "start" ->
                IF st.tc.r \/ st.tc.w       \* tunnel_connection.state is not CLOSED
                THEN Push([st EXCEPT !.ts = "establishing"], <<T("sh"), [t |-> "etc", ev |-> ev]>>)
                ELSE Push(st, <<[t |-> "etc", ev |-> ev]>>)
           [] ev.t = "tdata" ->
                IF st.ts = "establishing" THEN Push(st, <<[t |-> "hsdata", u |-> ev.u]>>)
                ELSE LET pay == PayBytes(ev.u) IN          \* receive_data
                     Push([st EXCEPT !.dl = @ + pay], <<[t |-> "etc", ev |-> [t |-> "ctdata", off |-> st.dl, n |-> pay]]>>)
           [] ev.t = "tfin" ->
                LET s1 == IF st.cfg.same THEN st ELSE [st EXCEPT !.cc.r = FALSE]
                    last == [t |-> "setts", v |-> "closed"] IN
                IF s1.ts = "open" THEN Push(s1, <<[t |-> "etc", ev |-> [t |-> "ctclose"]], last>>)     \* receive_close
                ELSE IF s1.ts = "establishing"                                                      \* on_handshake_error
                THEN Push(DrvClose(O(s1, OutClose("tunnel", FALSE)), FALSE), <<[t |-> "hsfin", err |-> "closed"], last>>)
                ELSE Push(s1, <<last>>)
           [] OTHER -> Push(st, <<[t |-> "etc", ev |-> ev]>>)
    [] k.t = "sh" ->       \* base class: feeds itself an empty segment; HttpUpstreamProxy: the blocking hook comes first
         IF st.cfg.kind = "plain" THEN Push(st, <<[t |-> "hsdata", u |-> <<>>]>>)
         ELSE [O(st, [k |-> "out", what |-> "hook", name |-> "http_connect_upstream"]) EXCEPT !.tp = "hook", !.hsn = @ + 1]
    [] k.t = "hsdata" ->
         IF st.cfg.kind = "plain" THEN Push(SetInner(st, TRUE), <<[t |-> "hsfin", err |-> ""]>>)   \* (True, None) at once
         ELSE LET b == st.buf + HeadUnits(k.u) IN
              IF b < 2 THEN [st EXCEPT !.buf = b]                       \* maybe_extract_lines: head incomplete
              ELSE LET s1 == [st EXCEPT !.buf = 0]
                       pay == PayBytes(k.u) IN
                   IF st.presp = "ok"
                   THEN Push([s1 EXCEPT !.dl = @ + pay],
                             (IF pay > 0 THEN <<[t |-> "etc", ev |-> [t |-> "ctdata", off |-> s1.dl, n |-> pay]]>> ELSE <<>>)
                             \o <<[t |-> "setinner", b |-> TRUE], [t |-> "hsfin", err |-> ""]>>)
                   ELSE Push(DrvClose(O(SetInner(s1, FALSE), OutClose("tunnel", FALSE)), FALSE),
                             <<[t |-> "hsfin", err |-> st.presp]>>)
    [] k.t = "setinner" -> SetInner(st, k.b)
    [] k.t = "setts" -> [st EXCEPT !.ts = k.v]
    [] k.t = "hsfin" ->
         LET s1 == [st EXCEPT !.ts = IF k.err = "" THEN "open" ELSE "closed"] IN
         IF s1.rep THEN Push(s1, <<[t |-> "etc", ev |-> [t |-> "reply", ok |-> k.err = "", why |-> Why(k.err)]], T("clearrep")>>)
         ELSE Push(s1, [i \in 1..Len(s1.eq) |-> [t |-> "etc", ev |-> s1.eq[i]]] \o <<T("cleareq")>>)
    [] k.t = "clearrep" -> [st EXCEPT !.rep = FALSE]
    [] k.t = "cleareq" -> [st EXCEPT !.eq = <<>>]
    [] k.t = "etc" ->
         LET ev == k.ev IN
         IF st.ts = "establishing" /\ ~st.rep THEN [st EXCEPT !.eq = Append(@, ev)]
         ELSE IF ~st.cwait THEN Push(st, <<[t |-> "cr", ev |-> ev]>>)
         ELSE IF ev.t # "reply" THEN [st EXCEPT !.cq = Append(@, ev)]
         ELSE Push([O(st, [k |-> "c", ev |-> "reply", ok |-> ev.ok, st |-> StName(Inner(st)), why |-> ev.why])
                      EXCEPT !.cwait = FALSE, !.cw = ev.ok, !.cr = ev.ok], <<T("drainC")>>)
    [] k.t = "drainC" -> IF st.cwait \/ st.cq = <<>> THEN st
                         ELSE Push([st EXCEPT !.cq = Tail(@)], <<[t |-> "cr", ev |-> Head(st.cq)], T("drainC")>>)
    [] k.t = "cr" -> ChildRun(st, k.ev)
    [] OTHER -> st
RECURSIVE Run(_)
Run(st) == IF st.stack = <<>> \/ st.tp # "none" THEN st
           ELSE Run(Exec([st EXCEPT !.stack = Tail(@)], Head(st.stack)))
\* Layer.handle_event(ev) of the tunnel layer, called by the environment
Top(st, ev) == IF st.tp # "none" THEN [st EXCEPT !.tq = Append(@, ev)]
               ELSE Run(Push(st, <<[t |-> "top", ev |-> ev]>>))

NoConn == [r |-> FALSE, w |-> FALSE, reg |-> FALSE, reading |-> FALSE, echo |-> FALSE, dying |-> FALSE]
UpConn == [r |-> TRUE, w |-> TRUE, reg |-> TRUE, reading |-> TRUE, echo |-> FALSE, dying |-> FALSE]
S0(cfg) == [cfg |-> cfg, ts |-> "inactive", rep |-> FALSE, tp |-> "none", stack |-> <<>>, tq |-> <<>>, eq |-> <<>>, cq |-> <<>>,
            cwait |-> FALSE, cw |-> FALSE, cr |-> FALSE,
            tc |-> IF cfg.mode = "start" THEN UpConn ELSE IF cfg.mode = "start_half" THEN [UpConn EXCEPT !.r = FALSE] ELSE NoConn,
            cc |-> [r |-> FALSE, w |-> FALSE],
            \* start_half: the peer's EOF was read while next_layer buffered events; its ConnectionClosed is still to come
            hsn |-> 0, buf |-> 0, dl |-> 0, net |-> IF cfg.mode = "start_half" THEN <<"fin">> ELSE <<>>,
            presp |-> "", hleft |-> 0, np |-> 0, pfin |-> cfg.mode = "start_half",
            csent |-> FALSE, nc |-> 0, nopen |-> 0, ncut |-> 0, clientopen |-> TRUE, started |-> FALSE,
            nested |-> FALSE, out |-> <<>>]
CfgEv(cfg) == [k |-> "cfg", kind |-> cfg.kind, mode |-> cfg.mode, same |-> cfg.same, react |-> cfg.react,
               hosthdr |-> cfg.hosthdr, auth |-> cfg.auth]

Init == \E i \in 1..Len(Cfgs) : /\ s = S0(Cfgs[i])
                              /\ mon = MonStep(MonInit, CfgEv(Cfgs[i])) /\ obs = <<CfgEv(Cfgs[i])>>
Live == mon.bad = <<>>
\* one step: the input record, then everything the layers did synchronously
Reap(st) == IF st.tc.dying THEN [st EXCEPT !.tc.dying = FALSE, !.tc.reg = FALSE] ELSE st
Step(inrec, st) == /\ s' = Reap([st EXCEPT !.out = <<>>])
                   /\ obs' = inrec \o st.out
                   /\ mon' = FoldEvents(MonStep, mon, inrec \o st.out)
InRec(what) == [k |-> "in", what |-> what]

Start ==
  /\ Live /\ ~s.started
  /\ Step(<<InRec("start")>>, Top([s EXCEPT !.started = TRUE], [t |-> "start"]))
Client(op) ==
  /\ Live /\ s.started /\ s.clientopen /\ s.nc < MaxClient
  /\ op = "open" => s.nopen < MaxOpens
  /\ LET id == s.nc + 1 IN
     Step(<<[k |-> "in", what |-> "cdata", id |-> id, op |-> op]>>,
          Top([s EXCEPT !.nc = id, !.nopen = IF op = "open" THEN @ + 1 ELSE @], [t |-> "cdata", id |-> id, op |-> op]))
ClientClose ==
  /\ Live /\ CClose /\ s.started /\ s.clientopen
  /\ Step(<<InRec("cclose")>>, Top([s EXCEPT !.clientopen = FALSE], [t |-> "cclose"]))
\* OpenConnectionCompleted for the tunnel's own command: _handle_command continues after the yield
OpenDone(ok) ==
  /\ Live /\ s.tp = "open"
  /\ LET s1 == [s EXCEPT !.tp = "none", !.tc = IF ok THEN UpConn ELSE @, !.net = <<>>, !.pfin = FALSE]
         s2 == IF ok THEN Push(s1, <<T("sh")>>)
               ELSE Push(s1, <<[t |-> "etc", ev |-> [t |-> "reply", ok |-> FALSE, why |-> "open_failed"]],
                               [t |-> "setts", v |-> "closed"]>>) IN
     Step(<<[k |-> "in", what |-> "open_done", ok |-> ok]>>, Run(s2))
\* HookCompleted: start_handshake continues: assemble_request, SendData
HookDone ==
  /\ Live /\ s.tp = "hook"
  /\ LET s1 == O([s EXCEPT !.tp = "none", !.csent = TRUE],
                 [k |-> "out", what |-> "connect", c |-> "tunnel", wf |-> TRUE, tgt |-> 1,
                  host |-> IF s.cfg.hosthdr THEN "ok" ELSE "none", auth |-> IF s.cfg.auth THEN "ok" ELSE "none", extra |-> 0]) IN
     Step(<<InRec("hook_done")>>, Run(s1))
\* the proxy peer (not visible to mitmproxy until delivered)
Silent(st) == s' = st /\ obs' = <<>> /\ UNCHANGED mon
PeerRespond(rk) ==
  /\ Live /\ s.cfg.kind = "http" /\ s.csent /\ s.presp = "" /\ s.tc.reading /\ ~s.pfin
  /\ Silent([s EXCEPT !.presp = rk, !.net = @ \o <<"h1", "h2">>, !.hleft = 2])
PeerWrite ==
  /\ Live /\ s.started /\ s.tc.reading /\ ~s.pfin /\ s.np < MaxPeer
  /\ s.cfg.kind = "http" => s.presp # ""
  /\ Silent([s EXCEPT !.np = @ + 1, !.net = Append(@, "p")])
PeerClose ==
  /\ Live /\ s.started /\ s.tc.reading /\ ~s.pfin
  /\ Silent([s EXCEPT !.pfin = TRUE, !.net = Append(@, "fin")])
\* one DataReceived(tunnel_connection) carrying the first n units
Deliver(n) ==
  /\ Live /\ s.started /\ s.tc.reading /\ n <= Len(s.net) /\ \A i \in 1..n : s.net[i] # "fin"
  /\ n < Len(s.net) => s.ncut < MaxCut
  /\ LET u == SubSeq(s.net, 1, n)
         hb == HeadUnits(u)
         left == s.hleft - hb
         hs == IF hb = 0 THEN "na" ELSE IF left = 0 THEN s.presp ELSE "more" IN
     Step(<<[k |-> "in", what |-> "tdata", hb |-> hb > 0, pay |-> PayBytes(u), hs |-> hs]>>,
          Top([s EXCEPT !.net = SubSeq(@, n + 1, Len(@)), !.hleft = left,
                        !.ncut = IF n < Len(s.net) THEN @ + 1 ELSE @], [t |-> "tdata", u |-> u]))
\* EOF from the peer: handle_connection clears CAN_READ, delivers ConnectionClosed, then either waits (half-open) or unregisters
DeliverFin ==
  /\ Live /\ s.started /\ s.tc.reading /\ s.net # <<>> /\ Head(s.net) = "fin"
  /\ LET s1 == Top([s EXCEPT !.net = Tail(@), !.tc.reading = FALSE, !.tc.r = FALSE], [t |-> "tfin"]) IN
     Step(<<[k |-> "in", what |-> "tclose", echo |-> FALSE]>>,
          [s1 EXCEPT !.tc.reg = IF s1.tc.w THEN @ ELSE FALSE])
\* the reader task cancelled by a close command still delivers ConnectionClosed, then unregisters
Echo ==
  /\ Live /\ s.started /\ s.tc.echo
  /\ LET s1 == Top([s EXCEPT !.tc.echo = FALSE], [t |-> "tfin"]) IN
     Step(<<[k |-> "in", what |-> "tclose", echo |-> TRUE]>>, [s1 EXCEPT !.tc.reg = FALSE])

Next == \/ Start
        \/ \E op \in Ops : Client(op)
        \/ ClientClose
        \/ \E ok \in BOOLEAN : OpenDone(ok)
        \/ HookDone
        \/ \E rk \in Rks : PeerRespond(rk)
        \/ PeerWrite
        \/ PeerClose
        \/ \E n \in 1..3 : Deliver(n)
        \/ DeliverFin
        \/ Echo
Spec == Init /\ [][Next]_vars

Report == mon.bad # <<>> => PrintT(<<"BAD", mon.bad>>)
View == <<s, obs, [mon EXCEPT !.wit = {}]>>     \* the witness set does not influence behaviour
\* design-level facts
NoNestedOpen == ~s.nested                   \* the child never re-opens from inside a reply / flush (see README)
QueuesWhenPaused == (s.tp = "none" => s.tq = <<>> /\ s.stack = <<>>) /\ (~s.cwait => s.cq = <<>>) /\ (s.ts # "establishing" => s.eq = <<>>)
ReplyOnlyWhileWaiting == s.rep => (s.cwait \/ s.ts = "closed")
=============================================================================
