---------------------------- MODULE WatchdogInd ----------------------------
(* Unbounded-time strengthening for C10 (optional, not load-bearing): the core of Watchdog.tla (same actions, no
   monitor record, no MaxTime / MaxHooks bounds) with an inductive invariant, checked by Apalache:
     Init => IndInv                      (length 0)
     IndInv /\ Next => IndInv'           (length 1, started from IndInit = TypeOK /\ IndInv)
   IndInv implies the two safety clauses of Mon_Watchdog for every reachable state at any time:
     NoCloseWhileHook : the callback never fires while a hook is pending
     NoCloseWhileActive : the callback never fires before Timeout has elapsed since the last activity
   Recheck = TRUE is the repaired code (fix commit dcb333139); with Recheck = FALSE Apalache finds the
   counterexample to inductiveness that corresponds to the original defect.                                      *)
EXTENDS Integers, Apalache

CONSTANTS
  \* @type: Int;
  Timeout,
  \* @type: Bool;
  Recheck

VARIABLES
  \* @type: Int;
  now,
  \* @type: Int;
  last,
  \* @type: Int;
  blocker,
  \* @type: Bool;
  canTimeout,
  \* @type: Str;
  wpc,
  \* @type: Int;
  wakeAt,
  \* @type: Bool;
  closedWhileHook,
  \* @type: Bool;
  closedWhileActive

CInit == Timeout \in Nat /\ Timeout > 0 /\ Recheck = TRUE
CInitPreFix == Timeout \in Nat /\ Timeout > 0 /\ Recheck = FALSE

Init == /\ now = 0 /\ last = 0 /\ blocker = 0 /\ canTimeout = TRUE /\ wpc = "wait" /\ wakeAt = 0
        /\ closedWhileHook = FALSE /\ closedWhileActive = FALSE

Tick == /\ now' = now + 1
        /\ UNCHANGED <<last, blocker, canTimeout, wpc, wakeAt, closedWhileHook, closedWhileActive>>
Activity == /\ wpc # "done" /\ last' = now
            /\ UNCHANGED <<now, blocker, canTimeout, wpc, wakeAt, closedWhileHook, closedWhileActive>>
HookStart == /\ wpc # "done" /\ blocker' = blocker + 1 /\ canTimeout' = FALSE
             /\ UNCHANGED <<now, last, wpc, wakeAt, closedWhileHook, closedWhileActive>>
HookEnd == /\ blocker > 0 /\ blocker' = blocker - 1
           /\ IF blocker = 1 THEN last' = now /\ canTimeout' = TRUE ELSE UNCHANGED <<last, canTimeout>>
           /\ UNCHANGED <<now, wpc, wakeAt, closedWhileHook, closedWhileActive>>
WWait == /\ wpc = "wait" /\ canTimeout
         /\ wpc' = "sleep" /\ wakeAt' = IF now - last >= Timeout THEN now ELSE last + Timeout
         /\ UNCHANGED <<now, last, blocker, canTimeout, closedWhileHook, closedWhileActive>>
WWakeCheck == /\ wpc = "sleep" /\ now >= wakeAt
              /\ IF last + Timeout <= now /\ (Recheck => canTimeout)
                 THEN /\ wpc' = "done"
                      /\ closedWhileHook' = (closedWhileHook \/ blocker > 0)
                      /\ closedWhileActive' = (closedWhileActive \/ now - last < Timeout)
                 ELSE /\ wpc' = "wait" /\ UNCHANGED <<closedWhileHook, closedWhileActive>>
              /\ UNCHANGED <<now, last, blocker, canTimeout, wakeAt>>
Next == Tick \/ Activity \/ HookStart \/ HookEnd \/ WWait \/ WWakeCheck

TypeOK == /\ blocker >= 0 /\ now >= 0 /\ last >= 0 /\ wakeAt >= 0 /\ Timeout > 0
          /\ wpc \in {"wait", "sleep", "done"}
IndInv == /\ TypeOK
          /\ (canTimeout <=> blocker = 0)
          /\ last <= now
          /\ ~closedWhileHook /\ ~closedWhileActive
\* an arbitrary state satisfying the invariant (Apalache: Gen constrains sizes only; all variables are scalars)
IndInit == /\ now = Gen(1) /\ last = Gen(1) /\ blocker = Gen(1) /\ wakeAt = Gen(1)
           /\ canTimeout \in BOOLEAN /\ wpc \in {"wait", "sleep", "done"}
           /\ closedWhileHook \in BOOLEAN /\ closedWhileActive \in BOOLEAN
           /\ IndInv
Safety == ~closedWhileHook /\ ~closedWhileActive
=============================================================================
