#!/bin/sh
# Optional strengthening for C10: inductive invariant of the watchdog core for every Timeout > 0 and unbounded time.
# exit 0: Init => IndInv, IndInv /\ Next => IndInv' hold for the repaired design AND the pre-fix design is refuted.
cd "$(dirname "$0")"
OUT=$(mktemp -d /tmp/apa-wd-XXXXXX); trap 'rm -rf "$OUT"' EXIT
A="timeout 600 apalache-mc check --out-dir=$OUT"
$A --cinit=CInit --init=Init --inv=IndInv --length=0 WatchdogInd.tla >$OUT/1.log 2>&1 || { echo "base case failed"; tail -3 $OUT/1.log; exit 1; }
$A --cinit=CInit --init=IndInit --inv=IndInv --length=1 WatchdogInd.tla >$OUT/2.log 2>&1 || { echo "inductive step failed"; tail -3 $OUT/2.log; exit 1; }
if $A --cinit=CInitPreFix --init=IndInit --inv=IndInv --length=1 WatchdogInd.tla >$OUT/3.log 2>&1; then echo "pre-fix design not refuted"; exit 1; fi
echo "apalache: IndInv inductive for Recheck=TRUE (any Timeout>0, unbounded time/hooks); Recheck=FALSE refuted"
