------------------------------ MODULE Watchdog ------------------------------
(* Model of TimeoutWatchdog (mitmproxy/proxy/server.py) together with handle_hook's disarm() context.
   One action per critical section of the code:
     Activity   = register_activity()            (first statement of server_event)
     HookStart  = disarm().__enter__             (can_timeout.clear(); blocker += 1)
     HookEnd    = disarm().__exit__              (blocker -= 1; at 0: register_activity(); can_timeout.set())
     WWait      = watch(): await can_timeout.wait(); compute the sleep
     WWakeCheck = watch(): the sleep returns and, with no await in between, the idle test runs
   Hooks need not be preceded by activity (server_connected after a slow connect, client_disconnected, ...).
   Recheck = TRUE is the code after the fix (the idle test also requires that no hook is pending);
   Recheck = FALSE is the code before it: the test looked at last_activity only.
   Steps of the watcher task have priority over the environment at the same instant: under the virtual-time loop
   a timer due at instant x fires before the scenario acts at x.                                   *)
EXTENDS Mon_Watchdog, TLC
CONSTANTS MaxTime, MaxHooks, Recheck
VARIABLES now, last, blocker, canTimeout, wpc, wakeAt, ticked, mon, obs
vars == <<now, last, blocker, canTimeout, wpc, wakeAt, ticked, mon, obs>>

Init == /\ now = 0 /\ last = 0 /\ blocker = 0 /\ canTimeout = TRUE
        /\ wpc = "wait" /\ wakeAt = 0 /\ ticked = FALSE /\ mon = MonInit /\ obs = <<>>
Live == mon.bad = <<>>
Emit(evs) == obs' = evs /\ mon' = FoldEvents(MonStep, mon, evs)
Ev(k) == [k |-> k, t |-> now]

WatcherRunnable == \/ wpc = "wait" /\ canTimeout
                   \/ wpc = "sleep" /\ now >= wakeAt
Env == Live /\ ~WatcherRunnable /\ ~ticked

\* time passes; timers that are due fire (watcher steps) before the scenario observes the new time (Settled)
Tick == /\ Env /\ now < MaxTime
        /\ now' = now + 1 /\ ticked' = TRUE /\ UNCHANGED <<last, blocker, canTimeout, wpc, wakeAt>>
        /\ Emit(<<>>)
Settled == /\ Live /\ ticked /\ ~WatcherRunnable
           /\ ticked' = FALSE /\ UNCHANGED <<now, last, blocker, canTimeout, wpc, wakeAt>>
           /\ Emit(<<Ev("now")>>)

Activity == /\ Env /\ wpc # "done"
            /\ last' = now /\ UNCHANGED <<now, blocker, canTimeout, wpc, wakeAt, ticked>>
            /\ Emit(<<Ev("activity")>>)

HookStart == /\ Env /\ wpc # "done" /\ blocker < MaxHooks
             /\ blocker' = blocker + 1 /\ canTimeout' = FALSE
             /\ UNCHANGED <<now, last, wpc, wakeAt, ticked>>
             /\ Emit(<<Ev("hook_start")>>)

HookEnd == /\ Env /\ blocker > 0
           /\ blocker' = blocker - 1
           /\ IF blocker = 1 THEN last' = now /\ canTimeout' = TRUE ELSE UNCHANGED <<last, canTimeout>>
           /\ UNCHANGED <<now, wpc, wakeAt, ticked>>
           /\ Emit(<<Ev("hook_end")>>)

WWait == /\ Live /\ wpc = "wait" /\ canTimeout
         /\ wpc' = "sleep" /\ wakeAt' = IF now - last >= Timeout THEN now ELSE last + Timeout
         /\ UNCHANGED <<now, last, blocker, canTimeout, ticked>> /\ Emit(<<>>)

WWakeCheck == /\ Live /\ wpc = "sleep" /\ now >= wakeAt
              /\ IF last + Timeout <= now /\ (Recheck => canTimeout)
                 THEN wpc' = "done" /\ Emit(<<Ev("callback")>>)
                 ELSE wpc' = "wait" /\ Emit(<<>>)
              /\ UNCHANGED <<now, last, blocker, canTimeout, wakeAt, ticked>>

Next == Tick \/ Settled \/ Activity \/ HookStart \/ HookEnd \/ WWait \/ WWakeCheck
Spec == Init /\ [][Next]_vars
Report == mon.bad # <<>> => PrintT(<<"BAD", mon.bad>>)
=============================================================================
