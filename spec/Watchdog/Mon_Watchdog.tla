---------------------------- MODULE Mon_Watchdog ----------------------------
(* Monitor for C10: idle connections time out, but never while a hook is pending.
   Event records, t = virtual time (model: ticks, traces: milliseconds):
     [k |-> "activity", t]     the connection saw activity (an event was processed)
     [k |-> "hook_start", t]   handling of a hook for this connection begins
     [k |-> "hook_end", t]     ... ends (for an intercepted flow: after the user resumed it)
     [k |-> "callback", t]     the connection is closed for inactivity
     [k |-> "now", t]          time passes (no other event)                                   *)
EXTENDS Verif
CONSTANTS Timeout, Slack

MonInit == [bad |-> <<>>, wit |-> {}, blocker |-> 0, last |-> 0, closed |-> FALSE]

Clause(m, ev) ==
  IF ev.k = "callback" /\ m.blocker > 0 THEN <<"C10.closed_while_hook_pending">>
  ELSE IF ev.k = "callback" /\ ev.t - m.last < Timeout THEN <<"C10.closed_while_active">>
  ELSE IF ev.k = "callback" /\ m.closed THEN <<"C10.closed_twice">>
  ELSE IF ~m.closed /\ m.blocker = 0 /\ ev.k # "callback" /\ ev.t - m.last > Timeout + Slack
       THEN <<"C10.idle_not_closed">>
  ELSE <<>>

MonStep(m, ev) ==
  [m EXCEPT !.bad = IF m.bad # <<>> THEN m.bad ELSE Clause(m, ev),
            !.blocker = CASE ev.k = "hook_start" -> @ + 1 [] ev.k = "hook_end" -> @ - 1 [] OTHER -> @,
            !.last = CASE ev.k = "activity" -> ev.t
                       [] ev.k = "hook_end" /\ m.blocker = 1 -> ev.t    \* the idle period restarts here
                       [] OTHER -> @,
            !.closed = @ \/ ev.k = "callback",
            !.wit = @ \cup (IF ev.k = "callback" THEN {"callback"} ELSE {})
                      \cup (IF ev.k = "hook_start" /\ m.blocker > 0 THEN {"overlapping_hooks"} ELSE {})
                      \cup (IF m.blocker > 0 /\ ev.t - m.last >= Timeout THEN {"hook_pending_past_timeout"} ELSE {})
                      \cup (IF ev.k = "hook_end" /\ m.blocker = 1 /\ ev.t - m.last >= Timeout THEN {"restart_after_long_hook"} ELSE {})]
Wit(m) == m.wit
=============================================================================
