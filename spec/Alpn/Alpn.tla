-------------------------------- MODULE Alpn --------------------------------
(* Implementation-shaped model of how mitmproxy picks the client's application protocol.

   A row of the decision table is <<mode, offers, upstream, http2, forced>> (see Mon_Alpn for the value spaces).
   One client TLS negotiation is three critical sections of the real code:

     Accept      mitmproxy/addons/next_layer.py  NextLayer._next_layer / _setup_explicit_http_proxy /
                 _setup_reverse_proxy: the layer stack that exists when the TLS hooks run.  Layers append themselves
                 to context.layers in Layer.__init__, and the explicit-proxy setup instantiates ClientTLSLayer AND
                 HttpLayer before the hook returns, so the stack below is what tls_start_client sees.
     StartClient mitmproxy/addons/tlsconfig.py  TlsConfig.tls_start_client: AppData(client_alpn, server_alpn, http2),
                 with the "force HTTP/1 for secure web proxies" override (repaired in 98f690264)
                     layers[0] is HttpProxy/HttpUpstreamProxy and (len(layers) == 2 or the only ClientTLSLayer is
                     layers[1]);  LegacyOverride = TRUE gives the old test len == 2 and layers[0] is HttpProxy
     Select      mitmproxy/addons/tlsconfig.py  alpn_select_callback (called directly, or by OpenSSL during a real
                 handshake; OpenSSL does not call it when the client sent no ALPN extension -- same result: none)

                 LegacyMirror = TRUE gives the rule before 47c6368bd (upstream mirrored without consulting http2,
                 fall-through to the client's first HTTP protocol when the upstream's is not offered).
   The model is the code as it is: where the code deviates from the property the monitor (Mon_Alpn) reports it, and
   the replay on the real code must reproduce it.  With both Legacy constants FALSE no bad tuple is reachable. *)
EXTENDS Mon_Alpn, TLC
CONSTANTS Rows,    \* set of <<mode, offers, upstream, http2, forced>>
          Vias,    \* subset of {"callback", "handshake"}
          LegacyOverride, LegacyMirror   \* named deviations of the code before its repair (FALSE = the current code)
VARIABLES pc, row, layers, appdata, mon, obs
vars == <<pc, row, layers, appdata, mon, obs>>

NoApp == [client_alpn |-> "unset", server_alpn |-> "unknown", http2 |-> TRUE]

\* the row (who connects, offering what, with which upstream/options) is the initial condition of a behaviour
Init == /\ pc = "idle" /\ row \in Rows /\ layers = <<>> /\ appdata = NoApp
        /\ mon = MonInit /\ obs = <<>>

Live == mon.bad = <<>>
Emit(evs) == obs' = evs /\ mon' = FoldEvents(MonStep, mon, evs)

\* context.layers at the time of tls_start_client, per entry path (next_layer.py)
Stack(mode) ==
  CASE mode = "swp_outer"      -> <<"HttpProxy", "ClientTLSLayer", "HttpLayer">>
    [] mode = "upstream_outer" -> <<"HttpUpstreamProxy", "ClientTLSLayer", "HttpLayer">>
    [] mode = "regular_inner"  -> <<"HttpProxy", "HttpLayer", "HttpStream", "ServerTLSLayer", "ClientTLSLayer">>
    [] mode = "swp_inner"      -> <<"HttpProxy", "ClientTLSLayer", "HttpLayer", "HttpStream", "ServerTLSLayer",
                                    "ClientTLSLayer">>
    [] mode = "transparent"    -> <<"TransparentProxy", "ServerTLSLayer", "ClientTLSLayer">>
    [] mode = "reverse_https"  -> <<"ReverseProxy", "ServerTLSLayer", "ClientTLSLayer", "HttpLayer">>
    [] mode = "reverse_http"   -> <<"ReverseProxy", "ClientTLSLayer", "HttpLayer">>
\* ground truth of the scenario (NOT what the code computes): which entry paths are a secure web proxy's outer hop
IsOuter(mode) == mode \in {"swp_outer", "upstream_outer"}

Accept ==
  /\ Live /\ pc = "idle"
  /\ pc' = "accepted" /\ layers' = Stack(row[1])
  /\ UNCHANGED <<row, appdata>> /\ Emit(<<>>)

StartClient ==
  /\ Live /\ pc = "accepted"
  /\ LET tlsAt == { i \in 1..Len(layers) : layers[i] = "ClientTLSLayer" }
         override == IF LegacyOverride THEN Len(layers) = 2 /\ layers[1] = "HttpProxy"
                     ELSE /\ Len(layers) >= 1 /\ layers[1] \in {"HttpProxy", "HttpUpstreamProxy"}
                          /\ (Len(layers) = 2 \/ tlsAt = {2}) IN
     appdata' = [client_alpn |-> IF override THEN "http/1.1" ELSE row[5],
                 server_alpn |-> row[3], http2 |-> row[4]]
  /\ pc' = "started" /\ UNCHANGED <<row, layers>> /\ Emit(<<>>)

HTTP1 == <<"http/1.1", "http/1.0", "http/0.9">>
HTTPALL == <<"h3", "h2">> \o HTTP1
FirstIn(offers, allowed) ==
  LET hits == { i \in 1..Len(offers) : InSeq(offers[i], allowed) }
  IN IF hits = {} THEN "none" ELSE offers[CHOOSE i \in hits : \A j \in hits : i <= j]

\* alpn_select_callback(conn, options)
Callback(ad, offers) ==
  IF ad.client_alpn # "unset"
    THEN (IF InSeq(ad.client_alpn, offers) THEN ad.client_alpn ELSE "none")
  ELSE IF LegacyMirror /\ ad.server_alpn \notin {"unknown", "none"} /\ InSeq(ad.server_alpn, offers) THEN ad.server_alpn
  ELSE IF LegacyMirror /\ ad.server_alpn = "none" THEN "none"
  ELSE IF ~LegacyMirror /\ ad.server_alpn # "unknown"        \* upstream known: mirror it or nothing
    THEN (IF ad.server_alpn # "none" /\ InSeq(ad.server_alpn, offers) /\ (ad.http2 \/ ad.server_alpn # "h2")
          THEN ad.server_alpn ELSE "none")
  ELSE FirstIn(offers, IF ad.http2 THEN HTTPALL ELSE HTTP1)

Select(via) ==
  /\ Live /\ pc = "started" /\ via \in Vias
  /\ pc' = "done" /\ UNCHANGED <<row, layers, appdata>>
  /\ Emit(<<[k |-> "select", via |-> via, mode |-> row[1], outer |-> IsOuter(row[1]), offers |-> row[2],
             upstream |-> row[3], http2 |-> row[4], forced |-> row[5],
             result |-> Callback(appdata, row[2]), layers |-> layers]>>)

Next == \/ Accept
        \/ StartClient
        \/ \E v \in {"callback", "handshake"} : Select(v)
Spec == Init /\ [][Next]_vars
Report == mon.bad # <<>> => PrintT(<<"BAD", mon.bad>>)
=============================================================================
