------------------------------ MODULE Mon_Alpn ------------------------------
(* Monitor for C18: ALPN negotiation with the client is consistent with offers and upstream.

   One event record per client TLS negotiation (projected by props/C18.py):
     [k |-> "select",
      via      |-> "callback" | "handshake",   \* return value of alpn_select_callback | protocol the independent
                                               \* ssl client peer reports after a real in-memory handshake
      mode     |-> name of the scenario's entry path (swp_outer, upstream_outer, regular_inner, ...),
      outer    |-> BOOLEAN,   \* ground truth of the scenario: this is the TLS connection between a client and an
                              \* explicit (secure web) proxy itself, not a connection tunnelled through it
      offers   |-> <<protocol, ...>>,          \* the client's offer list, in order
      upstream |-> "unknown" | "none" | protocol,   \* server.alpn: None | b"" (server negotiated nothing) | value
      http2    |-> BOOLEAN,                    \* the http2 option
      forced   |-> "unset" | "none" | protocol,     \* client.alpn preset by an addon before tls_start_client
      result   |-> "none" | protocol | "error"]     \* "error": the handshake failed
   Protocols are strings: the five HTTP ids are passed literally ("h2", "h3", "http/1.1", "http/1.0", "http/0.9"),
   every other byte string is interned to "x1", "x2", ... in first-seen order.

   Clauses (each is one sentence of the statement):
     not_offered        the selected protocol is one the client offered, or none
     outer_not_http11   on a secure web proxy's outer connection only http/1.1 (or none) is selected
     h2_while_disabled  h2 is never selected when http2 is off
     not_upstream       upstream known => the client gets that protocol or none
   The last two are about mitmproxy's own choice; they are not applied when an addon forced client.alpn.
   (Scenario space: an outer connection has no upstream yet, so outer rows always carry upstream = "unknown".)
   Signature fields are abstract: they name the branch of the decision, never the concrete protocol.      *)
EXTENDS Verif

MonInit == [bad |-> <<>>, wit |-> {}]

InSeq(x, s) == \E i \in 1..Len(s) : s[i] = x
Known(ev) == ev.upstream # "unknown"
UpClass(ev) == IF ev.upstream = "none" THEN "upstream_none"
               ELSE IF InSeq(ev.upstream, ev.offers) THEN "upstream_offered" ELSE "upstream_not_offered"
ModeClass(ev) == IF ev.mode = "upstream_outer" THEN "upstream_proxy" ELSE "http_proxy"

Clause(ev) ==
  IF ev.k # "select" THEN <<>>
  ELSE IF ev.result # "none" /\ ~InSeq(ev.result, ev.offers)
       THEN <<"C18.not_offered", ev.via>>
  ELSE IF ev.outer /\ ev.result \notin {"none", "http/1.1"}
       THEN <<"C18.outer_not_http11", ModeClass(ev)>>
  ELSE IF ev.forced = "unset" /\ ~ev.http2 /\ ev.result = "h2"
       THEN <<"C18.h2_while_disabled", IF ev.upstream = "h2" THEN "upstream_h2" ELSE "upstream_other">>
  ELSE IF ev.forced = "unset" /\ Known(ev) /\ ev.result \notin {"none", ev.upstream}
       THEN <<"C18.not_upstream", UpClass(ev)>>
  ELSE <<>>

Witness(ev) ==
  IF ev.k # "select" THEN {} ELSE
     {"via_" \o ev.via}
     \cup (IF ev.result = "none" THEN {"none_selected"} ELSE {"protocol_selected"})
     \cup (IF ev.outer THEN {"outer"} ELSE {"not_outer"})
     \cup (IF ev.outer /\ InSeq("h2", ev.offers) THEN {"outer_h2_offered"} ELSE {})
     \cup (IF ~ev.http2 /\ InSeq("h2", ev.offers) THEN {"http2_off_h2_offered"} ELSE {})
     \cup (IF Known(ev) /\ ev.forced = "unset" THEN {UpClass(ev)} ELSE {})
     \cup (IF Known(ev) /\ ev.result = ev.upstream /\ ev.result # "none" THEN {"upstream_mirrored"} ELSE {})
     \cup (IF ev.forced # "unset" THEN {"forced"} ELSE {})
     \cup (IF ev.offers = <<>> THEN {"no_offers"} ELSE {})

MonStep(m, ev) == [m EXCEPT !.bad = Clause(ev), !.wit = @ \cup Witness(ev)]
Wit(m) == m.wit
=============================================================================
