----------------------------- MODULE ModeServers -----------------------------
(* Implementation-shaped model of
     mitmproxy/proxy/mode_specs.py      ProxyMode.parse, listen_host, listen_port, the mode classes' __post_init__
                                        (with net/server_spec.parse for reverse / upstream) over token sequences;
     mitmproxy/proxy/mode_servers.py    ServerInstance.start / stop, AsyncioServerInstance._start / _stop / listen
                                        / listen_addrs / is_running, on the fake OS of lib/vf/modenet.py;
     mitmproxy/addons/proxyserver.py    Proxyserver.configure / running / setup_servers, Servers.update as a task
                                        system: update tasks queue on the asyncio.Lock (FIFO), one action per critical
                                        section of the task at the head (UpdBegin, StopOne, StartOne, Resume, UpdEnd);
                                        a start may block (slow specs) until the environment releases it.
   Environment actions happen only when the loop is idle (the harness settles after every operation); Snap is the
   harness's state record.  Every action emits the records the harness logs for it. *)
EXTENDS Mon_ModeServers
CONSTANTS World,      \* [specs, good, goods, bare, opt_host, opt_port, root, slow, fp6, nov6, nonlit]
          Configs,    \* values the environment gives to the mode option (sequences of spec ids)
          ExtAddrs,   \* addresses another process may hold: [tp, host, port]
          Alone,      \* specs the environment instantiates directly (ServerInstance.make)
          Dests,      \* upstream destinations [host, port, tp] offered to the server_connect hook
          Started,    \* TRUE: behaviours begin after the running hook
          Ops,        \* names of the environment actions of this instance
          CloseOnFail,\* TRUE = the code since /repo 05259bb1c: listen() closes the servers already bound when a later
                      \* bind raises; FALSE = the code before (finding F1: they stayed open) -- the monitor rejects it
          MaxOps, MaxGen
VARIABLES optmode, optserver, psrun, order, objs, open, ext, nsid, eph, tasks, released, alone, dirty, nops, mon, obs
vars == <<optmode, optserver, psrun, order, objs, open, ext, nsid, eph, tasks, released, alone, dirty, nops, mon, obs>>

EPH0 == 40000
Local == {"0.0.0.0", "::", "127.0.0.1", "::1", "127.0.0.2"}
SpecIds == 1..Len(World.specs)

\* ------------------------------------------------------------------------------------------- mode_specs.py
Schemes == {"http", "https", "http3", "tls", "dtls", "tcp", "udp", "dns", "quic"}
SchemePort(s) == IF s = "http" THEN 80 ELSE IF s \in {"https", "quic", "http3"} THEN 443 ELSE IF s = "dns" THEN 53 ELSE -1
\* net/server_spec.parse: [scheme://]host[:port][/]
ServerSpec(d, dflt) ==
  LET form == IF Len(d) = 1 /\ d[1].t = "w" /\ d[1].s \in World.bare THEN "h"
              ELSE IF Len(d) = 3 /\ d[1].t = "w" /\ d[1].s \in World.bare /\ d[2].t = "c" /\ d[3].t = "n" THEN "hp"
              ELSE IF Len(d) = 3 /\ d[1].t = "w" /\ d[2].t = "c" /\ d[3].t = "w"
                      /\ d[3].s \in ToSet(World.good) \cup ToSet(World.goods) THEN "sh"
              ELSE IF Len(d) = 5 /\ d[1].t = "w" /\ d[2].t = "c" /\ d[3].t = "w" /\ d[3].s \in ToSet(World.good)
                      /\ d[4].t = "c" /\ d[5].t = "n" THEN "shp"
              ELSE "bad"
      scheme == IF form \in {"sh", "shp"} THEN d[1].s ELSE dflt
      port == IF form = "hp" THEN d[3].n ELSE IF form = "shp" THEN d[5].n ELSE SchemePort(scheme) IN
  [ok |-> form # "bad" /\ scheme \in Schemes /\ port >= 0 /\ port <= 65535, scheme |-> scheme]
\* the mode classes: data validation (__post_init__), transport_protocol, default_port
ModeInfo(name, d) ==
  CASE name \in {"regular", "transparent"} -> [ok |-> d = <<>>, tp |-> "tcp", dport |-> 8080]
    [] name = "socks5" -> [ok |-> d = <<>>, tp |-> "tcp", dport |-> 1080]
    [] name = "dns" -> [ok |-> d = <<>>, tp |-> "both", dport |-> 53]
    [] name = "wireguard" -> [ok |-> TRUE, tp |-> "udp", dport |-> 51820]
    [] name = "upstream" -> LET s == ServerSpec(d, "http") IN
                            [ok |-> s.ok /\ s.scheme \in {"http", "https"}, tp |-> "tcp", dport |-> 8080]
    [] name = "reverse" -> LET s == ServerSpec(d, "https") IN
                           [ok |-> s.ok,
                            tp |-> IF s.scheme \in {"http3", "dtls", "udp", "quic"} THEN "udp"
                                   ELSE IF s.scheme \in {"dns", "https"} THEN "both" ELSE "tcp",
                            dport |-> IF s.scheme = "dns" THEN 53 ELSE 8080]
    [] OTHER -> [ok |-> FALSE, tp |-> "", dport |-> -1]
FailSpec == [res |-> "ValueError", type |-> "", full |-> <<>>, data |-> <<>>, hashost |-> FALSE, chost |-> <<>>,
             cport |-> -1, lh0 |-> <<>>, lh1 |-> <<>>, lp0 |-> -1, lp1 |-> -1, tp |-> "", lhost |-> "", lport |-> -1]
\* ProxyMode.parse: rpartition("@"), partition(":"), rpartition(":") of the listen part, int(port), type lookup
ParseCode(toks, via) ==
  LET ats == Pos(toks, "a")
      k == IF ats = {} THEN 0 ELSE MaxOf(ats)
      head0 == IF k = 0 THEN <<>> ELSE SubSeq(toks, 1, k - 1)
      la0 == IF k = 0 THEN toks ELSE SubSeq(toks, k + 1, Len(toks))
      head == IF head0 = <<>> THEN la0 ELSE head0                 \* if not head: head = listen_at; listen_at = ""
      la == IF head0 = <<>> THEN <<>> ELSE la0
      hc == Pos(head, "c")
      j == IF hc = {} THEN 0 ELSE MinOf(hc)
      mode == IF j = 0 THEN head ELSE SubSeq(head, 1, j - 1)
      data == IF j = 0 THEN <<>> ELSE SubSeq(head, j + 1, Len(head))
      lc == Pos(la, "c")
      q == IF lc = {} THEN 0 ELSE MaxOf(lc)
      hashost == q # 0
      host == IF q = 0 THEN <<>> ELSE SubSeq(la, 1, q - 1)
      pstr == IF q = 0 THEN la ELSE SubSeq(la, q + 1, Len(la))
      portok == la = <<>> \/ (Len(pstr) = 1 /\ pstr[1].t = "n" /\ pstr[1].n <= 65535)
      cport == IF la = <<>> THEN -1 ELSE pstr[1].n
      name == IF Len(mode) = 1 /\ mode[1].t = "w" THEN mode[1].s ELSE "?"
      mi == ModeInfo(name, data) IN
  IF ~portok \/ name \notin Documented \/ (via # "ProxyMode" /\ via # name) \/ ~mi.ok THEN FailSpec
  ELSE [res |-> "ok", type |-> name, full |-> toks, data |-> data, hashost |-> hashost, chost |-> host, cport |-> cport,
        lh0 |-> IF hashost THEN host ELSE <<>>, lh1 |-> IF hashost THEN host ELSE DfltHost,
        lp0 |-> IF cport >= 0 THEN cport ELSE mi.dport, lp1 |-> IF cport >= 0 THEN cport ELSE DfltPort,
        tp |-> mi.tp, lhost |-> IF hashost THEN Render(host) ELSE World.opt_host,
        lport |-> IF cport >= 0 THEN cport ELSE IF World.opt_port # 0 THEN World.opt_port ELSE mi.dport]
P == [i \in SpecIds |-> ParseCode(World.specs[i].toks, World.specs[i].via)]
SpecEv(i) == LET p == P[i] IN
  [k |-> "spec", id |-> i, toks |-> World.specs[i].toks, via |-> World.specs[i].via, res |-> p.res, type |-> p.type,
   full |-> p.full, data |-> p.data, hashost |-> p.hashost, chost |-> p.chost, cport |-> p.cport, lh0 |-> p.lh0,
   lh1 |-> p.lh1, lp0 |-> p.lp0, lp1 |-> p.lp1, tp |-> p.tp, lhost |-> p.lhost, lport |-> p.lport]
WorldEv == [k |-> "world", good |-> World.good, goods |-> World.goods, opt_host |-> World.opt_host, opt_port |-> World.opt_port,
            root |-> World.root, nspecs |-> Len(World.specs)]

\* ------------------------------------------------------------------------------------------- the fake OS
\* st = [open, nsid, eph, ext, evs]: the socket table threaded through one critical section, and the records it logs
St == [open |-> open, nsid |-> nsid, eph |-> eph, ext |-> ext, evs |-> <<>>]
Apply(st) == open' = st.open /\ nsid' = st.nsid /\ eph' = st.eph /\ ext' = st.ext
Fam6(h) == h \in {"::", "::1"}
Clash(tp, h, p, tp2, h2, p2) == tp = tp2 /\ p = p2 /\ Fam6(h) = Fam6(h2) /\ (h = h2 \/ h \in Wild \/ h2 \in Wild)
Holder(st, tp, h, p) ==
  IF \E e \in st.ext : Clash(tp, h, p, e.tp, e.host, e.port) THEN -1
  ELSE LET c == SelectSeq(st.open, LAMBDA s : Clash(tp, h, p, s.tp, s.host, s.port)) IN IF c = <<>> THEN 0 ELSE c[1].gen
Bind(st, g, tp, h, req) ==
  LET lit == h \notin World.nonlit
      eph1 == IF lit /\ req = 0 THEN st.eph + 1 ELSE st.eph
      port == IF lit /\ req = 0 THEN EPH0 + eph1 ELSE req
      priv == port < 1024 /\ ~World.root
      away == h \notin Local \/ (Fam6(h) /\ World.nov6)
      hold == IF lit /\ ~priv /\ ~away THEN Holder(st, tp, h, port) ELSE 0
      res == IF ~lit THEN "EAI" ELSE IF priv THEN "EACCES" ELSE IF away THEN "EADDRNOTAVAIL"
             ELSE IF hold # 0 THEN "EADDRINUSE" ELSE "ok"
      sid == IF res = "ok" THEN st.nsid + 1 ELSE 0
      sock == [sid |-> sid, gen |-> g, tp |-> tp, host |-> h, port |-> port]
      ev == [k |-> "bind", gen |-> g, tp |-> tp, host |-> h, req |-> req, port |-> port, res |-> res, hold |-> hold, sid |-> sid] IN
  [st |-> [st EXCEPT !.open = IF res = "ok" THEN Append(@, sock) ELSE @, !.nsid = IF res = "ok" THEN @ + 1 ELSE @,
                     !.eph = eph1, !.evs = Append(@, ev)],
   res |-> res, sock |-> sock]
RECURSIVE CloseAll(_, _)
CloseAll(st, socks) ==
  IF socks = <<>> THEN st
  ELSE LET s == Head(socks) IN
       CloseAll([st EXCEPT !.open = SelectSeq(@, LAMBDA x : x.sid # s.sid),
                           !.evs = Append(@, [k |-> "close", sid |-> s.sid, gen |-> s.gen])], Tail(socks))

\* ------------------------------------------------------------------------------------------- mode_servers.py
\* asyncio.start_server on the fake OS: all addresses of the host or none (sockets bound so far are closed)
RECURSIVE TcpLoop(_, _, _, _, _)
TcpLoop(st, g, hosts, port, done) ==
  IF hosts = <<>> THEN [st |-> st, ok |-> TRUE, socks |-> done, res |-> "ok"]
  ELSE LET b == Bind(st, g, "tcp", Head(hosts), port) IN
       IF b.res = "ok" THEN TcpLoop(b.st, g, Tail(hosts), port, Append(done, b.sock))
       ELSE [st |-> CloseAll(b.st, done), ok |-> FALSE, socks |-> <<>>, res |-> b.res]
TcpHosts(host) == IF host = "" THEN (IF World.nov6 THEN <<"0.0.0.0">> ELSE <<"0.0.0.0", "::">>) ELSE <<host>>
\* AsyncioServerInstance.listen after the port-0 block: TCP server, then the UDP server(s); when a later one fails,
\* `except BaseException: for s in servers: s.close()` closes the earlier ones (CloseOnFail; before the repair the
\* local list `servers` was simply dropped and they kept listening)
ListenAt(st, g, host, port, tp) ==
  LET t == IF tp \in {"tcp", "both"} THEN TcpLoop(st, g, TcpHosts(host), port, <<>>)
           ELSE [st |-> st, ok |-> TRUE, socks |-> <<>>, res |-> "ok"]
      fail(s, exc, inuse) == [st |-> s, ok |-> FALSE, socks |-> <<>>, exc |-> exc, inuse |-> inuse]
      undo(s, bound) == IF CloseOnFail THEN CloseAll(s, bound) ELSE s IN
  IF ~t.ok THEN fail(t.st, IF t.res = "EACCES" THEN "PermissionError" ELSE "OSError", t.res = "EADDRINUSE")
  ELSE IF tp \notin {"udp", "both"} THEN [st |-> t.st, ok |-> TRUE, socks |-> t.socks, exc |-> "", inuse |-> FALSE]
  ELSE IF host = ""
       THEN LET u4 == Bind(t.st, g, "udp", "0.0.0.0", port) IN
            IF u4.res # "ok" THEN fail(undo(u4.st, t.socks), "RuntimeError", FALSE)
            ELSE LET u6 == Bind(u4.st, g, "udp", "::", u4.sock.port) IN     \* failure tolerated: IPv4 only
                 [st |-> u6.st, ok |-> TRUE, exc |-> "", inuse |-> FALSE,
                  socks |-> t.socks \o <<u4.sock>> \o (IF u6.res = "ok" THEN <<u6.sock>> ELSE <<>>)]
       ELSE LET u == Bind(t.st, g, "udp", host, port) IN
            IF u.res # "ok" THEN fail(undo(u.st, t.socks), "RuntimeError", FALSE)
            ELSE [st |-> u.st, ok |-> TRUE, socks |-> Append(t.socks, u.sock), exc |-> "", inuse |-> FALSE]
\* listen(): port 0 first tries one port for everything (get_free_port), then falls back to what asyncio does
Listen(st, g, host, port, tp) ==
  IF port # 0 THEN ListenAt(st, g, host, port, tp)
  ELSE LET fp == EPH0 + st.eph + 1
           e6 == [tp |-> "tcp", host |-> "::", port |-> fp]
           taken == World.fp6 /\ e6 \notin st.ext /\ Holder(st, "tcp", "::", fp) = 0
           st1 == [st EXCEPT !.eph = @ + 1, !.ext = IF taken THEN @ \cup {e6} ELSE @,
                             !.evs = IF taken THEN Append(@, [k |-> "ext_bind", tp |-> "tcp", host |-> "::", port |-> fp, auto |-> TRUE]) ELSE @]
           r == ListenAt(st1, g, host, fp, tp) IN
       IF r.ok THEN r ELSE ListenAt(r.st, g, host, 0, tp)
\* ServerInstance.start -> _start: the new object state and the error class
DoStart(st, g) ==
  LET p == P[objs[g].spec]
      r == Listen(st, g, p.lhost, p.lport, p.tp) IN
  [st |-> r.st, err |-> r.exc,
   obj |-> [spec |-> objs[g].spec, socks |-> IF r.ok THEN r.socks ELSE <<>>, exc |-> r.exc,
            hint |-> ~r.ok /\ r.inuse /\ p.cport = -1]]

\* ------------------------------------------------------------------------------------------- records
Brief1(ob, g) == [spec |-> ob[g].spec, gen |-> g, run |-> ob[g].socks # <<>>]
Full1(ob, g) == [spec |-> ob[g].spec, gen |-> g, run |-> ob[g].socks # <<>>,
                 addrs |-> [i \in 1..Len(ob[g].socks) |-> <<ob[g].socks[i].host, ob[g].socks[i].port>>],
                 exc |-> ob[g].exc, hint |-> ob[g].hint,
                 json |-> [run |-> ob[g].socks # <<>>, exc |-> ob[g].exc # "", spec |-> TRUE,
                           addrs |-> [i \in 1..Len(ob[g].socks) |-> <<ob[g].socks[i].host, ob[g].socks[i].port>>]]]
BriefList(ord, ob) == [i \in 1..Len(ord) |-> Brief1(ob, ord[i])]
ChangedEv(ord, ob) == [k |-> "changed", insts |-> BriefList(ord, ob)]
UpdEv(ok, ord, ob) == [k |-> "upd", res |-> ok, exc |-> "", insts |-> BriefList(ord, ob)]
OpRet(op, err) == <<op, [k |-> "ret", err |-> err]>>
Emit(evs) == obs' = evs /\ mon' = FoldEvents(MonStep, mon, evs)

NewTask(modes) == [modes |-> modes, pc |-> "new", stops |-> <<>>, starts |-> <<>>, pend |-> {}, ok |-> TRUE]
InitEvs == <<WorldEv>> \o [i \in SpecIds |-> SpecEv(i)]
           \o (IF Started THEN <<[k |-> "op", op |-> "running"], [k |-> "ret", err |-> ""],
                                 [k |-> "state", mode |-> <<>>, server |-> TRUE, psrun |-> TRUE, busy |-> FALSE,
                                  insts |-> <<>>, alone |-> <<>>, blocked |-> <<>>]>> ELSE <<>>)
Init == /\ optmode = <<>> /\ optserver = TRUE /\ psrun = Started /\ order = <<>> /\ objs = <<>> /\ open = <<>>
        /\ ext = {} /\ nsid = 0 /\ eph = 0 /\ tasks = <<>> /\ released = {} /\ alone = 0 /\ dirty = FALSE /\ nops = 0
        /\ obs = InitEvs /\ mon = FoldEvents(MonStep, MonInit, InitEvs)
Live == mon.bad = <<>>
\* the loop is idle: no update task, or the one holding the lock waits for blocked starts nobody released
Quiet == IF tasks = <<>> THEN TRUE ELSE (tasks[1].pc = "wait" /\ tasks[1].pend # {} /\ tasks[1].pend \cap released = {})
Env == Live /\ Quiet /\ ~dirty /\ nops < MaxOps

\* ------------------------------------------------------------------------------------------- Servers.update
\* async with self._lock: ... decide which instances are kept, made, stopped; swap the dict; changed.send()
UpdBegin ==
  /\ Live /\ tasks # <<>> /\ tasks[1].pc = "new"
  /\ LET h == tasks[1]
         eff == IF optserver THEN h.modes ELSE <<>>                      \* ctx.options.server is read here
         Have(s) == \E i \in 1..Len(order) : objs[order[i]].spec = s
         GenFor(s) == order[CHOOSE i \in 1..Len(order) : objs[order[i]].spec = s]
         fresh == SelectSeq(eff, LAMBDA s : ~Have(s))
         neworder == [i \in 1..Len(eff) |-> IF Have(eff[i]) THEN GenFor(eff[i]) ELSE Len(objs) + IndexOf(fresh, eff[i])]
         stops == SelectSeq(order, LAMBDA g : objs[g].spec \notin ToSet(eff))
         starts == [i \in 1..Len(fresh) |-> Len(objs) + i]
         objs2 == objs \o [i \in 1..Len(fresh) |-> [spec |-> fresh[i], socks |-> <<>>, exc |-> "", hint |-> FALSE]] IN
     IF stops = <<>> /\ starts = <<>>
     THEN /\ tasks' = Tail(tasks) /\ UNCHANGED <<order, objs>>            \* nothing to do: True, no notification
          /\ Emit(<<UpdEv(TRUE, order, objs)>>)
     ELSE /\ order' = neworder /\ objs' = objs2
          /\ tasks' = [tasks EXCEPT ![1] = [h EXCEPT !.pc = IF stops # <<>> THEN "stop" ELSE "start",
                                                     !.stops = stops, !.starts = starts]]
          /\ Emit(<<ChangedEv(neworder, objs2)>>)
  /\ UNCHANGED <<optmode, optserver, psrun, open, ext, nsid, eph, released, alone, dirty, nops>>
\* gather(*stop_tasks): ServerInstance.stop of a removed instance (AssertionError when it never started)
StopOne ==
  /\ Live /\ tasks # <<>> /\ tasks[1].pc = "stop"
  /\ LET h == tasks[1]
         g == Head(h.stops)
         rest == Tail(h.stops)
         running == objs[g].socks # <<>>
         st2 == CloseAll(St, objs[g].socks) IN
     /\ objs' = [objs EXCEPT ![g].socks = <<>>, ![g].exc = IF running THEN "" ELSE "AssertionError"]
     /\ tasks' = [tasks EXCEPT ![1].stops = rest, ![1].ok = h.ok /\ running,
                               ![1].pc = IF rest # <<>> THEN "stop" ELSE IF h.starts # <<>> THEN "start" ELSE "wait"]
     /\ Apply(st2) /\ Emit(st2.evs)
  /\ UNCHANGED <<optmode, optserver, psrun, order, released, alone, dirty, nops>>
\* gather(*start_tasks): the next start task runs until it returns, raises or blocks
StartOne ==
  /\ Live /\ tasks # <<>> /\ tasks[1].pc = "start"
  /\ LET h == tasks[1]
         g == Head(h.starts)
         rest == Tail(h.starts)
         pc2 == IF rest # <<>> THEN "start" ELSE "wait" IN
     IF objs[g].spec \in World.slow
     THEN /\ tasks' = [tasks EXCEPT ![1].starts = rest, ![1].pend = @ \cup {g}, ![1].pc = pc2]
          /\ UNCHANGED <<objs, open, ext, nsid, eph>> /\ Emit(<<>>)
     ELSE LET r == DoStart(St, g) IN
          /\ objs' = [objs EXCEPT ![g] = r.obj]
          /\ tasks' = [tasks EXCEPT ![1].starts = rest, ![1].ok = h.ok /\ r.err = "", ![1].pc = pc2]
          /\ Apply(r.st) /\ Emit(r.st.evs)
  /\ UNCHANGED <<optmode, optserver, psrun, order, released, alone, dirty, nops>>
\* a blocked start continues after the environment released it
Resume(g) ==
  /\ Live /\ tasks # <<>> /\ tasks[1].pc = "wait" /\ g \in tasks[1].pend /\ g \in released
  /\ LET r == DoStart(St, g) IN
     /\ objs' = [objs EXCEPT ![g] = r.obj]
     /\ tasks' = [tasks EXCEPT ![1].pend = @ \ {g}, ![1].ok = @ /\ r.err = ""]
     /\ Apply(r.st) /\ Emit(r.st.evs)
  /\ released' = released \ {g}
  /\ UNCHANGED <<optmode, optserver, psrun, order, alone, dirty, nops>>
\* lock released; changed.send(); return all_ok
UpdEnd ==
  /\ Live /\ tasks # <<>> /\ tasks[1].pc = "wait" /\ tasks[1].pend = {}
  /\ tasks' = Tail(tasks)
  /\ Emit(<<ChangedEv(order, objs), UpdEv(tasks[1].ok, order, objs)>>)
  /\ UNCHANGED <<optmode, optserver, psrun, order, objs, open, ext, nsid, eph, released, alone, dirty, nops>>
\* the harness's snapshot once the loop is idle again
Snap ==
  /\ Live /\ dirty /\ Quiet
  /\ dirty' = FALSE
  /\ Emit(<<[k |-> "state", mode |-> optmode, server |-> optserver, psrun |-> psrun, busy |-> tasks # <<>>,
             insts |-> [i \in 1..Len(order) |-> Full1(objs, order[i])],
             alone |-> IF alone = 0 THEN <<>> ELSE <<Full1(objs, alone)>>,
             blocked |-> IF tasks = <<>> THEN <<>> ELSE SetToSortSeq(tasks[1].pend, LAMBDA x, y : x < y)]>>)
  /\ UNCHANGED <<optmode, optserver, psrun, order, objs, open, ext, nsid, eph, tasks, released, alone, nops>>

\* ------------------------------------------------------------------------------------------- environment
\* options.update(mode=...) -> Proxyserver.configure: parse all, refuse duplicates, schedule an update when running;
\* a refusal rolls the option back, which runs configure again with the old value
SetMode(c) ==
  /\ Env /\ "SetMode" \in Ops
  /\ LET valid == \A i \in 1..Len(c) : P[c[i]].res = "ok"
         dup == valid /\ \E a, b \in 1..Len(c) : /\ a < b /\ P[c[a]].lhost = P[c[b]].lhost /\ P[c[a]].lport = P[c[b]].lport
                                                 /\ Protos(P[c[a]].tp) \cap Protos(P[c[b]].tp) # {}
         acc == valid /\ ~dup
         now == IF acc THEN c ELSE optmode IN
     /\ optmode' = now
     /\ tasks' = IF psrun THEN Append(tasks, NewTask(now)) ELSE tasks
     /\ Emit(OpRet([k |-> "op", op |-> "set_mode", cfg |-> c], IF acc THEN "" ELSE "OptionsError"))
  /\ dirty' = TRUE /\ nops' = nops + 1
  /\ UNCHANGED <<optserver, psrun, order, objs, open, ext, nsid, eph, released, alone>>
SetServer(b) ==
  /\ Env /\ "SetServer" \in Ops /\ b # optserver
  /\ optserver' = b
  /\ tasks' = IF psrun THEN Append(tasks, NewTask(optmode)) ELSE tasks
  /\ Emit(OpRet([k |-> "op", op |-> "set_server", on |-> b], ""))
  /\ dirty' = TRUE /\ nops' = nops + 1
  /\ UNCHANGED <<optmode, psrun, order, objs, open, ext, nsid, eph, released, alone>>
Running ==
  /\ Env /\ "Running" \in Ops /\ ~psrun
  /\ psrun' = TRUE
  /\ Emit(OpRet([k |-> "op", op |-> "running"], ""))
  /\ dirty' = TRUE /\ nops' = nops + 1
  /\ UNCHANGED <<optmode, optserver, order, objs, open, ext, nsid, eph, tasks, released, alone>>
Setup ==
  /\ Env /\ "Setup" \in Ops
  /\ tasks' = Append(tasks, NewTask(optmode))
  /\ Emit(OpRet([k |-> "op", op |-> "setup"], ""))
  /\ dirty' = TRUE /\ nops' = nops + 1
  /\ UNCHANGED <<optmode, optserver, psrun, order, objs, open, ext, nsid, eph, released, alone>>
Release(s) ==
  /\ Env /\ "Release" \in Ops /\ tasks # <<>>
  /\ \E g \in tasks[1].pend : objs[g].spec = s
  /\ LET g == MinOf({x \in tasks[1].pend : objs[x].spec = s}) IN
     /\ released' = released \cup {g}
     /\ Emit(OpRet([k |-> "op", op |-> "release", spec |-> s, gen |-> g], ""))
  /\ dirty' = TRUE /\ nops' = nops + 1
  /\ UNCHANGED <<optmode, optserver, psrun, order, objs, open, ext, nsid, eph, tasks, alone>>
ExtBind(e) ==
  /\ Env /\ "ExtBind" \in Ops /\ e \notin ext /\ Holder(St, e.tp, e.host, e.port) = 0
  /\ ext' = ext \cup {e}
  /\ Emit(<<[k |-> "ext_bind", tp |-> e.tp, host |-> e.host, port |-> e.port, auto |-> FALSE]>>)
  /\ dirty' = TRUE /\ nops' = nops + 1
  /\ UNCHANGED <<optmode, optserver, psrun, order, objs, open, nsid, eph, tasks, released, alone>>
ExtFree(e) ==
  /\ Env /\ "ExtFree" \in Ops /\ e \in ext
  /\ ext' = ext \ {e}
  /\ Emit(<<[k |-> "ext_free", tp |-> e.tp, host |-> e.host, port |-> e.port]>>)
  /\ dirty' = TRUE /\ nops' = nops + 1
  /\ UNCHANGED <<optmode, optserver, psrun, order, objs, open, nsid, eph, tasks, released, alone>>
\* Proxyserver.server_connect: refuse destinations that are our own listening sockets (all of Dests are loopback
\* hosts, so connect_is_local holds: the port and the mode's transport decide)
Connect(d) ==
  /\ Env /\ "Connect" \in Ops
  /\ LET hit == \E i \in 1..Len(order) : /\ P[objs[order[i]].spec].tp \in {"both", d.tp}
                                          /\ \E k \in 1..Len(objs[order[i]].socks) : objs[order[i]].socks[k].port = d.port IN
     Emit(<<[k |-> "connect", host |-> d.host, port |-> d.port, tp |-> d.tp, refused |-> hit, err |-> ""]>>)
  /\ dirty' = TRUE /\ nops' = nops + 1
  /\ UNCHANGED <<optmode, optserver, psrun, order, objs, open, ext, nsid, eph, tasks, released, alone>>
\* ServerInstance.make / start / stop called directly (the module docstring's example)
Make(s) ==
  /\ Env /\ "Make" \in Ops /\ P[s].res = "ok" /\ (IF alone = 0 THEN TRUE ELSE objs[alone].socks = <<>>)
  /\ objs' = Append(objs, [spec |-> s, socks |-> <<>>, exc |-> "", hint |-> FALSE])
  /\ alone' = Len(objs) + 1
  /\ Emit(<<[k |-> "op", op |-> "make", spec |-> s], [k |-> "ret", err |-> "", gen |-> Len(objs) + 1]>>)
  /\ dirty' = TRUE /\ nops' = nops + 1
  /\ UNCHANGED <<optmode, optserver, psrun, order, open, ext, nsid, eph, tasks, released>>
IStart ==
  /\ Env /\ "IStart" \in Ops /\ alone # 0 /\ objs[alone].socks = <<>>
  /\ LET r == DoStart(St, alone) IN
     /\ objs' = [objs EXCEPT ![alone] = r.obj]
     /\ Apply(r.st)
     /\ Emit(<<[k |-> "op", op |-> "istart", gen |-> alone]>> \o r.st.evs \o <<[k |-> "ret", err |-> r.err]>>)
  /\ dirty' = TRUE /\ nops' = nops + 1
  /\ UNCHANGED <<optmode, optserver, psrun, order, tasks, released, alone>>
IStop ==
  /\ Env /\ "IStop" \in Ops /\ alone # 0 /\ objs[alone].socks # <<>>
  /\ LET st2 == CloseAll(St, objs[alone].socks) IN
     /\ objs' = [objs EXCEPT ![alone].socks = <<>>, ![alone].exc = ""]
     /\ Apply(st2)
     /\ Emit(<<[k |-> "op", op |-> "istop", gen |-> alone]>> \o st2.evs \o <<[k |-> "ret", err |-> ""]>>)
  /\ dirty' = TRUE /\ nops' = nops + 1
  /\ UNCHANGED <<optmode, optserver, psrun, order, tasks, released, alone>>

Next == \/ UpdBegin \/ StopOne \/ StartOne \/ UpdEnd \/ Snap
        \/ \E g \in 1..MaxGen : Resume(g)
        \/ \E c \in Configs : SetMode(c)
        \/ \E b \in BOOLEAN : SetServer(b)
        \/ Running \/ Setup
        \/ \E s \in SpecIds : Release(s)
        \/ \E e \in ExtAddrs : ExtBind(e)
        \/ \E e \in ExtAddrs : ExtFree(e)
        \/ \E s \in Alone : Make(s)
        \/ \E d \in Dests : Connect(d)
        \/ IStart \/ IStop
Spec == Init /\ [][Next]_vars

Report == mon.bad # <<>> => PrintT(<<"BAD", mon.bad>>)
\* design-level facts of the model
OneInstancePerSpec == \A i, j \in 1..Len(order) : objs[order[i]].spec = objs[order[j]].spec => i = j
SocketsOwned == \A i \in 1..Len(objs) : \A k \in 1..Len(objs[i].socks) : \E s \in ToSet(open) : s.sid = objs[i].socks[k].sid
GenBound == Len(objs) <= MaxGen
=============================================================================
