--------------------------- MODULE Mon_ModeServers ---------------------------
(* X02 (coverage extension, not one of the 54 given properties): proxy mode specifications, server instances and
   the proxyserver addon's management of them.

   Statement judged here.  Sources: docstrings of mitmproxy/proxy/mode_specs.py and mode_servers.py, the help texts of
   the options mode / listen_host / listen_port / server, docs/src/content/concepts/modes.md, the module docstring
   of addons/proxyserver.py ("responsible for starting/stopping the proxy server sockets/instances specified by the
   mode option") and its user-facing error texts.
   (P) Mode specifications have the form   mode [: mode_configuration] [@ [listen_addr:]listen_port].
     P1  A spec of that form -- mode one of regular, transparent, socks5, dns (no configuration), reverse, upstream
         (configuration http[s]://host[:port]), wireguard (optional path); port a decimal number in 0..65535 -- parses;
         the result has type_name = mode, full_spec = the spec as entered, data = the configuration part,
         custom_listen_host / custom_listen_port = what follows the @ (None when absent).  A mode class parses its
         own specs (RegularMode.parse("regular")).
     P2  ValueError is raised for an unknown mode, a listen port that is not a number in 0..65535, a configuration
         given to a mode that takes none, and a spec of another mode handed to a mode class.
     P3  listen_host(default) is the custom host, else the default, else "" (all interfaces); listen_port(default)
         is the custom port, else the default, else the mode's default port (documented: regular 8080, dns 53,
         wireguard 51820, reverse 8080 but 53 for dns://).
   (S) Server instances (ServerInstance.start / stop / is_running / listen_addrs / last_exception).
     S1  After start() returned normally the instance is running, last_exception is None, it listens on every
         transport of its mode, on the port of the spec (unless that is 0) and on the listen host of the spec (all
         interfaces when there is none), and listen_addrs are exactly its open listening sockets.
     S2  When start() fails the instance is not running and last_exception is that error.  After stop() it is not
         running and last_exception is None.
     S3  An instance that is not running has no listen_addrs and holds no listening socket.
   (U) Proxyserver / Servers.update.
     U1  The mode option is validated when set: an unparsable spec is refused with OptionsError, so are two modes on
         the same address ("Cannot spawn multiple servers on the same address"); valid modes on pairwise different
         ports are accepted.  Nothing else is raised.  A refused value leaves the option as it was.
     U2  Once the servers were set up (setup_servers) or the proxy is running, and no update is in progress, there
         is exactly one instance per entry of the mode option if the server option is on, none if it is off; every
         instance is running unless a bind of its own start failed (one failing start does not prevent the others).
     U3  Instances of modes that stay in the option keep running undisturbed (same instance, sockets not closed);
         instances of removed modes are stopped: their sockets are closed when the update is done.
     U4  Ports are freed before new servers start: a start never fails because of a socket of an instance that the
         same or an earlier update removed.
     U5  update() does not raise; it returns True only if every instance it started is running.
     U6  Listeners of Servers.changed are notified after the last change of an update: what they saw last is the
         final list of instances and their running state.
     U7  server_connect refuses (sets server.error) a connection to a listening socket of a running instance: same
         port and transport and the socket's address, or a loopback address when the socket is bound to the wildcard
         or loopback of that family; a destination port on which no instance listens is never refused.  (The full
         statement about self-connects is C23 / spec/SelfConnect; here the real instances' listen_addrs feed it.)
     S4  to_json() reports is_running, listen_addrs, full_spec and whether there is a last_exception as the
         attributes do.

   Events (see lib/vf/modenet.py).  Tokens: [t |-> "w"|"n"|"c"|"a", s |-> text, n |-> number].
     [k |-> "world", good |-> <<words "//hostname" built by the harness>>, goods |-> <<the same with a trailing "/">>,
      opt_host, opt_port (0 = None), root, nspecs]
     [k |-> "spec", id, toks, via, res |-> "ok"|"ValueError"|class, type, full, data, hashost, chost, cport (-1 = None),
      lh0, lh1 (listen_host() / listen_host("dflt.example") as tokens), lp0, lp1 (listen_port() / listen_port(4424)),
      tp, lhost, lport (with the world's options; -1 = None)]
     [k |-> "op", op |-> "set_mode"|"set_server"|"running"|"setup"|"release"|"make"|"istart"|"istop", ...]
     [k |-> "ret", err]      [k |-> "bind", gen, tp, host, req, port, res, hold, sid]      [k |-> "close", sid, gen]
     [k |-> "ext_bind"|"ext_free", tp, host, port]      [k |-> "changed", insts]      [k |-> "upd", res, exc, insts]
     [k |-> "state", mode, server, psrun, busy, insts, alone, blocked]      [k |-> "end"]
     [k |-> "connect", host, port, tp, refused, err]                           *)
EXTENDS Verif, TLC

NoArg == {"regular", "transparent", "socks5", "dns"}
Documented == NoArg \cup {"reverse", "upstream", "wireguard"}
AllTypes == Documented \cup {"local", "tun", "osproxy"}
Wild == {"0.0.0.0", "::"}
DfltHost == <<[t |-> "w", s |-> "dflt.example", n |-> 0]>>
DfltPort == 4424

MaxOf(S) == CHOOSE x \in S : \A y \in S : y <= x
MinOf(S) == CHOOSE x \in S : \A y \in S : x <= y
Pos(s, kind) == {i \in 1..Len(s) : s[i].t = kind}
RECURSIVE Render(_)
Render(s) == IF s = <<>> THEN ""
             ELSE (IF Head(s).t = "n" THEN ToString(Head(s).n) ELSE IF Head(s).t = "c" THEN ":"
                   ELSE IF Head(s).t = "a" THEN "@" ELSE Head(s).s) \o Render(Tail(s))

\* the grammar's reading of a spec with at most one "@" (which then is not the first token and not the last)
Shape(toks) ==
  LET ats == Pos(toks, "a")
      k == IF ats = {} THEN 0 ELSE MaxOf(ats)
      head == IF k = 0 THEN toks ELSE SubSeq(toks, 1, k - 1)
      la == IF k = 0 THEN <<>> ELSE SubSeq(toks, k + 1, Len(toks))
      hc == Pos(head, "c")
      j == IF hc = {} THEN 0 ELSE MinOf(hc)
      mode == IF j = 0 THEN head ELSE SubSeq(head, 1, j - 1)
      data == IF j = 0 THEN <<>> ELSE SubSeq(head, j + 1, Len(head))
      lc == Pos(la, "c")
      q == IF lc = {} THEN 0 ELSE MaxOf(lc)
      pstr == IF q = 0 THEN la ELSE SubSeq(la, q + 1, Len(la)) IN
  [ok |-> Cardinality(ats) = 0 \/ (Cardinality(ats) = 1 /\ k >= 2 /\ k < Len(toks)),
   nat |-> Cardinality(ats),
   name |-> IF Len(mode) = 1 /\ mode[1].t = "w" THEN mode[1].s ELSE "?",
   data |-> data,
   listen |-> k # 0,
   hashost |-> q # 0,
   host |-> IF q = 0 THEN <<>> ELSE SubSeq(la, 1, q - 1),
   portok |-> Len(pstr) = 1 /\ pstr[1].t = "n" /\ pstr[1].n >= 0 /\ pstr[1].n <= 65535,
   port |-> IF Len(pstr) = 1 /\ pstr[1].t = "n" THEN pstr[1].n ELSE -1]

DocUrl(w, d) == /\ Len(d) \in {3, 5}
                /\ d[1].t = "w" /\ d[1].s \in {"http", "https"}
                /\ d[2].t = "c" /\ d[3].t = "w" /\ d[3].s \in ToSet(w.good) \cup (IF Len(d) = 3 THEN ToSet(w.goods) ELSE {})
                /\ Len(d) = 5 => (d[4].t = "c" /\ d[5].t = "n" /\ d[5].n >= 1 /\ d[5].n <= 65535)
DocData(w, name, d) == \/ name \in NoArg /\ d = <<>>
                       \/ name \in {"reverse", "upstream"} /\ DocUrl(w, d)
                       \/ name = "wireguard" /\ (d = <<>> \/ (Len(d) = 1 /\ d[1].t = "w"))
\* documented default ports; -2: the documentation does not say
DocDefault(name, d) == IF name = "regular" THEN 8080 ELSE IF name = "dns" THEN 53
                       ELSE IF name = "wireguard" THEN 51820
                       ELSE IF name = "reverse" /\ Len(d) >= 1 /\ d[1].t = "w" /\ d[1].s \in {"http", "https"} THEN 8080
                       ELSE IF name = "reverse" /\ Len(d) >= 1 /\ d[1].t = "w" /\ d[1].s = "dns" THEN 53
                       ELSE -2

SpecBad(w, ev) ==
  LET sh == Shape(ev.toks)
      viaok == ev.via = "ProxyMode" \/ ev.via = sh.name
      must == /\ sh.ok /\ sh.name \in Documented /\ DocData(w, sh.name, sh.data) /\ viaok
              /\ sh.listen => (sh.portok /\ (sh.hashost => sh.host # <<>>))
      why == IF sh.name \notin AllTypes THEN "unknown_mode"
             ELSE IF sh.listen /\ ~sh.portok THEN "bad_port"
             ELSE IF sh.name \in NoArg /\ sh.data # <<>> THEN "unexpected_configuration"
             ELSE IF sh.name \in Documented /\ ~viaok THEN "other_mode_class"
             ELSE ""
      cport == IF sh.listen THEN sh.port ELSE -1
      dd == DocDefault(ev.type, ev.data) IN
  IF must /\ ev.res # "ok" THEN <<"X02.valid_spec_refused", sh.name, ev.res>>
  ELSE IF sh.ok /\ why # "" /\ ev.res # "ValueError" THEN <<"X02.invalid_spec_accepted", why, ev.res>>
  ELSE IF ev.res # "ok" THEN <<>>
  ELSE IF must /\ ev.type # sh.name THEN <<"X02.parsed_fields", "type_name">>
  ELSE IF must /\ ev.full # ev.toks THEN <<"X02.parsed_fields", "full_spec">>
  ELSE IF must /\ ev.data # sh.data THEN <<"X02.parsed_fields", "data">>
  ELSE IF must /\ (ev.hashost # sh.hashost \/ (sh.hashost /\ ev.chost # sh.host))
       THEN <<"X02.parsed_fields", "custom_listen_host">>
  ELSE IF must /\ ev.cport # cport THEN <<"X02.parsed_fields", "custom_listen_port">>
  ELSE IF ev.tp \notin {"tcp", "udp", "both"} THEN <<"X02.parsed_fields", "transport_protocol">>
  ELSE IF ev.lh0 # (IF ev.hashost THEN ev.chost ELSE <<>>) THEN <<"X02.listen_defaults", "listen_host">>
  ELSE IF ev.lh1 # (IF ev.hashost THEN ev.chost ELSE DfltHost) THEN <<"X02.listen_defaults", "listen_host_default">>
  ELSE IF ev.lp1 # (IF ev.cport >= 0 THEN ev.cport ELSE DfltPort) THEN <<"X02.listen_defaults", "listen_port_default">>
  ELSE IF ev.cport >= 0 /\ ev.lp0 # ev.cport THEN <<"X02.listen_defaults", "listen_port">>
  ELSE IF ev.cport < 0 /\ dd # -2 /\ ev.lp0 # dd THEN <<"X02.listen_defaults", "mode_default_port">>
  ELSE IF ev.lhost # (IF ev.hashost THEN Render(ev.chost) ELSE w.opt_host)
       THEN <<"X02.listen_defaults", "listen_host_option">>
  ELSE IF ev.lport # (IF ev.cport >= 0 THEN ev.cport ELSE IF w.opt_port # 0 THEN w.opt_port ELSE ev.lp0)
       THEN <<"X02.listen_defaults", "listen_port_option">>
  ELSE <<>>

SpecWit(w, ev) ==
  LET sh == Shape(ev.toks) IN
  (IF ev.res = "ok" THEN {"spec_parsed"} ELSE {"spec_refused"})
  \cup (IF sh.ok /\ sh.name \notin AllTypes THEN {"spec_unknown_mode"} ELSE {})
  \cup (IF sh.ok /\ sh.listen /\ ~sh.portok THEN {"spec_bad_port"} ELSE {})
  \cup (IF sh.ok /\ sh.name \in NoArg /\ sh.data # <<>> THEN {"spec_unexpected_configuration"} ELSE {})
  \cup (IF sh.ok /\ sh.name \in Documented /\ ev.via \notin {"ProxyMode", sh.name} THEN {"spec_other_mode_class"} ELSE {})
  \cup (IF ev.res = "ok" /\ ev.hashost THEN {"spec_custom_host"} ELSE {})
  \cup (IF ev.res = "ok" /\ ev.cport < 0 /\ DocDefault(ev.type, ev.data) # -2 THEN {"spec_default_port"} ELSE {})
  \cup (IF ev.res = "ok" /\ sh.name \in {"reverse", "upstream"} THEN {"spec_with_configuration"} ELSE {})
  \cup (IF sh.nat >= 2 THEN {"spec_ambiguous"} ELSE {})

\* ---------------------------------------------------------------------------------------------------------
NoOp == [op |-> "none"]
NoWorld == [good |-> <<>>, goods |-> <<>>, opt_host |-> "", opt_port |-> 0, root |-> FALSE]
MonInit == [bad |-> <<>>, wit |-> {}, w |-> NoWorld, sp |-> <<>>, mode |-> <<>>, server |-> TRUE, psrun |-> FALSE,
            synced |-> FALSE, cur |-> NoOp, open |-> <<>>, failed |-> {}, listed |-> <<>>, lastchg |-> <<>>,
            keep |-> {}, alones |-> {}, direct |-> [op |-> "none", err |-> ""], gspec |-> {}, ran |-> {}, freed |-> {}, fresh |-> {}, lastop |-> "none"]

Protos(tp) == IF tp = "both" THEN {"tcp", "udp"} ELSE {tp}
Eff(mode, server) == IF server THEN mode ELSE <<>>
Gens(insts) == {insts[i].gen : i \in 1..Len(insts)}
Brief(insts) == [i \in 1..Len(insts) |-> [spec |-> insts[i].spec, gen |-> insts[i].gen, run |-> insts[i].run]]
SpecOfGen(m, g) == IF \E p \in m.gspec : p[1] = g THEN (CHOOSE p \in m.gspec : p[1] = g)[2] ELSE 0
Note(m, insts) == m.gspec \cup {<<insts[i].gen, insts[i].spec>> : i \in 1..Len(insts)}
Ran(m, insts) == m.ran \cup {insts[i].gen : i \in {j \in 1..Len(insts) : insts[j].run}}
KeepFor(m, eff) == {g \in m.keep : SpecOfGen(m, g) \in ToSet(eff)}
SocksOf(m, g) == SelectSeq(m.open, LAMBDA s : s.gen = g)
AddrsOf(socks) == [i \in 1..Len(socks) |-> <<socks[i].host, socks[i].port>>]
AddrSet(m, i) == IF m.sp[i].lport = -1 THEN {} ELSE {<<m.sp[i].lhost, m.sp[i].lport, p>> : p \in Protos(m.sp[i].tp)}

SetModeBad(m, cfg, err) ==
  LET known == \A a \in 1..Len(cfg) : cfg[a] >= 1 /\ cfg[a] <= Len(m.sp)
      valid == known /\ \A a \in 1..Len(cfg) : m.sp[cfg[a]].res = "ok"
      dup == valid /\ \E a, b \in 1..Len(cfg) : a < b /\ \E x \in AddrSet(m, cfg[a]) : x \in AddrSet(m, cfg[b]) /\ x[2] # 0
      apart == /\ valid /\ (\A a, b \in 1..Len(cfg) : a < b => (m.sp[cfg[a]].lport # m.sp[cfg[b]].lport))
               /\ (\A c \in 1..Len(cfg) : m.sp[cfg[c]].lport > 0) IN
  IF err \notin {"", "OptionsError"} THEN <<"X02.configure_raised", err>>
  ELSE IF known /\ ~valid /\ err = "" THEN <<"X02.invalid_mode_accepted">>
  ELSE IF dup /\ err = "" THEN <<"X02.duplicate_address_accepted">>
  ELSE IF apart /\ err # "" THEN <<"X02.valid_modes_refused", err>>
  ELSE <<>>
SetModeWit(m, cfg, err) ==
  LET valid == \A a \in 1..Len(cfg) : cfg[a] >= 1 /\ cfg[a] <= Len(m.sp) /\ m.sp[cfg[a]].res = "ok" IN
  (IF ~valid THEN {"set_invalid_mode"} ELSE {})
  \cup (IF valid /\ err # "" THEN {"set_duplicate_refused"} ELSE {})
  \cup (IF err = "" /\ m.psrun THEN {"set_mode_running"} ELSE {})
  \cup (IF err = "" /\ ~m.psrun THEN {"set_mode_not_running"} ELSE {})
  \cup (IF err = "" /\ m.psrun /\ m.listed # <<>> /\ \E i \in 1..Len(m.listed) : m.listed[i].spec \in ToSet(cfg) THEN {"mode_kept"} ELSE {})
  \cup (IF err = "" /\ m.psrun /\ m.listed # <<>> /\ \E i \in 1..Len(m.listed) : m.listed[i].spec \notin ToSet(cfg) THEN {"mode_removed"} ELSE {})

\* one instance view of a state record against the sockets the fake OS has open for it
InstBad(m, x, managed, busy) ==
  LET socks == SocksOf(m, x.gen)
      sp == m.sp[x.spec]
      fits == \A i \in 1..Len(socks) :
                 /\ sp.lport # 0 => socks[i].port = sp.lport
                 /\ IF sp.lhost = "" THEN socks[i].host \in Wild ELSE socks[i].host = sp.lhost
                 /\ socks[i].tp \in Protos(sp.tp) IN
  IF ~x.run /\ socks # <<>>
  THEN <<"X02.socket_leak", IF x.gen \in m.failed /\ x.gen \notin m.ran THEN "failed_start" ELSE "stopped", socks[1].tp>>
  ELSE IF x.run /\ socks = <<>> THEN <<"X02.running_without_socket">>
  ELSE IF x.addrs # (IF x.run THEN AddrsOf(socks) ELSE <<>>) THEN <<"X02.listen_addrs_mismatch", IF x.run THEN "running" ELSE "stopped">>
  ELSE IF x.run /\ ~fits THEN <<"X02.wrong_listen_address">>
  ELSE IF x.run /\ \E p \in Protos(sp.tp) : \A i \in 1..Len(socks) : socks[i].tp # p THEN <<"X02.transport_missing", sp.tp>>
  ELSE IF x.run /\ x.exc # "" THEN <<"X02.last_exception", "set_while_running">>
  ELSE IF x.json.run # x.run \/ x.json.addrs # x.addrs \/ x.json.exc # (x.exc # "") \/ ~x.json.spec
       THEN <<"X02.to_json_differs", IF x.json.run # x.run THEN "is_running" ELSE IF x.json.addrs # x.addrs THEN "listen_addrs"
                                     ELSE IF ~x.json.spec THEN "full_spec" ELSE "last_exception">>
  ELSE IF managed /\ ~busy /\ ~x.run /\ x.gen \in m.failed /\ x.exc = "" THEN <<"X02.last_exception", "failed_start_not_recorded">>
  ELSE <<>>

FirstBad(seq) == IF \E i \in 1..Len(seq) : seq[i] # <<>>
                 THEN seq[MinOf({i \in 1..Len(seq) : seq[i] # <<>>})] ELSE <<>>

StateBad(m, ev) ==
  LET I == ev.insts
      eff == Eff(m.mode, m.server)
      listedG == Gens(I) \cup Gens(ev.alone) \cup m.alones
      orphan == SelectSeq(m.open, LAMBDA s : s.gen \notin listedG)
      per == [i \in 1..Len(I) |-> InstBad(m, I[i], TRUE, ev.busy)]
      al == [i \in 1..Len(ev.alone) |-> InstBad(m, ev.alone[i], FALSE, ev.busy)]
      d == m.direct
      av == IF ev.alone = <<>> THEN [run |-> FALSE, exc |-> "", gen |-> 0] ELSE ev.alone[1] IN
  IF \E i \in 1..Len(I) : I[i].spec < 1 \/ I[i].spec > Len(m.sp) THEN <<"X02.trace_malformed", "unknown_spec">>
  ELSE IF \E i \in 1..Len(ev.alone) : ev.alone[i].spec < 1 \/ ev.alone[i].spec > Len(m.sp) THEN <<"X02.trace_malformed", "unknown_spec">>
  ELSE IF ev.mode # m.mode \/ ev.server # m.server THEN <<"X02.option_value", IF ev.mode # m.mode THEN "mode" ELSE "server">>
  ELSE IF FirstBad(per) # <<>> THEN FirstBad(per)
  ELSE IF FirstBad(al) # <<>> THEN FirstBad(al)
  ELSE IF d.op = "istart" /\ d.err = "" /\ ~av.run THEN <<"X02.start_result", "returned_but_not_running">>
  ELSE IF d.op = "istart" /\ d.err # "" /\ (av.run \/ av.exc # d.err) THEN <<"X02.start_result", "raised_but_state_differs">>
  ELSE IF d.op = "istart" /\ d.err # "" /\ av.gen \notin m.failed THEN <<"X02.start_result", "raised_without_cause">>
  ELSE IF d.op = "istop" /\ d.err = "" /\ (av.run \/ av.exc # "") THEN <<"X02.stop_result">>
  ELSE IF ~ev.busy /\ orphan # <<>>
       THEN <<"X02.socket_leak", IF orphan[1].gen \in m.failed /\ orphan[1].gen \notin m.ran THEN "removed_failed_start" ELSE "removed", orphan[1].tp>>
  ELSE IF ~ev.busy /\ Brief(I) # m.lastchg THEN <<"X02.listeners_stale">>
  ELSE IF ~ev.busy /\ m.synced /\ \E i \in 1..Len(eff) : \A j \in 1..Len(I) : I[j].spec # eff[i]
       THEN <<"X02.instances_do_not_match_modes", "missing">>
  ELSE IF ~ev.busy /\ m.synced /\ (Len(I) # Len(eff) \/ \E j \in 1..Len(I) : I[j].spec \notin ToSet(eff))
       THEN <<"X02.instances_do_not_match_modes", "extra">>
  ELSE IF ~ev.busy /\ m.synced /\ \E j \in 1..Len(I) : ~I[j].run /\ I[j].gen \notin m.failed
       THEN <<"X02.instance_not_started">>
  ELSE IF ~ev.busy /\ m.synced /\ \E g \in m.keep : g \notin Gens(I) THEN <<"X02.kept_instance_replaced">>
  ELSE <<>>

StateWit(m, ev) ==
  LET I == ev.insts IN
  (IF ~ev.busy /\ m.synced THEN {"quiescent"} ELSE {})
  \cup (IF ~ev.busy /\ m.synced /\ Len(I) >= 2 THEN {"two_instances"} ELSE {})
  \cup (IF ~ev.busy /\ m.synced /\ I # <<>> /\ \E j \in 1..Len(I) : ~I[j].run THEN {"failed_instance_listed"} ELSE {})
  \cup (IF ~ev.busy /\ m.synced /\ \E j \in 1..Len(I) : ~I[j].run /\ \E k \in 1..Len(I) : I[k].run THEN {"one_fails_others_run"} ELSE {})
  \cup (IF ~ev.busy /\ m.synced /\ ~m.server /\ m.mode # <<>> THEN {"server_off"} ELSE {})
  \cup (IF ~ev.busy /\ m.synced /\ m.keep # {} /\ m.keep \subseteq Gens(I) THEN {"instance_kept"} ELSE {})
  \cup (IF ev.busy THEN {"update_in_progress"} ELSE {})
  \cup (IF \E j \in 1..Len(I) : I[j].hint THEN {"port_hint_shown"} ELSE {})
  \cup (IF ev.busy /\ ev.blocked # <<>> /\ m.lastop \in {"set_mode", "set_server"} THEN {"option_changed_during_update"} ELSE {})
  \cup (IF \E j \in 1..Len(I) : I[j].run /\ Len(I[j].addrs) >= 3 THEN {"dual_transport"} ELSE {})
  \cup (IF \E j \in 1..Len(I) : I[j].run /\ m.sp[I[j].spec].lport = 0 THEN {"port_zero"} ELSE {})
  \cup (IF \E j \in 1..Len(I) : I[j].run /\ m.sp[I[j].spec].lhost # "" THEN {"explicit_host"} ELSE {})
  \cup (IF m.direct.op = "istart" /\ m.direct.err = "" THEN {"direct_start"} ELSE {})
  \cup (IF m.direct.op = "istart" /\ m.direct.err # "" THEN {"direct_start_failed"} ELSE {})
  \cup (IF m.direct.op = "istop" THEN {"direct_stop"} ELSE {})
  \cup (IF m.direct.op = "istart" /\ m.direct.err = "" /\ ev.alone # <<>> /\ ev.alone[1].gen \in m.failed THEN {"start_after_fallback"} ELSE {})

MonStep(m, ev) ==
  IF m.bad # <<>> THEN m ELSE
  CASE ev.k = "world" -> [m EXCEPT !.w = [good |-> ev.good, goods |-> ev.goods, opt_host |-> ev.opt_host, opt_port |-> ev.opt_port, root |-> ev.root]]
    [] ev.k = "spec" ->
         [m EXCEPT !.sp = Append(@, [res |-> ev.res, tp |-> ev.tp, lhost |-> ev.lhost, lport |-> ev.lport]), !.wit = @ \cup SpecWit(m.w, ev),
                   !.bad = IF ev.id # Len(m.sp) + 1 THEN <<"X02.trace_malformed", "spec_id">> ELSE SpecBad(m.w, ev)]
    [] ev.k = "op" ->
         [m EXCEPT !.cur = ev, !.direct = [op |-> "none", err |-> ""], !.lastop = ev.op,
                   !.failed = IF ev.op = "istart" THEN @ \ {ev.gen} ELSE @,
                   !.ran = IF ev.op = "istart" THEN @ \ {ev.gen} ELSE @,
                   \* the update may run inside the call (eager tasks): what must be kept is decided when the call begins
                   !.keep = IF ev.op = "set_mode" THEN KeepFor(m, Eff(ev.cfg, m.server))
                            ELSE IF ev.op = "set_server" THEN KeepFor(m, Eff(m.mode, ev.on)) ELSE @,
                   !.bad = IF m.cur.op # "none" THEN <<"X02.trace_malformed", "nested_op">> ELSE <<>>]
    [] ev.k = "ret" ->
         LET c == m.cur IN
         (CASE c.op = "set_mode" ->
                LET ok == ev.err = ""
                    eff == Eff(c.cfg, m.server) IN
                [m EXCEPT !.cur = NoOp, !.bad = SetModeBad(m, c.cfg, ev.err), !.wit = @ \cup SetModeWit(m, c.cfg, ev.err),
                          !.mode = IF ok THEN c.cfg ELSE @,
                          !.synced = IF ok THEN m.psrun ELSE @]
           [] c.op = "set_server" ->
                LET ok == ev.err = "" IN
                [m EXCEPT !.cur = NoOp, !.bad = IF ~ok THEN <<"X02.configure_raised", ev.err>> ELSE <<>>,
                          !.wit = @ \cup {"set_server"},
                          !.server = IF ok THEN c.on ELSE @,
                          !.synced = IF ok THEN m.psrun ELSE @]
           [] c.op = "running" -> [m EXCEPT !.cur = NoOp, !.psrun = TRUE, !.wit = @ \cup {"running"},
                                            !.bad = IF ev.err # "" THEN <<"X02.running_raised", ev.err>> ELSE <<>>]
           [] c.op = "setup" -> [m EXCEPT !.cur = NoOp, !.synced = TRUE, !.wit = @ \cup {"setup"}]
           [] c.op = "make" -> [m EXCEPT !.cur = NoOp, !.alones = IF ev.err = "" THEN @ \cup {ev.gen} ELSE @,
                                         !.bad = IF ev.err # "" /\ m.sp[c.spec].res = "ok" THEN <<"X02.make_failed", ev.err>> ELSE <<>>]
           [] c.op \in {"istart", "istop"} -> [m EXCEPT !.cur = NoOp, !.direct = [op |-> c.op, err |-> ev.err]]
           [] OTHER -> [m EXCEPT !.cur = NoOp])
    [] ev.k = "bind" ->
         LET lg == Gens(m.listed) \cup m.alones IN
         [m EXCEPT !.open = IF ev.res = "ok" THEN Append(@, [sid |-> ev.sid, gen |-> ev.gen, tp |-> ev.tp, host |-> ev.host, port |-> ev.port]) ELSE @,
                   !.failed = IF ev.res # "ok" THEN @ \cup {ev.gen} ELSE @,
                   !.wit = @ \cup {"bind_" \o ev.res} \cup (IF ev.res = "EADDRINUSE" /\ ev.hold = -1 THEN {"port_held_by_other_process"} ELSE {})
                             \cup (IF ev.res = "EADDRINUSE" /\ ev.hold > 0 THEN {"port_held_by_own_instance"} ELSE {})
                             \cup (IF ev.res = "ok" /\ \E f \in m.freed : f[1] = ev.tp /\ f[2] = ev.host /\ f[3] = ev.port /\ f[4] # ev.gen
                                   THEN {"port_reused_after_stop"} ELSE {}),
                   !.bad = IF ev.res = "EADDRINUSE" /\ ev.hold > 0 /\ ev.hold # ev.gen /\ ev.hold \notin lg
                           THEN <<"X02.port_not_freed_before_start", IF ev.hold \in m.failed /\ ev.hold \notin m.ran THEN "holder_failed_start" ELSE "holder_removed">>
                           ELSE <<>>]
    [] ev.k \in {"ext_bind", "ext_free"} -> [m EXCEPT !.lastop = ev.k]
    [] ev.k = "connect" ->
         \* mitmproxy must not connect to its own listening sockets (server_connect hook of the proxyserver addon)
         LET mine == SelectSeq(m.open, LAMBDA s : s.gen \in Gens(m.listed))
             loop4 == ev.host \in {"127.0.0.1", "localhost"}
             loop6 == ev.host \in {"::1", "localhost"}
             self == \E i \in 1..Len(mine) : /\ mine[i].port = ev.port /\ mine[i].tp = ev.tp
                                              /\ \/ mine[i].host = ev.host
                                                 \/ mine[i].host = "0.0.0.0" /\ loop4
                                                 \/ mine[i].host = "::" /\ loop6
                                                 \/ mine[i].host = "127.0.0.1" /\ loop4
                                                 \/ mine[i].host = "::1" /\ loop6
             nobody == \A i \in 1..Len(mine) : mine[i].port # ev.port IN
         [m EXCEPT !.lastop = "connect",
                   !.wit = @ \cup (IF self THEN {"self_connect_refused"} ELSE {}) \cup (IF nobody THEN {"other_connect_allowed"} ELSE {})
                             \cup (IF self /\ ev.port >= 40000 THEN {"self_connect_ephemeral_port"} ELSE {}),
                   !.bad = IF ev.err # "" THEN <<"X02.server_connect_raised", ev.err>>
                           ELSE IF self /\ ~ev.refused THEN <<"X02.self_connect_allowed", ev.tp>>
                           ELSE IF nobody /\ ev.refused THEN <<"X02.foreign_connect_refused">>
                           ELSE <<>>]
    [] ev.k = "close" ->
         [m EXCEPT !.open = SelectSeq(@, LAMBDA s : s.sid # ev.sid),
                   !.freed = @ \cup {<<s.tp, s.host, s.port, s.gen>> : s \in {x \in ToSet(m.open) : x.sid = ev.sid}},
                   !.bad = IF ev.gen \in m.keep /\ \E s \in ToSet(m.open) : s.sid = ev.sid THEN <<"X02.kept_instance_disturbed">> ELSE <<>>]
    [] ev.k = "changed" -> [m EXCEPT !.lastchg = ev.insts, !.listed = ev.insts, !.gspec = Note(m, ev.insts), !.ran = Ran(m, ev.insts),
                                   !.fresh = @ \cup {g \in Gens(ev.insts) : \A p \in m.gspec : p[1] # g}, !.wit = @ \cup {"changed"}]
    [] ev.k = "upd" ->
         [m EXCEPT !.listed = ev.insts, !.gspec = Note(m, ev.insts), !.ran = Ran(m, ev.insts), !.fresh = {},
                   !.wit = @ \cup {IF ev.res THEN "update_true" ELSE "update_false"},
                   !.bad = IF ev.exc # "" THEN <<"X02.update_raised", ev.exc>>
                           ELSE IF ev.res /\ \E i \in 1..Len(ev.insts) : ~ev.insts[i].run /\ ev.insts[i].gen \in m.fresh
                                THEN <<"X02.update_reported_success">>
                           ELSE <<>>]
    [] ev.k = "state" ->
         LET b == StateBad(m, ev)
             eff == Eff(m.mode, m.server) IN
         [m EXCEPT !.bad = b, !.wit = @ \cup StateWit(m, ev), !.direct = [op |-> "none", err |-> ""],
                   !.ran = Ran(m, ev.insts) \cup {ev.alone[i].gen : i \in {j \in 1..Len(ev.alone) : ev.alone[j].run}},
                   !.listed = Brief(ev.insts), !.gspec = Note(m, ev.insts) \cup {<<ev.alone[i].gen, ev.alone[i].spec>> : i \in 1..Len(ev.alone)},
                   !.keep = IF ev.busy THEN @
                            ELSE {ev.insts[i].gen : i \in {j \in 1..Len(ev.insts) : ev.insts[j].run /\ ev.insts[j].spec \in ToSet(eff)}}]
    [] OTHER -> m

Wit(m) == m.wit
=============================================================================
