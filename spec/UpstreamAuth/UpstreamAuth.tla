---------------------------- MODULE UpstreamAuth ----------------------------
(* Implementation-shaped model of where the upstream_auth credentials end up, for one client connection:
     mitmproxy/addons/upstream_auth.py      UpstreamAuth.requestheaders / http_connect_upstream
     mitmproxy/proxy/layers/http/__init__.py HttpStream.state_wait_for_request_headers (scheme/authority per HTTPMode),
                                             handle_connect_upstream, HttpLayer.get_connection (send_connect rule, reuse)
     mitmproxy/proxy/layers/http/_upstream_proxy.py  HttpUpstreamProxy.start_handshake (CONNECT + hook)
     mitmproxy/addons/next_layer.py, tlsconfig.py, proxy/layers/modes.py (which HttpLayer mode a client ends up in)

   The client connection is in one proxy mode; the client performs up to MaxSteps steps:
     explicit proxies (regular, upstream_http, upstream_https):  Plain(h, p)  GET http://h:p/..   AbsHttps(h, p)  GET https://h:p/..
                                              (p in Ports: the same host:port is asked for with both schemes)
                                              Connect(h, inner)  CONNECT h, then (inner = "tls") a TLS handshake
                                              Inner              a request inside the CONNECT tunnel
     other modes (transparent, socks5, reverse_http, reverse_https):  Plain(1) / StartTls, Inner
   Every request has a flavour f in Flavours (plain GET, WebSocket opening handshake, POST with body, HEAD,
   Expect: 100-continue, Upgrade: h2c; every one is answered 200): in this code the flavour does not change where the
   request goes, so it only appears in the records.
   Every step emits the request heads the upstream peers will read (CONNECT heads included), in order.          *)
EXTENDS Mon_UpstreamAuth, TLC
CONSTANTS Modes, MaxSteps, Hosts, Ports, Flavours
VARIABLES mode, auth, eager, phase, host, opened, steps, mon, obs
vars == <<mode, auth, eager, phase, host, opened, steps, mon, obs>>

\* Deliberate deviation of the code, named: UpstreamAuth.requestheaders looks at the proxy mode of the client
\* connection and at the scheme only, so a plain-HTTP request *inside* a client CONNECT tunnel (upstream mode) gets
\* Proxy-Authorization too, and HttpLayer sends it through its own CONNECT tunnel to the origin server.
TunnelPlainGetsHeader == TRUE

Explicit == mode \in {"regular", "upstream_http", "upstream_https"}
Up == mode \in {"upstream_http", "upstream_https"}
Rev == mode \in {"reverse_http", "reverse_https"}
PMode == IF Up THEN "upstream" ELSE IF Rev THEN "reverse" ELSE mode
ProxyTls == mode = "upstream_https"

Init == /\ mode \in Modes /\ auth \in BOOLEAN /\ eager \in BOOLEAN
        /\ phase = "fresh" /\ host = 0 /\ opened = {} /\ steps = 0 /\ mon = MonInit /\ obs = <<>>

Live == mon.bad = <<>> /\ steps < MaxSteps
Emit(evs) == obs' = evs /\ mon' = FoldEvents(MonStep, mon, evs)

Req(peer, level, kind, scheme, tls, cred, src, f) ==
  [k |-> "req", mode |-> PMode, auth |-> auth, peer |-> peer, level |-> level, kind |-> kind, scheme |-> scheme,
   tls |-> tls, cred |-> cred, src |-> src, fl |-> f]

\* HttpUpstreamProxy.start_handshake: CONNECT to the upstream proxy; http_connect_upstream adds the credentials
ConnectHead(src) == Req("proxy", "outer", "connect", "", ProxyTls, auth, src, "")

\* heads caused by one request to host h with destination TLS x, issued in the HttpLayer of the current phase.
\*   outerLayer: the request is handled by the HttpLayer that talks to the client as an explicit proxy
\*   key: the connection the request needs; it is reused if it is in opened
Heads(h, x, outerLayer, key, f) ==
  LET src == IF Explicit THEN (IF outerLayer THEN "proxy_request" ELSE "client_tunnel") ELSE "direct" IN
  IF Up THEN
    IF ~x /\ outerLayer
      THEN \* plain absolute-form request forwarded to the proxy without CONNECT; requestheaders adds the credentials
           <<Req("proxy", "outer", "absolute", "http", ProxyTls, auth, src, f)>>
      ELSE (IF key \in opened THEN <<>> ELSE <<ConnectHead(src)>>)
           \o <<Req("proxy", "tunnel", IF outerLayer THEN "absolute" ELSE "origin", IF outerLayer THEN "https" ELSE "",
                    x, IF x THEN FALSE ELSE auth /\ TunnelPlainGetsHeader, src, f)>>
  ELSE IF Rev THEN <<Req("target", "outer", "origin", "", mode = "reverse_https", auth, src, f)>>   \* Authorization header
  ELSE <<Req("origin", "outer", "origin", "", x, FALSE, src, f)>>

Step == steps' = steps + 1 /\ UNCHANGED <<mode, auth, eager>>

\* connection_spec_matches compares address (host, port), tls, via: a pooled connection is the triple <<h, p, tls>>
Plain(h, p, f) ==
  /\ Live /\ (IF Explicit THEN phase = "fresh" ELSE phase \in {"fresh", "plain"} /\ h = 1 /\ p = 80)
  /\ Emit(Heads(h, FALSE, TRUE, <<h, p, FALSE>>, f))
  /\ opened' = opened \cup {<<h, p, FALSE>>}
  /\ phase' = IF Explicit THEN phase ELSE "plain"
  /\ host' = IF Explicit THEN host ELSE 1
  /\ Step

AbsHttps(h, p, f) ==
  /\ Live /\ Explicit /\ phase = "fresh"
  /\ Emit(Heads(h, TRUE, TRUE, <<h, p, TRUE>>, f))
  /\ opened' = opened \cup {<<h, p, TRUE>>}
  /\ UNCHANGED <<phase, host>> /\ Step

\* CONNECT h (answered by mitmproxy itself), then the client either starts TLS with mitmproxy or speaks plain HTTP.
\* A new HttpLayer (transparent HTTPMode) with an empty connection pool handles what follows.
\* eager + upstream + TLS: TlsConfig.tls_clienthello asks for the server handshake first, so the tunnel through the
\* upstream proxy (CONNECT head) is established now and the inner layer finds the context connection connected.
Connect(h, inner) ==
  /\ Live /\ Explicit /\ phase = "fresh"
  /\ phase' = IF inner = "tls" THEN "tun_tls" ELSE "tun_plain"
  /\ host' = h
  /\ IF Up /\ eager /\ inner = "tls"
       THEN Emit(<<ConnectHead("client_tunnel")>>) /\ opened' = {<<h, 443, TRUE>>}
       ELSE Emit(<<>>) /\ opened' = {}
  /\ Step

StartTls ==
  /\ Live /\ ~Explicit /\ phase = "fresh"
  /\ phase' = "tls" /\ host' = 1 /\ Emit(<<>>) /\ UNCHANGED opened /\ Step

Inner(f) ==
  /\ Live /\ phase \in {"tun_tls", "tun_plain", "tls"}
  /\ LET x == phase \in {"tun_tls", "tls"}
         key == <<host, IF x THEN 443 ELSE 80, x>> IN
     /\ Emit(Heads(host, x, FALSE, key, f))
     /\ opened' = opened \cup {key}
  /\ UNCHANGED <<phase, host>> /\ Step

Next == \/ \E h \in Hosts, p \in Ports, f \in Flavours : Plain(h, p, f)
        \/ \E h \in Hosts, p \in Ports, f \in Flavours : AbsHttps(h, p, f)
        \/ \E h \in Hosts, inner \in {"tls", "plain"} : Connect(h, inner)
        \/ StartTls
        \/ \E f \in Flavours : Inner(f)
Spec == Init /\ [][Next]_vars
Report == mon.bad # <<>> => PrintT(<<"BAD", mon.bad>>)
=============================================================================
