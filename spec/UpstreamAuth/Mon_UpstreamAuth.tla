-------------------------- MODULE Mon_UpstreamAuth --------------------------
(* Monitor for C24: credentials configured with upstream_auth are sent only to the configured upstream proxy (in
   CONNECT requests and in plain-HTTP requests forwarded to it, upstream mode) or to the reverse-proxy target
   (reverse mode); never through a tunnel to an origin server, never in other modes.

   Event records (props/C24.py).  Every request head that one of the harness's peers reads from the bytes mitmproxy
   sent on an upstream connection (TLS terminated by the peer, CONNECT answered by the peer):
     [k |-> "req", mode, auth, peer, level, kind, scheme, tls, cred, src, fl]
        mode    proxy mode of the client connection: "regular" | "upstream" | "transparent" | "socks5" | "reverse"
        auth    upstream_auth is configured
        peer    whom the TCP connection goes to: "proxy" (the configured upstream proxy), "target" (the reverse
                target), "origin" (anything else)
        level   "outer": read directly on that connection; "tunnel": read behind a CONNECT that the peer accepted,
                i.e. on its way to an origin server
        kind    "connect" | "absolute" | "origin" (form of the request target)
        scheme  scheme of an absolute-form target, "" otherwise
        tls     the head was protected by TLS at its level
        cred    the configured credentials occur in the head
        src     what the client was doing when mitmproxy wrote this head (stimulus, known to the harness):
                "proxy_request" (a request addressed to mitmproxy as explicit proxy), "client_tunnel" (inside the
                client's own CONNECT tunnel), "direct" (transparent / socks5 / reverse client)
        fl      flavour of that client request: "get" | "ws" (WebSocket opening handshake: Upgrade: websocket) | "post"
                | "head" | "expect" (Expect: 100-continue) | "h2c" (Upgrade: h2c); "" for mitmproxy's own CONNECT
   and, at the end, for every level of every upstream connection one record about all bytes that arrived there:
     [k |-> "scan", mode, auth, peer, level, tls, cred]         (cred: the credentials occur anywhere in them)
     [k |-> "raised", exc]   [k |-> "end"]                                                                     *)
EXTENDS Verif

MonInit == [bad |-> <<>>, wit |-> {}]

Tls(ev) == IF ev.tls THEN "tls" ELSE "plain"
\* signature field: form of the head as the peer read it; marked when the client had asked mitmproxy for it as a proxy
\* request (and not inside its own CONNECT tunnel)
Kind(ev) == LET kd == Get(ev, "kind", "bytes") IN
            IF Get(ev, "src", "") = "proxy_request" THEN "proxy_request_" \o kd ELSE kd

\* where the statement allows the credentials to be
Allowed(ev) ==
  \/ ev.mode = "upstream" /\ ev.peer = "proxy" /\ ev.level = "outer"
  \/ ev.mode = "reverse" /\ ev.peer = "target" /\ ev.level = "outer"

Clause(m, ev) ==
  CASE ev.k \in {"req", "scan"} ->
         IF ~ev.cred THEN <<>>
         ELSE IF ev.level = "tunnel" THEN <<"C24.credentials_in_tunnel", ev.mode, Tls(ev), Kind(ev)>>
         ELSE IF ev.mode \notin {"upstream", "reverse"} THEN <<"C24.credentials_in_other_mode", ev.mode>>
         ELSE IF ~Allowed(ev) THEN <<"C24.credentials_to_wrong_peer", ev.mode, ev.peer>>
         \* upstream mode: only CONNECT requests and forwarded plain-HTTP requests carry them
         ELSE IF ev.k = "req" /\ ev.mode = "upstream" /\ ev.kind # "connect" /\ ev.scheme = "https"
           THEN <<"C24.credentials_in_wrong_request", ev.kind, ev.scheme>>
         ELSE <<>>
    [] ev.k = "raised" -> <<"C24.raised", ev.exc>>
    [] OTHER -> <<>>

Witness(ev) ==
  IF ev.k # "req" THEN {}
  ELSE (IF ev.cred /\ ev.kind = "connect" THEN {"cred_in_connect"} ELSE {})
       \cup (IF ev.cred /\ ev.mode = "upstream" /\ ev.kind # "connect" /\ ev.level = "outer" THEN {"cred_in_forwarded"} ELSE {})
       \cup (IF ev.cred /\ ev.mode = "reverse" THEN {"cred_to_reverse_target"} ELSE {})
       \cup (IF ev.auth /\ ev.level = "tunnel" /\ ev.tls THEN {"auth_tunnel_tls"} ELSE {})
       \cup (IF ev.auth /\ ev.level = "tunnel" /\ ~ev.tls THEN {"auth_tunnel_plain"} ELSE {})
       \cup (IF ev.auth /\ ev.mode \notin {"upstream", "reverse"} THEN {"auth_other_mode_" \o ev.mode} ELSE {})
       \cup (IF ev.auth /\ ev.mode = "reverse" /\ ev.tls THEN {"auth_reverse_tls"} ELSE {})
       \cup (IF ~ev.auth THEN {"auth_unset"} ELSE {})
       \cup (IF ev.auth /\ Get(ev, "fl", "") \notin {"", "get", "ws"} THEN {"auth_flavour_other"} ELSE {})
       \cup (IF ev.auth /\ ev.mode = "upstream" /\ Get(ev, "fl", "") = "ws" /\ Get(ev, "src", "") = "proxy_request"
             THEN {"auth_upstream_ws_handshake"} ELSE {})

MonStep(m, ev) == [m EXCEPT !.bad = Clause(m, ev), !.wit = @ \cup Witness(ev)]
Wit(m) == m.wit
=============================================================================
