----------------------------- MODULE BlockAddr -----------------------------
(* Implementation-shaped model of the admission path of one client connection:
     mitmproxy/proxy/server.py    ConnectionHandler.handle_client   (hook, kill-or-start, handle_connection)
     mitmproxy/addons/block.py    Block.client_connected

   An address class c (a block of the IANA special-purpose registries, or ordinary space) carries two sets of
   attributes in Attr[c]:
     glob, priv, loop, grp, fam     the registries' view  (what the monitor judges with; harness oracle)
     iglob, ipriv, iloop            what the ipaddress library of the running interpreter answers for the class
                                    (is_global / is_private / is_loopback) -- the implementation delegates the
                                    classification to it, so the model is parameterised by it
   Actions (one per critical section):
     Accept        LiveConnectionHandler.__init__: Client(peername=...) for a connection in notation n, mode m
     ClientHook    handle_hook(ClientConnectedHook) -> Block.client_connected:
                     parts = peername[0].rsplit("%", 1); address = ip_address(parts[0])       (zone stripped)
                     if IPv6: address = address.ipv4_mapped or address                        (mapped unwrapped)
                     if address.is_loopback or mode is LocalMode: return
                     if block_private and address.is_private: client.error = ...
                     if block_global and address.is_global:   client.error = ...
     Kill          handle_client: if client.error: writer.close()
     Start         handle_client: else: server_event(Start()); spawn handle_connection
     ReadEof       handle_connection: read() returns EOF -> server_event(ConnectionClosed) -> writer.close()
     Finish        handle_client returns
   StripZone / UnwrapMapped name the two normalisation steps; with FALSE the model describes a Block addon
   without them (used to see at design level that the monitor rejects such a design).                    *)
EXTENDS Mon_BlockAddr, TLC
CONSTANTS Classes, Attr, Modes, LocalModes, StripZone, UnwrapMapped
VARIABLES pc, conn, err, mon, obs
vars == <<pc, conn, err, mon, obs>>

Notations == {"plain", "mapped", "scoped", "mapped_scoped"}
NotaOk(c, n) == IF Attr[c].fam = "v4" THEN n \in {"plain", "mapped", "mapped_scoped"} ELSE n \in {"plain", "scoped"}

Init == pc = "idle" /\ conn = NoConn /\ err = FALSE /\ mon = MonInit /\ obs = <<>>
Live == mon.bad = <<>>
Emit(evs) == obs' = evs /\ mon' = FoldEvents(MonStep, mon, evs)

Accept(c, n, m, bg, bp) ==
  /\ Live /\ pc = "idle" /\ NotaOk(c, n)
  /\ conn' = [cls |-> c, grp |-> Attr[c].grp, glob |-> Attr[c].glob, priv |-> Attr[c].priv, loop |-> Attr[c].loop,
              local |-> m \in LocalModes, bg |-> bg, bp |-> bp, nota |-> n, mode |-> m]
  /\ pc' = "hook" /\ UNCHANGED err
  /\ Emit(<<[k |-> "conn"] @@ conn'>>)

\* what ip_address(parts[0]) followed by the ipv4_mapped step sees
Parsed(c, n) ==
  LET zoned  == n \in {"scoped", "mapped_scoped"}
      mapped == n \in {"mapped", "mapped_scoped"} IN
  IF zoned /\ ~StripZone THEN "unparsable"     \* only reachable in the design variant
  ELSE IF mapped /\ ~UnwrapMapped THEN "mapped_block"   \* judged as a member of ::ffff:0:0/96
  ELSE "class"

ClientHook ==
  /\ Live /\ pc = "hook" /\ pc' = "decided" /\ UNCHANGED conn
  /\ LET c == conn.cls
         p == Parsed(c, conn.nota)
         iloop == IF p = "class" THEN Attr[c].iloop ELSE FALSE
         ipriv == IF p = "class" THEN Attr[c].ipriv ELSE p = "mapped_block"
         iglob == IF p = "class" THEN Attr[c].iglob ELSE FALSE
         e == IF p = "unparsable" THEN FALSE
              ELSE IF iloop \/ conn.local THEN FALSE
              ELSE (conn.bp /\ ipriv) \/ (conn.bg /\ iglob)
     IN /\ err' = e
        /\ Emit(IF p = "unparsable"
                THEN <<[k |-> "hook_raised", exc |-> "ValueError"], [k |-> "hook", refused |-> FALSE]>>
                ELSE <<[k |-> "hook", refused |-> e]>>)

Kill  == /\ Live /\ pc = "decided" /\ err /\ pc' = "done" /\ UNCHANGED <<conn, err>>
         /\ Emit(<<[k |-> "closed"]>>)
Start == /\ Live /\ pc = "decided" /\ ~err /\ pc' = "reading" /\ UNCHANGED <<conn, err>>
         /\ Emit(<<[k |-> "layer", ev |-> "Start"]>>)
ReadEof == /\ Live /\ pc = "reading" /\ pc' = "done" /\ UNCHANGED <<conn, err>>
           /\ Emit(<<[k |-> "read"], [k |-> "layer", ev |-> "ConnectionClosed"], [k |-> "closed"]>>)
Finish == /\ Live /\ pc = "done" /\ pc' = "ended" /\ UNCHANGED <<conn, err>>
          /\ Emit(<<[k |-> "end"]>>)

Next == \/ \E c \in Classes, n \in Notations, m \in Modes, bg \in BOOLEAN, bp \in BOOLEAN : Accept(c, n, m, bg, bp)
        \/ ClientHook
        \/ Kill
        \/ Start
        \/ ReadEof
        \/ Finish
Spec == Init /\ [][Next]_vars
Report == mon.bad # <<>> => PrintT(<<"BAD", mon.bad>>)
=============================================================================
