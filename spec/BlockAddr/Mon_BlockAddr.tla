--------------------------- MODULE Mon_BlockAddr ---------------------------
(* Monitor for C22: client connections from blocked address classes are refused.

   One client connection per trace, observed on the real ConnectionHandler.handle_client with the real
   Block addon answering the client_connected hook (props/C22.py).  Event records:
     [k |-> "conn", cls, grp, glob, priv, loop, local, bg, bp, nota, mode]
          a client connected.  glob / priv \in {"yes","no","na"} and loop \in BOOLEAN come from the
          harness's own transcription of the IANA special-purpose registries (NOT from the code under test or
          the library it uses); "na" = the registry does not say (N/A entries, multicast, unallocated space) or
          "private" is debatable (non-global blocks that are not private-use / link-local / unique-local).
          local = the connection comes from local-redirect mode; bg / bp = block_global / block_private;
          nota \in {"plain","mapped","scoped","mapped_scoped"}; grp = "core" | "sub" | "recent" (registry entry
          kind: long-standing block / more specific entry inside another special block / entry added 2019+)
     [k |-> "hook_raised", exc]     the addon's hook raised (the addon manager logs and swallows it)
     [k |-> "hook", refused]        client_connected hook completed; refused = client.error is set
     [k |-> "layer", ev]            an event reached the protocol layer stack (protocol processing)
     [k |-> "read"] / [k |-> "write"]   the handler read from / wrote to the client socket (protocol processing)
     [k |-> "closed"]               the client socket was closed by the handler
     [k |-> "end"]                  handle_client returned                                              *)
EXTENDS Verif

NoConn == [cls |-> "", grp |-> "", glob |-> "na", priv |-> "na", loop |-> FALSE, local |-> FALSE,
           bg |-> FALSE, bp |-> FALSE, nota |-> "", mode |-> ""]
MonInit == [bad |-> <<>>, wit |-> {}, c |-> NoConn, phase |-> "idle",
            refused |-> FALSE, closed |-> FALSE, early |-> FALSE]

Exempt(c) == c.loop \/ c.local
\* the statement's antecedents
MustRefuseGlobal(c)  == ~Exempt(c) /\ c.bg /\ c.glob = "yes"
MustRefusePrivate(c) == ~Exempt(c) /\ c.bp /\ c.priv = "yes"
\* "Connections from other addresses are not refused by these options"
MustAdmit(c) == Exempt(c) \/ (~(c.bg /\ c.glob # "no") /\ ~(c.bp /\ c.priv # "no"))

Processing(ev) == ev.k \in {"layer", "read", "write"}

Clause(m, ev) ==
  CASE ev.k = "hook" ->
         IF m.phase # "conn" THEN <<>>
         ELSE IF MustRefuseGlobal(m.c) /\ ~ev.refused THEN <<"C22.not_refused", "global", m.c.grp, m.c.nota>>
         ELSE IF MustRefusePrivate(m.c) /\ ~ev.refused THEN <<"C22.not_refused", "private", m.c.grp, m.c.nota>>
         ELSE IF MustAdmit(m.c) /\ ev.refused THEN <<"C22.wrongly_refused", m.c.grp, m.c.nota>>
         ELSE IF ev.refused /\ m.early THEN <<"C22.processed_before_refusal">>
         ELSE <<>>
    [] Processing(ev) -> IF m.refused THEN <<"C22.processed_after_refusal", ev.k>> ELSE <<>>
    [] ev.k = "end" ->
         IF m.phase = "conn" /\ (MustRefuseGlobal(m.c) \/ MustRefusePrivate(m.c))
           THEN <<"C22.not_refused", "no_decision", m.c.grp, m.c.nota>>
         ELSE IF m.refused /\ ~m.closed THEN <<"C22.refused_not_closed">>
         ELSE <<>>
    [] OTHER -> <<>>

HookWit(m, ev) ==
  LET c == m.c IN
  (IF ev.refused /\ MustRefuseGlobal(c) THEN {"refused_global"} ELSE {})
  \cup (IF ev.refused /\ MustRefusePrivate(c) THEN {"refused_private"} ELSE {})
  \cup (IF ev.refused /\ c.nota \in {"mapped", "mapped_scoped"} THEN {"refused_mapped"} ELSE {})
  \cup (IF ev.refused /\ c.nota \in {"scoped", "mapped_scoped"} THEN {"refused_scoped"} ELSE {})
  \cup (IF ~ev.refused /\ c.loop /\ (c.bg \/ c.bp) THEN {"admitted_loopback"} ELSE {})
  \cup (IF ~ev.refused /\ c.local /\ ~c.loop /\ ((c.bg /\ c.glob = "yes") \/ (c.bp /\ c.priv = "yes"))
        THEN {"admitted_local_mode"} ELSE {})
  \cup (IF ~ev.refused /\ ~Exempt(c) /\ MustAdmit(c) /\ (c.bg \/ c.bp) THEN {"admitted_other"} ELSE {})
  \cup (IF ~MustAdmit(c) /\ ~MustRefuseGlobal(c) /\ ~MustRefusePrivate(c) THEN {"no_demand"} ELSE {})

MonStep(m, ev) ==
  LET m1 == [m EXCEPT !.bad = Clause(m, ev)] IN
  CASE ev.k = "conn" -> [m1 EXCEPT !.c = [f \in DOMAIN NoConn |-> Get(ev, f, NoConn[f])], !.phase = "conn"]
    [] ev.k = "hook" -> [m1 EXCEPT !.phase = "decided", !.refused = ev.refused, !.wit = @ \cup HookWit(m, ev)]
    [] Processing(ev) -> [m1 EXCEPT !.early = @ \/ m.phase = "conn",
                                    !.wit = @ \cup (IF ~m.refused /\ m.phase = "decided" THEN {"processed"} ELSE {})]
    [] ev.k = "closed" -> [m1 EXCEPT !.closed = TRUE,
                                     !.wit = @ \cup (IF m.refused THEN {"closed_after_refusal"} ELSE {})]
    [] ev.k = "hook_raised" -> [m1 EXCEPT !.wit = @ \cup {"hook_raised"}]
    [] OTHER -> m1
Wit(m) == m.wit
=============================================================================
