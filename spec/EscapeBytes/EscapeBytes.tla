----------------------------- MODULE EscapeBytes -----------------------------
(* Implementation-shaped model of mitmproxy.utils.strutils.bytes_to_escaped_str / escaped_str_to_bytes.
   Texts are sequences of code points, byte strings sequences of byte values.

   Escape(inp, ks, sq)   = bytes_to_escaped_str(inp, keep_spacing=ks, escape_single_quotes=sq):
       Repr      repr(b'"' + data).lstrip("b")[2:-1]   (the leading double quote forces single-quote delimiters,
                 so ' is written \' and " stays raw; \t \n \r \\ short forms, \xNN for the other non-printables)
       Sub       the two re.sub passes: [not preceded by a backslash] [any number of backslash pairs, captured as
                 group 1] [backslash] [quote]        -> group 1 + raw quote              unless sq
                 ... [backslash] [n or r or t]       -> group 1 + raw LF / CR / TAB       if ks
                 (the regex text itself cannot be quoted here: it contains the comment terminator)
   Unescape              = escaped_str_to_bytes(text) = codecs.escape_decode(text)[0]

   GroupLastOnly names the defect repaired by commit ec3f8dd97: the pairs used to be matched by a REPEATED capturing
   group, which holds only the LAST backslash pair, so every earlier pair of a run was dropped by the replacement.
   FALSE = the code as it is now (the whole run of pairs is one group and is re-emitted);
   TRUE  = the code before the fix (what mutants/C51/M5_revert_fix_ec3f8dd97.diff restores).                    *)
EXTENDS Mon_EscapeBytes, TLC
CONSTANTS Alphabet,       \* set of byte values inputs are built from
          MaxLen,         \* maximal input length
          GroupLastOnly
VARIABLES arg, aks, asq,   \* the call's arguments, chosen in Init (one initial state per input and option setting)
          pc, text, mon, obs
vars == <<arg, aks, asq, pc, text, mon, obs>>

Live == mon.bad = <<>>
Emit(evs) == obs' = evs /\ mon' = FoldEvents(MonStep, mon, evs)

Inputs == UNION { [1..n -> Alphabet] : n \in 0..MaxLen }

HexDigit(n) == IF n < 10 THEN 48 + n ELSE 87 + n          \* "0".."9", "a".."f" (repr writes lower case)
Repr(b) == IF b = BS THEN <<BS, BS>> ELSE IF b = SQ THEN <<BS, SQ>>
           ELSE IF b = TAB THEN <<BS, 116>> ELSE IF b = LF THEN <<BS, 110>> ELSE IF b = CR THEN <<BS, 114>>
           ELSE IF b < 32 \/ b >= 127 THEN <<BS, 120, HexDigit(b \div 16), HexDigit(b % 16)>>
           ELSE <<b>>
RECURSIVE ReprSeq(_)
ReprSeq(s) == IF s = <<>> THEN <<>> ELSE Repr(Head(s)) \o ReprSeq(Tail(s))

RunLen(t, i) == LET S == { n \in 0..(Len(t) - i + 1) : \A j \in i..(i + n - 1) : t[j] = BS }
                IN CHOOSE n \in S : \A k \in S : k <= n
Pairs(n) == [i \in 1..(2 * n) |-> BS]
Kept(j) == IF GroupLastOnly THEN Min2(j, 1) ELSE j
\* one re.sub pass; sp maps the letter after the last backslash to the raw character that replaces the escape.
\* The scan is always at the start of a backslash run (a match cannot start inside one: negative lookbehind), and a
\* run of r backslashes followed by a letter of sp matches iff r is odd (pairs, then the escaping backslash).
RECURSIVE Sub(_, _, _)
Sub(t, i, sp) ==
  IF i > Len(t) THEN <<>>
  ELSE IF t[i] # BS THEN <<t[i]>> \o Sub(t, i + 1, sp)
  ELSE LET r == RunLen(t, i)
           nx == i + r
       IN IF r % 2 = 1 /\ nx <= Len(t) /\ t[nx] \in DOMAIN sp
          THEN Pairs(Kept((r - 1) \div 2)) \o <<sp[t[nx]]>> \o Sub(t, nx + 1, sp)
          ELSE SubSeq(t, i, nx - 1) \o Sub(t, nx, sp)

QuoteMap == (SQ :> SQ)
SpaceMap == (110 :> LF) @@ (114 :> CR) @@ (116 :> TAB)
Esc(inp, ks, sq) == LET r0 == ReprSeq(inp)
                        r1 == IF sq THEN r0 ELSE Sub(r0, 1, QuoteMap)
                    IN IF ks THEN Sub(r1, 1, SpaceMap) ELSE r1

HexVal(c) == IF c >= 48 /\ c <= 57 THEN c - 48 ELSE IF c >= 97 /\ c <= 102 THEN c - 87
             ELSE IF c >= 65 /\ c <= 70 THEN c - 55 ELSE -1
\* codecs.escape_decode, for the escapes the text above can contain; result <<ok, bytes>>
RECURSIVE Dec(_, _)
Dec(t, i) ==
  IF i > Len(t) THEN <<TRUE, <<>>>>
  ELSE IF t[i] # BS THEN LET r == Dec(t, i + 1) IN <<r[1], <<t[i]>> \o r[2]>>
  ELSE IF i = Len(t) THEN <<FALSE, <<>>>>                              \* "Trailing \ in string"
  ELSE LET c == t[i + 1] IN
       IF c = 120 THEN
          IF i + 3 <= Len(t) /\ HexVal(t[i + 2]) >= 0 /\ HexVal(t[i + 3]) >= 0
          THEN LET r == Dec(t, i + 4) IN <<r[1], <<16 * HexVal(t[i + 2]) + HexVal(t[i + 3])>> \o r[2]>>
          ELSE <<FALSE, <<>>>>                                          \* "invalid \x escape"
       ELSE LET r == Dec(t, i + 2)
                one == IF c = BS THEN <<BS>> ELSE IF c = SQ THEN <<SQ>> ELSE IF c = DQ THEN <<DQ>>
                       ELSE IF c = 110 THEN <<LF>> ELSE IF c = 114 THEN <<CR>> ELSE IF c = 116 THEN <<TAB>>
                       ELSE IF c = LF THEN <<>>                         \* backslash-newline: line continuation
                       ELSE <<BS, c>>                                   \* unknown escape: kept
            IN <<r[1], one \o r[2]>>

Init == /\ arg \in Inputs /\ aks \in BOOLEAN /\ asq \in BOOLEAN
        /\ pc = "start" /\ text = <<>> /\ mon = MonInit /\ obs = <<>>

\* bytes_to_escaped_str(arg, keep_spacing=aks, escape_single_quotes=asq)
Escape ==
  /\ Live /\ pc = "start"
  /\ pc' = "escaped" /\ UNCHANGED <<arg, aks, asq>>
  /\ LET out == Esc(arg, aks, asq)
     IN /\ text' = out
        /\ Emit(<<[k |-> "esc", ks |-> aks, sq |-> asq, inp |-> arg, out |-> out, exc |-> ""]>>)

\* escaped_str_to_bytes on the text just produced
Unescape ==
  /\ Live /\ pc = "escaped"
  /\ pc' = "done" /\ UNCHANGED <<arg, aks, asq, text>>
  /\ LET r == Dec(text, 1)
     IN Emit(<<[k |-> "unesc", back |-> r[2], exc |-> IF r[1] THEN "" ELSE "ValueError"]>>)

Next == \/ Escape
        \/ Unescape
Spec == Init /\ [][Next]_vars
Report == mon.bad # <<>> => PrintT(<<"BAD", mon.bad>>)
=============================================================================
