--------------------------- MODULE Mon_EscapeBytes ---------------------------
(* Monitor for C51: escaped binary text converts back to the same bytes and shows no raw control characters.

   Event records (projected by props/C51.py from mitmproxy.utils.strutils):
     [k |-> "esc",   ks |-> BOOLEAN (keep_spacing), sq |-> BOOLEAN (escape_single_quotes),
                     inp |-> <<byte values 0..255>>,             \* the argument of bytes_to_escaped_str
                     out |-> <<code points of the returned text>>, exc |-> "" or exception class name]
     [k |-> "unesc", back |-> <<byte values>>, exc |-> "" or exception class name]   \* escaped_str_to_bytes(out)
   Bytes and code points are plain integers (never strings), so TLC compares them exactly.

   Clauses (only what the statement says):
     C51.raised        either function raises for a byte string / for the text the other one produced
     C51.control_char  the text contains a raw control character (C0, DEL, C1) other than TAB/LF/CR with ks
     C51.roundtrip     back # inp
   Signatures are abstract: option flags, byte classes, and for round trips the shape of the place where the
   result first differs (length class of the backslash run there and the class of the byte after the run).   *)
EXTENDS Verif

BS == 92
SQ == 39
DQ == 34
TAB == 9
LF == 10
CR == 13

Class(b) == IF b = BS THEN "backslash" ELSE IF b = SQ THEN "sq" ELSE IF b = DQ THEN "dq"
            ELSE IF b = TAB THEN "tab" ELSE IF b = LF THEN "lf" ELSE IF b = CR THEN "cr"
            ELSE IF b < 32 THEN "c0" ELSE IF b = 127 THEN "del" ELSE IF b >= 128 THEN "high" ELSE "printable"

Flag(name, b) == IF b THEN name ELSE "no_" \o name

MonInit == [bad |-> <<>>, wit |-> {}, inp |-> <<>>, ks |-> FALSE, sq |-> FALSE, open |-> FALSE]

IsControl(c, ks) == /\ (c < 32 \/ c = 127 \/ (c >= 128 /\ c <= 159))
                    /\ ~(ks /\ c \in {TAB, LF, CR})
ControlsIn(out, ks) == { i \in 1..Len(out) : IsControl(out[i], ks) }
FirstOf(S) == CHOOSE i \in S : \A j \in S : i <= j

\* first index at which a and b differ (Min length + 1 if one is a proper prefix of the other)
FirstDiff(a, b) == LET n == Min2(Len(a), Len(b))
                       D == { i \in 1..n : a[i] # b[i] }
                   IN IF D = {} THEN n + 1 ELSE FirstOf(D)
\* the maximal backslash run of inp that contains position d or ends just before it
RunStart(inp, d) == LET S == { i \in 1..Min2(d, Len(inp)) : \A j \in i..Min2(d - 1, Len(inp)) : inp[j] = BS }
                    IN FirstOf(S \cup {d})
RunEnd(inp, d) == LET S == { i \in d..(Len(inp) + 1) : \A j \in d..(i - 1) : inp[j] = BS }
                  IN CHOOSE i \in S : \A j \in S : j <= i          \* first index after the run
RunClass(n) == IF n = 0 THEN "none" ELSE IF n = 1 THEN "one" ELSE "many"
DiffSig(inp, back) ==
  LET d == FirstDiff(inp, back)
      s == RunStart(inp, d)
      e == RunEnd(inp, d)
  IN <<RunClass(e - s), IF e <= Len(inp) THEN Class(inp[e]) ELSE "end">>

HasRunThenSpecial(inp) == \E i \in 1..(Len(inp) - 1) : inp[i] = BS /\ inp[i + 1] \in {SQ, TAB, LF, CR}
HasLongRunThenSpecial(inp) == \E i \in 1..(Len(inp) - 2) : inp[i] = BS /\ inp[i + 1] = BS /\ inp[i + 2] \in {SQ, TAB, LF, CR}

EscStep(m, ev) ==
  LET ctl == ControlsIn(ev.out, ev.ks)
      bad == IF ev.exc # "" THEN <<"C51.raised", "escape", ev.exc>>
             ELSE IF ctl # {} THEN <<"C51.control_char", Flag("ks", ev.ks), Class(ev.out[FirstOf(ctl)])>>
             ELSE <<>>
      S == ToSet(ev.inp)
      w == {Flag("ks", ev.ks), Flag("sq", ev.sq)}
           \cup (IF ev.ks /\ S \cap {TAB, LF, CR} # {} THEN {"kept_spacing"} ELSE {})
           \cup (IF ~ev.ks /\ S \cap {TAB, LF, CR} # {} THEN {"escaped_spacing"} ELSE {})
           \cup (IF \E b \in S : Class(b) \in {"c0", "del"} THEN {"control_in"} ELSE {})
           \cup (IF \E b \in S : b >= 128 THEN {"high_in"} ELSE {})
           \cup (IF SQ \in S THEN {"sq_in"} ELSE {}) \cup (IF DQ \in S THEN {"dq_in"} ELSE {})
           \cup (IF HasRunThenSpecial(ev.inp) THEN {"backslash_then_special"} ELSE {})
           \cup (IF HasLongRunThenSpecial(ev.inp) THEN {"backslash_run_then_special"} ELSE {})
           \cup (IF ev.inp = <<>> THEN {"empty"} ELSE {})
  IN [m EXCEPT !.bad = bad, !.inp = ev.inp, !.ks = ev.ks, !.sq = ev.sq, !.open = TRUE, !.wit = @ \cup w]

UnescStep(m, ev) ==
  LET bad == IF ~m.open THEN <<>>
             ELSE IF ev.exc # "" THEN <<"C51.raised", "unescape", ev.exc>>
             ELSE IF ev.back # m.inp
                  THEN <<"C51.roundtrip", Flag("ks", m.ks), Flag("sq", m.sq)>> \o DiffSig(m.inp, ev.back)
             ELSE <<>>
  IN [m EXCEPT !.bad = bad, !.open = FALSE, !.wit = @ \cup (IF m.open THEN {"roundtrip_checked"} ELSE {})]

MonStep(m, ev) == IF ev.k = "esc" THEN EscStep(m, ev)
                  ELSE IF ev.k = "unesc" THEN UnescStep(m, ev)
                  ELSE m
Wit(m) == m.wit
=============================================================================
