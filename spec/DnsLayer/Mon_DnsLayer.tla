---------------------------- MODULE Mon_DnsLayer ----------------------------
(* Monitor for C27: DNS replies correspond to client queries; TCP framing ignores segmentation.

   A trace is a sequence of RUNS of one real DNSLayer each (fresh layer per run).  Flow scenarios have one run; a
   segmentation scenario replays the SAME client/upstream byte streams under different segmentations, one per run.
   Event records (props/C27.py; message contents are read with the reference decoder lib/vf/dnsref.py):
     [k |-> "run", r |-> 1.., cls |-> stream class (signature only)]
     [k |-> "query", id, q, rd, op]          the client puts a query on the connection; q = <<name, spelling, kind>> is the
                                             question section: name class, letter-case spelling of it (compared
                                             EXACTLY: "same question section"), kind "ascii" | "idn" (signature only)
     [k |-> "reply", id, q]                  the upstream puts a reply on its connection
     [k |-> "deliver", side, malformed]      TCP: a segment is handed to the layer; malformed = the bytes delivered so
                                             far on that side contain a zero length prefix at a frame boundary
     [k |-> "hook", name, has_req, rid, rq, rrd, rop, has_resp, pid, pq, porigin, fresh]
                                             a dns_request / dns_response / dns_error hook fires; projection of the
                                             flow it passes to addons (porigin: "upstream" | "addon" | "";
                                             fresh: this response object was not seen at an earlier hook)
     [k |-> "hook_done", policy] [k |-> "open_done", ok]      the environment completes the blocking command
     [k |-> "to_server", id, q]
     [k |-> "to_client", id, q, qr, rcode, op, rd, origin]    origin: "upstream" | "addon" | "synth" (sent right after
                                                              a dns_error hook: the SERVFAIL mitmproxy makes up)
     [k |-> "close", c]                      the layer closes connection c ("client" | "server")
     [k |-> "run_end", quiescent, complete]  quiescent: no hook / connect outstanding, nothing queued;
                                             complete: everything put on the wires was delivered (or its connection closed)
     [k |-> "end"]
   Clauses = the statement: flows reported to addons carry a query of this client; replies written to the client
   have id + question section of a query this client sent; the synthesised SERVFAIL also keeps opcode and RD; the
   messages extracted from a TCP stream are the same for every segmentation; a zero length prefix closes.     *)
EXTENDS Verif

NoExt == [client |-> <<>>, server |-> <<>>]
MonInit == [bad |-> <<>>, wit |-> {}, run |-> 0, cls |-> "",
            sent |-> {},          \* <<id, q, rd, op>> of the queries the client sent in this run
            mustclose |-> "",     \* side whose stream has shown a malformed length prefix and is not closed yet
            ext |-> NoExt,        \* messages extracted per side in this run (seen through the hooks)
            ext1 |-> NoExt,       \* ... in run 1
            cmp1 |-> FALSE,       \* run 1 ran to completion
            reported |-> {},      \* ids of queries the layer has already reported in a hook (it HAS seen the query)
            replied |-> {},       \* ids the upstream has replied to in this run
            upsent |-> {}]        \* <<id, q>> of the replies the upstream sent in this run

SentIds(m) == { s[1] : s \in m.sent }
Has(m, id, q) == \E s \in m.sent : s[1] = id /\ s[2] = q
\* the same name, in whatever letter case
HasFold(m, id, q) == \E s \in m.sent : s[1] = id /\ s[2][1] = q[1]

HookBad(m, ev) ==
  IF ~ev.has_req
    THEN <<"C27.hook_flow_without_query", ev.name,
           IF ev.pid \notin SentIds(m) THEN "id_unknown"              \* nobody asked
           ELSE IF ev.pid \in m.reported THEN "id_query_reported"    \* the layer had the query and lost it again
           ELSE "id_query_pending">>                                  \* query sent, but not yet processed by the layer
  ELSE IF ~HasFold(m, ev.rid, ev.rq) THEN <<"C27.hook_query_not_from_client", ev.name>>   \* "carries the query": by name
  ELSE <<>>

ToClientBad(m, ev) ==
  IF ev.origin = "synth" THEN
       IF ev.qr # 1 \/ ev.rcode # 2 THEN <<"C27.servfail_not_faithful", "rcode">>
       ELSE IF ev.id \notin SentIds(m) THEN <<"C27.servfail_not_faithful", "id">>
       ELSE IF ~HasFold(m, ev.id, ev.q) THEN <<"C27.servfail_not_faithful", "question">>
       \* opcode and RD are looked up among the queries for this id and NAME; the exact spelling is judged last, so that
       \* a re-spelled name is reported as such even when another query happens to use the new spelling
       ELSE IF ~\E s \in m.sent : s[1] = ev.id /\ s[2][1] = ev.q[1] /\ s[4] = ev.op
            THEN <<"C27.servfail_not_faithful", "opcode">>
       ELSE IF ~\E s \in m.sent : s[1] = ev.id /\ s[2][1] = ev.q[1] /\ s[4] = ev.op /\ s[3] = ev.rd
            THEN <<"C27.servfail_not_faithful", "rd">>
       ELSE IF ~\E s \in m.sent : s = <<ev.id, ev.q, ev.rd, ev.op>>
            THEN <<"C27.servfail_not_faithful", "question_case", ev.q[3]>>
       ELSE <<>>
  ELSE IF Has(m, ev.id, ev.q) THEN <<>>
  ELSE IF HasFold(m, ev.id, ev.q)     \* right name, other letter case: not the question section the client sent
       THEN <<"C27.reply_question_case_differs", ev.origin,
              IF ev.origin = "upstream" /\ <<ev.id, ev.q>> \in m.upsent THEN "as_upstream_sent" ELSE "changed_by_proxy",
              ev.q[3]>>
  ELSE <<"C27.reply_without_matching_query", ev.origin,
         IF ev.id \in SentIds(m) THEN "question_differs" ELSE "id_unknown">>

RunEndBad(m, ev) ==
  IF ev.quiescent /\ m.mustclose # "" THEN <<"C27.malformed_prefix_not_closed", m.mustclose>>
  ELSE IF ~ev.complete \/ ~m.cmp1 THEN <<>>
  ELSE IF m.run > 1 /\ m.ext.client # m.ext1.client THEN <<"C27.segmentation_dependent", "client", m.cls>>
  ELSE IF m.run > 1 /\ m.ext.server # m.ext1.server THEN <<"C27.segmentation_dependent", "server", m.cls>>
  ELSE <<>>

Clause(m, ev) ==
  CASE ev.k = "hook" -> HookBad(m, ev)
    [] ev.k = "to_client" -> ToClientBad(m, ev)
    [] ev.k = "run_end" -> RunEndBad(m, ev)
    [] OTHER -> <<>>

MonStep(m, ev) ==
  LET m1 == [m EXCEPT !.bad = IF @ # <<>> THEN @ ELSE Clause(m, ev)] IN
  CASE ev.k = "run" -> [m1 EXCEPT !.run = ev.r, !.cls = ev.cls, !.sent = {}, !.mustclose = "", !.ext = NoExt,
                                  !.reported = {}, !.replied = {}, !.upsent = {},
                                  !.wit = @ \cup (IF ev.r > 1 THEN {"second_segmentation"} ELSE {})]
    [] ev.k = "query" -> [m1 EXCEPT !.sent = @ \cup {<<ev.id, ev.q, ev.rd, ev.op>>},
                                    !.wit = @ \cup (IF ev.id \in SentIds(m) THEN {"id_reused"} ELSE {})
                                              \cup (IF \E s \in m.sent : s[2][1] = ev.q[1] /\ s[2] # ev.q
                                                    THEN {"query_respelled"} ELSE {})]
    [] ev.k = "reply" -> [m1 EXCEPT !.replied = @ \cup {ev.id}, !.upsent = @ \cup {<<ev.id, ev.q>>},
                                    !.wit = @ \cup (IF ev.id \notin SentIds(m) THEN {"unsolicited_reply"}
                                                      ELSE IF ~Has(m, ev.id, ev.q) THEN {"reply_other_question"}
                                                      ELSE {"matching_reply"})
                                              \cup (IF ev.id \in m.replied /\ ev.id \in m.reported
                                                    THEN {"duplicate_reply_after_exchange"} ELSE {})]
    [] ev.k = "deliver" -> [m1 EXCEPT !.mustclose = IF ev.malformed /\ @ = "" THEN ev.side ELSE @,
                                      !.wit = @ \cup {"tcp_segment"} \cup (IF ev.malformed THEN {"malformed_prefix"} ELSE {})]
    [] ev.k = "close" -> [m1 EXCEPT !.mustclose = IF @ = ev.c THEN "" ELSE @]
    [] ev.k = "hook" ->
         [m1 EXCEPT !.ext = IF ev.name = "dns_request" /\ ev.has_req
                              THEN [@ EXCEPT !.client = Append(@, <<ev.rid, ev.rq>>)]
                            ELSE IF ev.name = "dns_response" /\ ev.porigin = "upstream" /\ ev.fresh
                              THEN [@ EXCEPT !.server = Append(@, <<ev.pid, ev.pq>>)]
                            ELSE @,
                    !.reported = IF ev.has_req THEN @ \cup {ev.rid} ELSE @,
                    !.wit = @ \cup {ev.name}]
    [] ev.k = "to_client" -> [m1 EXCEPT !.wit = @ \cup {"to_client_" \o ev.origin}
                                                  \cup (IF \E s \in m.sent : s[2][1] = ev.q[1] /\ s[2] # ev.q
                                                        THEN {"reply_for_respelled_name_" \o ev.origin} ELSE {})]
    [] ev.k = "run_end" -> [m1 EXCEPT !.ext1 = IF m.run = 1 THEN m.ext ELSE @, !.cmp1 = IF m.run = 1 THEN ev.complete ELSE @,
                                      !.wit = @ \cup (IF m.run > 1 /\ ev.complete /\ m.cmp1 /\ Len(m.ext.client) > 1 THEN {"compared_multi_message_stream"} ELSE {})]
    [] OTHER -> m1
Wit(m) == m.wit
=============================================================================
