------------------------------ MODULE DnsLayer ------------------------------
(* Implementation-shaped model of mitmproxy/proxy/layers/dns.py (DNSLayer) on top of Layer.handle_event's pause /
   queue machinery (proxy/layer.py, see LayerQueue).  One environment action = one call of handle_event; what the
   layer does synchronously inside it is computed by the operators below, which follow the code:

     Feed      Layer.handle_event: while a blocking command is outstanding the event is queued (evq)
     Dispatch  state_query for DataReceived: unpack_message, then "for msg in msgs" (todo);  state_done ignores
     Extract   unpack_message, tcp branch: req_buf / resp_buf, 2-byte length, "expected_size == 0 -> struct.error",
               incomplete body -> rewind and wait.  The exception leaves the loop BEFORE the messages parsed earlier
               in the same call are returned: they are dropped (deviation kept in the model; the monitor judges it)
     Handle    flows[msg.id] (created on demand, NEVER removed, also for upstream messages) -> handle_request /
               handle_response up to the first hook
     Resume    the rest of handle_request / handle_response / handle_error after the blocking command completes:
               response set (by an addon OR left over from an earlier exchange with this id) -> dns_response hook ->
               client;  error set -> dns_error hook -> SERVFAIL;  no upstream -> same;  else OpenConnection if
               needed -> upstream
     Step      Layer.__continue: after a completion, keep going with the rest of the loop and the queued events
   Mode "flow": hooks / connect complete when the environment says so (all interleavings).
   Mode "seg" : they complete at once, the upstream answers every forwarded query; the same client stream is played
                in run 1 unsegmented and in run 2 under every segmentation (monitor: same messages extracted).
   Messages are [kind, id, q, rd]; a tcp frame is four tokens (two prefix bytes, body cut in two); a zero length
   prefix is the two tokens z Z.                                                                        *)
EXTENDS Mon_DnsLayer, TLC
CONSTANTS Mode, Trs, Ups,          \* "flow" | "seg";  transports and upstream-configured values chosen in Init
          Ids, Qs,                 \* message ids; question sections <<name, spelling, kind>>: the same name in several
                                   \* letter-case spellings (DNS 0x20 clients); a query for name "A" has RD set
          MaxQ, MaxR, MaxBad,      \* bounds: client queries, upstream replies, malformed client inputs per run
          BadKinds,                \* which malformed inputs: subset of {"bad", "zero"}
          Policies,                \* what an addon may do in dns_request: "none" | "respond" | "error"
          Streams,                 \* seg mode: client streams, sequences over {"q", "zero", "bad"}
          SWhole,                  \* bound: upstream bytes are delivered frame-aligned in one piece
          MaxSeg                   \* bound: a segment carries at most MaxSeg tokens, or everything on the wire
VARIABLES tr, up, L, cw, sw, cref, sref, nq, nr, nb, run, plan, phase, mon, obs
vars == <<tr, up, L, cw, sw, cref, sref, nq, nr, nb, run, plan, phase, mon, obs>>

Auto == Mode = "seg"
Msg(kind, id, q, rd) == [kind |-> kind, id |-> id, q |-> q, rd |-> rd]
NoQ == <<"", 0, "">>
NoMsg == Msg("none", 0, NoQ, 0)
\* What unpack + packed make of a question name: ASCII labels keep their case; an ACE label written with a lower-case
\* "xn--" prefix goes through the idna codec and comes back lower-cased (spelling 2 of an "idn" name -> spelling 3).
CodeSpelling(q) == IF q[3] = "idn" /\ q[2] = 2 THEN <<q[1], 3, q[3]>> ELSE q
Tok(t, m) == [t |-> t, m |-> m]
Frame(m) == <<Tok("p", m), Tok("P", m), Tok("b", m), Tok("B", m)>>
ZeroPrefix == <<Tok("z", NoMsg), Tok("Z", NoMsg)>>
Idle == [st |-> "idle", id |-> 0]
NoFlow == [has |-> FALSE, req |-> <<>>, resp |-> <<>>, err |-> FALSE]
FreshLayer == [flows |-> [i \in Ids |-> NoFlow], conn |-> FALSE, pc |-> Idle, todo |-> <<>>, evq |-> <<>>,
               done |-> FALSE, cbuf |-> <<>>, sbuf |-> <<>>, cclosed |-> FALSE, sclosed |-> FALSE,
               sw |-> <<>>, out |-> <<>>]
NoRef == [rest |-> <<>>, mal |-> FALSE]

\* ---- unpack_message (tcp): buf starts at a frame boundary ----
RECURSIVE Extract(_, _)
Extract(buf, acc) ==
  IF Len(buf) < 2 THEN [msgs |-> acc, rest |-> buf, err |-> FALSE]
  ELSE IF buf[1].t = "z" THEN [msgs |-> <<>>, rest |-> buf, err |-> TRUE]
  ELSE IF Len(buf) < 4 THEN [msgs |-> acc, rest |-> buf, err |-> FALSE]
  ELSE IF buf[1].m.kind = "bad" THEN [msgs |-> <<>>, rest |-> buf, err |-> TRUE]
  ELSE Extract(SubSeq(buf, 5, Len(buf)), Append(acc, buf[1].m))
\* the reference framer of the harness (RFC 1035 4.2.2): only decides "zero length prefix seen"
RECURSIVE RefFrame(_)
RefFrame(buf) ==
  IF Len(buf) < 2 THEN [rest |-> buf, mal |-> FALSE]
  ELSE IF buf[1].t = "z" THEN [rest |-> buf, mal |-> TRUE]
  ELSE IF Len(buf) < 4 THEN [rest |-> buf, mal |-> FALSE]
  ELSE RefFrame(SubSeq(buf, 5, Len(buf)))
RefAdd(r, seg) == IF r.mal THEN r ELSE RefFrame(r.rest \o seg)

\* ---- projections the harness records ----
HookEv(name, id, f) ==
  [k |-> "hook", name |-> name, has_req |-> f.req # <<>>,
   rid |-> IF f.req # <<>> THEN id ELSE 0, rq |-> IF f.req # <<>> THEN f.req[1] ELSE NoQ,
   rrd |-> IF f.req # <<>> THEN f.req[2] ELSE 0, rop |-> 0,
   has_resp |-> f.resp # <<>>, pid |-> IF f.resp # <<>> THEN id ELSE 0,
   pq |-> IF f.resp # <<>> THEN f.resp[1] ELSE NoQ, porigin |-> IF f.resp # <<>> THEN f.resp[2] ELSE "",
   fresh |-> IF f.resp # <<>> THEN ~f.resp[3] ELSE FALSE]
CloseEv(side) == [k |-> "close", c |-> side]

RECURSIVE Step(_), StartHook(_, _, _, _), Resume(_, _, _), AfterReqHook(_, _), Handle(_, _)

SendServer(w, id) ==
  LET q == w.flows[id].req[1] IN
  [w EXCEPT !.out = Append(@, [k |-> "to_server", id |-> id, q |-> q]),
            !.sw = IF Auto THEN @ \o Frame(Msg("r", id, q, 1)) ELSE @]
SendClientResp(w, id) ==
  LET f == w.flows[id] IN
  IF f.resp = <<>> THEN w
  ELSE [w EXCEPT !.out = Append(@, [k |-> "to_client", id |-> id, q |-> f.resp[1], qr |-> 1, rcode |-> 0, op |-> 0,
                                    rd |-> f.resp[4], origin |-> f.resp[2]])]
SendServfail(w, id) ==        \* flow.request.fail(SERVFAIL)
  LET f == w.flows[id] IN
  [w EXCEPT !.out = Append(@, [k |-> "to_client", id |-> id, q |-> f.req[1], qr |-> 1, rcode |-> 2, op |-> 0,
                               rd |-> f.req[2], origin |-> "synth"])]

StartHook(w, st, name, id) ==
  LET f  == w.flows[id]
      w1 == [w EXCEPT !.out = Append(@, HookEv(name, id, f)),
                      !.flows[id].resp = IF f.resp = <<>> THEN <<>> ELSE <<f.resp[1], f.resp[2], TRUE, f.resp[4]>>,
                      !.pc = [st |-> st, id |-> id]]
  IN IF Auto THEN Resume(w1, "none", TRUE) ELSE w1
StartOpen(w, id) ==
  LET w1 == [w EXCEPT !.pc = [st |-> "open", id |-> id]] IN IF Auto THEN Resume(w1, "none", TRUE) ELSE w1

\* handle_request after the dns_request hook
AfterReqHook(w, id) ==
  LET f == w.flows[id] IN
  IF f.resp # <<>> THEN StartHook(w, "resp_hook", "dns_response", id)
  ELSE IF f.err \/ ~up THEN StartHook([w EXCEPT !.flows[id].err = TRUE], "err_hook", "dns_error", id)
  ELSE IF ~w.conn THEN StartOpen(w, id)
  ELSE Step(SendServer(w, id))

ApplyPolicy(w, id, policy) ==
  CASE policy = "respond" -> [w EXCEPT !.flows[id].resp = <<w.flows[id].req[1], "addon", FALSE, w.flows[id].req[2]>>]
    [] policy = "error"   -> [w EXCEPT !.flows[id].err = TRUE]
    [] OTHER -> w

Resume(w, policy, ok) ==
  LET id == w.pc.id
      w0 == [w EXCEPT !.pc = Idle]
  IN CASE w.pc.st = "req_hook"  -> AfterReqHook(ApplyPolicy(w0, id, policy), id)
       [] w.pc.st = "resp_hook" -> Step(SendClientResp(w0, id))
       [] w.pc.st = "err_hook"  -> Step(SendServfail(w0, id))
       [] w.pc.st = "open"      -> IF ok THEN Step(SendServer([w0 EXCEPT !.conn = TRUE], id))
                                   ELSE StartHook([w0 EXCEPT !.flows[id].err = TRUE], "err_hook", "dns_error", id)

Handle(w, m) ==
  IF m.kind = "q"
    THEN StartHook([w EXCEPT !.flows[m.id].has = TRUE, !.flows[m.id].req = <<CodeSpelling(m.q), m.rd>>],
                   "req_hook", "dns_request", m.id)
    ELSE StartHook([w EXCEPT !.flows[m.id].has = TRUE, !.flows[m.id].resp = <<CodeSpelling(m.q), "upstream", FALSE, 1>>],
                   "resp_hook", "dns_response", m.id)

Dispatch(w, ev) ==
  IF w.done THEN w
  ELSE LET client == ev.side = "client"
           buf == (IF client THEN w.cbuf ELSE w.sbuf) \o ev.data
           x == IF tr = "udp"
                  THEN (IF ev.data[1].m.kind = "bad" THEN [msgs |-> <<>>, rest |-> <<>>, err |-> TRUE]
                        ELSE [msgs |-> <<ev.data[1].m>>, rest |-> <<>>, err |-> FALSE])
                  ELSE Extract(buf, <<>>)
       IN IF x.err
            THEN [w EXCEPT !.out = Append(@, CloseEv(ev.side)), !.done = TRUE,
                           !.cclosed = IF client THEN TRUE ELSE @, !.sclosed = IF client THEN @ ELSE TRUE]
            ELSE [w EXCEPT !.todo = x.msgs, !.cbuf = IF client THEN x.rest ELSE @, !.sbuf = IF client THEN @ ELSE x.rest]

Step(w) ==
  IF w.pc.st # "idle" THEN w
  ELSE IF w.todo # <<>> THEN Handle([w EXCEPT !.todo = Tail(@)], Head(w.todo))
  ELSE IF w.evq # <<>> THEN Step(Dispatch([w EXCEPT !.evq = Tail(@)], Head(w.evq)))
  ELSE w
Feed(w, ev) == IF w.pc.st # "idle" THEN [w EXCEPT !.evq = Append(@, ev)] ELSE Step(Dispatch(w, ev))

\* ---- the specification -------------------------------------------------------------------------------------------
Init == /\ tr \in Trs /\ up \in Ups /\ L = FreshLayer /\ cw = <<>> /\ sw = <<>> /\ cref = NoRef /\ sref = NoRef
        /\ nq = 0 /\ nr = 0 /\ nb = 0 /\ run = 0 /\ plan \in (IF Auto THEN Streams ELSE {<<>>}) /\ phase = "new"
        /\ mon = MonInit /\ obs = <<>>
Live == mon.bad = <<>> /\ phase # "finished"
Running == Live /\ phase = "running"
Emit(evs) == obs' = evs /\ mon' = FoldEvents(MonStep, mon, evs)
W(first) == [L EXCEPT !.sw = sw, !.out = first]
\* commit a work record: layer state, upstream wire (seg mode appends to it), emitted records
Commit(w) == /\ L' = [w EXCEPT !.sw = <<>>, !.out = <<>>] /\ sw' = w.sw /\ Emit(w.out)

\* seg mode: the i-th frame of the plan
PlanQ(i) == <<<<"A", 1, "ascii">>, <<"B", 1, "ascii">>, <<"A", 2, "ascii">>>>[((i - 1) % 3) + 1]
PlanMsg(i) == IF plan[i] = "q" THEN Msg("q", i, PlanQ(i), IF PlanQ(i)[1] = "A" THEN 1 ELSE 0) ELSE Msg("bad", 0, NoQ, 0)
RECURSIVE PlanToks(_), PlanEvs(_)
PlanToks(i) == IF i > Len(plan) THEN <<>>
               ELSE (IF plan[i] = "zero" THEN ZeroPrefix ELSE Frame(PlanMsg(i))) \o PlanToks(i + 1)
PlanEvs(i) == IF i > Len(plan) THEN <<>>
              ELSE (IF plan[i] = "q" THEN <<[k |-> "query", id |-> i, q |-> PlanMsg(i).q, rd |-> PlanMsg(i).rd, op |-> 0]>>
                    ELSE IF plan[i] = "bad" THEN <<[k |-> "bad", side |-> "client"]>> ELSE <<>>) \o PlanEvs(i + 1)
PlanClass == IF \A i \in 1..Len(plan) : plan[i] = "q" THEN "all_valid"
             ELSE IF plan[1] # "q" THEN "malformed_first" ELSE "valid_then_malformed"

StartRun ==
  /\ Live /\ phase \in {"new", "between"} /\ phase' = "running" /\ run' = run + 1
  /\ L' = FreshLayer /\ sw' = <<>> /\ cref' = NoRef /\ sref' = NoRef /\ nq' = 0 /\ nr' = 0 /\ nb' = 0
  /\ UNCHANGED <<tr, up, plan>>
  /\ cw' = IF Auto THEN PlanToks(1) ELSE <<>>
  /\ Emit(<<[k |-> "run", r |-> run + 1, cls |-> IF Auto THEN PlanClass ELSE "flow"]>> \o (IF Auto THEN PlanEvs(1) ELSE <<>>))

RdOf(q) == IF q[1] = "A" THEN 1 ELSE 0
ClientQuery(id, q) ==
  /\ Running /\ ~Auto /\ ~L.cclosed /\ nq < MaxQ /\ nq' = nq + 1
  /\ UNCHANGED <<tr, up, cref, sref, nr, nb, run, plan, phase>>
  /\ LET rd == RdOf(q)
         rec == [k |-> "query", id |-> id, q |-> q, rd |-> rd, op |-> 0]
         m == Msg("q", id, q, rd)
     IN IF tr = "udp" THEN /\ cw' = cw /\ Commit(Feed(W(<<rec>>), [side |-> "client", data |-> <<Tok("D", m)>>]))
        ELSE /\ cw' = cw \o Frame(m) /\ UNCHANGED <<L, sw>> /\ Emit(<<rec>>)

UpstreamReply(id, q) ==
  /\ Running /\ ~Auto /\ L.conn /\ ~L.sclosed /\ nr < MaxR /\ nr' = nr + 1
  /\ UNCHANGED <<tr, up, cw, cref, sref, nq, nb, run, plan, phase>>
  /\ LET rec == [k |-> "reply", id |-> id, q |-> q]
         m == Msg("r", id, q, 1)
     IN IF tr = "udp" THEN Commit(Feed(W(<<rec>>), [side |-> "server", data |-> <<Tok("D", m)>>]))
        ELSE /\ sw' = sw \o Frame(m) /\ UNCHANGED L /\ Emit(<<rec>>)

\* malformed client input: a datagram / frame that is not DNS, or (tcp) a zero length prefix
ClientBad ==
  /\ Running /\ ~Auto /\ ~L.cclosed /\ nb < MaxBad /\ nb' = nb + 1 /\ "bad" \in BadKinds
  /\ UNCHANGED <<tr, up, cref, sref, nq, nr, run, plan, phase>>
  /\ LET rec == [k |-> "bad", side |-> "client"]
         m == Msg("bad", 0, NoQ, 0)
     IN IF tr = "udp" THEN /\ cw' = cw /\ Commit(Feed(W(<<rec>>), [side |-> "client", data |-> <<Tok("D", m)>>]))
        ELSE /\ cw' = cw \o Frame(m) /\ UNCHANGED <<L, sw>> /\ Emit(<<rec>>)
ClientZero ==
  /\ Running /\ ~Auto /\ tr = "tcp" /\ ~L.cclosed /\ nb < MaxBad /\ nb' = nb + 1 /\ "zero" \in BadKinds
  /\ cw' = cw \o ZeroPrefix /\ UNCHANGED <<tr, up, L, sw, cref, sref, nq, nr, run, plan, phase>> /\ Emit(<<>>)

CSeg(n) ==
  /\ Running /\ tr = "tcp" /\ ~L.cclosed /\ n \in 1..Len(cw) /\ (n <= MaxSeg \/ n = Len(cw))
  /\ (Auto /\ run = 1) => n = Len(cw)                   \* run 1 of a segmentation scenario is the unsegmented one
  /\ LET seg == SubSeq(cw, 1, n)
         r == RefAdd(cref, seg)
     IN /\ cw' = SubSeq(cw, n + 1, Len(cw)) /\ cref' = r
        /\ Commit(Feed(W(<<[k |-> "deliver", side |-> "client", malformed |-> r.mal]>>), [side |-> "client", data |-> seg]))
  /\ UNCHANGED <<tr, up, sref, nq, nr, nb, run, plan, phase>>

SSeg(n) ==
  /\ Running /\ tr = "tcp" /\ L.conn /\ ~L.sclosed /\ n \in 1..Len(sw) /\ (n <= MaxSeg \/ n = Len(sw))
  /\ ((Auto /\ run = 1) \/ SWhole) => n = Len(sw)
  /\ LET seg == SubSeq(sw, 1, n)
         r == RefAdd(sref, seg)
         w == Feed([W(<<[k |-> "deliver", side |-> "server", malformed |-> r.mal]>>) EXCEPT !.sw = SubSeq(sw, n + 1, Len(sw))],
                   [side |-> "server", data |-> seg])
     IN /\ sref' = r /\ Commit(w)
  /\ UNCHANGED <<tr, up, cw, cref, nq, nr, nb, run, plan, phase>>

HookDone(policy) ==
  /\ Running /\ ~Auto /\ L.pc.st \in {"req_hook", "resp_hook", "err_hook"}
  /\ (L.pc.st # "req_hook") => policy = "none"
  /\ Commit(Resume(W(<<[k |-> "hook_done", policy |-> policy]>>), policy, TRUE))
  /\ UNCHANGED <<tr, up, cw, cref, sref, nq, nr, nb, run, plan, phase>>

OpenDone(ok) ==
  /\ Running /\ ~Auto /\ L.pc.st = "open"
  /\ Commit(Resume(W(<<[k |-> "open_done", ok |-> ok]>>), "none", ok))
  /\ UNCHANGED <<tr, up, cw, cref, sref, nq, nr, nb, run, plan, phase>>

\* seg mode: everything that can be delivered has been delivered
EndRun ==
  /\ Running /\ Auto /\ (cw = <<>> \/ L.cclosed) /\ (sw = <<>> \/ L.sclosed \/ ~L.conn)
  /\ phase' = IF run < 2 THEN "between" ELSE "finished"
  /\ UNCHANGED <<tr, up, L, cw, sw, cref, sref, nq, nr, nb, run, plan>>
  /\ Emit(<<[k |-> "run_end", quiescent |-> L.pc.st = "idle", complete |-> TRUE]>> \o (IF run < 2 THEN <<>> ELSE <<[k |-> "end"]>>))
\* flow mode: the scenario stops here (explored at quiescent points; the harness may stop anywhere)
Finish ==
  /\ Running /\ ~Auto /\ L.pc.st = "idle" /\ phase' = "finished"
  /\ UNCHANGED <<tr, up, L, cw, sw, cref, sref, nq, nr, nb, run, plan>>
  /\ Emit(<<[k |-> "run_end", quiescent |-> L.pc.st = "idle", complete |-> TRUE], [k |-> "end"]>>)

Next == \/ StartRun
        \/ \E id \in Ids, q \in Qs : ClientQuery(id, q)
        \/ \E id \in Ids, q \in Qs : UpstreamReply(id, q)
        \/ ClientBad \/ ClientZero
        \/ \E n \in 1..16 : CSeg(n)
        \/ \E n \in 1..16 : SSeg(n)
        \/ \E p \in Policies : HookDone(p)
        \/ \E ok \in BOOLEAN : OpenDone(ok)
        \/ EndRun \/ Finish
Spec == Init /\ [][Next]_vars
Report == mon.bad # <<>> => PrintT(<<"BAD", mon.bad>>)
=============================================================================
