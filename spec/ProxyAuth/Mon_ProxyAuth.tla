--------------------------- MODULE Mon_ProxyAuth ---------------------------
(* Monitor for C20: proxy authentication is enforced on every entry path.

   One trace = up to three client connections handled by the real layer stacks sharing ONE real ProxyAuth addon
   (props/C20.py).  Requests are sent one at a time and driven to completion.  Event records:
     [k |-> "conn", c, path, validator]     connection c (1..3) opens; path = proxy mode of its listener:
                                            "regular" | "upstream" | "reverse" | "transparent" | "socks5";
                                            validator = "single" | "any" | "htpasswd" (the configured proxyauth)
     [k |-> "socks_auth", c, cred, accepts, ok]   SOCKS5 method negotiation + RFC 1929 credentials of class cred were
                                            presented (cred = "missing": the client offered no user/password method);
                                            accepts = the configured validator accepts the presented pair (oracle: the
                                            validator called directly by the harness); ok = the server answered success
     [k |-> "socks_open", c]                the SOCKS5 request was answered with success (tunnel established)
     [k |-> "request", c, rid, form, cred, accepts]   the client sent request rid; form = "absolute" | "connect" |
                                            "origin" (reverse / transparent) | "inner" (inside a CONNECT / SOCKS tunnel);
                                            cred = class of the credential header; accepts = the header, read by the
                                            harness's own RFC 7617 reader, carries a pair the validator accepts
     [k |-> "forwarded", c, rid, credhdr]   the upstream peer received the head of request rid (own HTTP/1 reader);
                                            credhdr = the credential header of this path is still in it
     [k |-> "response", c, rid, status]     the client received a response to rid
     [k |-> "end"]
   Clauses (from the statement, nothing else):
     forwarded_without_credentials   a request is forwarded / a tunnel is established for a client that has not
                                     presented credentials the validator accepts (on this connection)
     no_auth_required_answer         ... and such a request is not answered 407/401 (SOCKS: not refused)
     valid_credentials_rejected      a pair the validator accepts is refused on some path
     credential_header_forwarded     the header that authenticated the request reaches the upstream            *)
EXTENDS Verif

NoReq == [rid |-> 0, c |-> 0, form |-> "", cred |-> "", accepts |-> FALSE, fwd |-> FALSE, status |-> 0]
NoConn == [path |-> "", validator |-> "", presented |-> FALSE]
MonInit == [bad |-> <<>>, wit |-> {}, conn |-> <<NoConn, NoConn, NoConn>>, cur |-> NoReq]

PathClass(p) == IF p = "socks5" THEN "socks" ELSE "http"
\* the client of connection c may be served: it has presented accepted credentials on this connection, now or before
Allowed(m, q) == q.accepts \/ m.conn[q.c].presented
AuthRequired(s) == s \in {401, 407}

\* an outstanding request that is replaced / left at the end without any answer
Unsettled(m) ==
  LET q == m.cur IN
  IF q.rid = 0 \/ q.status # 0 THEN <<>>
  ELSE IF ~Allowed(m, q) THEN <<"C20.no_auth_required_answer", m.conn[q.c].path, q.form, q.cred>>
  ELSE IF q.accepts /\ ~q.fwd
       THEN <<"C20.valid_credentials_rejected", "http", q.cred, m.conn[q.c].validator, "unanswered">>
  ELSE <<>>

Clause(m, ev) ==
  LET q == m.cur IN
  CASE ev.k = "socks_auth" ->
         IF ev.ok /\ ~ev.accepts THEN <<"C20.forwarded_without_credentials", "socks5", "socks", ev.cred>>
         ELSE IF ev.accepts /\ ~ev.ok
              THEN <<"C20.valid_credentials_rejected", "socks", ev.cred, m.conn[ev.c].validator, "refused">>
         ELSE <<>>
    [] ev.k = "socks_open" ->
         IF ~m.conn[ev.c].presented THEN <<"C20.forwarded_without_credentials", "socks5", "socks", "none">> ELSE <<>>
    [] ev.k = "request" -> Unsettled(m)
    [] ev.k = "forwarded" ->
         IF q.rid # ev.rid THEN <<"C20.forwarded_without_credentials", m.conn[ev.c].path, "stale", "none">>
         ELSE IF ~Allowed(m, q) THEN <<"C20.forwarded_without_credentials", m.conn[q.c].path, q.form, q.cred>>
         ELSE IF ev.credhdr /\ q.accepts /\ q.form \in {"absolute", "origin"}
              THEN <<"C20.credential_header_forwarded", m.conn[q.c].path, q.form>>
         ELSE <<>>
    [] ev.k = "response" ->
         IF q.rid # ev.rid THEN <<>>
         ELSE IF q.form = "connect" /\ ev.status \in 200..299 /\ ~Allowed(m, q)
              THEN <<"C20.forwarded_without_credentials", m.conn[q.c].path, q.form, q.cred>>
         ELSE IF ~Allowed(m, q) /\ ~AuthRequired(ev.status)
              THEN <<"C20.no_auth_required_answer", m.conn[q.c].path, q.form, q.cred>>
         ELSE IF q.accepts /\ AuthRequired(ev.status)
              THEN <<"C20.valid_credentials_rejected", "http", q.cred, m.conn[q.c].validator, "refused">>
         ELSE <<>>
    [] ev.k = "end" -> Unsettled(m)
    [] OTHER -> <<>>

NewWit(m, ev) ==
  LET q == m.cur IN
  CASE ev.k = "socks_auth" -> (IF ev.ok THEN {"socks_accepted"} ELSE {"socks_refused"})
                              \cup (IF ev.cred = "colon" /\ ev.accepts THEN {"colon_pw_socks"} ELSE {})
    [] ev.k = "request" -> (IF ev.cred = "colon" /\ ev.accepts THEN {"colon_pw_http"} ELSE {})
                           \cup (IF ~ev.accepts /\ ~m.conn[ev.c].presented
                                    /\ \E d \in 1..3 : d # ev.c /\ m.conn[d].presented
                                 THEN {"other_connection_authenticated"} ELSE {})
    [] ev.k = "forwarded" -> (IF q.rid = ev.rid /\ Allowed(m, q) THEN {"forwarded_" \o q.form} ELSE {})
                             \cup (IF q.rid = ev.rid /\ q.accepts /\ ~ev.credhdr THEN {"header_stripped"} ELSE {})
    [] ev.k = "response" -> IF q.rid = ev.rid /\ AuthRequired(ev.status) /\ ~Allowed(m, q)
                            THEN {"refused_" \o m.conn[q.c].path, "refused_" \o q.form}
                                 \cup (IF q.cred = "raises" THEN {"refused_when_validator_raises"} ELSE {})
                            ELSE IF q.rid = ev.rid /\ q.form = "connect" /\ ev.status \in 200..299
                            THEN {"tunnel_established"} ELSE {}
    [] OTHER -> {}

MonStep(m, ev) ==
  LET m1 == [m EXCEPT !.bad = Clause(m, ev), !.wit = @ \cup NewWit(m, ev)] IN
  CASE ev.k = "conn" -> [m1 EXCEPT !.conn[ev.c] = [path |-> ev.path, validator |-> ev.validator, presented |-> FALSE]]
    [] ev.k = "socks_auth" -> [m1 EXCEPT !.conn[ev.c].presented = @ \/ ev.accepts]
    [] ev.k = "request" -> [m1 EXCEPT !.cur = [rid |-> ev.rid, c |-> ev.c, form |-> ev.form, cred |-> ev.cred,
                                               accepts |-> ev.accepts, fwd |-> FALSE, status |-> 0]]
    [] ev.k = "forwarded" -> IF m.cur.rid = ev.rid THEN [m1 EXCEPT !.cur.fwd = TRUE] ELSE m1
    [] ev.k = "response" ->
         IF m.cur.rid # ev.rid THEN m1
         ELSE [m1 EXCEPT !.cur.status = ev.status,
                         \* served with accepted credentials: from now on this client has presented them
                         !.conn[m.cur.c].presented = @ \/ (m.cur.accepts /\ ~AuthRequired(ev.status))]
    [] OTHER -> m1
Wit(m) == m.wit
=============================================================================
