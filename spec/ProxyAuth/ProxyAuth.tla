----------------------------- MODULE ProxyAuth -----------------------------
(* Implementation-shaped model of mitmproxy/addons/proxyauth.py (ProxyAuth) as it is reached from the layers:
     SocksAuth   = Socks5Proxy.state_greet/state_auth  ->  hook socks5_auth   (ProxyAuth.socks5_auth)
     Request     = HttpStream.state_wait_for_request_headers:
                     CONNECT:  hook http_connect    (ProxyAuth.http_connect -> authenticate_http)
                     else:     hook requestheaders  (ProxyAuth.requestheaders -> authenticate_http unless the client
                               connection is in self.authenticated), then either flow.response (407/401) is sent
                               or the request goes to the server (state_consume_request_body)
   State: authenticated = keys of ProxyAuth.authenticated (client connections authenticated by CONNECT / SOCKS5);
          conn[c] = [path, st]: st "none" | "socks" (before the SOCKS5 handshake) | "http" | "tunnel" | "closed".
   AcceptTab = {<<validator, credential class>>} the validator accepts (computed by calling the real validators).
   ColonSplit names a former deviation of the code: parse_http_basic_auth split the decoded value at EVERY ':' and
   failed for a password containing ':', so on the HTTP paths such a pair was refused although the validator accepts
   it (the SOCKS5 path passes the pair unparsed).  Repaired in /repo commit 343c71fb1 (split(":", 1)); the check runs
   with ColonSplit = FALSE (the repaired code); TRUE reproduces the old behaviour (mutants/C20/M7).
   Requests are atomic: the harness sends one request and drives it to completion before the next.          *)
EXTENDS Mon_ProxyAuth, TLC
CONSTANTS Validators, Paths, Paths2, HttpCreds, HttpCreds2, SocksCreds, AcceptTab, MaxReq, NConn, ColonSplit
VARIABLES validator, conn, authenticated, nreq, ended, mon, obs
vars == <<validator, conn, authenticated, nreq, ended, mon, obs>>

Init == /\ validator \in Validators
        /\ conn = [c \in 1..3 |-> [path |-> "", st |-> "none"]]
        /\ authenticated = {} /\ nreq = 0 /\ ended = FALSE /\ mon = MonInit /\ obs = <<>>
Live == mon.bad = <<>> /\ ~ended
Emit(evs) == obs' = evs /\ mon' = FoldEvents(MonStep, mon, evs)

Accepts(cred) == <<validator, cred>> \in AcceptTab
\* what authenticate_http concludes from the credential header
HttpValid(cred) == Accepts(cred) /\ ~(ColonSplit /\ cred = "colon")
IsProxy(p) == p \in {"regular", "upstream"}       \* is_http_proxy(): RegularMode / UpstreamMode

\* connections open in index order; only the first may use every path; a further connection (the probe for
\* isolation between connections) opens once the first has been used
Open(c, p) ==
  /\ Live /\ c <= NConn /\ conn[c].st = "none" /\ (c > 1 => conn[c - 1].st # "none" /\ (nreq > 0 \/ authenticated # {}))
  /\ p \in (IF c = 1 THEN Paths ELSE Paths2)
  /\ conn' = [conn EXCEPT ![c] = [path |-> p, st |-> IF p = "socks5" THEN "socks" ELSE "http"]]
  /\ UNCHANGED <<validator, authenticated, nreq, ended>>
  /\ Emit(<<[k |-> "conn", c |-> c, path |-> p, validator |-> validator]>>)

SocksAuth(c, cred) ==
  /\ Live /\ conn[c].st = "socks" /\ cred \in SocksCreds
  /\ LET ok == cred # "missing" /\ Accepts(cred)      \* "missing": no user/password method offered -> 0xFF
         rec == [k |-> "socks_auth", c |-> c, cred |-> cred, accepts |-> Accepts(cred) /\ cred # "missing", ok |-> ok]
     IN IF ok
        THEN /\ authenticated' = authenticated \cup {c}
             /\ conn' = [conn EXCEPT ![c].st = "tunnel"]
             /\ Emit(<<rec, [k |-> "socks_open", c |-> c]>>)
        ELSE /\ conn' = [conn EXCEPT ![c].st = "closed"] /\ UNCHANGED authenticated
             /\ Emit(<<rec>>)
  /\ UNCHANGED <<validator, nreq, ended>>

Forms(c) == IF conn[c].st = "tunnel" THEN {"inner"}
            ELSE IF IsProxy(conn[c].path) THEN {"absolute", "connect"} ELSE {"origin"}

Request(c, form, cred) ==
  /\ Live /\ conn[c].st \in {"http", "tunnel"} /\ nreq < MaxReq
  \* bound: the first request of a behaviour ranges over every credential class, later ones over HttpCreds2
  /\ form \in Forms(c) /\ cred \in (IF nreq = 0 THEN HttpCreds ELSE HttpCreds2)
  /\ nreq' = nreq + 1
  /\ LET rid == nreq + 1
         p   == conn[c].path
         req == [k |-> "request", c |-> c, rid |-> rid, form |-> form, cred |-> cred, accepts |-> Accepts(cred)]
         resp(s) == [k |-> "response", c |-> c, rid |-> rid, status |-> s]
         deny == IF IsProxy(p) THEN 407 ELSE 401
     IN IF form = "connect"
        THEN \* http_connect: always authenticates the CONNECT itself
             IF HttpValid(cred)
             THEN /\ authenticated' = authenticated \cup {c}
                  /\ conn' = [conn EXCEPT ![c].st = "tunnel"]
                  /\ Emit(<<req, resp(200)>>)
             ELSE /\ UNCHANGED <<authenticated, conn>> /\ Emit(<<req, resp(407)>>)
        ELSE \* requestheaders
             /\ UNCHANGED <<authenticated, conn>>
             /\ IF c \in authenticated
                THEN \* nothing is checked or removed; a credential header in an inner request travels on
                     Emit(<<req, [k |-> "forwarded", c |-> c, rid |-> rid, credhdr |-> cred \notin {"missing", "wronghdr"}],
                            resp(200)>>)
                ELSE IF HttpValid(cred)
                THEN Emit(<<req, [k |-> "forwarded", c |-> c, rid |-> rid, credhdr |-> FALSE], resp(200)>>)
                ELSE Emit(<<req, resp(deny)>>)
  /\ UNCHANGED <<validator, ended>>

Finish == /\ Live /\ conn[1].st # "none"
          /\ ended' = TRUE /\ UNCHANGED <<validator, conn, authenticated, nreq>>
          /\ Emit(<<[k |-> "end"]>>)

Next == \/ \E c \in 1..3, p \in Paths \cup Paths2 : Open(c, p)
        \/ \E c \in 1..3, cred \in SocksCreds : SocksAuth(c, cred)
        \/ \E c \in 1..3, form \in {"absolute", "connect", "origin", "inner"}, cred \in HttpCreds \cup HttpCreds2 :
              Request(c, form, cred)
        \/ Finish
Spec == Init /\ [][Next]_vars
Report == mon.bad # <<>> => PrintT(<<"BAD", mon.bad>>)
=============================================================================
