-------------------------- MODULE Mon_ServerReplay --------------------------
(* Monitor for C52: server replay serves recorded responses only to matching requests, in order.

   A request is a record
     [method, scheme, host, port, path |-> <<path without parameters, ";parameters" of the last segment>>,
      query |-> << <<k, v>>, ... >>, body |-> name of the raw body, ftype |-> "none" | "urlencoded" | "multipart",
      form |-> << <<k, v>>, ... >> (the decoded form fields, <<>> if ftype = "none"), hdrs |-> << <<name, value>>, ... >>]
   Options: [ic, ih, ip : BOOLEAN (ignore content / host / port), iparams, ipay : sequences of names (ignored query
             and payload parameters), uh : sequence of header names, reuse : BOOLEAN, extra : "forward" | "kill" |
             "204" | "400" | "404" | "500", killx : BOOLEAN (deprecated server_replay_kill_extra)]
   Recordings are numbered 1, 2, ... in the order they are handed to the addon (the recording order).

   Event records (props/C52.py); every record also carries  held |-> ascending sequence of the recording ids
   found in ServerPlayback.flowmap after the call  and  n |-> count() (prediction only):
     [k |-> "cfg", opts]                                     \* initial configuration
     [k |-> "add", reset |-> BOOLEAN (replay.server vs replay.server.add),
                   recs |-> <<[id, http, hasresp, req]>>]    \* http = FALSE: a non-HTTP flow (req is a dummy)
     [k |-> "opt", opts]                                     \* the options after an update
     [k |-> "clear"]
     [k |-> "req", req, active |-> BOOLEAN (count() > 0 before the hook),
                   out |-> "replay" | "forward" | "kill" | "status", served |-> recording id or 0,
                   status |-> status code of a non-recorded response or 0, isr |-> flow.is_replay or ""]
     [k |-> "raised", at, exc]                                                                                *)
EXTENDS Verif

MonInit == [bad |-> <<>>,
            recs |-> <<>>,        \* recording id -> its record
            unserved |-> <<>>,    \* ids of recordings not yet served, in recording order
            opts |-> [ic |-> FALSE, ih |-> FALSE, ip |-> FALSE, iparams |-> <<>>, ipay |-> <<>>, uh |-> <<>>,
                      reuse |-> FALSE, extra |-> "forward", killx |-> FALSE],
            held |-> <<>>,        \* flowmap content reported by the previous event
            changed |-> FALSE,    \* a matching option was changed since the recordings were (re)loaded
            wit |-> {}]

HdrVal(r, name) == LET hits == { i \in 1..Len(r.hdrs) : r.hdrs[i][1] = name }
                   IN IF hits = {} THEN <<"absent">> ELSE <<"value", r.hdrs[CHOOSE i \in hits : \A j \in hits : i <= j][2]>>
\* the matching key of the statement.  Body part: ignored / the non-ignored form fields / the raw body
FormBranch(r, o) == ~o.ic /\ o.ipay # <<>> /\ r.form # <<>>
Fields(r, o) == SelectSeq(r.form, LAMBDA p : p[1] \notin ToSet(o.ipay))
KeyBody(r, o) == IF o.ic THEN <<"ignored">>
                 ELSE IF FormBranch(r, o) THEN <<"form", Fields(r, o)>>
                 ELSE <<"raw", r.body>>
RefKey(r, o) == [method |-> r.method, scheme |-> r.scheme, path |-> r.path,
                 query |-> SelectSeq(r.query, LAMBDA p : p[1] \notin ToSet(o.iparams)),
                 host |-> IF o.ih THEN "" ELSE r.host,
                 port |-> IF o.ip THEN 0 ELSE r.port,
                 body |-> KeyBody(r, o),
                 hdrs |-> [i \in 1..Len(o.uh) |-> HdrVal(r, o.uh[i])]]
\* RefKey is the coarsest reading (equal non-ignored fields, whatever the form encoding): a recording may only be
\* served when RefKey is equal.  FineKey also compares the form encoding: a recording MUST be found (and ordered)
\* when even FineKey is equal.  The two differ only for urlencoded vs multipart forms with equal fields.
FineKey(r, o) == <<RefKey(r, o), IF FormBranch(r, o) THEN r.ftype ELSE "">>
\* which component of two keys differs first (signature)
KeyDiff(a, b) == IF a.method # b.method THEN "method"
                 ELSE IF a.scheme # b.scheme THEN "scheme"
                 ELSE IF a.path[1] # b.path[1] THEN "path"
                 ELSE IF a.path # b.path THEN "path_parameters"
                 ELSE IF a.query # b.query THEN "query"
                 ELSE IF a.host # b.host THEN "host"
                 ELSE IF a.port # b.port THEN "port"
                 ELSE IF a.body # b.body THEN "body"
                 ELSE IF a.hdrs # b.hdrs THEN "headers"
                 ELSE "none"

Known(m, id) == id \in 1..Len(m.recs)
Servable(m, id) == Known(m, id) /\ m.recs[id].http /\ m.recs[id].hasresp
\* unserved recordings with a response whose key equals the request's, in recording order
Cand(m, req) == SelectSeq(m.unserved, LAMBDA id : Servable(m, id) /\ FineKey(m.recs[id].req, m.opts) = FineKey(req, m.opts))
\* a Cand member stands before recording `id` in the recording order of the unserved ones
Earlier(m, req, id) == LET pos == IndexOf(m.unserved, id)
                       IN \E i \in 1..(pos - 1) : Servable(m, m.unserved[i])
                                                   /\ FineKey(m.recs[m.unserved[i]].req, m.opts) = FineKey(req, m.opts)
NearMiss(m, req) == \E i \in 1..Len(m.unserved) :
                       /\ Servable(m, m.unserved[i])
                       /\ RefKey(m.recs[m.unserved[i]].req, m.opts) # RefKey(req, m.opts)
Expected(o) == IF o.killx \/ o.extra = "kill" THEN "kill" ELSE IF o.extra = "forward" THEN "forward" ELSE "status"
StatusOf(o) == IF o.extra = "204" THEN 204 ELSE IF o.extra = "400" THEN 400 ELSE IF o.extra = "404" THEN 404
               ELSE IF o.extra = "500" THEN 500 ELSE 0
Mode(m) == IF m.opts.reuse THEN "reuse" ELSE "pop"
When(m) == IF m.changed THEN "after_option_change" ELSE "as_loaded"

ReqBad(m, ev) ==
  LET cand == Cand(m, ev.req)
  IN IF ev.out = "replay" THEN
          IF ~Servable(m, ev.served) THEN <<"C52.served_without_recorded_response">>
          ELSE IF ev.served \notin ToSet(m.unserved) THEN <<"C52.served_not_available", Mode(m)>>
          ELSE IF RefKey(m.recs[ev.served].req, m.opts) # RefKey(ev.req, m.opts)
               THEN <<"C52.served_key_mismatch", KeyDiff(RefKey(m.recs[ev.served].req, m.opts), RefKey(ev.req, m.opts))>>
          ELSE IF Earlier(m, ev.req, ev.served) THEN <<"C52.out_of_order", When(m), Mode(m)>>
          ELSE <<>>
     ELSE IF cand # <<>> THEN <<"C52.matched_not_served", ev.out>>
     ELSE IF ev.active /\ ev.out # Expected(m.opts) THEN <<"C52.unmatched_behaviour", Expected(m.opts), ev.out>>
     ELSE IF ev.active /\ ev.out = "status" /\ ev.status # StatusOf(m.opts) THEN <<"C52.unmatched_status">>
     ELSE <<>>

RECURSIVE RemoveOne(_, _)
RemoveOne(s, x) == IF s = <<>> THEN <<>> ELSE IF Head(s) = x THEN Tail(s) ELSE <<Head(s)>> \o RemoveOne(Tail(s), x)

OnReq(m, ev) ==
  LET cand == Cand(m, ev.req)
  IN [m EXCEPT !.bad = ReqBad(m, ev),
               !.unserved = IF ev.out = "replay" /\ ~m.opts.reuse THEN RemoveOne(@, ev.served) ELSE @,
               !.held = ev.held,
               !.wit = @ \cup (IF ev.out = "replay" THEN {IF m.opts.reuse THEN "replay_reuse" ELSE "replay_pop"} ELSE {})
                         \cup (IF ev.out = "replay" /\ Len(cand) > 1 THEN {"replay_first_of_several"} ELSE {})
                         \cup (IF ev.out = "replay" /\ NearMiss(m, ev.req) THEN {"replay_beside_near_miss"} ELSE {})
                         \cup (IF ev.out = "replay" /\ m.changed THEN {"replay_after_option_change"} ELSE {})
                         \cup (IF ev.out = "replay" /\ ev.served \in ToSet(m.unserved) /\ m.opts.reuse
                                  /\ "replay_reuse" \in m.wit THEN {"replay_again"} ELSE {})
                         \cup (IF ev.out # "replay" /\ ev.active /\ cand = <<>>
                               THEN {IF Expected(m.opts) = "kill" THEN "unmatched_kill"
                                     ELSE IF Expected(m.opts) = "forward" THEN "unmatched_forward" ELSE "unmatched_status"}
                               ELSE {})
                         \cup (IF ev.out # "replay" /\ ev.active /\ cand = <<>> /\ NearMiss(m, ev.req)
                               THEN {"unmatched_near_miss"} ELSE {})
                         \cup (IF ev.out # "replay" /\ ~ev.active THEN {"inactive"} ELSE {})
                         \cup (IF \E i \in 1..Len(m.unserved) : Known(m, m.unserved[i]) /\ m.recs[m.unserved[i]].http
                                     /\ ~m.recs[m.unserved[i]].hasresp
                                     /\ RefKey(m.recs[m.unserved[i]].req, m.opts) = RefKey(ev.req, m.opts)
                               THEN {"recording_without_response"} ELSE {})]

HashOpts(o) == <<o.ic, o.ih, o.ip, o.iparams, o.ipay, o.uh>>
Count(s, x) == Cardinality({ i \in 1..Len(s) : s[i] = x })
OptBad(m, ev) ==
  IF ev.held = m.held THEN <<>>
  ELSE IF \E x \in ToSet(m.held) : Count(ev.held, x) < Count(m.held, x) THEN <<"C52.reindex_lost">>
  ELSE <<"C52.reindex_duplicated">>
OnOpt(m, ev) ==
  [m EXCEPT !.bad = OptBad(m, ev),
            !.opts = ev.opts,
            !.held = ev.held,
            !.changed = @ \/ (HashOpts(ev.opts) # HashOpts(m.opts) /\ m.unserved # <<>>),
            !.wit = @ \cup (IF HashOpts(ev.opts) # HashOpts(m.opts) /\ Len(m.held) > 1 THEN {"reindex"} ELSE {})
                      \cup (IF HashOpts(ev.opts) = HashOpts(m.opts) /\ ev.opts # m.opts THEN {"behaviour_option"} ELSE {})]

OnAdd(m, ev) ==
  LET ids == [i \in 1..Len(ev.recs) |-> Len(m.recs) + i]
      http == SelectSeq(ids, LAMBDA id : ev.recs[id - Len(m.recs)].http)
  IN [m EXCEPT !.recs = @ \o ev.recs,
               !.unserved = IF ev.reset THEN http ELSE @ \o http,
               !.changed = IF ev.reset THEN FALSE ELSE @,
               !.held = ev.held,
               !.wit = @ \cup (IF ev.reset THEN {"load"} ELSE {"add"})
                         \cup (IF \E i \in 1..Len(ev.recs) : ~ev.recs[i].http THEN {"non_http_recording"} ELSE {})]

MonStep(m, ev) ==
  IF ev.k = "cfg" THEN [m EXCEPT !.opts = ev.opts, !.held = ev.held]
  ELSE IF ev.k = "add" THEN OnAdd(m, ev)
  ELSE IF ev.k = "opt" THEN OnOpt(m, ev)
  ELSE IF ev.k = "clear" THEN [m EXCEPT !.unserved = <<>>, !.changed = FALSE, !.held = ev.held, !.wit = @ \cup {"clear"}]
  ELSE IF ev.k = "req" THEN OnReq(m, ev)
  ELSE IF ev.k = "raised" THEN [m EXCEPT !.bad = <<"C52.raised", Get(ev, "at", "")>>]
  ELSE m
Wit(m) == m.wit
=============================================================================
