---------------------------- MODULE ServerReplay ----------------------------
(* Implementation-shaped model of mitmproxy.addons.serverplayback.ServerPlayback.

   flowmap : the dict  hash -> [flows]  as a sequence (dict insertion order; recompute_hashes depends on it) of
             [key |-> CodeKey, ids |-> <<recording ids>>]
   The recordings handed over so far (id -> [id, http, hasresp, req]) are read from mon.recs, which holds exactly
   the records of the emitted add events (no second copy in the model state: the dumped graph stays small).
   opts    : ctx.options (the server_replay_* options, see Mon_ServerReplay)
   Two behaviours exist before / after the fixes 155ecd753 and 632209ed8; props/C52.py passes the values that
   describe the tree under test:
     PathParams   -- "dropped": _hash() took the path from urlparse(url), which splits off the ";parameters" of the
                     last segment; "kept": urlsplit(url)
     ReindexOrder -- "grouped": recompute_hashes() reloaded flowmap.values() flattened (grouped by OLD key);
                     "recording": the flattened list is first sorted by ServerPlayback._order (recording order) *)
EXTENDS Mon_ServerReplay, TLC
CONSTANTS Batches,    \* sequence of sequences of [http, hasresp, req]
          Reqs,       \* sequence of request records
          OptOps,     \* sequence of [name, val]: single option updates
          InitOpts,   \* set of initial option records
          MaxOps, MaxLoads,
          PathParams,   \* "dropped" | "kept"
          ReindexOrder  \* "grouped" | "recording"
VARIABLES flowmap, opts, ops, nloads, mon, obs
vars == <<flowmap, opts, ops, nloads, mon, obs>>
recs == mon.recs

Init == /\ flowmap = <<>> /\ opts \in InitOpts /\ ops = 0 /\ nloads = 0
        /\ mon = MonStep(MonInit, [k |-> "cfg", opts |-> opts, held |-> <<>>, n |-> 0])
        /\ obs = <<[k |-> "cfg", opts |-> opts, held |-> <<>>, n |-> 0]>>
Emit(evs) == obs' = evs /\ mon' = FoldEvents(MonStep, mon, evs)
Live == mon.bad = <<>>

\* ServerPlayback._hash: urlparse drops the path parameters; multipart fields are bytes pairs and urlencoded fields
\* str pairs, so the form encodings are told apart exactly when a non-ignored field is left
CodeKey(r, o) == [RefKey(r, o) EXCEPT !.path = IF PathParams = "dropped" THEN <<r.path[1]>> ELSE r.path,
                                      !.body = IF FormBranch(r, o)
                                               THEN <<"form", IF Fields(r, o) = <<>> THEN "" ELSE r.ftype, Fields(r, o)>>
                                               ELSE @]

AllIds(fm) == UNION { ToSet(fm[k].ids) : k \in 1..Len(fm) }
Held(fm) == SetToSortSeq(AllIds(fm), <)
RECURSIVE CountIds(_)
CountIds(fm) == IF fm = <<>> THEN 0 ELSE Len(Head(fm).ids) + CountIds(Tail(fm))
KeyIdx(fm, key) == IndexOf([i \in 1..Len(fm) |-> fm[i].key], key)

\* add_flows: lst = self.flowmap.setdefault(self._hash(f), []); lst.append(f)   (HTTP flows only)
RECURSIVE AddAll(_, _, _, _)
AddAll(fm, rs, ids, o) ==
  IF ids = <<>> THEN fm
  ELSE LET id == Head(ids)
           r == rs[id]
           key == CodeKey(r.req, o)
           k == KeyIdx(fm, key)
           fm2 == IF ~r.http THEN fm
                  ELSE IF k = 0 THEN Append(fm, [key |-> key, ids |-> <<id>>])
                  ELSE [fm EXCEPT ![k].ids = Append(@, id)]
       IN AddAll(fm2, rs, Tail(ids), o)

NewRecs(b) == [i \in 1..Len(Batches[b]) |->
                 [id |-> Len(recs) + i, http |-> Batches[b][i].http, hasresp |-> Batches[b][i].hasresp,
                  req |-> Batches[b][i].req]]

\* replay.server (load_flows): flowmap = {}; add_flows(flows)
Load(b) ==
  /\ Live /\ ops < MaxOps /\ nloads < MaxLoads
  /\ LET new == NewRecs(b)
         rs == recs \o new
         fm == AddAll(<<>>, rs, [i \in 1..Len(new) |-> new[i].id], opts)
     IN /\ flowmap' = fm
        /\ Emit(<<[k |-> "add", reset |-> TRUE, recs |-> new, held |-> Held(fm), n |-> CountIds(fm)]>>)
  /\ ops' = ops + 1 /\ nloads' = nloads + 1 /\ UNCHANGED opts

\* replay.server.add (add_flows)
Add(b) ==
  /\ Live /\ ops < MaxOps /\ nloads < MaxLoads
  /\ LET new == NewRecs(b)
         rs == recs \o new
         fm == AddAll(flowmap, rs, [i \in 1..Len(new) |-> new[i].id], opts)
     IN /\ flowmap' = fm
        /\ Emit(<<[k |-> "add", reset |-> FALSE, recs |-> new, held |-> Held(fm), n |-> CountIds(fm)]>>)
  /\ ops' = ops + 1 /\ nloads' = nloads + 1 /\ UNCHANGED opts

\* replay.server.stop (clear)
Clear ==
  /\ Live /\ ops < MaxOps /\ flowmap # <<>>
  /\ flowmap' = <<>>
  /\ Emit(<<[k |-> "clear", held |-> <<>>, n |-> 0]>>)
  /\ ops' = ops + 1 /\ UNCHANGED <<opts, nloads>>

HashNames == {"ic", "ih", "ip", "iparams", "ipay", "uh"}
RECURSIVE Concat(_)
Concat(ss) == IF ss = <<>> THEN <<>> ELSE Head(ss) \o Concat(Tail(ss))
\* configure(updated): recompute_hashes() when a hash option is among the updated names (changed or not)
SetOption(u) ==
  /\ Live /\ ops < MaxOps
  /\ LET o2 == [opts EXCEPT ![OptOps[u].name] = OptOps[u].val]
         \* recording ids grow in recording order, so sorting by _order is sorting by id
         flat == IF ReindexOrder = "grouped" THEN Concat([k \in 1..Len(flowmap) |-> flowmap[k].ids])
                 ELSE Held(flowmap)
         fm == IF OptOps[u].name \in HashNames THEN AddAll(<<>>, recs, flat, o2) ELSE flowmap
     IN /\ opts' = o2 /\ flowmap' = fm
        /\ Emit(<<[k |-> "opt", opts |-> o2, held |-> Held(fm), n |-> CountIds(fm)]>>)
  /\ ops' = ops + 1 /\ UNCHANGED nloads

\* next_flow + request
FirstResp(ids) == LET hits == { i \in 1..Len(ids) : recs[ids[i]].hasresp }
                  IN IF hits = {} THEN 0 ELSE CHOOSE i \in hits : \A j \in hits : i <= j
Request(q) ==
  /\ Live /\ ops < MaxOps
  /\ LET req == Reqs[q]
         active == flowmap # <<>>
         key == CodeKey(req, opts)
         k == KeyIdx(flowmap, key)
         pos == IF k = 0 THEN 0 ELSE FirstResp(flowmap[k].ids)
         served == IF pos = 0 THEN 0 ELSE flowmap[k].ids[pos]
         \* without reuse: everything up to and including the served flow is popped; a drained list is deleted
         rest == IF k = 0 THEN <<>>
                 ELSE IF pos = 0 THEN <<>> ELSE SubSeq(flowmap[k].ids, pos + 1, Len(flowmap[k].ids))
         fm == IF k = 0 \/ opts.reuse THEN flowmap
               ELSE IF rest = <<>> THEN SelectSeq(flowmap, LAMBDA e : e.key # key)
               ELSE [flowmap EXCEPT ![k].ids = rest]
         exp == Expected(opts)
         out == IF ~active THEN "forward" ELSE IF served # 0 THEN "replay" ELSE exp
     IN /\ flowmap' = IF active THEN fm ELSE flowmap
        /\ Emit(<<[k |-> "req", req |-> req, active |-> active, out |-> out,
                   served |-> IF active THEN served ELSE 0,
                   status |-> IF out = "status" THEN StatusOf(opts) ELSE 0,
                   isr |-> IF out \in {"replay", "status"} THEN "response" ELSE "",
                   held |-> Held(IF active THEN fm ELSE flowmap),
                   n |-> CountIds(IF active THEN fm ELSE flowmap)]>>)
  /\ ops' = ops + 1 /\ UNCHANGED <<opts, nloads>>

Next == \/ \E b \in 1..Len(Batches) : Load(b)
        \/ \E b \in 1..Len(Batches) : Add(b)
        \/ \E q \in 1..Len(Reqs) : Request(q)
        \/ \E u \in 1..Len(OptOps) : SetOption(u)
        \/ Clear
Spec == Init /\ [][Next]_vars
Report == mon.bad # <<>> => PrintT(<<"BAD", mon.bad>>)
=============================================================================
