---------------------------- MODULE BackupRevert ----------------------------
(* Implementation-shaped model of Flow.backup / revert / modified / copy (mitmproxy/flow.py) and
   Serializable.copy (mitmproxy/coretypes/serializable.py).

   cont[h] : content of flow h over NFields abstract fields with values 0..NVals-1 (0 = as created).  props/C40.py maps
             the abstract fields of a scenario onto concrete editable parts of the flow type (request, response,
             messages, metadata, marker, comment, error) and each value onto a concrete edit.
   bk[h]   : Flow._backup: <<>> (None) or <<content>> -- the get_state() taken by backup().
   inh[h]  : bk[h] was inherited through copy(): it carries the source's id, the flow has a fresh one, so the two
             states differ in "id" whatever the content is (until the flow reverts, which also gives it the source's id).
   ftype   : the flow type of the scenario (no influence on the model's behaviour; concretisation only).
   ModifiedIgnoresBackupKey = TRUE is the code since /repo commit ecff67684 (modified() compares the content only).
   FALSE is the code before it: modified() compared _backup (whose "backup" entry is None) with get_state() (whose
   "backup" entry is a copy of _backup), so it was True whenever a backup existed (findings_proposed/C40.md).     *)
EXTENDS Mon_BackupRevert, TLC
CONSTANTS NFields, NVals, MaxOps, MaxFlows, Types, ModifiedIgnoresBackupKey
VARIABLES ftype, cont, bk, inh, ops, mon, obs
vars == <<ftype, cont, bk, inh, ops, mon, obs>>

RECURSIVE Pow(_, _)
Pow(b, e) == IF e = 0 THEN 1 ELSE b * Pow(b, e - 1)
RECURSIVE Code(_, _)
Code(c, i) == IF i = 0 THEN 0 ELSE c[i] * Pow(NVals, i - 1) + Code(c, i - 1)
Id(c) == 1 + Code(c, NFields)            \* the state id props/C40.py computes by decoding the observed state

Init == /\ ftype = "" /\ cont = <<>> /\ bk = <<>> /\ inh = <<>> /\ ops = 0 /\ mon = MonInit /\ obs = <<>>
Emit(evs) == obs' = evs /\ mon' = FoldEvents(MonStep, mon, evs)
Live == mon.bad = <<>>
SS(c) == [h \in 1..Len(c) |-> Id(c[h])]
HB(b) == [h \in 1..Len(b) |-> b[h] # <<>>]
HS == 1..MaxFlows                        \* constant bound (TLC names graph edges only for constant quantifier bounds)
Ex(h) == ftype # "" /\ h <= Len(cont)     \* flow h exists

\* a fresh flow of the chosen type
Start(t) ==
  /\ Live /\ ftype = ""
  /\ ftype' = t /\ cont' = << [i \in 1..NFields |-> 0] >> /\ bk' = << <<>> >> /\ inh' = <<FALSE>> /\ UNCHANGED ops
  /\ Emit(<<[k |-> "init", ss |-> SS(cont'), hbs |-> HB(bk')]>>)

\* Flow.backup(): if not self._backup: self._backup = self.get_state()
Backup(h) ==
  /\ Live /\ Ex(h) /\ ops < MaxOps /\ ops' = ops + 1
  /\ bk' = IF bk[h] = <<>> THEN [bk EXCEPT ![h] = <<cont[h]>>] ELSE bk
  /\ UNCHANGED <<ftype, cont, inh>>
  /\ Emit(<<[k |-> "backup", f |-> h, ss |-> SS(cont), hbs |-> HB(bk')]>>)

\* an edit of one part of the flow (attribute assignment or in-place mutation, chosen by the harness)
Edit(h, i, v) ==
  /\ Live /\ Ex(h) /\ ops < MaxOps /\ ops' = ops + 1
  /\ cont[h][i] # v
  /\ cont' = [cont EXCEPT ![h][i] = v]
  /\ UNCHANGED <<ftype, bk, inh>>
  /\ Emit(<<[k |-> "edit", f |-> h, ss |-> SS(cont'), hbs |-> HB(bk)]>>)

\* Flow.revert(): if self._backup: self.set_state(self._backup); self._backup = None
Revert(h) ==
  /\ Live /\ Ex(h) /\ ops < MaxOps /\ ops' = ops + 1
  /\ cont' = IF bk[h] # <<>> THEN [cont EXCEPT ![h] = bk[h][1]] ELSE cont
  /\ bk' = [bk EXCEPT ![h] = <<>>] /\ inh' = [inh EXCEPT ![h] = FALSE]
  /\ UNCHANGED ftype
  /\ Emit(<<[k |-> "revert", f |-> h, ss |-> SS(cont'), hbs |-> HB(bk')]>>)

\* Flow.modified(): if self._backup: return self._backup != self.get_state() else False
\* (a pure query: not counted in ops, so it is explored in every reachable state of the other actions)
ModifiedQ(h) ==
  /\ Live /\ Ex(h)
  /\ UNCHANGED <<ftype, cont, bk, inh, ops>>
  /\ Emit(<<[k |-> "modified", f |-> h,
             r |-> IF bk[h] = <<>> THEN FALSE
                   ELSE IF ModifiedIgnoresBackupKey /\ ~inh[h] THEN bk[h][1] # cont[h] ELSE TRUE,
             ss |-> SS(cont), hbs |-> HB(bk)]>>)

\* Flow.copy(): Serializable.copy (get_state, fresh id, from_state -- the state carries a deep copy of the backup),
\* then live = False
Copy(h) ==
  /\ Live /\ Ex(h) /\ ops < MaxOps /\ ops' = ops + 1 /\ Len(cont) < MaxFlows
  /\ cont' = Append(cont, cont[h]) /\ bk' = Append(bk, bk[h]) /\ inh' = Append(inh, bk[h] # <<>>)
  /\ UNCHANGED ftype
  /\ Emit(<<[k |-> "copy", f |-> h, g |-> Len(cont) + 1, fresh |-> TRUE, live |-> FALSE,
             ss |-> SS(cont'), hbs |-> HB(bk')]>>)

Next == \/ \E t \in Types : Start(t)
        \/ \E h \in HS : Backup(h)
        \/ \E h \in HS, i \in 1..NFields, v \in 0..(NVals - 1) : Edit(h, i, v)
        \/ \E h \in HS : Revert(h)
        \/ \E h \in HS : ModifiedQ(h)
        \/ \E h \in HS : Copy(h)
Spec == Init /\ [][Next]_vars
\* states that differ only in the collected witness set are the same state for the exploration
View == <<ftype, cont, bk, inh, ops, obs, [mon EXCEPT !.wit = {}]>>
Report == mon.bad # <<>> => PrintT(<<"BAD", mon.bad>>)
=============================================================================
