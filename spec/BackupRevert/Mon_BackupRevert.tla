------------------------- MODULE Mon_BackupRevert -------------------------
(* Monitor for C40: backup, revert and copy behave exactly.

   Flows of one scenario form a copy family and are named by handles 1, 2, ... (1 = the original, the others in
   the order they were created by copy()).  A state id is a small integer naming the content of a flow (everything
   get_state() reports except the id and the backup); equal ids <=> equal content.
   Event records (projected from the real mitmproxy flows by props/C40.py); ss[h] / hbs[h] are the state id and
   "carries a backup" (get_state()["backup"] is not None) of every handle AFTER the step:
     [k |-> "init",     ss, hbs]
     [k |-> "backup",   f, ss, hbs]                 f.backup()
     [k |-> "edit",     f, ss, hbs]                 some edit of f (request, response, messages, metadata, marker, comment)
     [k |-> "revert",   f, ss, hbs]                 f.revert()
     [k |-> "modified", f, r, ss, hbs]              r = f.modified()
     [k |-> "copy",     f, g, fresh, live, ss, hbs] g = f.copy(): fresh = g.id differs from every other flow's id
     [k |-> "raised",   op, f, exc]                 the call raised (class name)
   With repeated backup() calls and no revert in between the statement does not say which call "the backup"
   refers to: the monitor accepts the state at the earliest or at the latest such call (b1 / b2; 0 = no backup).
   A copy inherits the backup of its source; that backup was taken under the source's id, the copy has a fresh one.
   Whether the id belongs to "the state" is not said, so while a handle's backup is an inherited one (inh) the monitor
   accepts modified() = TRUE as well as the verdict of the content comparison.                                  *)
EXTENDS Verif

MonInit == [bad |-> <<>>, wit |-> {}, ss |-> <<>>, b1 |-> <<>>, b2 |-> <<>>, inh |-> <<>>, cp |-> {}]

Handles(m) == 1..Len(m.ss)
Backups(m, f) == IF m.b1[f] = 0 THEN {} ELSE {m.b1[f], m.b2[f]}

Clause(m, ev) ==
  CASE ev.k = "raised" -> <<"C40.raised", ev.op, ev.exc>>
    [] ev.k = "edit" ->
         IF \E h \in Handles(m) : h # ev.f /\ ev.ss[h] # m.ss[h] THEN <<"C40.edit_changed_other">> ELSE <<>>
    [] ev.k = "revert" ->
         IF m.b1[ev.f] = 0 THEN <<>>
         ELSE IF ev.ss[ev.f] \notin Backups(m, ev.f) THEN <<"C40.revert_wrong_state">>
         ELSE IF ev.hbs[ev.f] THEN <<"C40.backup_not_cleared">>
         ELSE <<>>
    [] ev.k = "modified" ->
         LET s == ev.ss[ev.f]
             ok == IF m.b1[ev.f] = 0 THEN {FALSE}
                   ELSE {s # m.b1[ev.f], s # m.b2[ev.f]} \cup (IF m.inh[ev.f] THEN {TRUE} ELSE {})
         IN IF ev.r \in ok THEN <<>>
            ELSE <<"C40.modified_iff_differs",
                   IF ~ev.r THEN "differs_from_backup" ELSE IF m.b1[ev.f] = 0 THEN "no_backup" ELSE "equal_to_backup">>
    [] ev.k = "copy" ->
         IF ~ev.fresh THEN <<"C40.copy_id_not_fresh">>
         ELSE IF ev.ss[ev.g] # ev.ss[ev.f] THEN <<"C40.copy_content_differs">>
         ELSE IF ev.live THEN <<"C40.copy_is_live">>
         ELSE <<>>
    [] OTHER -> <<>>

WitOf(m, ev) ==
  CASE ev.k = "revert" /\ m.b1[ev.f] # 0 ->
         {"revert_with_backup"} \cup (IF m.ss[ev.f] \notin Backups(m, ev.f) THEN {"revert_after_edit"} ELSE {})
    [] ev.k = "revert" /\ m.b1[ev.f] = 0 -> {"revert_without_backup"}
    [] ev.k = "backup" -> IF m.b1[ev.f] # 0 THEN {"repeated_backup"} \cup
                             (IF m.ss[ev.f] # m.b1[ev.f] THEN {"repeated_backup_after_edit"} ELSE {}) ELSE {"backup"}
    [] ev.k = "modified" ->
         IF m.b1[ev.f] = 0 THEN {"modified_no_backup"}
         ELSE (IF ev.ss[ev.f] \in Backups(m, ev.f) THEN {"modified_equal_to_backup"} ELSE {"modified_differs"})
              \cup (IF m.inh[ev.f] THEN {"modified_with_inherited_backup"} ELSE {})
    [] ev.k = "edit" ->
         (IF m.b1[ev.f] # 0 /\ ev.ss[ev.f] \in Backups(m, ev.f) /\ m.ss[ev.f] \notin Backups(m, ev.f)
            THEN {"edit_back_to_backup"} ELSE {})
         \cup (IF Len(m.ss) > 1 THEN (IF ev.f \in m.cp THEN {"edit_of_copy"} ELSE {"edit_of_copied_original"}) ELSE {})
    [] ev.k = "copy" -> {"copy"} \cup (IF ev.hbs[ev.g] THEN {"copy_with_backup"} ELSE {})
                                 \cup (IF ev.f \in m.cp THEN {"copy_of_copy"} ELSE {})
    [] OTHER -> {}

MonStep(m, ev) ==
  IF ev.k = "raised" THEN [m EXCEPT !.bad = Clause(m, ev)]
  ELSE IF ev.k = "init" THEN
    [m EXCEPT !.ss = ev.ss, !.b1 = [h \in 1..Len(ev.ss) |-> 0], !.b2 = [h \in 1..Len(ev.ss) |-> 0],
              !.inh = [h \in 1..Len(ev.ss) |-> FALSE]]
  ELSE
    LET f == ev.f
        s == ev.ss[f]
    IN [m EXCEPT
         !.bad = Clause(m, ev),
         !.wit = @ \cup WitOf(m, ev),
         !.ss  = ev.ss,
         !.cp  = IF ev.k = "copy" THEN @ \cup {ev.g} ELSE @,
         !.inh = CASE ev.k = "revert" -> [@ EXCEPT ![f] = FALSE]
                   [] ev.k = "copy"   -> Append(@, ev.hbs[ev.g])
                   [] OTHER -> @,
         !.b1  = CASE ev.k = "backup" -> [@ EXCEPT ![f] = IF @ = 0 THEN s ELSE @]
                   [] ev.k = "revert" -> [@ EXCEPT ![f] = 0]
                   [] ev.k = "copy"   -> Append(@, IF ev.hbs[ev.g] THEN m.b1[f] ELSE 0)
                   [] OTHER -> @,
         !.b2  = CASE ev.k = "backup" -> [@ EXCEPT ![f] = s]
                   [] ev.k = "revert" -> [@ EXCEPT ![f] = 0]
                   [] ev.k = "copy"   -> Append(@, IF ev.hbs[ev.g] THEN m.b2[f] ELSE 0)
                   [] OTHER -> @]
Wit(m) == m.wit
=============================================================================
