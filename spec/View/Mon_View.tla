------------------------------- MODULE Mon_View -------------------------------
(* Monitor for C43: the flow view always shows exactly the matching flows in order.

   Flows are small integers.  The facts of a flow are what the harness made true on the real flow object:
     [marked |-> BOOLEAN, tags |-> <<strings>>, ftype |-> "http"|"tcp"|"udp"|"dns",
      key |-> [time |-> n, method |-> n, url |-> n, size |-> n]]        \* integers ordered like the real sort keys
   A filter is [kind |-> "all"|"tag"|"type"|"marked", arg |-> string, neg |-> BOOLEAN].
   Event records (one per call on the real mitmproxy.addons.view.View, logged by props/C43.py):
     [k |-> "setup", ...]                                                      \* ignored
     [k |-> "op", op |-> "add"|"update"|"remove"|"setfilter"|"setorder"|"setrev"|"togglemarked"|"clear"|"clearunmarked",
      f |-> flow (0 = none), facts |-> its facts at the call (add, update), flt / order / rev |-> the argument,
      -- observed after the call --
      view |-> <<flows as list(view) yields them>>, focus |-> view.focus.flow (0 = None),
      settings |-> <<flows that have a settings entry>>,
      sigs |-> << [s |-> "add"|"remove"|"update"|"refresh"|"store_remove"|"store_refresh", f |-> flow or 0, i |-> n] >>]
   The monitor keeps the store, the facts, the filter, the order, the direction and the marked-only switch from the
   arguments alone and judges the observations against them.                                               *)
EXTENDS Verif

AllFilter == [kind |-> "all", arg |-> "", neg |-> FALSE]
MonInit == [bad |-> <<>>, wit |-> {}, store |-> <<>>, facts |-> <<>>,   \* facts: sequence of <<flow, facts>>
            flt |-> AllFilter, order |-> "time", rev |-> FALSE, mo |-> FALSE, prev |-> <<>>, focusWas |-> 0]

FactsOf(m, f) == m.facts[CHOOSE i \in 1..Len(m.facts) : m.facts[i][1] = f][2]
SetFacts(fs, f, x) == IF \E i \in 1..Len(fs) : fs[i][1] = f
                      THEN [i \in 1..Len(fs) |-> IF fs[i][1] = f THEN <<f, x>> ELSE fs[i]]
                      ELSE Append(fs, <<f, x>>)
Match(flt, x) ==
  LET raw == CASE flt.kind = "all" -> TRUE
               [] flt.kind = "tag" -> flt.arg \in ToSet(x.tags)
               [] flt.kind = "type" -> x.ftype = flt.arg
               [] flt.kind = "marked" -> x.marked
               [] OTHER -> FALSE
  IN IF flt.neg THEN ~raw ELSE raw

\* the monitor's own state after the arguments of ev have been applied
Apply(m, ev) ==
  LET op == ev.op
      facts1 == IF op \in {"add", "update"} THEN SetFacts(m.facts, ev.f, ev.facts) ELSE m.facts
      m1 == [m EXCEPT !.facts = facts1]
  IN CASE op = "add" -> [m1 EXCEPT !.store = IF ev.f \in ToSet(@) THEN @ ELSE Append(@, ev.f)]
       [] op = "remove" -> [m1 EXCEPT !.store = SelectSeq(@, LAMBDA g : g # ev.f)]
       [] op = "setfilter" -> [m1 EXCEPT !.flt = ev.flt]
       [] op = "setorder" -> [m1 EXCEPT !.order = ev.order]
       [] op = "setrev" -> [m1 EXCEPT !.rev = ev.rev]
       [] op = "togglemarked" -> [m1 EXCEPT !.mo = ~@]
       [] op = "clear" -> [m1 EXCEPT !.store = <<>>]
       [] op = "clearunmarked" -> [m1 EXCEPT !.store = SelectSeq(@, LAMBDA g : FactsOf(m1, g).marked)]
       [] OTHER -> m1

Expected(m) == { f \in ToSet(m.store) : Match(m.flt, FactsOf(m, f)) /\ (m.mo => FactsOf(m, f).marked) }
KeyOf(m, f) == FactsOf(m, f).key[m.order]

Exactness(m, ev) ==
  LET v == ToSet(ev.view)
      exp == Expected(m)
      st == ToSet(m.store)
  IN IF Len(ev.view) # Cardinality(v) THEN "duplicate"
     ELSE IF v \ st # {} THEN "not_stored"
     ELSE IF \E f \in v \ exp : ~Match(m.flt, FactsOf(m, f)) THEN "nonmatching"
     ELSE IF v \ exp # {} THEN "unmarked_in_marked_only"
     ELSE IF exp \ v # {} THEN "missing"
     ELSE ""

Sorted(m, ev) == \A i \in 1..(Len(ev.view) - 1) :
                   IF m.rev THEN KeyOf(m, ev.view[i]) >= KeyOf(m, ev.view[i + 1])
                   ELSE KeyOf(m, ev.view[i]) <= KeyOf(m, ev.view[i + 1])

SigFlows(ev, s) == { ev.sigs[i].f : i \in { j \in 1..Len(ev.sigs) : ev.sigs[j].s = s } }
Signals(m, ev) ==    \* m: monitor state before the call
  LET was == ToSet(m.prev)
      now == ToSet(ev.view)
      refreshed == SigFlows(ev, "refresh") # {}
  IN IF ~refreshed /\ SigFlows(ev, "add") # now \ was THEN "add"
     ELSE IF ~refreshed /\ SigFlows(ev, "remove") # was \ now THEN "remove"
     ELSE IF SigFlows(ev, "update") \ ({ev.f} \cap now) # {} THEN "update"
     ELSE IF ev.op = "update" /\ ev.f \in was \cap now /\ ev.f \notin SigFlows(ev, "update") THEN "update"
     ELSE ""

Clause(m0, m, ev) ==   \* m0 before, m after applying the arguments
  LET how == IF ev.f = 0 THEN "-" ELSE IF ev.f \in ToSet(m0.prev) THEN "flow_was_shown" ELSE "flow_was_hidden"
  IN IF Exactness(m, ev) # "" THEN <<"C43.view_not_exact", ev.op, Exactness(m, ev)>>
     ELSE IF ~Sorted(m, ev) THEN <<"C43.not_sorted", ev.op, m.order, how>>
     ELSE IF ev.focus # 0 /\ ev.focus \notin ToSet(ev.view) THEN <<"C43.focus_not_in_view", ev.op>>
     ELSE IF ev.focus = 0 /\ ev.view # <<>> THEN <<"C43.focus_none_but_view_nonempty", ev.op>>
     ELSE IF ToSet(ev.settings) \ ToSet(m.store) # {} THEN <<"C43.settings_for_unstored", ev.op>>
     ELSE IF Signals(m0, ev) # "" THEN <<"C43.signals_mismatch", ev.op, Signals(m0, ev)>>
     ELSE <<>>

OpWit(m0, m, ev) ==
  LET was == ToSet(m0.prev)
      now == ToSet(ev.view)
  IN (IF ev.op = "add" /\ ev.f \in now THEN {"add_shown"} ELSE {})
     \cup (IF ev.op = "add" /\ ev.f \notin now THEN {"add_hidden"} ELSE {})
     \cup (IF ev.op = "update" /\ ev.f \in was \cap now /\ ev.view # m0.prev /\ m0.order = m.order THEN {"update_moved"} ELSE {})
     \cup (IF ev.op = "update" /\ ev.f \in was \ now THEN {"update_hid"} ELSE {})
     \cup (IF ev.op = "update" /\ ev.f \in now \ was THEN {"update_showed"} ELSE {})
     \cup (IF ev.op = "remove" /\ ev.f = m0.focusWas /\ ev.view # <<>> THEN {"removed_focused"} ELSE {})
     \* the focused flow leaves a list that keeps other flows: by position and direction
     \cup (IF ev.op \in {"remove", "update"} /\ ev.f # 0 /\ ev.f = m0.focusWas /\ ev.f \in was \ now /\ ev.view # <<>>
           THEN (IF m0.prev[1] = ev.f THEN {IF m.rev THEN "focused_first_left_reversed" ELSE "focused_first_left"} ELSE {})
                \cup (IF m0.prev[Len(m0.prev)] = ev.f /\ m.rev THEN {"focused_last_left_reversed"} ELSE {})
           ELSE {})
     \cup (IF m.mo /\ m.store # <<>> THEN {"marked_only"} ELSE {})
     \cup (IF m.rev /\ Len(ev.view) > 1 THEN {"reversed"} ELSE {})
     \cup (IF m.order # "time" /\ Len(ev.view) > 1 THEN {"ordered_by_mutable_key"} ELSE {})
     \cup (IF m.flt.kind # "all" /\ now # ToSet(m.store) THEN {"filter_hides"} ELSE {})
     \cup (IF ev.op = "clear" /\ m0.store # <<>> THEN {"clear"} ELSE {})
     \cup (IF ev.op = "clearunmarked" /\ m.store # m0.store THEN {"clear_unmarked"} ELSE {})
     \cup (IF \E i \in 1..(Len(ev.view) - 1) : KeyOf(m, ev.view[i]) = KeyOf(m, ev.view[i + 1]) THEN {"tie"} ELSE {})
     \cup (IF ev.focus # m0.focusWas /\ m0.focusWas # 0 /\ ev.focus # 0 THEN {"focus_moved"} ELSE {})
     \cup (IF Cardinality({ FactsOf(m, f).ftype : f \in now }) >= 3 THEN {"mixed_types"} ELSE {})

MonStep(m, ev) ==
  IF ev.k # "op" THEN m
  ELSE LET m0 == m
           m1 == Apply(m, ev)
           ok == \A f \in ToSet(ev.view) \cup ToSet(m1.store) : \E i \in 1..Len(m1.facts) : m1.facts[i][1] = f
       IN [m1 EXCEPT !.bad = IF ~ok THEN <<"C43.view_not_exact", ev.op, "not_stored">> ELSE Clause(m0, m1, ev),
                     !.prev = ev.view, !.focusWas = ev.focus,
                     !.wit = @ \cup (IF ok THEN OpWit(m0, m1, ev) ELSE {})]
Wit(m) == m.wit
=============================================================================
