--------------------------------- MODULE View ---------------------------------
(* Implementation-shaped model of mitmproxy.addons.view.View with its Focus and Settings (mitmproxy/addons/view.py)
   on top of sortedcontainers.SortedKeyList.

   store   : View._store (OrderedDict) as a sequence of flows
   view    : View._view, ascending by the key each flow was inserted with
   cache   : the per-flow order keys kept in View.settings by _OrderKey ("_order_<id>"), -1 = not cached.
             Only the orders whose key can change are tracked ("time" keys never change).
   hasSet  : flows with an entry in Settings._values (created by any settings[f] access while f is stored)
   facts   : the current facts of every flow of the pool (the harness edits the flow, then calls update)
   The code calls an order key (_OrderKey.call) in SortedKeyList.add / contains / index / remove / bisect_right,
   but not when the list is empty (early return); a call for a stored flow creates its settings entry and caches the
   generated key, and later calls return the cached key even if the flow has changed since (refresh() is the only
   place that regenerates it, for a flow that is in the view under the current order).
   Deliberate deviations of the code, as constants:
     MarkedOnAdd = FALSE : add() and update() consult the filter but not show_marked
     FreshKeys   = FALSE : _base_add() / set_order() take the cached key of a stored flow without regenerating it *)
EXTENDS Mon_View, TLC
CONSTANTS Flows,      \* set of flow numbers
          InitFacts,  \* <<facts of flow 1, ...>>
          KeyDom,     \* [order |-> [ftype |-> set of values the harness can give that key]] for the mutable orders
          MutOrders,  \* orders whose key the scenario may change
          OrdersUsed, \* orders set_order is called with
          Filters,    \* filters set_filter is called with
          Acts,       \* names of the calls a model instance explores (a narrow instance can afford longer histories)
          MarkedOnAdd, FreshKeys, MaxOps
VARIABLES store, view, cache, hasSet, facts, flt, order, rev, mo, focus, ff, started, ops, mon, obs
vars == <<store, view, cache, hasSet, facts, flt, order, rev, mo, focus, ff, started, ops, mon, obs>>
core == <<store, view, cache, hasSet, facts, flt, order, rev, mo, focus>>

NoCache == [o \in MutOrders |-> -1]
Init == /\ store = <<>> /\ view = <<>> /\ cache = [f \in Flows |-> NoCache] /\ hasSet = {}
        /\ facts = [f \in Flows |-> InitFacts[f]] /\ flt = AllFilter /\ order = "time" /\ rev = FALSE /\ mo = FALSE
        /\ focus = 0 /\ ff = FALSE /\ started = FALSE /\ ops = 0 /\ mon = MonInit /\ obs = <<>>
Emit(evs) == obs' = evs /\ mon' = FoldEvents(MonStep, mon, evs)
Live == mon.bad = <<>>
Run == Live /\ started /\ ops < MaxOps /\ ops' = ops + 1 /\ UNCHANGED <<started, ff>>
On(a) == a \in Acts

Setup(follow) == /\ Live /\ ~started /\ started' = TRUE /\ ff' = follow /\ UNCHANGED core /\ UNCHANGED ops
                 /\ Emit(<<[k |-> "setup", ff |-> follow]>>)

\* ---- order keys ------------------------------------------------------------------------------------------
Gen(fc, f, o) == fc[f].key[o]
Stored(st, f) == f \in ToSet(st)
\* value _OrderKey.call returns for flow f
Key(st, ca, fc, f, o) == IF o \in MutOrders /\ Stored(st, f) /\ ca[f][o] # -1 THEN ca[f][o] ELSE Gen(fc, f, o)
\* cache / settings after that call
Touch(st, ca, fc, f, o) == IF o \in MutOrders /\ Stored(st, f) /\ ca[f][o] = -1
                           THEN [ca EXCEPT ![f][o] = Gen(fc, f, o)] ELSE ca
TouchSet(st, hs, f) == IF Stored(st, f) THEN hs \cup {f} ELSE hs
\* key under which an element of the view sits (always cached for a mutable order)
VKey(ca, fc, g, o) == IF o \in MutOrders THEN ca[g][o] ELSE Gen(fc, g, o)

\* SortedKeyList.add: after every element with key <= k
InsAt(v, f, pos) == SubSeq(v, 1, pos) \o <<f>> \o SubSeq(v, pos + 1, Len(v))
CountLE(v, ca, fc, o, k) == Cardinality({ i \in 1..Len(v) : VKey(ca, fc, v[i], o) <= k })
Without(v, f) == SelectSeq(v, LAMBDA g : g # f)
RawIndex(v, f) == IndexOf(v, f) - 1
Shown(v, r) == IF r THEN Reverse(v) ELSE v

\* ---- Focus handlers -----------------------------------------------------------------------------------------
\* Focus._sig_view_add
FocusAdd(fo, f) == IF fo = 0 THEN f ELSE fo
\* Focus._sig_view_remove(flow, index): index is the position in _view, used as a position in the shown order
FocusRemove(fo, f, idx, v, r) ==
  IF v = <<>> THEN 0 ELSE IF f = fo THEN Shown(v, r)[Min2(idx, Len(v) - 1) + 1] ELSE fo
\* Focus._sig_view_refresh, with View._bisect / _rev
FocusRefresh(fo, v, r, st, ca, fc, o) ==
  IF v = <<>> THEN 0
  ELSE IF fo = 0 THEN Shown(v, r)[1]
  ELSE IF fo \in ToSet(v) THEN fo
  ELSE LET n == CountLE(v, ca, fc, o, Key(st, ca, fc, fo, o))     \* _view.bisect_right(focus)
           pos == IF ~r THEN n ELSE IF n = 0 THEN 1 ELSE Len(v) - n + 1
       IN Shown(v, r)[Min2(pos, Len(v) - 1) + 1]

\* ---- event records ------------------------------------------------------------------------------------------
Sig(s, f, i) == [s |-> s, f |-> f, i |-> i]
SetSeq(S) == SelectSeq([i \in 1..Cardinality(Flows) |-> i], LAMBDA f : f \in S)   \* flows are 1..N
OpEv(op, f, extra, v, r, fo, hs, sigs) ==
  [k |-> "op", op |-> op, f |-> f, view |-> Shown(v, r), focus |-> fo, settings |-> SetSeq(hs), sigs |-> sigs] @@ extra
NoExtra == [x \in {} |-> 0]

Visible(fc, fl, m, f) == Match(fl, fc[f]) /\ (MarkedOnAdd => (~m \/ fc[f].marked))
\* _base_add(f): settings[f][name] = order_key(f); _view.add(f)
BaseKey(st, ca, fc, f, o) == IF FreshKeys THEN Gen(fc, f, o) ELSE Key(st, ca, fc, f, o)
BaseCache(st, ca, fc, f, o) == IF o \in MutOrders THEN [ca EXCEPT ![f][o] = BaseKey(st, ca, fc, f, o)] ELSE ca

\* ---- View.add([f]) --------------------------------------------------------------------------------------------
Add(f) ==
  /\ Run /\ On("add") /\ ~Stored(store, f)
  /\ LET st == Append(store, f)
     IN /\ store' = st /\ UNCHANGED <<facts, flt, order, rev, mo>>
        /\ IF Visible(facts, flt, mo, f)
           THEN LET k == BaseKey(st, cache, facts, f, order)
                    ca == BaseCache(st, cache, facts, f, order)
                    v == InsAt(view, f, CountLE(view, cache, facts, order, k))
                    fo == FocusAdd(IF ff THEN f ELSE focus, f)
                IN /\ view' = v /\ cache' = ca /\ hasSet' = hasSet \cup {f} /\ focus' = fo
                   /\ Emit(<<OpEv("add", f, [facts |-> facts[f]], v, rev, fo, hasSet \cup {f}, <<Sig("add", f, 0)>>)>>)
           ELSE /\ UNCHANGED <<view, cache, hasSet, focus>>
                /\ Emit(<<OpEv("add", f, [facts |-> facts[f]], view, rev, focus, hasSet, <<>>)>>)

\* ---- the harness edits flow f, then View.update([f]) ---------------------------------------------------------
Update(f, fc) ==    \* fc: the facts after the edit
  /\ Run /\ facts' = fc /\ UNCHANGED <<store, flt, order, rev, mo>>
  /\ IF ~Stored(store, f)
     THEN UNCHANGED <<view, cache, hasSet, focus>>
          /\ Emit(<<OpEv("update", f, [facts |-> fc[f]], view, rev, focus, hasSet, <<>>)>>)
     ELSE LET called == view # <<>>                         \* contains / index evaluate the key unless the list is empty
              ca0 == IF called THEN Touch(store, cache, fc, f, order) ELSE cache
              hs0 == IF called THEN hasSet \cup {f} ELSE hasSet
              inView == f \in ToSet(view)
          IN IF Visible(fc, flt, mo, f)
             THEN IF ~inView
                  THEN LET k == BaseKey(store, ca0, fc, f, order)
                           ca == BaseCache(store, ca0, fc, f, order)
                           v == InsAt(view, f, CountLE(view, ca0, fc, order, k))
                           fo == FocusAdd(IF ff THEN f ELSE focus, f)
                       IN /\ view' = v /\ cache' = ca /\ hasSet' = hasSet \cup {f} /\ focus' = fo
                          /\ Emit(<<OpEv("update", f, [facts |-> fc[f]], v, rev, fo, hasSet \cup {f},
                                         <<Sig("add", f, 0)>>)>>)
                  ELSE \* order_key.refresh(f); sig_view_update
                       LET old == VKey(ca0, fc, f, order)
                           new == Gen(fc, f, order)
                           rest == Without(view, f)
                           ca == IF order \in MutOrders THEN [ca0 EXCEPT ![f][order] = new] ELSE ca0
                           v == IF old = new THEN view ELSE InsAt(rest, f, CountLE(rest, ca0, fc, order, new))
                           fo == IF old = new THEN focus ELSE FocusRefresh(focus, v, rev, store, ca, fc, order)
                       IN /\ view' = v /\ cache' = ca /\ hasSet' = hs0 /\ focus' = fo
                          /\ Emit(<<OpEv("update", f, [facts |-> fc[f]], v, rev, fo, hs0,
                                         IF old = new THEN <<Sig("update", f, 0)>>
                                         ELSE <<Sig("refresh", 0, 0), Sig("update", f, 0)>>)>>)
             ELSE IF inView
                  THEN LET idx == RawIndex(view, f)
                           v == Without(view, f)
                           fo == FocusRemove(focus, f, idx, v, rev)
                       IN /\ view' = v /\ cache' = ca0 /\ hasSet' = hs0 /\ focus' = fo
                          /\ Emit(<<OpEv("update", f, [facts |-> fc[f]], v, rev, fo, hs0, <<Sig("remove", f, idx)>>)>>)
                  ELSE /\ UNCHANGED <<view, focus>> /\ cache' = ca0 /\ hasSet' = hs0
                       /\ Emit(<<OpEv("update", f, [facts |-> fc[f]], view, rev, focus, hs0, <<>>)>>)

UpdMark(f) == On("mark") /\ Update(f, [facts EXCEPT ![f].marked = ~@])
UpdTag(f, t) == On("tag") /\ Update(f, [facts EXCEPT ![f].tags = IF t \in ToSet(@) THEN SelectSeq(@, LAMBDA x : x # t) ELSE Append(@, t)])
UpdKey(f, o, k) == On("key") /\ k # facts[f].key[o] /\ Update(f, [facts EXCEPT ![f].key[o] = k])
UpdTouch(f) == On("touch") /\ Update(f, facts)

\* ---- View.remove([f]) -------------------------------------------------------------------------------------------
RemoveFlow(f) ==
  /\ Run /\ On("remove") /\ Stored(store, f) /\ UNCHANGED <<facts, flt, order, rev, mo>>
  /\ LET inView == f \in ToSet(view)
         idx == RawIndex(view, f)
         v == Without(view, f)
         fo == IF inView THEN FocusRemove(focus, f, idx, v, rev) ELSE focus
         hs == hasSet \ {f}
     IN /\ store' = Without(store, f) /\ view' = v /\ focus' = fo /\ hasSet' = hs
        /\ cache' = [cache EXCEPT ![f] = NoCache]
        /\ Emit(<<OpEv("remove", f, NoExtra, v, rev, fo, hs,
                       (IF inView THEN <<Sig("remove", f, idx)>> ELSE <<>>) \o <<Sig("store_remove", f, 0)>>)>>)

\* ---- _refilter(): _view.clear(); _base_add every stored flow that is shown; sig_view_refresh -----------------
RECURSIVE Refill(_, _, _, _, _, _, _)
Refill(todo, st, v, ca, fc, fl, m) ==     \* returns [v, ca, hs]: hs = flows whose settings were touched
  IF todo = <<>> THEN [v |-> v, ca |-> ca, hs |-> {}]
  ELSE LET f == Head(todo) IN
       IF (m /\ ~fc[f].marked) \/ ~Match(fl, fc[f]) THEN Refill(Tail(todo), st, v, ca, fc, fl, m)
       ELSE LET k == BaseKey(st, ca, fc, f, order)
                ca2 == BaseCache(st, ca, fc, f, order)
                r == Refill(Tail(todo), st, InsAt(v, f, CountLE(v, ca, fc, order, k)), ca2, fc, fl, m)
            IN [r EXCEPT !.hs = @ \cup {f}]

Refilter(op, extra, st, fl, m, storeSigs) ==
  LET r == Refill(st, st, <<>>, cache, facts, fl, m)
      hs1 == (hasSet \cup r.hs)
      fo == FocusRefresh(focus, r.v, rev, st, r.ca, facts, order)
      \* the nearest-flow search evaluates the key of the old focus: a stored one gets its settings entry back
      hs2 == IF focus # 0 /\ r.v # <<>> /\ focus \notin ToSet(r.v) THEN TouchSet(st, hs1, focus) ELSE hs1
      ca2 == IF focus # 0 /\ r.v # <<>> /\ focus \notin ToSet(r.v) THEN Touch(st, r.ca, facts, focus, order) ELSE r.ca
      hs3 == IF storeSigs THEN hs2 \cap ToSet(st) ELSE hs2
  IN /\ view' = r.v /\ focus' = fo /\ hasSet' = hs3
     /\ cache' = [f \in Flows |-> IF storeSigs /\ f \notin ToSet(st) THEN NoCache ELSE ca2[f]]
     /\ Emit(<<OpEv(op, 0, extra, r.v, rev, fo, hs3,
                    <<Sig("refresh", 0, 0)>> \o (IF storeSigs THEN <<Sig("store_refresh", 0, 0)>> ELSE <<>>))>>)

SetFilter(fl) == /\ Run /\ On("setfilter") /\ fl # flt /\ flt' = fl /\ UNCHANGED <<store, facts, order, rev, mo>>
                 /\ Refilter("setfilter", [flt |-> fl], store, fl, mo, FALSE)
ToggleMarked == /\ Run /\ On("togglemarked") /\ mo' = ~mo /\ UNCHANGED <<store, facts, flt, order, rev>>
                /\ Refilter("togglemarked", NoExtra, store, flt, ~mo, FALSE)
\* clear_not_marked(): pop the unmarked flows from the store; _refilter(); sig_store_refresh
ClearUnmarked == /\ Run /\ On("clearunmarked") /\ store # <<>> /\ UNCHANGED <<facts, flt, order, rev, mo>>
                 /\ LET st == SelectSeq(store, LAMBDA g : facts[g].marked)
                    IN store' = st /\ Refilter("clearunmarked", NoExtra, st, flt, mo, TRUE)

\* ---- set_order(o): a new SortedKeyList filled from the old one (stable sort); no signal ---------------------
RECURSIVE SortInto(_, _, _, _, _)
SortInto(todo, v, ca, fc, o) ==
  IF todo = <<>> THEN [v |-> v, ca |-> ca]
  ELSE LET f == Head(todo)
           k == BaseKey(store, ca, fc, f, o)
           ca2 == IF o \in MutOrders THEN [ca EXCEPT ![f][o] = k] ELSE ca
       IN SortInto(Tail(todo), InsAt(v, f, CountLE(v, ca2, fc, o, k)), ca2, fc, o)
SetOrder(o) ==
  /\ Run /\ On("setorder") /\ o # order /\ order' = o /\ UNCHANGED <<store, facts, flt, rev, mo, focus, hasSet>>
  /\ LET r == SortInto(view, <<>>, cache, facts, o)
     IN /\ view' = r.v /\ cache' = r.ca
        /\ Emit(<<OpEv("setorder", 0, [order |-> o], r.v, rev, focus, hasSet, <<>>)>>)

\* ---- set_reversed(b): sig_view_refresh ------------------------------------------------------------------------
SetRev(b) ==
  /\ Run /\ On("setrev") /\ b # rev /\ rev' = b /\ UNCHANGED <<store, view, cache, hasSet, facts, flt, order, mo>>
  /\ LET fo == FocusRefresh(focus, view, b, store, cache, facts, order)
     IN focus' = fo /\ Emit(<<OpEv("setrev", 0, [rev |-> b], view, b, fo, hasSet, <<Sig("refresh", 0, 0)>>)>>)

\* ---- clear(): store and view emptied; sig_view_refresh; sig_store_refresh ------------------------------------
Clear ==
  /\ Run /\ On("clear") /\ store # <<>> /\ store' = <<>> /\ view' = <<>> /\ focus' = 0 /\ hasSet' = {}
  /\ cache' = [f \in Flows |-> NoCache] /\ UNCHANGED <<facts, flt, order, rev, mo>>
  /\ Emit(<<OpEv("clear", 0, NoExtra, <<>>, rev, 0, {}, <<Sig("refresh", 0, 0), Sig("store_refresh", 0, 0)>>)>>)

Next == \/ \E b \in BOOLEAN : Setup(b)
        \/ \E f \in Flows : Add(f)
        \/ \E f \in Flows : UpdMark(f)
        \/ \E f \in Flows : UpdTag(f, "a")
        \/ \E f \in Flows, o \in MutOrders : \E k \in KeyDom[o][facts[f].ftype] : UpdKey(f, o, k)
        \/ \E f \in Flows : UpdTouch(f)
        \/ \E f \in Flows : RemoveFlow(f)
        \/ \E fl \in Filters : SetFilter(fl)
        \/ ToggleMarked
        \/ ClearUnmarked
        \/ \E o \in OrdersUsed : SetOrder(o)
        \/ \E b \in BOOLEAN : SetRev(b)
        \/ Clear
Spec == Init /\ [][Next]_vars
Report == mon.bad # <<>> => PrintT(<<"BAD", mon.bad>>)
=============================================================================
