------------------------------ MODULE RawRelay ------------------------------
(* Implementation-shaped model of mitmproxy/proxy/layers/tcp.py (TCPLayer) and udp.py (UDPLayer) as driven by
   proxy/server.py (ConnectionHandler.server_event / handle_connection / close_connection).

   One call of layer.handle_event is synchronous in the code, so one feed is one action; what happens inside is
   computed by the operators below, which follow the code:
     Proc      = TCPLayer/UDPLayer._handle_event for one event in state start / relay_messages / done
     Resume    = the rest of the generator after the blocking command (hook, OpenConnection) it yielded completes
     Drain     = Layer.__continue: replay _paused_event_queue until the layer blocks again
   Every hook of these layers is blocking, so while a hook or the connect is outstanding all events are queued.
   Deliberately copied detail: relay_messages decides all_done from the *current* connection state bits, which
   handle_connection already cleared when the close event was queued (not from the events handled so far).
   Connection state bits (rd/wr) are set where server.py sets them: rd cleared by the environment on EOF, wr
   cleared by a half close, both cleared by a full close.
   An injection is checked against the destination's CAN_WRITE bit when relay_messages handles it (not when it
   is queued).  Message number n has content <<n>>; an addon edit in the message hook makes it <<n + EditOffset>> or <<>>.  *)
EXTENDS Mon_RawRelay, TLC
CONSTANTS Protos,       \* subset of {"tcp", "udp"}
          PreOpen,      \* subset of BOOLEAN: is the server connection already established when the layer starts
          MaxMsgs,      \* arrivals + injections per behaviour
          MaxInject,
          Edits,        \* subset of {"keep", "edit", "empty"}
          EditOffset,
          InjectGuard   \* TRUE: TCPLayer refuses an injection whose destination has lost CAN_WRITE (/repo 0ee071cc8);
                        \* FALSE: the code before that fix (records it and writes after the half close, C29-F2)
VARIABLES proto, pre,
          started,      \* Start has been fed
          hs,           \* _handle_event: "start", "relay", "done"
          pend,         \* outstanding blocking command: "none", "start", "open", "msg", "end", "error"
          q,            \* Layer._paused_event_queue
          rd, wr,       \* connection state bits per peer (CAN_READ, CAN_WRITE)
          conn,         \* is the server transport established (environment's knowledge)
          finA,         \* the peer's close has been delivered
          fullc,        \* the proxy closed the connection to the peer completely
          echoed,       \* ... and the resulting ConnectionClosed has been delivered
          msgs,         \* flow.messages: sequence of [from, ids]
          nxt, ninj, mon, obs
vars == <<proto, pre, started, hs, pend, q, rd, wr, conn, finA, fullc, echoed, msgs, nxt, ninj, mon, obs>>

None == "-"
Init == /\ proto \in Protos /\ pre \in PreOpen
        /\ started = FALSE /\ hs = "start" /\ pend = "none" /\ q = <<>>
        /\ rd = [p \in Peers |-> p = "c" \/ pre] /\ wr = [p \in Peers |-> p = "c" \/ pre]
        /\ conn = pre
        /\ finA = [p \in Peers |-> FALSE] /\ fullc = [p \in Peers |-> FALSE] /\ echoed = [p \in Peers |-> FALSE]
        /\ msgs = <<>> /\ nxt = 1 /\ ninj = 0 /\ mon = MonInit /\ obs = <<>>

Live == mon.bad = <<>>
Emit(evs) == obs' = evs /\ mon' = FoldEvents(MonStep, mon, evs)

Hook(name, from, ids) == [k |-> "hook", name |-> name, from |-> from, ids |-> ids]
HookDone(name, from, ids) == [k |-> "hook_done", name |-> name, from |-> from, ids |-> ids]

\* w: the part of the state a feed changes, plus the records it emits
W0(first) == [hs |-> hs, pend |-> pend, q |-> q, rd |-> rd, wr |-> wr, fullc |-> fullc, msgs |-> msgs,
              out |-> <<first>>]
Commit(w) == /\ hs' = w.hs /\ pend' = w.pend /\ q' = w.q /\ rd' = w.rd /\ wr' = w.wr /\ fullc' = w.fullc
             /\ msgs' = w.msgs /\ Emit(w.out)

\* commands.CloseConnection as applied by ConnectionHandler.close_connection
CloseFull(w, p) == [w EXCEPT !.rd[p] = FALSE, !.wr[p] = FALSE, !.fullc[p] = TRUE,
                             !.out = Append(@, [k |-> "close", to |-> p, half |-> FALSE])]
\* commands.CloseTcpConnection(half_close=True)
CloseHalf(w, p) == [w EXCEPT !.wr[p] = FALSE, !.out = Append(@, [k |-> "close", to |-> p, half |-> TRUE])]
FireEnd(w) == [w EXCEPT !.pend = "end", !.out = Append(@, Hook("end", None, <<>>))]

\* relay_messages / done for one event e = [t, from, n, inj]
Proc(w, e) ==
  IF w.hs # "relay" THEN w          \* done(): yield from ()
  ELSE IF e.t = "data" /\ e.inj /\ InjectGuard /\ proto = "tcp" /\ ~w.wr[Other(e.from)]
    THEN w                          \* TcpMessageInjected towards a peer that cannot be written to: Log, return
  ELSE IF e.t = "data" THEN         \* DataReceived or the spoofed event made from a *MessageInjected
    [w EXCEPT !.msgs = Append(@, [from |-> e.from, ids |-> <<e.n>>]), !.pend = "msg",
              !.out = Append(@, Hook("message", e.from, <<e.n>>))]
  ELSE IF proto = "udp" THEN        \* UDPLayer: ConnectionClosed
    FireEnd(CloseFull([w EXCEPT !.hs = "done"], Other(e.from)))
  ELSE IF ~w.rd["c"] /\ ~w.rd["s"] THEN      \* TCPLayer: all_done
    LET w1 == [w EXCEPT !.hs = "done"]
        w2 == IF w1.rd["s"] \/ w1.wr["s"] THEN CloseFull(w1, "s") ELSE w1
        w3 == IF w2.rd["c"] \/ w2.wr["c"] THEN CloseFull(w2, "c") ELSE w2
    IN FireEnd(w3)
  ELSE CloseHalf(w, Other(e.from))

RECURSIVE Drain(_)
Drain(w) == IF w.pend = "none" /\ w.q # <<>> THEN Drain(Proc([w EXCEPT !.q = Tail(@)], Head(w.q))) ELSE w

Deliver(w, e) == IF w.pend # "none" THEN [w EXCEPT !.q = Append(@, e)] ELSE Proc(w, e)

CanTalk(p) == /\ started /\ (p = "c" \/ conn) /\ ~finA[p] /\ ~fullc[p]

Start ==
  /\ Live /\ ~started /\ started' = TRUE /\ pend' = "start"
  /\ Emit(<<[k |-> "start", proto |-> proto, pre |-> pre], Hook("start", None, <<>>)>>)
  /\ UNCHANGED <<proto, pre, hs, q, rd, wr, conn, finA, fullc, echoed, msgs, nxt, ninj>>

DataIn(p) ==
  /\ Live /\ CanTalk(p) /\ nxt <= MaxMsgs /\ nxt' = nxt + 1
  /\ Commit(Deliver(W0([k |-> "in", from |-> p, ids |-> <<nxt>>]), [t |-> "data", from |-> p, n |-> nxt, inj |-> FALSE]))
  /\ UNCHANGED <<proto, pre, started, conn, finA, echoed, ninj>>

\* Proxyserver.inject_tcp / inject_udp -> server_event(TcpMessageInjected)
Inject(p) ==
  /\ Live /\ started /\ nxt <= MaxMsgs /\ ninj < MaxInject /\ nxt' = nxt + 1 /\ ninj' = ninj + 1
  /\ Commit(Deliver(W0([k |-> "inject", from |-> p, ids |-> <<nxt>>]), [t |-> "data", from |-> p, n |-> nxt, inj |-> TRUE]))
  /\ UNCHANGED <<proto, pre, started, conn, finA, echoed>>

\* handle_connection: EOF. TCP: state &= ~CAN_READ; UDP: state = CLOSED; then ConnectionClosed is fed
Fin(p) ==
  /\ Live /\ CanTalk(p) /\ finA' = [finA EXCEPT ![p] = TRUE]
  /\ LET w0 == W0([k |-> "fin", from |-> p])
         w1 == IF proto = "tcp" THEN [w0 EXCEPT !.rd[p] = FALSE] ELSE [w0 EXCEPT !.rd[p] = FALSE, !.wr[p] = FALSE]
     IN Commit(Deliver(w1, [t |-> "fin", from |-> p, n |-> 0, inj |-> FALSE]))
  /\ UNCHANGED <<proto, pre, started, conn, echoed, nxt, ninj>>

\* close_connection cancelled the handler of a connection whose peer had not closed: it reports ConnectionClosed
Echo(p) ==
  /\ Live /\ started /\ fullc[p] /\ ~finA[p] /\ ~echoed[p] /\ (p = "c" \/ conn)
  /\ echoed' = [echoed EXCEPT ![p] = TRUE]
  /\ Commit(Deliver(W0([k |-> "echo", from |-> p]), [t |-> "fin", from |-> p, n |-> 0, inj |-> FALSE]))
  /\ UNCHANGED <<proto, pre, started, conn, finA, nxt, ninj>>

\* tcp_start / udp_start completes: TCPLayer.start continues
StartDone ==
  /\ Live /\ pend = "start"
  /\ LET w0 == W0(HookDone("start", None, <<>>))
         w1 == IF pre THEN [w0 EXCEPT !.pend = "none", !.hs = "relay"]
               ELSE [w0 EXCEPT !.pend = "open", !.out = Append(@, [k |-> "open_req"])]
     IN Commit(Drain(w1))
  /\ UNCHANGED <<proto, pre, started, conn, finA, echoed, nxt, ninj>>

OpenDone(ok) ==
  /\ Live /\ pend = "open" /\ conn' = ok
  /\ LET w0 == W0([k |-> "open_done", ok |-> ok])
         w1 == IF ok THEN [w0 EXCEPT !.pend = "none", !.hs = "relay", !.rd["s"] = TRUE, !.wr["s"] = TRUE]
               ELSE [w0 EXCEPT !.pend = "error", !.out = Append(@, Hook("error", None, <<>>))]
     IN Commit(Drain(w1))
  /\ UNCHANGED <<proto, pre, started, finA, echoed, nxt, ninj>>

ErrorDone ==
  /\ Live /\ pend = "error"
  /\ Commit(Drain(CloseFull([W0(HookDone("error", None, <<>>)) EXCEPT !.pend = "none", !.hs = "done"], "c")))
  /\ UNCHANGED <<proto, pre, started, conn, finA, echoed, nxt, ninj>>

\* tcp_message / udp_message completes (the addon may have edited messages[-1]); the layer sends the content
MsgDone(edit) ==
  /\ Live /\ pend = "msg"
  /\ LET cur == msgs[Len(msgs)]
         n == cur.ids[1]
         ids == CASE edit = "keep" -> <<n>> [] edit = "edit" -> <<n + EditOffset>> [] OTHER -> <<>>
         w0 == [W0(HookDone("message", cur.from, ids)) EXCEPT !.pend = "none", !.msgs[Len(msgs)].ids = ids]
         w1 == [w0 EXCEPT !.out = Append(@, [k |-> "send", to |-> Other(cur.from), ids |-> ids])]
     IN Commit(Drain(w1))
  /\ UNCHANGED <<proto, pre, started, conn, finA, echoed, nxt, ninj>>

EndDone ==
  /\ Live /\ pend = "end"
  /\ Commit(Drain([W0(HookDone("end", None, <<>>)) EXCEPT !.pend = "none"]))
  /\ UNCHANGED <<proto, pre, started, conn, finA, echoed, nxt, ninj>>

\* The end record of a behaviour ([k |-> "end", msgs |-> flow.messages per sender]) is appended by the harness
\* (props/C29.py computes the predicted one from the variable msgs); there is no Finish action, which would only
\* double the state graph.
Next == \/ Start
        \/ \E p \in Peers : DataIn(p)
        \/ \E p \in Peers : Inject(p)
        \/ \E p \in Peers : Fin(p)
        \/ \E p \in Peers : Echo(p)
        \/ StartDone
        \/ \E ok \in BOOLEAN : OpenDone(ok)
        \/ ErrorDone
        \/ \E e \in Edits : MsgDone(e)
        \/ EndDone
Spec == Init /\ [][Next]_vars
Report == mon.bad # <<>> => PrintT(<<"BAD", mon.bad>>)
=============================================================================
