---------------------------- MODULE Mon_RawRelay ----------------------------
(* Monitor for C29: raw TCP and UDP relaying is exact and each flow ends once.

   Observed on the real mitmproxy.proxy.layers.tcp.TCPLayer / udp.UDPLayer driven sans-io (props/C29.py).
   Peers are "c" (client) and "s" (server).  Message contents are sequences of small integer tokens (the harness
   builds contents from tokens and decodes every payload it sees with its own tokenizer; 0 = undecodable bytes).
   Event records, in the order things happen:
     [k |-> "start", proto, pre]                 the flow's layer is started; proto is "tcp" or "udp"
     [k |-> "in", from, ids]                     environment: peer from delivered data with content ids
     [k |-> "inject", from, ids]                 environment: a message is injected in the name of peer from
     [k |-> "fin", from]                         environment: peer from closed (TCP: its sending side / EOF)
     [k |-> "echo", from]                        environment: the connection the proxy itself closed reports closed
     [k |-> "hook", name, from, ids]             the layer fires hook name (start, message, end, error); for message
                                                 hooks from/ids are the newest recorded message as the addon sees it
     [k |-> "hook_done", name, from, ids]        environment: the hook completes; ids is the recorded content now
                                                 (after the addon may have modified it)
     [k |-> "open_req"] / [k |-> "open_done", ok]   server connection requested by the layer / completed by the env.
     [k |-> "send", to, ids]                     the layer writes a payload with content ids to peer to
     [k |-> "close", to, half]                   the layer closes (half: only its sending direction) towards peer to
     [k |-> "raised", exc]                       an exception escaped from the layer
     [k |-> "end", msgs]                         end of the behaviour; msgs[p] = contents of the flow's recorded
                                                 messages sent by p (flow.messages), in order
   The clauses are evaluated when the environment acts next and the layer is not waiting for a hook or a connect
   (everything a sans-io layer can do for the events it has been given has then been done).                   *)
EXTENDS Verif

Peers == {"c", "s"}
Other(p) == IF p = "c" THEN "s" ELSE "c"

MonInit == [bad |-> <<>>, wit |-> {},
            proto |-> "tcp",
            started |-> FALSE,
            pending |-> 0,                          \* blocking commands (hooks, connect) not yet completed
            fin |-> [p \in Peers |-> FALSE],        \* p's close has arrived
            clo |-> [p \in Peers |-> "open"],       \* what the proxy has done towards p: open, half, full
            rec |-> [p \in Peers |-> <<>>],         \* recorded contents of p's messages whose hook has completed (View)
            got |-> [p \in Peers |-> <<>>],         \* payloads Other(p) has received from the proxy
            lost |-> [p \in Peers |-> FALSE],       \* a payload for Other(p) was written after the proxy closed that way
            ended |-> 0,                            \* end/error hooks fired
            failed |-> FALSE,                       \* the server connection could not be established
            owed |-> [p \in Peers |-> FALSE],       \* a half-close towards p is owed (Other(p) closed first)
            win |-> {},                             \* tokens that arrived from a peer after the other one had closed
            arr |-> {},                             \* all tokens that arrived while the flow had to relay them
            src |-> [p \in Peers |-> {}],           \* tokens that arrived from p or were injected in p's name
            lasthook |-> <<>>,                      \* content shown to the addon by the newest message hook
            hooked |-> {}]                          \* tokens seen in message hooks

\* what a peer has of a sequence of payloads: a byte stream for TCP (concatenation), datagrams for UDP.
\* rec and got are kept in this form.
Add(m, s, ids) == IF m.proto = "tcp" THEN s \o ids ELSE Append(s, ids)
View(m, s) == IF m.proto = "tcp" THEN FlattenSeq(s) ELSE s

Diff(a, b) == IF a = b THEN "same" ELSE IF IsPrefix(a, b) THEN "missing" ELSE IF IsPrefix(b, a) THEN "extra"
              ELSE "altered"

MustEnd(m) == \/ m.failed
              \/ m.proto = "tcp" /\ m.fin["c"] /\ m.fin["s"]
              \/ m.proto = "udp" /\ (m.fin["c"] \/ m.fin["s"])

\* want[p]: the recorded contents of p's messages, in the peer's view
Exact(m, want) ==
  IF m.got = want THEN <<>>
  ELSE LET p == IF m.got["c"] # want["c"] THEN "c" ELSE "s"
       IN <<"C29.peer_stream_differs_from_record", m.proto, Diff(m.got[p], want[p]),
            IF m.lost[p] THEN "written_after_close" ELSE "relay">>

\* evaluated in the state before an environment event
Quiet(m) ==
  IF ~m.started \/ m.pending > 0 THEN <<>>
  ELSE LET ex == Exact(m, m.rec) IN
  IF ex # <<>> THEN ex
  ELSE IF m.proto = "tcp" /\ ~m.failed /\ \E p \in Peers : m.owed[p] /\ ~m.fin[p]
    THEN <<"C29.half_close_not_propagated", m.proto>>
  ELSE IF ~m.failed /\ ~(m.win \subseteq m.hooked)
    THEN <<"C29.data_lost_after_half_close", m.proto>>
  ELSE IF ~m.failed /\ ~(m.arr \subseteq m.hooked)
    THEN <<"C29.received_data_not_recorded", m.proto>>
  ELSE IF MustEnd(m) /\ m.ended = 0 THEN <<"C29.flow_not_ended", m.proto>>
  ELSE <<>>

Clause(m, ev) ==
  CASE ev.k \in {"in", "inject", "fin", "echo"} -> Quiet(m)
    [] ev.k = "end" ->
         LET qm == Quiet(m) IN
         IF qm # <<>> THEN qm
         ELSE IF m.started /\ m.pending = 0 THEN Exact(m, [p \in Peers |-> View(m, ev.msgs[p])])
         ELSE <<>>
    [] ev.k = "hook" /\ ev.name \in {"end", "error"} ->
         IF m.ended > 0 THEN <<"C29.flow_ended_twice", m.proto, ev.name>> ELSE <<>>
    [] ev.k = "hook" /\ ev.name = "message" ->
         IF ev.from \in Peers /\ ToSet(ev.ids) \cap m.src[Other(ev.from)] # {}
           THEN <<"C29.recorded_in_wrong_direction", m.proto>> ELSE <<>>
    [] ev.k = "send" ->
         IF m.ended > 0 THEN <<"C29.relayed_after_end", m.proto>> ELSE <<>>
    [] ev.k = "close" ->
         IF m.proto = "tcp" /\ ~ev.half /\ ~m.failed /\ ~(m.fin["c"] /\ m.fin["s"])
           THEN <<"C29.full_close_while_peer_open", m.proto>> ELSE <<>>
    [] ev.k = "raised" -> <<"C29.layer_raised", m.proto, ev.exc>>
    [] OTHER -> <<>>

W(c, name) == IF c THEN {name} ELSE {}

MonStep(m, ev) ==
  LET m1 == [m EXCEPT !.bad = Clause(m, ev)] IN
  CASE ev.k = "start" -> [m1 EXCEPT !.started = TRUE, !.proto = ev.proto]
    [] ev.k = "in" ->
         LET inwin == m.proto = "tcp" /\ m.fin[Other(ev.from)] /\ ~m.fin[ev.from] /\ ~m.failed IN
         [m1 EXCEPT !.win = IF inwin THEN @ \cup ToSet(ev.ids) ELSE @,
                    !.arr = IF ~m.failed /\ (m.proto = "tcp" \/ ~(m.fin["c"] \/ m.fin["s"])) THEN @ \cup ToSet(ev.ids) ELSE @,
                    !.src[ev.from] = @ \cup ToSet(ev.ids),
                    !.wit = @ \cup W(inwin, "data_after_half_close") \cup W(m.pending > 0, "arrival_while_blocked")]
    [] ev.k = "inject" ->
         [m1 EXCEPT !.src[ev.from] = @ \cup ToSet(ev.ids),
                    !.wit = @ \cup {"inject"} \cup W(m.clo[Other(ev.from)] # "open", "inject_towards_closed")
                                \cup W(m.ended > 0, "inject_after_end")]
    [] ev.k = "fin" ->
         LET o == Other(ev.from) IN
         [m1 EXCEPT !.fin[ev.from] = TRUE,
                    !.owed = IF m.proto = "tcp" /\ ~m.fin[o] THEN [@ EXCEPT ![o] = TRUE]
                             ELSE [p \in Peers |-> FALSE],
                    !.wit = @ \cup W(m.pending > 0, "close_while_blocked") \cup W(m.fin[o], "second_close")
                              \cup W(m.proto = "udp", "udp_close")]
    [] ev.k = "echo" -> [m1 EXCEPT !.wit = @ \cup {"echo"}]
    [] ev.k = "hook" ->
         [m1 EXCEPT !.pending = @ + 1,
                    !.ended = IF ev.name \in {"end", "error"} THEN @ + 1 ELSE @,
                    !.hooked = IF ev.name = "message" THEN @ \cup ToSet(ev.ids) ELSE @,
                    !.lasthook = IF ev.name = "message" THEN ev.ids ELSE @,
                    !.wit = @ \cup W(ev.name = "end", "ended_by_end") \cup W(ev.name = "error", "ended_by_error")
                              \cup W(ev.name = "message" /\ ToSet(ev.ids) \cap m.win # {}, "late_data_recorded")]
    [] ev.k = "hook_done" ->
         [m1 EXCEPT !.pending = IF @ > 0 THEN @ - 1 ELSE 0,
                    !.rec = IF ev.name = "message" THEN [@ EXCEPT ![ev.from] = Add(m, @, ev.ids)] ELSE @,
                    !.wit = @ \cup W(ev.name = "message" /\ ev.ids # m.lasthook, "modified")
                              \cup W(ev.name = "message" /\ ev.ids = <<>>, "emptied")]
    [] ev.k = "open_req" -> [m1 EXCEPT !.pending = @ + 1]
    [] ev.k = "open_done" -> [m1 EXCEPT !.pending = IF @ > 0 THEN @ - 1 ELSE 0, !.failed = ~ev.ok,
                                        !.wit = @ \cup W(~ev.ok, "connect_failed")]
    [] ev.k = "send" ->
         LET p == Other(ev.to) IN
         IF m.clo[ev.to] # "open" THEN [m1 EXCEPT !.lost[p] = TRUE]
         ELSE [m1 EXCEPT !.got[p] = Add(m, @, ev.ids),
                         !.wit = @ \cup {"relayed"}
                                   \cup W(m.fin[ev.to], "relayed_towards_half_closed_peer")]
    [] ev.k = "close" ->
         [m1 EXCEPT !.clo[ev.to] = IF ev.half /\ @ # "full" THEN "half" ELSE "full",
                    !.owed[ev.to] = FALSE,
                    !.wit = @ \cup W(ev.half /\ m.owed[ev.to], "half_close_propagated")]
    [] OTHER -> m1
Wit(m) == m.wit
=============================================================================
