------------------------------- MODULE Socks5 -------------------------------
(* Implementation-shaped model of mitmproxy/proxy/layers/modes.py: Socks5Proxy.

   The layer's state is  w = [st, buf, out, asked]:  st is which state function is installed
     "greet" / "auth" / "connect"  = Socks5Proxy.state_greet / state_auth / state_connect  (self.state),
     "done"   = self._handle_event = self.done      (after socks_err, or a failed eager connect),
     "child"  = self._handle_event = self.child_layer.handle_event   (finish_start succeeded),
   buf = self.buf (a sequence of byte values), out = the event records this feed produces.
   One call of handle_event(DataReceived) is synchronous, so it is one action (Recv); inside it the state
   functions chain exactly as the code does (each ends in  yield from self.state()).
   The environment completes the hooks at once: Socks5AuthHook is valid iff the credentials equal the input's
   creds; next_layer installs the recording child; OpenConnection (eager) succeeds iff connok.

   A behaviour: Begin(i) picks input i; Recv(n)* delivers it in segments; Finish(eof) stops anywhere (every
   truncation), optionally with the client's EOF, and then replays the delivered prefix in ONE segment into a
   fresh layer ("rerun"), which is what the harness does to let the monitor compare the two outcomes.     *)
EXTENDS Mon_Socks5, TLC
CONSTANTS Inputs        \* sequence of [bytes, auth, eager, connok, creds, ref, cuts]
VARIABLES idx, pos, w, phase, mon, obs
vars == <<idx, pos, w, phase, mon, obs>>

W0 == [st |-> "greet", buf |-> <<>>, out |-> <<>>, asked |-> FALSE]
Init == idx = 0 /\ pos = 0 /\ w = W0 /\ phase = "init" /\ mon = MonInit /\ obs = <<>>
Live == mon.bad = <<>>
Emit(evs) == obs' = evs /\ mon' = FoldEvents(MonStep, mon, evs)

Send(d) == [k |-> "send", data |-> d]
Close == [k |-> "close"]
Drop(s, n) == SubSeq(s, n + 1, Len(s))
\* socks_err(message, reply_code): optional reply, CloseConnection, self._handle_event = self.done
SocksErr(x, code) ==
  [x EXCEPT !.st = "done",
            !.out = @ \o (IF code >= 0 THEN <<Send(<<5, code, 0, 1, 0, 0, 0, 0, 0, 0>>)>> ELSE <<>>) \o <<Close>>]

AtypName(a) == IF a = 1 THEN "ipv4" ELSE IF a = 4 THEN "ipv6" ELSE "domain"

RECURSIVE Run(_, _)
Greet(x, I) ==
  LET b == x.buf IN
  IF Len(b) < 2 THEN x
  ELSE IF b[1] # 5 THEN SocksErr(x, -1)                      \* Invalid SOCKS version: no reply, close
  ELSE IF Len(b) < 2 + b[2] THEN x
  ELSE LET method == IF I.auth THEN 2 ELSE 0 IN
       IF method \notin ToSet(SubSeq(b, 3, 2 + b[2])) THEN SocksErr(x, 255)
       ELSE Run([x EXCEPT !.st = IF I.auth THEN "auth" ELSE "connect",
                          !.out = Append(@, Send(<<5, method>>)),
                          !.buf = Drop(b, 2 + b[2])], I)
Auth(x, I) ==
  LET b == x.buf IN
  IF Len(b) < 3 THEN x
  ELSE LET ulen == b[2] IN
  IF Len(b) < 3 + ulen THEN x
  ELSE LET plen == b[3 + ulen] IN
  IF Len(b) < 3 + ulen + plen THEN x
  ELSE LET user == SubSeq(b, 3, 2 + ulen)
           pass == SubSeq(b, 4 + ulen, 3 + ulen + plen)
           valid == <<user, pass>> = I.creds
           hook == [k |-> "auth", user |-> user, pass |-> pass, valid |-> valid]
       IN IF ~valid
          THEN SocksErr([x EXCEPT !.out = @ \o <<hook, Send(<<1, 1>>)>>], -1)
          ELSE Run([x EXCEPT !.st = "connect", !.out = @ \o <<hook, Send(<<1, 0>>)>>,
                             !.buf = Drop(b, 3 + ulen + plen)], I)
Connect(x, I) ==
  LET b == x.buf IN
  IF Len(b) < 5 THEN x
  ELSE IF SubSeq(b, 1, 3) # <<5, 1, 0>> THEN SocksErr(x, 7)
  ELSE LET atyp == b[4] IN
  IF atyp \notin {1, 3, 4} THEN SocksErr(x, 8)
  ELSE LET mlen == IF atyp = 1 THEN 10 ELSE IF atyp = 4 THEN 22 ELSE 7 + b[5] IN
  IF Len(b) < mlen THEN x
  ELSE LET host == SubSeq(b, IF atyp = 3 THEN 6 ELSE 5, mlen - 2)
           port == b[mlen - 1] * 256 + b[mlen]
           rest == Drop(b, mlen)
           d    == [atyp |-> AtypName(atyp), host |-> host, port |-> port]
           dest == [k |-> "dest", atyp |-> d.atyp, host |-> d.host, port |-> d.port]
           open(ok) == [k |-> "open", atyp |-> d.atyp, host |-> d.host, port |-> d.port, ok |-> ok]
       IN IF atyp = 3 /\ \E j \in 1..Len(host) : host[j] >= 128
          \* host_bytes.decode("ascii") fails: socks_err(..., SOCKS5_REP_HOST_UNREACHABLE); the message is consumed
          THEN SocksErr([x EXCEPT !.buf = rest], 4)
          ELSE IF I.eager /\ ~I.connok            \* finish_start: OpenConnection failed
          THEN [x EXCEPT !.st = "done", !.buf = rest,
                         !.out = @ \o <<dest, open(FALSE),
                                        Send(<<5, 4, 0, 1, 0, 0, 0, 0, 0, 0>>), Close>>]
          ELSE [x EXCEPT !.st = "child", !.buf = <<>>, !.asked = rest # <<>>,
                         !.out = @ \o <<dest>> \o (IF I.eager THEN <<open(TRUE)>> ELSE <<>>)
                                   \o <<Send(<<5, 0, 0, 1, 0, 0, 0, 0, 0, 0>>)>>
                                   \o (IF rest # <<>> THEN <<[k |-> "child", data |-> rest]>> ELSE <<>>)]
Run(x, I) == CASE x.st = "greet" -> Greet(x, I)
               [] x.st = "auth" -> Auth(x, I)
               [] x.st = "connect" -> Connect(x, I)
               [] OTHER -> x

\* Socks5Proxy._handle_event(DataReceived) / child_layer.handle_event / done
Feed(x, data, I) ==
  IF x.st \in {"greet", "auth", "connect"} THEN Run([x EXCEPT !.buf = @ \o data], I)
  ELSE IF x.st = "child" THEN [x EXCEPT !.asked = TRUE, !.out = Append(@, [k |-> "child", data |-> data])]
  ELSE x
\* ConnectionClosed: handshake states close the client; done ignores it; the child is the code's own NextLayer,
\* which asks the next_layer hook only when data arrives (asked): before that it closes the client itself, after
\* that the chosen (recording) layer sees the event
Eof(x) ==
  IF x.st \in {"greet", "auth", "connect"} THEN [x EXCEPT !.out = Append(@, Close)]
  ELSE IF x.st = "child" THEN [x EXCEPT !.out = Append(@, IF x.asked THEN [k |-> "child_eof"] ELSE Close)]
  ELSE x

InputRec(I) == [k |-> "input", bytes |-> I.bytes, auth |-> I.auth, eager |-> I.eager, connok |-> I.connok,
                ref |-> I.ref]

Begin(i) == /\ Live /\ phase = "init"
            /\ idx' = i /\ phase' = "run" /\ UNCHANGED <<pos, w>>
            /\ Emit(<<InputRec(Inputs[i])>>)

\* segment boundaries are restricted to the input's cut points (field boundaries, or every byte) to bound the graph
Recv(n) == /\ Live /\ phase = "run" /\ pos + n \in Inputs[idx].cuts
           /\ LET I == Inputs[idx]
                  x == Feed([w EXCEPT !.out = <<>>], SubSeq(I.bytes, pos + 1, pos + n), I)
              IN /\ w' = [x EXCEPT !.out = <<>>] /\ pos' = pos + n
                 /\ Emit(<<[k |-> "recv", n |-> n]>> \o x.out)
           /\ UNCHANGED <<idx, phase>>

Finish(eof) ==
  /\ Live /\ phase = "run"
  /\ LET I == Inputs[idx]
         e1 == IF eof THEN <<[k |-> "eof"]>> \o Eof([w EXCEPT !.out = <<>>]).out ELSE <<>>
         x  == IF pos > 0 THEN Feed(W0, SubSeq(I.bytes, 1, pos), I) ELSE W0
         r2 == (IF pos > 0 THEN <<[k |-> "recv", n |-> pos]>> ELSE <<>>) \o x.out
               \o (IF eof THEN <<[k |-> "eof"]>> \o Eof([x EXCEPT !.out = <<>>]).out ELSE <<>>)
     IN Emit(e1 \o <<[k |-> "rerun"]>> \o r2 \o <<[k |-> "end"]>>)
  /\ phase' = "fin" /\ UNCHANGED <<idx, pos, w>>

Next == \/ \E i \in 1..Len(Inputs) : Begin(i)
        \/ \E n \in 1..64 : Recv(n)
        \/ \E e \in BOOLEAN : Finish(e)
Spec == Init /\ [][Next]_vars
Report == mon.bad # <<>> => PrintT(<<"BAD", mon.bad>>)
=============================================================================
