----------------------------- MODULE Mon_Socks5 -----------------------------
(* Monitor for C21: SOCKS5 handshakes are parsed exactly and subsequent data is relayed.

   One trace = one client byte string, delivered twice to a fresh real Socks5Proxy layer (props/C21.py):
   run 1 in the scenario's segmentation, run 2 ("rerun") the same delivered prefix in a single segment.
   Event records (bytes are integers 0..255):
     [k |-> "input", bytes, auth (server demands user/password), eager, connok,
                     ref |-> reference parse of the WHOLE byte string by the harness's own RFC 1928/1929 reader:
                       [cls   |-> "ok" | "short" | "bad_gver" | "no_method" | "auth_fail"
                                  | "bad_rver" | "bad_cmd" | "bad_rsv" | "bad_atyp",   (first defective message)
                        stage |-> "greet" | "auth" | "req"     where that message is,
                        dec   |-> number of bytes after which the defective / final message is complete (0: never),
                        roff  |-> end offset of a complete well-formed CONNECT request (0: none),
                        atyp  |-> "ipv4" | "ipv6" | "domain" | "", host |-> address bytes, port |-> int,
                        hostcls |-> "ip" | "ascii" | "nonascii" | ""   (kind of requested host, for signatures),
                        codes |-> RFC 1928 codes that apply to the defects of that message,
                        codefree |-> some defect of that message has no RFC 1928 code]]
     [k |-> "recv", n]              n more bytes of the input were delivered to the layer
     [k |-> "send", data]           SendData to the client
     [k |-> "close"]                mitmproxy closes the client connection
     [k |-> "dest", atyp, host, port]   context.server.address became set (host in canonical bytes)
     [k |-> "open", atyp, host, port, ok]   OpenConnection for the server (eager strategy) and its result
     [k |-> "child", data]          DataReceived handed to the next layer
     [k |-> "eof"]                  the client closed its side (always the last stimulus of a run)
     [k |-> "auth", ...] [k |-> "child_eof"]   informative (prediction only)
     [k |-> "raised", exc]          an exception escaped from the layer
     [k |-> "rerun"]                run 1 is over, run 2 starts on a fresh layer
     [k |-> "end"]                  run 2 is over
   What the statement demands, and nothing else:
     accept only for a complete well-formed request, to exactly the requested destination; well-formed replies;
     trailing bytes reach the next layer once and in order; malformed => reject, with the RFC 1928 code where one
     applies, and close; a decision once the deciding message is complete; same outcome for both segmentations. *)
EXTENDS Verif

RunInit == [n |-> 0, S |-> <<>>, closed |-> FALSE, eof |-> FALSE, dest |-> <<>>, opens |-> <<>>,
            child |-> <<>>, chunks |-> 0]
NoRef == [cls |-> "short", stage |-> "greet", dec |-> 0, roff |-> 0, atyp |-> "", host |-> <<>>, hostcls |-> "", port |-> 0,
          codes |-> <<>>, codefree |-> FALSE]
NoInput == [bytes |-> <<>>, auth |-> FALSE, eager |-> FALSE, connok |-> TRUE, ref |-> NoRef]
MonInit == [bad |-> <<>>, wit |-> {}, inp |-> NoInput, run |-> RunInit, first |-> RunInit, phase |-> 1]

\* ---- reading the client-bound byte stream of a run ----
\* replies that precede the reply to the request: method selection (2 bytes) and, with auth, the RFC 1929 status
PreLen(i) == 2 + (IF i.auth THEN 2 ELSE 0)
ReqReply(r, i) == IF Len(r.S) > PreLen(i) THEN SubSeq(r.S, PreLen(i) + 1, Len(r.S)) ELSE <<>>
WellFormedReply(R) ==
  /\ Len(R) >= 7 /\ R[1] = 5 /\ R[3] = 0 /\ R[4] \in {1, 3, 4}
  /\ Len(R) = (IF R[4] = 1 THEN 10 ELSE IF R[4] = 4 THEN 22 ELSE 7 + R[5])
SuccessReply(r, i) == LET R == ReqReply(r, i) IN Len(R) >= 2 /\ R[1] = 5 /\ R[2] = 0
PreOK(r, i) == /\ Len(r.S) >= PreLen(i) /\ r.S[1] = 5 /\ r.S[2] = (IF i.auth THEN 2 ELSE 0)
               /\ (i.auth => (r.S[3] = 1 /\ r.S[4] = 0))
Want(i) == <<i.ref.atyp, i.ref.host, i.ref.port>>
\* any evidence that the connection was accepted
Connected(r, i) == r.dest # <<>> \/ r.opens # <<>> \/ r.child # <<>> \/ SuccessReply(r, i)
Valid(r, i) == i.ref.cls = "ok" /\ i.ref.roff > 0 /\ r.n >= i.ref.roff
Decisive(r, i) == i.ref.dec > 0 /\ r.n >= i.ref.dec
\* the reply that carries the error code: the whole stream for a defect in the greeting, else what follows the
\* method-selection (and auth) replies
ErrReply(r, i) == IF i.ref.stage = "greet" THEN r.S ELSE ReqReply(r, i)
CodeOf(R) == IF Len(R) >= 2 /\ R[1] = 5 THEN R[2] ELSE -1
ConnFailCodes == {1, 3, 4, 5, 6}

\* judged when a run is over
Judge(r, i) ==
  IF Connected(r, i) /\ ~Valid(r, i) THEN <<"C21.accepted_malformed", i.ref.cls>>
  ELSE IF Valid(r, i) /\ ( (r.dest # <<>> /\ r.dest # Want(i))
                          \/ \E k \in 1..Len(r.opens) : r.opens[k] # Want(i) )
       THEN <<"C21.wrong_destination", i.ref.atyp, i.ref.hostcls>>
  ELSE IF (Valid(r, i) \/ Decisive(r, i)) /\ ~r.closed /\ ~SuccessReply(r, i)
       THEN <<"C21.no_outcome", i.ref.cls>>
  ELSE IF r.closed /\ r.child # <<>> THEN <<"C21.rejected_but_relayed", i.ref.cls>>
  ELSE IF r.closed /\ Decisive(r, i) /\ i.ref.cls \notin {"ok", "short"} /\ ~i.ref.codefree /\ i.ref.codes # <<>>
          /\ CodeOf(ErrReply(r, i)) \notin ToSet(i.ref.codes)
       THEN <<"C21.reject_without_code", i.ref.cls>>
  ELSE IF r.closed /\ Valid(r, i) /\ ~SuccessReply(r, i) /\ CodeOf(ReqReply(r, i)) \notin ConnFailCodes
       THEN <<"C21.reject_without_code", "connect_failed">>
  ELSE IF Valid(r, i) /\ SuccessReply(r, i) /\ ~(PreOK(r, i) /\ WellFormedReply(ReqReply(r, i)))
       THEN <<"C21.malformed_reply", i.ref.atyp>>
  ELSE IF Valid(r, i) /\ SuccessReply(r, i) /\ ~r.closed
          /\ r.child # SubSeq(i.bytes, i.ref.roff + 1, r.n)
       THEN <<"C21.trailing_data_not_relayed_exactly",
              IF Len(r.child) < r.n - i.ref.roff /\ IsPrefix(r.child, SubSeq(i.bytes, i.ref.roff + 1, r.n))
              THEN "lost" ELSE "duplicated_or_altered">>
  ELSE <<>>

Summary(r) == <<r.S, r.closed, r.dest, r.opens, r.child>>

RunWit(r, i) ==
  (IF Valid(r, i) /\ SuccessReply(r, i) THEN {"accept_" \o i.ref.atyp} ELSE {})
  \cup (IF Valid(r, i) /\ SuccessReply(r, i) /\ r.n > i.ref.roff THEN {"trailing_relayed"} ELSE {})
  \cup (IF r.closed /\ Decisive(r, i) /\ i.ref.cls \notin {"ok", "short"}
        THEN {"reject_" \o i.ref.cls} ELSE {})
  \cup (IF r.closed /\ Valid(r, i) THEN {"connect_failed"} ELSE {})
  \cup (IF ~r.closed /\ ~Connected(r, i) THEN {"pending"} ELSE {})
  \cup (IF r.chunks >= 2 THEN {"split"} ELSE {})
  \cup (IF r.eof THEN {"eof"} ELSE {})
  \cup (IF i.auth /\ Valid(r, i) /\ SuccessReply(r, i) THEN {"auth_ok"} ELSE {})

MonStep(m, ev) ==
  LET r == m.run  i == m.inp IN
  CASE ev.k = "input" -> [m EXCEPT !.inp = [bytes |-> ev.bytes, auth |-> ev.auth, eager |-> ev.eager,
                                             connok |-> ev.connok, ref |-> ev.ref]]
    [] ev.k = "recv"  -> [m EXCEPT !.run.n = @ + ev.n, !.run.chunks = Min2(@ + 1, 2)]
    [] ev.k = "send"  -> [m EXCEPT !.run.S = @ \o ev.data]
    [] ev.k = "close" -> IF r.eof THEN m ELSE [m EXCEPT !.run.closed = TRUE]
    [] ev.k = "dest"  -> [m EXCEPT !.run.dest = <<ev.atyp, ev.host, ev.port>>]
    [] ev.k = "open"  -> [m EXCEPT !.run.opens = Append(@, <<ev.atyp, ev.host, ev.port>>)]
    [] ev.k = "child" -> [m EXCEPT !.run.child = @ \o ev.data]
    [] ev.k = "eof"   -> [m EXCEPT !.run.eof = TRUE]
    [] ev.k = "rerun" -> [m EXCEPT !.bad = Judge(r, i), !.wit = @ \cup RunWit(r, i),
                                   !.first = r, !.run = RunInit, !.phase = 2]
    [] ev.k = "end"   -> LET j == Judge(r, i) IN
                         [m EXCEPT !.bad = IF j # <<>> THEN j
                                           ELSE IF m.phase = 2 /\ Summary(r) # Summary(m.first)
                                                THEN <<"C21.segmentation_dependent", i.ref.cls>> ELSE <<>>,
                                   !.wit = @ \cup RunWit(r, i) \cup (IF m.phase = 2 THEN {"compared"} ELSE {})]
    [] ev.k = "raised" -> [m EXCEPT !.bad = <<"C21.crashed", ev.exc>>]   \* neither a rejection nor a connection
    [] OTHER -> m
Wit(m) == m.wit
=============================================================================
