--------------------------- MODULE Mon_ModifyRules ---------------------------
(* X03 (coverage extension, not one of the 54 given properties): the rule-based modification addons
   modify_headers, modify_body, map_remote, map_local and their shared rule syntax (utils/spec.py parse_spec).

   Statement judged here (sources: docs/src/content/overview/features.md sections Map Local, Map Remote, Modify Body,
   Modify Headers; the option help texts; the docstrings of parse_spec, ModifySpec.read_replacement, file_candidates;
   the comments in the handlers):
     S1 rule syntax: a rule is  SEP [flow-filter SEP] subject SEP replacement  with an arbitrary separator character.
        An option value in which some rule has fewer than two parts, a filter that does not parse or (body / url
        rules) a regex that does not compile is refused with OptionsError; a value of well-formed rules whose files
        exist is accepted.  (A rule naming a missing file may be refused or accepted.)
     S2 atomic change: after a refused update the rules that were in effect stay in effect; after an accepted one
        exactly the new rules are in effect, from the next hook on.
     S3 which flows: a rule acts on a flow only if its filter matches (no filter = every flow).  Flows that are not
        live or carry an error are never touched; a request whose response was already set before the hook is not
        touched and its response is not replaced.
     S4 component: the request hooks change the request only (map_local: set the response), the response hooks
        change the response only.
     S5 modify_headers: headers named by no matching rule keep their values and relative order; for a name some
        matching rule names, the existing headers of that name are gone and the non-empty values of the matching
        rules are there instead (empty value = removal only).
     S6 modify_body: every match of the regex in the body of the message in hand (request before a response
        exists, response afterwards) is replaced by the literal replacement, rule after rule in option order, each
        on the result of the previous one; streamed bodies are not modified (and nothing is raised).
     S7 map_remote: the same on the request URL, rule after rule in option order.
     S8 map_local: rules are tried in option order on the (already re-mapped) URL; the first rule that matches and
        finds a file answers 200 with its content: the file itself, or for a directory  dir/suffix  then
        dir/suffix/index.html (suffix = URL right of the match without query string; dir/index.html if empty;
        if the regex has a capturing group: the group, query string included), then the same with special
        characters mapped to _;
        when rules matched but found no file the answer is an empty 404; otherwise there is no response; nothing
        outside the directory is ever served; the current content of a file is served (no caching).
     S9 no handler raises (the addon manager would log an addon error).
   Where the wording leaves the reading open the monitor accepts both readings (filters evaluated once on the
   unmodified flow or again before each rule; header values of one name accumulated or the last rule winning);
   which reading the code takes is a prediction of the model only.  Where a header ends up, the Host /
   Content-Length / Content-Type / Server headers and log output are not judged.

   Abstract domain (the harness concretises; see props/X03.py): header = <<name id, value id>>; a body / file content
   is a sequence of tokens, a body subject a sequence of token alternatives; a URL is host id + path segments
   (8 = index.html, 9 = .., 6 = we%21rd whose file name is 16 = we_rd, 40 + t = the name of t followed by _k=v) +
   query flag.  Events:
     [k |-> "world", rules |-> <<rule>>, fs |-> <<[p |-> segs, f |-> file id]>>, files |-> <<[present, c]>>]
        rule = [ad, bad, f |-> [t, a, neg], s, r, file, host, rhost, lp, grp]
     [k |-> "set", opt |-> "mh"|"mb"|"mr"|"ml", rules |-> <<ids>>, err |-> "" or exception class]
     [k |-> "file", f, present, c]                      the environment deletes / (re)writes a file
     [k |-> "flow", live, err, meth, host, path, query, qh, qb, qs]        a new flow (qs: body streamed)
     [k |-> "respond", code, sh, sb, ss]               a script / the server sets flow.response
     [k |-> "hook", h, exc, post |-> [host, path, query, qh, qb, qs, resp, code, sh, sb, ss]]  *)
EXTENDS Verif

NoFlow == [live |-> FALSE, err |-> FALSE, meth |-> 0, host |-> 0, path |-> <<>>, query |-> FALSE,
           qh |-> <<>>, qb |-> <<>>, qs |-> FALSE,
           resp |-> FALSE, code |-> 0, sh |-> <<>>, sb |-> <<>>, ss |-> FALSE]
NoWorld == [rules |-> <<>>, fs |-> <<>>]
Opts == {"mh", "mb", "mr", "ml"}
MonInit == [bad |-> <<>>, wit |-> {}, w |-> NoWorld, files |-> <<>>,
            act |-> [mh |-> <<>>, mb |-> <<>>, mr |-> <<>>, ml |-> <<>>],
            taint |-> [mh |-> "", mb |-> "", mr |-> "", ml |-> ""], rej |-> FALSE,
            fl |-> NoFlow, has |-> FALSE, local |-> FALSE]

---------------------------------------------------------------------------
\* reading of the filter atoms (docs/src/content/concepts/filters.md)
EvalF(f, fl) ==
  LET b == CASE f.t = "all" -> TRUE
             [] f.t = "q" -> ~fl.resp
             [] f.t = "s" -> fl.resp
             [] f.t = "m" -> fl.meth = f.a
             [] f.t = "hq" -> \E i \in 1..Len(fl.qh) : fl.qh[i][1] = f.a
             [] f.t = "hs" -> fl.resp /\ \E i \in 1..Len(fl.sh) : fl.sh[i][1] = f.a
             [] f.t = "bq" -> ~fl.qs /\ f.a \in ToSet(fl.qb)
             [] f.t = "bs" -> fl.resp /\ ~fl.ss /\ f.a \in ToSet(fl.sb)
             [] f.t = "u" -> f.a \in ToSet(fl.path)
             [] OTHER -> FALSE
  IN b # f.neg
StateDep(f) == f.t \in {"hq", "hs", "bq", "bs", "u"}

Val(w, files, i) == IF w.rules[i].file # 0 THEN files[w.rules[i].file].c ELSE w.rules[i].r
Readable(w, files, i) == w.rules[i].file = 0 \/ files[w.rules[i].file].present
\* a rule whose file cannot be read and that may match: what then happens is not specified
Unjudged(w, files, fl, rs) ==
  \E i \in ToSet(rs) : ~Readable(w, files, i) /\ (EvalF(w.rules[i].f, fl) \/ StateDep(w.rules[i].f))
Matching(w, fl, rs) == SelectSeq(rs, LAMBDA i : EvalF(w.rules[i].f, fl))

\* ---- headers -------------------------------------------------------------------------------------
Hdr(fl, part) == IF part = "q" THEN fl.qh ELSE fl.sh
WithHdr(fl, part, H) == IF part = "q" THEN [fl EXCEPT !.qh = H] ELSE [fl EXCEPT !.sh = H]
HdrDrop(H, n) == SelectSeq(H, LAMBDA x : x[1] # n)
HdrAdd(H, n, v) == IF v = <<>> THEN H ELSE Append(H, <<n, v[1]>>)
RECURSIVE HdrAdds(_, _, _, _)
HdrAdds(w, files, H, M) ==
  IF M = <<>> THEN H ELSE HdrAdds(w, files, HdrAdd(H, w.rules[Head(M)].s[1], Val(w, files, Head(M))), Tail(M))
\* reading A: filters on the unmodified flow, all named headers removed, then all values added
HdrSnap(w, files, fl, part, rs) ==
  LET M == Matching(w, fl, rs)
      N == {w.rules[i].s[1] : i \in ToSet(M)} IN
  HdrAdds(w, files, SelectSeq(Hdr(fl, part), LAMBDA x : x[1] \notin N), M)
\* reading B: rule after rule, each on the result of the previous one
RECURSIVE HdrSeq(_, _, _, _, _)
HdrSeq(w, files, fl, part, rs) ==
  IF rs = <<>> THEN Hdr(fl, part)
  ELSE LET r == w.rules[Head(rs)] IN
       IF EvalF(r.f, fl)
       THEN HdrSeq(w, files, WithHdr(fl, part, HdrAdd(HdrDrop(Hdr(fl, part), r.s[1]), r.s[1], Val(w, files, Head(rs)))),
                   part, Tail(rs))
       ELSE HdrSeq(w, files, fl, part, Tail(rs))
\* placement is not judged: untouched fields in order + the value sequence of every name some rule mentions
Canon(H, N) == [rest |-> SelectSeq(H, LAMBDA x : x[1] \notin N),
                by |-> [n \in N |-> SelectSeq(H, LAMBDA x : x[1] = n)]]
RuleNames(w, rs) == {w.rules[i].s[1] : i \in ToSet(rs)}

\* ---- token substitution ----------------------------------------------------------------------------
MatchAt(b, s) == Len(b) >= Len(s) /\ \A i \in 1..Len(s) : b[i] \in ToSet(s[i])
RECURSIVE Subst(_, _, _)
Subst(b, s, r) ==
  IF s = <<>> \/ Len(b) < Len(s) THEN b
  ELSE IF MatchAt(b, s) THEN r \o Subst(SubSeq(b, Len(s) + 1, Len(b)), s, r)
  ELSE <<Head(b)>> \o Subst(Tail(b), s, r)
Lift(s) == [i \in 1..Len(s) |-> <<s[i]>>]

\* ---- body ----------------------------------------------------------------------------------------
Body(fl) == IF fl.resp THEN fl.sb ELSE fl.qb
Streamed(fl) == IF fl.resp THEN fl.ss ELSE fl.qs
WithBody(fl, b) == IF fl.resp THEN [fl EXCEPT !.sb = b] ELSE [fl EXCEPT !.qb = b]
RECURSIVE BodySeq(_, _, _, _, _)
BodySeq(w, files, fl, rs, n) ==      \* [b, n]: n = rules that changed something
  IF rs = <<>> THEN [b |-> Body(fl), n |-> n]
  ELSE LET r == w.rules[Head(rs)]
           nb == Subst(Body(fl), r.s, Val(w, files, Head(rs))) IN
       IF EvalF(r.f, fl) THEN BodySeq(w, files, WithBody(fl, nb), Tail(rs), IF nb # Body(fl) THEN n + 1 ELSE n)
       ELSE BodySeq(w, files, fl, Tail(rs), n)
RECURSIVE BodyAll(_, _, _, _)
BodyAll(w, files, b, M) == IF M = <<>> THEN b
                           ELSE BodyAll(w, files, Subst(b, w.rules[Head(M)].s, Val(w, files, Head(M))), Tail(M))
BodySnap(w, files, fl, rs) == BodyAll(w, files, Body(fl), Matching(w, fl, rs))

\* ---- map_remote ----------------------------------------------------------------------------------
IsPre(s, p) == Len(s) <= Len(p) /\ SubSeq(p, 1, Len(s)) = s
MRApply(r, fl) ==
  IF r.host # 0
  THEN IF fl.host = r.host /\ IsPre(r.s, fl.path)
       THEN [fl EXCEPT !.host = IF r.rhost # 0 THEN r.rhost ELSE @,
                       !.path = r.r \o SubSeq(fl.path, Len(r.s) + 1, Len(fl.path))]
       ELSE fl
  ELSE [fl EXCEPT !.path = Subst(fl.path, Lift(r.s), r.r)]
Url(fl) == <<fl.host, fl.path, fl.query>>
RECURSIVE MRSeq(_, _, _)
MRSeq(w, fl, rs) == IF rs = <<>> THEN fl
                    ELSE IF EvalF(w.rules[Head(rs)].f, fl) THEN MRSeq(w, MRApply(w.rules[Head(rs)], fl), Tail(rs))
                    ELSE MRSeq(w, fl, Tail(rs))
RECURSIVE MRAll(_, _, _)
MRAll(w, fl, M) == IF M = <<>> THEN fl ELSE MRAll(w, MRApply(w.rules[Head(M)], fl), Tail(M))
MRSnap(w, fl, rs) == MRAll(w, fl, Matching(w, fl, rs))

\* ---- map_local -----------------------------------------------------------------------------------
\* position of the first match of the url regex (segments before it), -1 = no match
MinOr(K, d) == IF K = {} THEN d ELSE CHOOSE k \in K : \A j \in K : k <= j
Grp(r) == Get(r, "grp", FALSE)          \* the url regex ends in a capturing group for the rest of the URL:  subject/(.*)
MLPos(r, fl) ==
  IF r.host # 0 THEN (IF fl.host = r.host /\ IsPre(r.s, fl.path) /\ (Grp(r) => Len(fl.path) > Len(r.s)) THEN 0 ELSE -1)
  ELSE MinOr({k \in 0..(Len(fl.path) - Len(r.s) - (IF Grp(r) THEN 1 ELSE 0)) : SubSeq(fl.path, k + 1, k + Len(r.s)) = r.s}, -1)
\* segments right of the match; with a capturing group the query string stays on the last one (token + 20)
WithQuery(sfx) == IF sfx = <<>> THEN sfx ELSE [sfx EXCEPT ![Len(sfx)] = @ + 20]
MLRest(r, fl) == SubSeq(fl.path, MLPos(r, fl) + Len(r.s) + 1, Len(fl.path))
MLSuffix(r, fl) == IF Grp(r) /\ fl.query THEN WithQuery(MLRest(r, fl)) ELSE MLRest(r, fl)
PathFile(w, p) == IF \E i \in 1..Len(w.fs) : w.fs[i].p = p
                  THEN w.fs[CHOOSE i \in 1..Len(w.fs) : w.fs[i].p = p].f ELSE 0
\* special characters are mapped to _ :  6 (we%21rd) -> 16 (we_rd),  20 + t (name?k=v) -> 40 + t (name_k=v)
EscTok(t) == IF t = 6 THEN 16 ELSE IF t > 20 /\ t < 30 THEN t + 20 ELSE t
Esc(sfx) == [i \in 1..Len(sfx) |-> EscTok(sfx[i])]
\* candidate files in order of preference (0 = a path that does not exist); <<>> = no candidate at all
DirCands(w, sfx) == IF sfx = <<>> THEN <<PathFile(w, <<8>>)>>
                    ELSE IF 9 \in ToSet(sfx) THEN <<>>
                    ELSE IF Esc(sfx) = sfx THEN <<PathFile(w, sfx), PathFile(w, sfx \o <<8>>)>>
                    ELSE <<PathFile(w, sfx), PathFile(w, sfx \o <<8>>), PathFile(w, Esc(sfx)), PathFile(w, Esc(sfx) \o <<8>>)>>
MLCands(w, files, r, fl) ==
  IF r.lp = "file" /\ files[r.file].present THEN <<r.file>>
  ELSE IF r.lp = "file" THEN (IF 9 \in ToSet(MLSuffix(r, fl)) THEN <<>> ELSE <<0>>)   \* a deleted target is treated like a directory
  ELSE DirCands(w, MLSuffix(r, fl))
MLHit(w, fl, i) == EvalF(w.rules[i].f, fl) /\ MLPos(w.rules[i], fl) >= 0
Existing(files, cs) == {j \in 1..Len(cs) : cs[j] # 0 /\ files[cs[j]].present}
RECURSIVE MLRun(_, _, _, _, _, _)
MLTry(w, files, fl, rs, any, tried, cs, j) ==
  IF j # 0 THEN [code |-> 200, f |-> cs[j], via |-> j, later |-> tried, by |-> Head(rs)]
  ELSE MLRun(w, files, fl, Tail(rs), any \/ cs # <<>>, TRUE)
MLRun(w, files, fl, rs, any, tried) ==     \* [code, f, via: index of the candidate, later: an earlier rule matched, by: rule]
  IF rs = <<>> THEN [code |-> IF any THEN 404 ELSE 0, f |-> 0, via |-> 0, later |-> FALSE, by |-> 0]
  ELSE IF MLHit(w, fl, Head(rs))
       THEN MLTry(w, files, fl, rs, any, tried, MLCands(w, files, w.rules[Head(rs)], fl),
                  MinOr(Existing(files, MLCands(w, files, w.rules[Head(rs)], fl)), 0))
       ELSE MLRun(w, files, fl, Tail(rs), any, tried)
MLTrav(w, fl, rs) == \E i \in ToSet(rs) : MLHit(w, fl, i) /\ 9 \in ToSet(MLSuffix(w.rules[i], fl))
InsideFiles(w) == {w.fs[i].f : i \in 1..Len(w.fs)} \cup {w.rules[i].file : i \in {j \in 1..Len(w.rules) : w.rules[j].ad = "ml"}}
\* rules that match and have an existing candidate
MLServing(w, files, fl, rs) == {i \in ToSet(rs) : MLHit(w, fl, i) /\ Existing(files, MLCands(w, files, w.rules[i], fl)) # {}}

---------------------------------------------------------------------------
\* (heavy values are passed as operator arguments, not bound by LET: TLC's coverage pass walks a LET definition
\*  once per use, which multiplies along the call chain)
ReqPart(f) == <<f.host, f.path, f.query, f.qh, f.qb, f.qs>>
RespPart(f) == <<f.resp, f.code, f.sh, f.sb, f.ss>>
Merge(fl, p) == [fl EXCEPT !.host = p.host, !.path = p.path, !.query = p.query, !.qh = p.qh, !.qb = p.qb, !.qs = p.qs,
                           !.resp = p.resp, !.code = p.code, !.sh = p.sh, !.sb = p.sb, !.ss = p.ss]

HJudge2(part, taint, N, a, b, g) ==
  IF g = a \/ g = b THEN <<>>
  ELSE <<"X03.headers", IF part = "q" THEN "request" ELSE "response",
         IF g.rest # a.rest THEN "untouched"
         ELSE IF \E n \in N : a.by[n] = <<>> /\ b.by[n] = <<>> /\ g.by[n] # <<>> THEN "not_removed"
         ELSE IF \E n \in N : a.by[n] # <<>> /\ g.by[n] = <<>> THEN "not_set"
         ELSE "values", taint>>
HJudge1(m, fl, part, got, N) ==
  HJudge2(part, m.taint.mh, N, Canon(HdrSnap(m.w, m.files, fl, part, m.act.mh), N),
          Canon(HdrSeq(m.w, m.files, fl, part, m.act.mh), N), Canon(got, N))
HJudge(m, fl, part, got) ==
  IF Unjudged(m.w, m.files, fl, m.act.mh) THEN <<>> ELSE HJudge1(m, fl, part, got, RuleNames(m.w, m.act.mh))
HWit2(w, rs, N, M, a, b, p) ==
  (IF M = <<>> THEN {"hdr_nomatch"} ELSE {})
  \cup (IF \E n \in N : a.by[n] # <<>> /\ p.by[n] = <<>> THEN {"hdr_add"} ELSE {})
  \cup (IF \E n \in N : a.by[n] = <<>> /\ p.by[n] # <<>> THEN {"hdr_remove"} ELSE {})
  \cup (IF \E n \in N : a.by[n] # <<>> /\ p.by[n] # <<>> /\ a.by[n] # p.by[n] THEN {"hdr_overwrite"} ELSE {})
  \cup (IF \E n \in N : Len(a.by[n]) > 1 THEN {"hdr_multi"} ELSE {})
  \cup (IF a # b THEN {"hdr_readings_differ"} ELSE {})
  \cup (IF M # <<>> /\ Len(M) < Len(rs) THEN {"hdr_some_rules_match"} ELSE {})
  \cup (IF \E i \in ToSet(M) : w.rules[i].file # 0 THEN {"hdr_file"} ELSE {})
HWit1(m, fl, part, N) ==
  HWit2(m.w, m.act.mh, N, Matching(m.w, fl, m.act.mh), Canon(HdrSnap(m.w, m.files, fl, part, m.act.mh), N),
        Canon(HdrSeq(m.w, m.files, fl, part, m.act.mh), N), Canon(Hdr(fl, part), N))
HWit(m, fl, part) ==
  IF m.act.mh = <<>> \/ Unjudged(m.w, m.files, fl, m.act.mh) THEN {} ELSE HWit1(m, fl, part, RuleNames(m.w, m.act.mh))

BJudge(m, fl, which, got, gots) ==
  IF Streamed(fl) THEN (IF ~gots \/ got # <<>> THEN <<"X03.body", which, "streamed_modified", m.taint.mb>> ELSE <<>>)
  ELSE IF Unjudged(m.w, m.files, fl, m.act.mb) THEN <<>>
  ELSE IF gots THEN <<"X03.body", which, "content_lost", m.taint.mb>>
  ELSE IF got = BodySeq(m.w, m.files, fl, m.act.mb, 0).b \/ got = BodySnap(m.w, m.files, fl, m.act.mb) THEN <<>>
  ELSE <<"X03.body", which, IF got = Body(fl) THEN "unmodified" ELSE "content", m.taint.mb>>
BWit2(m, fl, e, M, snap) ==
  (IF M = <<>> THEN {"body_nomatch"} ELSE {})
  \cup (IF e.n >= 1 THEN {"body_subst"} ELSE {})
  \cup (IF e.n >= 2 THEN {"body_chain"} ELSE {})
  \cup (IF e.b # snap THEN {"body_readings_differ"} ELSE {})
  \cup (IF \E i \in ToSet(M) : m.w.rules[i].file # 0 /\ Subst(Body(fl), m.w.rules[i].s, <<99>>) # Body(fl)
        THEN {"body_file"} ELSE {})
  \cup (IF fl.resp /\ m.local /\ e.n >= 1 THEN {"body_of_local_response"} ELSE {})
  \cup (IF m.rej /\ e.n >= 1 THEN {"judged_after_reject"} ELSE {})
BWit(m, fl) ==
  IF m.act.mb = <<>> THEN {}
  ELSE IF Streamed(fl) THEN (IF Matching(m.w, fl, m.act.mb) # <<>> THEN {"streamed"} ELSE {})
  ELSE IF Unjudged(m.w, m.files, fl, m.act.mb) THEN {"unreadable_file"}
  ELSE BWit2(m, fl, BodySeq(m.w, m.files, fl, m.act.mb, 0), Matching(m.w, fl, m.act.mb), BodySnap(m.w, m.files, fl, m.act.mb))

\* map_local on the flow with its final URL; p = post record, e = what the documented procedure yields
LJudge2(m, fl, p, e) ==
  CASE e.code = 200 ->
         IF ~p.resp \/ p.code # 200 THEN <<"X03.map_local", "not_served", m.taint.ml>>
         ELSE IF p.sb # m.files[e.f].c
              THEN <<"X03.map_local", IF \E i \in MLServing(m.w, m.files, fl, m.act.ml) :
                                            \E c \in ToSet(MLCands(m.w, m.files, m.w.rules[i], fl)) :
                                               c # 0 /\ c # e.f /\ m.files[c].present /\ m.files[c].c = p.sb
                                      THEN "order" ELSE "wrong_content", m.taint.ml>>
              ELSE <<>>
    [] e.code = 404 -> IF ~p.resp \/ p.code # 404 \/ p.sb # <<>> THEN <<"X03.map_local", "no_404", m.taint.ml>> ELSE <<>>
    [] OTHER -> IF p.resp THEN <<"X03.map_local", "unexpected_response", m.taint.ml>> ELSE <<>>
LJudge(m, fl, p) ==
  IF MLTrav(m.w, fl, m.act.ml)
  THEN (IF p.resp /\ p.code = 200 /\ p.sb # <<>>
           /\ (\E f \in (1..Len(m.files)) \ InsideFiles(m.w) : p.sb = m.files[f].c)
           /\ ~(\E g \in InsideFiles(m.w) \ {0} : m.files[g].present /\ p.sb = m.files[g].c)      \* content identifies the file
        THEN <<"X03.map_local", "traversal", m.taint.ml>> ELSE <<>>)
  ELSE LJudge2(m, fl, p, MLRun(m.w, m.files, fl, m.act.ml, FALSE, FALSE))
LWit2(m, fl, e) ==
  (IF e.code = 200 THEN {"ml_served"} ELSE IF e.code = 404 THEN {"ml_404"} ELSE {"ml_nomatch"})
  \cup (IF e.code = 200 /\ \E i \in ToSet(m.act.ml) : m.w.rules[i].lp = "file" /\ m.w.rules[i].file = e.f THEN {"ml_file_rule"} ELSE {})
  \cup (IF e.code = 200 /\ e.via \in {2, 4} THEN {"ml_index_fallback"} ELSE {})
  \cup (IF e.code = 200 /\ e.via >= 3 THEN {"ml_special_chars"} ELSE {})
  \cup (IF e.code = 200 /\ Grp(m.w.rules[e.by]) /\ m.w.rules[e.by].lp = "dir"
        THEN {IF fl.query THEN "ml_group_query" ELSE "ml_group"} ELSE {})
  \cup (IF e.code = 200 /\ e.later THEN {"ml_later_rule"} ELSE {})
  \cup (IF e.code = 200 /\ fl.query /\ ~Grp(m.w.rules[e.by]) /\ m.w.rules[e.by].lp = "dir" THEN {"ml_query_ignored"} ELSE {})
  \cup (IF e.code = 200 /\ Cardinality(MLServing(m.w, m.files, fl, m.act.ml)) > 1 THEN {"ml_first_of_many"} ELSE {})
LWit(m, fl) ==
  IF m.act.ml = <<>> THEN {}
  ELSE IF MLTrav(m.w, fl, m.act.ml) THEN {"ml_traversal"}
  ELSE LWit2(m, fl, MLRun(m.w, m.files, fl, m.act.ml, FALSE, FALSE))

WithUrl(fl, p) == [fl EXCEPT !.host = p.host, !.path = p.path, !.query = p.query]
FirstBad(lj, rest) == IF lj # <<>> THEN lj ELSE rest
JRequest(m, pre, post, h) ==
  IF pre.resp THEN (IF RespPart(post) # RespPart(pre) THEN <<"X03.response_overwritten", h>>
                    ELSE IF ReqPart(post) # ReqPart(pre) THEN <<"X03.taken_modified", h>> ELSE <<>>)
  ELSE IF post.qh # pre.qh THEN <<"X03.unrelated_changed", h>>
  ELSE IF Url(post) # Url(MRSeq(m.w, pre, m.act.mr)) /\ Url(post) # Url(MRSnap(m.w, pre, m.act.mr))
       THEN <<"X03.map_remote", IF Url(post) = Url(pre) THEN "unmapped" ELSE "wrong_url">>
  ELSE FirstBad(LJudge(m, WithUrl(pre, post), post),
                IF post.resp THEN <<>>          \* answered locally: what happens to the request is open
                ELSE BJudge(m, WithUrl(pre, post), "request", post.qb, post.qs))
JudgeHook(m, pre, h, post, exc) ==
  IF ~m.has THEN <<"X03.hook_without_flow">>
  ELSE IF exc # ""
  THEN <<"X03.hook_raised", h, IF h \in {"request", "response"} /\ Streamed(pre) THEN "streamed"
                                ELSE IF h \in {"request", "response"} THEN m.taint.mb ELSE m.taint.mh>>
  ELSE IF ~pre.live \/ pre.err
  THEN (IF ReqPart(post) # ReqPart(pre) \/ RespPart(post) # RespPart(pre)
        THEN <<"X03.inactive_flow_modified", h, IF pre.err THEN "error" ELSE "not_live">> ELSE <<>>)
  ELSE CASE h = "requestheaders" ->
              IF RespPart(post) # RespPart(pre) THEN <<"X03.wrong_component", h>>
              ELSE IF pre.resp THEN (IF ReqPart(post) # ReqPart(pre) THEN <<"X03.taken_modified", h>> ELSE <<>>)
              ELSE IF <<post.host, post.path, post.query, post.qb, post.qs>> # <<pre.host, pre.path, pre.query, pre.qb, pre.qs>>
                   THEN <<"X03.unrelated_changed", h>>
              ELSE HJudge(m, pre, "q", post.qh)
         [] h = "request" -> JRequest(m, pre, post, h)
         [] h = "responseheaders" ->
              IF ~pre.resp THEN <<>>
              ELSE IF ReqPart(post) # ReqPart(pre) THEN <<"X03.wrong_component", h>>
              ELSE IF <<post.resp, post.code, post.sb, post.ss>> # <<pre.resp, pre.code, pre.sb, pre.ss>>
                   THEN <<"X03.unrelated_changed", h>>
              ELSE HJudge(m, pre, "s", post.sh)
         [] h = "response" ->
              IF ~pre.resp THEN <<>>
              ELSE IF ReqPart(post) # ReqPart(pre) THEN <<"X03.wrong_component", h>>
              ELSE IF <<post.resp, post.code, post.sh>> # <<pre.resp, pre.code, pre.sh>> THEN <<"X03.unrelated_changed", h>>
              ELSE BJudge(m, pre, "response", post.sb, post.ss)
         [] OTHER -> <<"X03.unknown_hook">>

UrlWit(m, pre, f1, e) ==
  (IF m.act.mr # <<>> /\ Url(e) # Url(pre) THEN {"url_mapped"} ELSE {})
  \cup (IF m.act.mr # <<>> /\ Url(e) = Url(pre) THEN {"url_nomatch"} ELSE {})
  \cup (IF e.host # pre.host THEN {"url_host"} ELSE {})
  \cup (IF Cardinality({i \in ToSet(m.act.mr) : EvalF(m.w.rules[i].f, pre) /\ Url(MRApply(m.w.rules[i], pre)) # Url(pre)}) > 1
        THEN {"url_many_rules"} ELSE {})
  \cup (IF Url(e) # Url(pre) /\ m.act.ml # <<>> /\ MLRun(m.w, m.files, f1, m.act.ml, FALSE, FALSE).code
             # MLRun(m.w, m.files, pre, m.act.ml, FALSE, FALSE).code THEN {"ml_sees_mapped_url"} ELSE {})
HookWit(m, pre, h, post) ==
  IF ~m.has THEN {}
  ELSE IF ~pre.live \/ pre.err THEN (IF \E o \in Opts : m.act[o] # <<>> THEN {"inactive_flow"} ELSE {})
  ELSE CASE h = "requestheaders" -> IF pre.resp THEN {"taken"} ELSE HWit(m, pre, "q")
         [] h = "request" ->
              IF pre.resp THEN {"taken"}
              ELSE UrlWit(m, pre, WithUrl(pre, post), MRSeq(m.w, pre, m.act.mr))
                   \cup LWit(m, WithUrl(pre, post))
                   \cup (IF post.resp THEN {} ELSE BWit(m, WithUrl(pre, post)))
         [] h = "responseheaders" -> IF pre.resp THEN HWit(m, pre, "s") \cup (IF m.local /\ m.act.mh # <<>> THEN {"hdr_of_local_response"} ELSE {}) ELSE {}
         [] h = "response" -> IF pre.resp THEN BWit(m, pre) ELSE {}
         [] OTHER -> {}

\* S1 / S2
Defects(w, L) == {w.rules[i].bad : i \in ToSet(L)} \ {""}
FirstDefect(w, L) == w.rules[L[CHOOSE j \in 1..Len(L) : w.rules[L[j]].bad # "" /\ \A k \in 1..(j-1) : w.rules[L[k]].bad = ""]].bad
SetJudge(m, ev) ==
  IF Defects(m.w, ev.rules) # {}
  THEN (IF ev.err # "OptionsError" THEN <<"X03.invalid_rule_accepted", FirstDefect(m.w, ev.rules), ev.opt>> ELSE <<>>)
  ELSE IF (\A i \in ToSet(ev.rules) : Readable(m.w, m.files, i)) /\ ev.err # "" THEN <<"X03.valid_rules_refused", ev.opt>>
  ELSE IF ev.err \notin {"", "OptionsError"} THEN <<"X03.set_raised", ev.opt>>
  ELSE <<>>
SetWit2(m, ev, L, defects) ==
  {"set_invalid_" \o d : d \in defects}
  \cup (IF defects = {} /\ ev.err = "" /\ L # <<>> THEN {"set_ok"} ELSE {})
  \cup (IF defects = {} /\ ev.err = "" /\ L = <<>> /\ m.act[ev.opt] # <<>> THEN {"set_cleared"} ELSE {})
  \cup (IF defects = {} /\ \E i \in ToSet(L) : ~Readable(m.w, m.files, i) THEN {"set_missing_file"} ELSE {})
  \cup (IF defects # {} /\ m.act[ev.opt] # <<>> THEN {"reject_with_rules_in_effect"} ELSE {})
  \cup (IF Len(L) > 1 THEN {"set_many"} ELSE {})
SetWit(m, ev) == SetWit2(m, ev, ev.rules, Defects(m.w, ev.rules))
Stale(m, ev) == ev.err # "" /\ \E i \in ToSet(m.act[ev.opt]) : ~Readable(m.w, m.files, i)

HookStep(m, ev, post) ==
  [m EXCEPT !.bad = JudgeHook(m, m.fl, ev.h, post, ev.exc),
            !.wit = @ \cup HookWit(m, m.fl, ev.h, post),
            !.fl = post,
            !.local = @ \/ (ev.h = "request" /\ ~m.fl.resp /\ post.resp)]
MonStep(m, ev) ==
  IF m.bad # <<>> THEN m ELSE
  CASE ev.k = "world" -> [m EXCEPT !.w = [rules |-> ev.rules, fs |-> ev.fs], !.files = ev.files]
    [] ev.k = "file" -> [m EXCEPT !.files[ev.f] = [present |-> ev.present, c |-> ev.c],
                                  !.wit = @ \cup {IF ev.present THEN "file_written" ELSE "file_deleted"}]
    [] ev.k = "set" ->
         [m EXCEPT !.bad = SetJudge(m, ev), !.wit = @ \cup SetWit(m, ev),
                   !.act[ev.opt] = IF ev.err = "" THEN ev.rules ELSE @,
                   !.taint[ev.opt] = IF ev.err = "" THEN "" ELSE IF Stale(m, ev) THEN "refused_update_with_unreadable_file" ELSE @,
                   !.rej = IF ev.err = "" THEN FALSE ELSE IF m.act[ev.opt] # <<>> THEN TRUE ELSE @]
    [] ev.k = "flow" ->
         [m EXCEPT !.has = TRUE, !.local = FALSE,
                   !.fl = [NoFlow EXCEPT !.live = ev.live, !.err = ev.err, !.meth = ev.meth, !.host = ev.host,
                                         !.path = ev.path, !.query = ev.query, !.qh = ev.qh, !.qb = ev.qb, !.qs = ev.qs]]
    [] ev.k = "respond" ->
         [m EXCEPT !.fl = [@ EXCEPT !.resp = TRUE, !.code = ev.code, !.sh = ev.sh, !.sb = ev.sb, !.ss = ev.ss]]
    [] ev.k = "hook" -> HookStep(m, ev, Merge(m.fl, ev.post))
    [] OTHER -> m

Wit(m) == m.wit
=============================================================================
