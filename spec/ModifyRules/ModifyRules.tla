----------------------------- MODULE ModifyRules -----------------------------
(* Implementation-shaped model of the four rule addons in the order of the default addon chain
   (mitmproxy/addons/__init__.py: MapRemote, MapLocal, ModifyBody, ModifyHeaders) behind a real Options object:
     SetOpt      options.update(<opt> = [...]) -> OptManager.update_known -> changed.send -> AddonManager
                 ._configure_all -> <addon>.configure (parse_spec, parse_modify_spec / parse_map_*_spec) and, on
                 OptionsError, OptManager.rollback (old values back, configure once more)
     FileOp      the environment deletes / rewrites a file (@replacement files, map_local files)
     NewFlow / Respond      the proxy layer creates a flow / a script or the server sets flow.response
     HookReqHeaders, HookRequest, HookRespHeaders, HookResponse      addons.trigger(Http...Hook(flow)): the
                 handlers of the four addons in chain order (the loops of the code are the recursive operators)
   One action per public call; the records emitted are the ones props/X03.py logs.
   Three behaviours of the code as first checked broke the statement (findings_proposed/X03.md); they were repaired in
   /repo (f0b18f0c9, 5dfbdb276, b6654346d).  Each stays in the model as a named BOOLEAN constant: FALSE describes the
   repaired code (what props/X03.py sets), TRUE the old code (the reverts are kept as mutants M15-M17):
     EmptyRuleIndexError   parse_spec("") raised IndexError, which the addon manager only logs: the update "succeeded"
                           and the rules after the empty one were dropped.  Now: ValueError -> OptionsError.
     RollbackReparses      configure emptied self.replacements before parsing and rollback re-parsed the old value: an
                           old rule whose file had meanwhile gone made the second configure stop half-way.  Now: the list
                           is built locally and assigned only when every rule parsed.
     StreamedTypeError     re.sub on content None (streamed body) raised TypeError.  Now: run() returns at once. *)
EXTENDS Mon_ModifyRules, TLC
CONSTANTS World,      \* [rules, fs, files] as in the world record
          OptLists,   \* set of <<opt, <<rule ids>>>> the environment may set
          Flows,      \* set of flow records (fields of the flow event)
          Resps,      \* set of response records (fields of the respond event)
          FileOps,    \* set of [f, present, c]
          EarlyRespond, \* a script may set the response before the request hooks
          EmptyRuleIndexError, RollbackReparses, StreamedTypeError,    \* see above; FALSE = the repaired code
          EnvStages,  \* stages of a flow (0 none .. 5 done) at which options / files may change
          MaxSet, MaxFile, MaxFlow
VARIABLES opt, repl, files, fl, stage, nset, nfile, nflow, mon, obs
vars == <<opt, repl, files, fl, stage, nset, nfile, nflow, mon, obs>>

R(i) == World.rules[i]
Unreadable(i) == R(i).file # 0 /\ ~files[R(i).file].present

\* ---- configure -----------------------------------------------------------------------------------
\* parse_modify_spec / parse_map_remote_spec / parse_map_local_spec on one rule: "" ok, "opt" ValueError ->
\* OptionsError, "index" the IndexError of option[0] on the empty string
RuleErr(i) == IF R(i).bad = "empty" THEN (IF EmptyRuleIndexError THEN "index" ELSE "opt")
              ELSE IF R(i).bad # "" THEN "opt"
              ELSE IF Unreadable(i) THEN "opt"       \* read_replacement() / resolve(strict=True) at parse time
              ELSE ""
\* replacements = []; for option in ...: parse, append; self.replacements = replacements
RECURSIVE Conf(_, _)
Conf(L, acc) == IF L = <<>> THEN [rs |-> acc, err |-> ""]
                ELSE IF RuleErr(Head(L)) # "" THEN [rs |-> acc, err |-> RuleErr(Head(L))]
                ELSE Conf(Tail(L), Append(acc, Head(L)))

\* ---- ModifyHeaders.run ---------------------------------------------------------------------------
RECURSIVE MH_adds(_, _)
MH_adds(H, M) == IF M = <<>> THEN H
                 ELSE IF Unreadable(Head(M)) THEN MH_adds(H, Tail(M))          \* OSError: warning, continue
                 ELSE MH_adds(HdrAdd(H, R(Head(M)).s[1], Val(World, files, Head(M))), Tail(M))
MH_popadd(f, part, M, N) == WithHdr(f, part, MH_adds(SelectSeq(Hdr(f, part), LAMBDA x : x[1] \notin N), M))
MH_names(M) == {R(i).s[1] : i \in ToSet(M)}
MH_run(f, part) ==      \* filters against the unmodified flow; pop all named headers, then add all values
  MH_popadd(f, part, SelectSeq(repl.mh, LAMBDA i : EvalF(R(i).f, f)), MH_names(SelectSeq(repl.mh, LAMBDA i : EvalF(R(i).f, f))))
MH_requestheaders(f) == IF f.resp \/ f.err \/ ~f.live THEN f ELSE MH_run(f, "q")
MH_responseheaders(f) == IF f.err \/ ~f.live THEN f ELSE MH_run(f, "s")

\* ---- ModifyBody.run ------------------------------------------------------------------------------
RECURSIVE MB_loop(_, _)
MB_loop(f, rs) ==
  IF rs = <<>> THEN [fl |-> f, exc |-> ""]
  ELSE IF ~EvalF(R(Head(rs)).f, f) THEN MB_loop(f, Tail(rs))               \* spec.matches(flow) on the current flow
  ELSE IF Unreadable(Head(rs)) THEN MB_loop(f, Tail(rs))
  ELSE IF Streamed(f) THEN [fl |-> f, exc |-> "TypeError"]                  \* only with StreamedTypeError
  ELSE MB_loop(WithBody(f, Subst(Body(f), R(Head(rs)).s, Val(World, files, Head(rs)))), Tail(rs))
\* run(): a message whose raw_content is None (streamed) is left alone
MB_run(f) == IF Streamed(f) /\ ~StreamedTypeError THEN [fl |-> f, exc |-> ""] ELSE MB_loop(f, repl.mb)
MB_request(f) == IF f.resp \/ f.err \/ ~f.live THEN [fl |-> f, exc |-> ""] ELSE MB_run(f)
MB_response(f) == IF f.err \/ ~f.live THEN [fl |-> f, exc |-> ""] ELSE MB_run(f)

\* ---- MapRemote.request ---------------------------------------------------------------------------
RECURSIVE MR_loop(_, _)
MR_loop(f, rs) == IF rs = <<>> THEN f
                  ELSE IF EvalF(R(Head(rs)).f, f) THEN MR_loop(MRApply(R(Head(rs)), f), Tail(rs))
                  ELSE MR_loop(f, Tail(rs))
MR_request(f) == IF f.resp \/ f.err \/ ~f.live THEN f ELSE MR_loop(f, repl.mr)

\* ---- MapLocal.request ----------------------------------------------------------------------------
Answer(f, code, c) == [f EXCEPT !.resp = TRUE, !.code = code, !.sh = <<>>, !.sb = c, !.ss = FALSE]
RECURSIVE ML_loop(_, _, _)
ML_try(f, rs, any, cs, j) == IF j # 0 THEN Answer(f, 200, files[cs[j]].c)       \* first candidate that is a file
                             ELSE ML_loop(f, Tail(rs), any \/ cs # <<>>)
ML_loop(f, rs, any) ==
  IF rs = <<>> THEN (IF any THEN Answer(f, 404, <<>>) ELSE f)
  ELSE IF EvalF(R(Head(rs)).f, f) /\ MLPos(R(Head(rs)), f) >= 0
       THEN ML_try(f, rs, any, MLCands(World, files, R(Head(rs)), f),
                   MinOr(Existing(files, MLCands(World, files, R(Head(rs)), f)), 0))
       ELSE ML_loop(f, Tail(rs), any)
ML_request(f) == IF f.resp \/ f.err \/ ~f.live THEN f ELSE ML_loop(f, repl.ml, FALSE)

---------------------------------------------------------------------------
Post(f) == [host |-> f.host, path |-> f.path, query |-> f.query, qh |-> f.qh, qb |-> f.qb, qs |-> f.qs,
            resp |-> f.resp, code |-> f.code, sh |-> f.sh, sb |-> f.sb, ss |-> f.ss]
HookEv(h, f, exc) == [k |-> "hook", h |-> h, exc |-> exc, post |-> Post(f)]
WorldEv == [k |-> "world", rules |-> World.rules, fs |-> World.fs, files |-> World.files]
Emit(evs) == obs' = evs /\ mon' = FoldEvents(MonStep, mon, evs)
NoList == [mh |-> <<>>, mb |-> <<>>, mr |-> <<>>, ml |-> <<>>]

Init == /\ opt = NoList /\ repl = NoList /\ files = World.files /\ fl = NoFlow /\ stage = 0
        /\ nset = 0 /\ nfile = 0 /\ nflow = 0
        /\ mon = MonStep(MonInit, WorldEv) /\ obs = <<WorldEv>>
Live == mon.bad = <<>>

HookDone(h, r) == fl' = r.fl /\ Emit(<<HookEv(h, r.fl, r.exc)>>)

SetOptDo(o, L, c) ==
     IF c.err = "opt"
     THEN \* OptionsError: self.replacements is untouched; rollback puts the old value back and configures once more,
          \* which re-assigns the same rules (old code, RollbackReparses: whatever of the old value still parses)
          /\ opt' = opt
          /\ repl' = IF RollbackReparses THEN [repl EXCEPT ![o] = Conf(opt[o], <<>>).rs]
                     ELSE IF Conf(opt[o], <<>>).err = "" THEN [repl EXCEPT ![o] = opt[o]] ELSE repl
          /\ Emit(<<[k |-> "set", opt |-> o, rules |-> L, err |-> "OptionsError"]>>)
     ELSE \* accepted (old code, EmptyRuleIndexError: only the rules before the empty one are in effect)
          /\ opt' = [opt EXCEPT ![o] = L] /\ repl' = [repl EXCEPT ![o] = c.rs]
          /\ Emit(<<[k |-> "set", opt |-> o, rules |-> L, err |-> ""]>>)

SetOpt(o, L) ==
  /\ Live /\ nset < MaxSet /\ nset' = nset + 1 /\ stage \in EnvStages
  /\ UNCHANGED <<files, fl, stage, nfile, nflow>>
  /\ SetOptDo(o, L, Conf(L, <<>>))

FileOp(op) ==
  /\ Live /\ nfile < MaxFile /\ nfile' = nfile + 1 /\ stage \in EnvStages
  /\ files[op.f] # [present |-> op.present, c |-> op.c]
  /\ files' = [files EXCEPT ![op.f] = [present |-> op.present, c |-> op.c]]
  /\ UNCHANGED <<opt, repl, fl, stage, nset, nflow>>
  /\ Emit(<<[k |-> "file", f |-> op.f, present |-> op.present, c |-> op.c]>>)

NewFlow(t) ==
  /\ Live /\ stage \in {0, 5} /\ nflow < MaxFlow /\ nflow' = nflow + 1
  /\ stage' = 1
  /\ fl' = [NoFlow EXCEPT !.live = t.live, !.err = t.err, !.meth = t.meth, !.host = t.host, !.path = t.path,
                          !.query = t.query, !.qh = t.qh, !.qb = t.qb, !.qs = t.qs]
  /\ UNCHANGED <<opt, repl, files, nset, nfile>>
  /\ Emit(<<[k |-> "flow", live |-> t.live, err |-> t.err, meth |-> t.meth, host |-> t.host, path |-> t.path,
             query |-> t.query, qh |-> t.qh, qb |-> t.qb, qs |-> t.qs]>>)

Respond(r) ==
  /\ Live /\ ~fl.resp /\ (stage = 3 \/ (EarlyRespond /\ stage \in {1, 2}))
  /\ fl' = [fl EXCEPT !.resp = TRUE, !.code = r.code, !.sh = r.sh, !.sb = r.sb, !.ss = r.ss]
  /\ UNCHANGED <<opt, repl, files, stage, nset, nfile, nflow>>
  /\ Emit(<<[k |-> "respond", code |-> r.code, sh |-> r.sh, sb |-> r.sb, ss |-> r.ss]>>)

HookReqHeaders ==
  /\ Live /\ stage = 1 /\ stage' = 2
  /\ fl' = MH_requestheaders(fl)
  /\ UNCHANGED <<opt, repl, files, nset, nfile, nflow>>
  /\ Emit(<<HookEv("requestheaders", fl', "")>>)

HookRequest ==
  /\ Live /\ stage = 2 /\ stage' = 3
  /\ HookDone("request", MB_request(ML_request(MR_request(fl))))
  /\ UNCHANGED <<opt, repl, files, nset, nfile, nflow>>

HookRespHeaders ==
  /\ Live /\ stage = 3 /\ fl.resp /\ stage' = 4
  /\ fl' = MH_responseheaders(fl)
  /\ UNCHANGED <<opt, repl, files, nset, nfile, nflow>>
  /\ Emit(<<HookEv("responseheaders", fl', "")>>)

HookResponse ==
  /\ Live /\ stage = 4 /\ stage' = 5
  /\ HookDone("response", MB_response(fl))
  /\ UNCHANGED <<opt, repl, files, nset, nfile, nflow>>

Next == \/ \E ol \in OptLists : SetOpt(ol[1], ol[2])
        \/ \E op \in FileOps : FileOp(op)
        \/ \E t \in Flows : NewFlow(t)
        \/ \E r \in Resps : Respond(r)
        \/ HookReqHeaders
        \/ HookRequest
        \/ HookRespHeaders
        \/ HookResponse
Spec == Init /\ [][Next]_vars

\* the witness set only records history: states that differ in nothing else are the same state
View == <<opt, repl, files, fl, stage, nset, nfile, nflow, obs, [mon EXCEPT !.wit = {}]>>
Report == mon.bad # <<>> => PrintT(<<"BAD", mon.bad>>)
\* design-level facts
\* the rules in effect never contain a malformed rule
ReplValid == \A o \in {"mh", "mb", "mr", "ml"} : \A i \in ToSet(repl[o]) : R(i).bad = ""
=============================================================================
