---------------------------- MODULE Mon_TlsTunnel ----------------------------
(* Monitor for C14: TLS interception is byte-transparent after the handshake.

   Observed on the real stack ServerTLSLayer -> ClientTLSLayer -> inner recording layer with the real TlsConfig
   addon, against in-memory OpenSSL peers (props/C14.py, lib/vf/tlsworld.py).  c is "client" or "server".
   Application payloads are runs of one byte value (the chunk id); `runs` is the run-length encoding
   << <<byte, count>>, ... >> of a plaintext byte string.  Event records:
     environment (each starts a new step of the scenario):
       [k |-> "peer_send", c, id, len]   peer c writes len bytes of value id (TLS application data)
       [k |-> "peer_cn", c]              peer c sends close_notify
       [k |-> "deliver", c, all, part]   a TCP segment of c's ciphertext reaches mitmproxy; all: everything c has
                                         produced so far is now delivered; part: the segment ends inside a record
       [k |-> "fin", c]                  transport-level close from c (after all its bytes)
       [k |-> "child_send", c, id, len]  the inner layer sends len bytes of value id to c
       [k |-> "child_open"]              the inner layer opens the server connection
       [k |-> "end"]
     observations:
       [k |-> "established", c]          tls_established_client / _server hook
       [k |-> "child_start"], [k |-> "open_done", ok]
       [k |-> "child_data", c, runs]     DataReceived(c) given to the inner layer
       [k |-> "child_closed", c]         ConnectionClosed(c) given to the inner layer
       [k |-> "peer_recv", c, runs]      plaintext peer c decrypted
       [k |-> "raised", exc]             an exception escaped from the layers

   Clauses (C14 statement):
     inner_stream_mismatch / peer_stream_mismatch   bytes duplicated, reordered, altered or invented
     data_after_close                               data handed to the inner layer after the close of that side
     bytes_not_delivered_to_inner / _to_peer        with both handshakes complete, bytes whose ciphertext has been
                                                    delivered completely have not reached the other end when the
                                                    environment acts next (layers are synchronous)
     close_notify_not_delivered, close_before_preceding_data, duplicate_close, spurious_close
     layer_raised                                                                                        *)
EXTENDS Verif

Sides == {"client", "server"}
Other(c) == IF c = "client" THEN "server" ELSE "client"
MonInit == [bad |-> <<>>, wit |-> {},
            exp  |-> [c \in Sides |-> <<>>],     \* bytes peer c wrote, not yet seen by the inner layer: << <<id, n>> >>
            expP |-> [c \in Sides |-> <<>>],     \* bytes the inner layer sent to c, not yet decrypted by peer c
            allin |-> [c \in Sides |-> TRUE],    \* every byte peer c wrote (up to its last write) reached mitmproxy
            cn |-> [c \in Sides |-> "none"],     \* none | sent | closed (inner layer has been told)
            fin |-> [c \in Sides |-> FALSE],
            closed |-> [c \in Sides |-> FALSE],  \* inner layer got ConnectionClosed(c)
            est |-> [c \in Sides |-> FALSE],
            hsfeed |-> [c \in Sides |-> FALSE],  \* c's handshake completed in the current step
            dataStep |-> [c \in Sides |-> FALSE]]\* inner layer got data of c in the current step

\* consume runs from the head of an expected queue; result [ok, q]
RECURSIVE Consume(_, _)
Consume(q, runs) ==
  IF runs = <<>> THEN [ok |-> TRUE, q |-> q]
  ELSE IF q = <<>> THEN [ok |-> FALSE, q |-> q]
  ELSE LET r == Head(runs) h == Head(q) IN
       IF r[1] # h[1] \/ r[2] > h[2] THEN [ok |-> FALSE, q |-> q]
       ELSE Consume(IF r[2] = h[2] THEN Tail(q) ELSE <<<<h[1], h[2] - r[2]>>>> \o Tail(q), Tail(runs))

BothEst(m) == m.est["client"] /\ m.est["server"]
First(S) == IF "client" \in S THEN "client" ELSE "server"

\* judged whenever the environment acts again: the layers are synchronous, nothing may still be on its way
Stalled(m) ==
  LET lostP == {c \in Sides : m.expP[c] # <<>>}
      lost  == {c \in Sides : BothEst(m) /\ m.allin[c] /\ m.exp[c] # <<>>}
      noCn  == {c \in Sides : BothEst(m) /\ m.allin[c] /\ m.cn[c] = "sent"}
  IN IF lostP # {} THEN <<"C14.bytes_not_delivered_to_peer", First(lostP)>>
     ELSE IF lost # {} THEN <<"C14.bytes_not_delivered_to_inner", First(lost)>>
     ELSE IF noCn # {} THEN <<"C14.close_notify_not_delivered", First(noCn)>>
     ELSE <<>>

EnvKinds == {"peer_send", "peer_cn", "deliver", "fin", "child_send", "child_open", "end"}

Clause(m, ev) ==
  CASE ev.k \in EnvKinds -> Stalled(m)
    [] ev.k = "child_data" ->
         IF m.closed[ev.c] THEN <<"C14.data_after_close", ev.c>>
         ELSE IF ~Consume(m.exp[ev.c], ev.runs).ok THEN <<"C14.inner_stream_mismatch", ev.c>>
         ELSE <<>>
    [] ev.k = "peer_recv" ->
         IF ~Consume(m.expP[ev.c], ev.runs).ok THEN <<"C14.peer_stream_mismatch", ev.c>> ELSE <<>>
    [] ev.k = "child_closed" ->
         IF m.closed[ev.c] THEN <<"C14.duplicate_close", ev.c>>
         ELSE IF m.cn[ev.c] = "none" /\ ~m.fin[ev.c] THEN <<"C14.spurious_close", ev.c>>
         ELSE IF m.exp[ev.c] # <<>> THEN <<"C14.close_before_preceding_data", ev.c>>
         ELSE <<>>
    [] ev.k = "raised" -> <<"C14.layer_raised", ev.exc>>
    [] OTHER -> <<>>

NewStep(m) == [m EXCEPT !.hsfeed = [c \in Sides |-> FALSE], !.dataStep = [c \in Sides |-> FALSE]]

MonStep(m, ev) ==
  LET m0 == IF ev.k \in EnvKinds THEN NewStep(m) ELSE m
      m1 == [m0 EXCEPT !.bad = Clause(m, ev)] IN
  CASE ev.k = "peer_send" ->
         [m1 EXCEPT !.exp[ev.c] = Append(@, <<ev.id, ev.len>>), !.allin[ev.c] = FALSE,
                    !.wit = @ \cup {"peer_send_" \o ev.c}]
    [] ev.k = "peer_cn" -> [m1 EXCEPT !.cn[ev.c] = "sent", !.allin[ev.c] = FALSE]
    [] ev.k = "deliver" ->
         [m1 EXCEPT !.allin[ev.c] = ev.all,
                    !.wit = @ \cup (IF ev.part THEN {"segment_ends_inside_record"} ELSE {})
                              \cup (IF m.exp[Other(ev.c)] # <<>> /\ m.exp[ev.c] # <<>> THEN {"both_sides_pending"} ELSE {})]
    [] ev.k = "fin" -> [m1 EXCEPT !.fin[ev.c] = TRUE,
                                  !.wit = @ \cup (IF m.cn[ev.c] = "closed" THEN {"fin_after_close_notify"} ELSE {"bare_fin"})]
    [] ev.k = "child_send" ->
         [m1 EXCEPT !.expP[ev.c] = Append(@, <<ev.id, ev.len>>),
                    !.wit = @ \cup {"child_send_" \o ev.c}
                              \cup (IF m.exp[ev.c] # <<>> THEN {"send_while_inbound_pending"} ELSE {})
                              \cup (IF m.cn[ev.c] = "closed" THEN {"send_after_peer_close_notify"} ELSE {})]
    [] ev.k = "established" ->
         [m1 EXCEPT !.est[ev.c] = TRUE, !.hsfeed[ev.c] = TRUE,
                    !.wit = @ \cup (IF m.est[Other(ev.c)] THEN {"both_established"} ELSE {})]
    [] ev.k = "child_data" ->
         [m1 EXCEPT !.exp[ev.c] = Consume(@, ev.runs).q, !.dataStep[ev.c] = TRUE,
                    !.wit = @ \cup {"inner_got_" \o ev.c}
                              \cup (IF m.hsfeed[ev.c] THEN {"data_in_handshake_segment"} ELSE {})
                              \cup (IF Len(ev.runs) > 1 THEN {"records_coalesced"} ELSE {})
                              \cup (IF ~BothEst(m) THEN {"data_before_both_established"} ELSE {})]
    [] ev.k = "peer_recv" -> [m1 EXCEPT !.expP[ev.c] = Consume(@, ev.runs).q, !.wit = @ \cup {"peer_got_" \o ev.c}]
    [] ev.k = "child_closed" ->
         [m1 EXCEPT !.closed[ev.c] = TRUE, !.cn[ev.c] = IF @ = "sent" THEN "closed" ELSE @,
                    !.wit = @ \cup (IF m.cn[ev.c] = "sent" THEN {"close_notify_delivered"} ELSE {})
                              \cup (IF m.cn[ev.c] = "sent" /\ m.dataStep[ev.c] THEN {"data_then_close_same_segment"} ELSE {})]
    [] OTHER -> m1
Wit(m) == m.wit
=============================================================================
