------------------------------ MODULE TlsTunnel ------------------------------
(* Implementation-shaped model of TLS interception after / around the handshake:
     mitmproxy/proxy/tunnel.py   TunnelLayer._handle_event, _handshake_finished, event_to_child (_event_queue),
                                 _handle_command (OpenConnection -> command_to_reply_to)
     mitmproxy/proxy/layers/tls.py  TLSLayer.receive_handshake_data / receive_data / receive_close / send_data,
                                 ClientTLSLayer.receive_handshake_data (hello, start_server_tls), ServerTLSLayer
     mitmproxy/proxy/layer.py    Layer.handle_event pause queue (a layer blocked on OpenConnection)
   for the stack  ServerTLSLayer -> ClientTLSLayer -> inner layer.

   OpenSSL is a record codec.  What a peer has sent and mitmproxy has not yet received is net[c], a sequence of
   items; an item is what one peer action produced: a handshake flight [t |-> "hs", id |-> flight number], the
   post-handshake messages of a TLS 1.3 server ("post"), one application write ("data", id) or close_notify
   ("cn").  A TCP segment carries a number of half items (a record is useless until its second half arrived), so
   segments end at or inside records.  Everything mitmproxy sends reaches the peer at once (the harness pumps).

   Constants describe the TLS versions of the two peers:
     Flights[c]  peer flights mitmproxy must process before its handshake with c is complete (client: 2,
                 server: 1 for TLS 1.3, 2 for TLS 1.2)
     Early[c]    peer c may write application data as soon as it has produced its last flight (TLS 1.3 client,
                 TLS 1.2 server); otherwise once mitmproxy's last flight reached it
     Post[c]     items the peer emits after mitmproxy's last flight reached it (TLS 1.3 server: session tickets)
     MaxPeerData[c], MaxChildData[c], MaxCuts   bounds: application writes of peer c / of the inner layer to c,
                 segments that end inside a record
     Mode        "lazy": the inner layer opens the server later;  "server_first": tls_clienthello asks for the
                 server handshake first (ClientTLSLayer blocks on OpenConnection)                             *)
EXTENDS Mon_TlsTunnel, TLC
CONSTANTS Mode, Flights, Early, Post, MaxPeerData, MaxChildData, MaxCuts
VARIABLES net,      \* [Sides -> Seq(item)]
          off,      \* [Sides -> 0..1]: the first half of the head item has been delivered
          hs,       \* [Sides -> Nat]: peer flights processed by mitmproxy
          pdone,    \* [Sides -> BOOLEAN]: the peer may write application data
          cnsent, finned,
          shut,     \* [Sides -> BOOLEAN]: mitmproxy has read c's close_notify (SSL.RECEIVED_SHUTDOWN)
          ctls,     \* ClientTLSLayer: "hello" | "opening" (blocked in start_server_tls) | "hs" | "open"
          srv,      \* ServerTLSLayer tunnel: "closed" | "hs" | "open"
          inner,    \* inner layer: "nostart" | "ready" | "opening" (blocked on OpenConnection)
          q1,       \* ClientTLSLayer._paused_event_queue (Layer.handle_event while blocked)
          q2,       \* ClientTLSLayer._event_queue (TunnelLayer.event_to_child while ESTABLISHING)
          q3,       \* inner layer's _paused_event_queue
          pd, cd, cuts, mon, obs
vars == <<net, off, hs, pdone, cnsent, finned, shut, ctls, srv, inner, q1, q2, q3, pd, cd, cuts, mon, obs>>

Ev(e, c, ids) == [e |-> e, c |-> c, ids |-> ids]
Both(v) == [c \in Sides |-> v]

Init == /\ net = [c \in Sides |-> IF c = "client" THEN <<[t |-> "hs", id |-> 1]>> ELSE <<>>]   \* the ClientHello
        /\ off = Both(0) /\ hs = Both(0) /\ pdone = Both(FALSE) /\ cnsent = Both(FALSE) /\ finned = Both(FALSE)
        /\ shut = Both(FALSE) /\ ctls = "hello" /\ srv = "closed" /\ inner = "nostart"
        /\ q1 = <<>> /\ q2 = <<Ev("start", "client", <<>>)>> /\ q3 = <<>>       \* Start is queued by event_to_child
        /\ pd = Both(0) /\ cd = Both(0) /\ cuts = 0 /\ mon = MonInit /\ obs = <<>>

Live == mon.bad = <<>>
Emit(evs) == obs' = evs /\ mon' = FoldEvents(MonStep, mon, evs)

\* --- where an event for the inner layer goes (w: the part of the state one feed changes, plus its output) ------
ToInner(w, ev) ==                                                   \* Layer.handle_event of the inner layer
  IF w.inner = "opening" THEN [w EXCEPT !.q3 = Append(@, ev)]
  ELSE CASE ev.e = "start" -> [w EXCEPT !.inner = "ready", !.out = Append(@, [k |-> "child_start"])]
         [] ev.e = "data" -> [w EXCEPT !.out = Append(@, [k |-> "child_data", c |-> ev.c,
                                                            runs |-> [i \in 1..Len(ev.ids) |-> <<ev.ids[i], 1>>]])]
         [] ev.e = "closed" -> [w EXCEPT !.out = Append(@, [k |-> "child_closed", c |-> ev.c])]
FromCtls(w, ev) ==                                                  \* ClientTLSLayer.event_to_child
  IF w.ctls \in {"hello", "hs"} THEN [w EXCEPT !.q2 = Append(@, ev)] ELSE ToInner(w, ev)
FromStls(w, ev) ==                                                  \* ServerTLSLayer.event_to_child -> ClientTLSLayer.handle_event
  IF w.ctls = "opening" THEN [w EXCEPT !.q1 = Append(@, ev)] ELSE FromCtls(w, ev)
Route(w, c, ev) == IF c = "client" THEN FromCtls(w, ev) ELSE FromStls(w, ev)

Flight(f) == [t |-> "hs", id |-> f]
\* start_tls + receive_handshake_data(ClientHello): ServerHello flight out, the client answers with its last flight
StartClientTls(w) == [w EXCEPT !.ctls = "hs", !.net["client"] = Append(@, Flight(2)), !.pdone["client"] = Early["client"]]
\* OpenConnection(server) reaches the harness, ServerTLSLayer.start_handshake sends its ClientHello, the server answers
OpenServer(w) == [w EXCEPT !.srv = "hs", !.net["server"] = Append(@, Flight(1)),
                           !.pdone["server"] = (Flights["server"] = 1 /\ Early["server"])]
PostItems(c) == [i \in 1..Post[c] |-> [t |-> "post", id |-> 0]]

\* a complete peer flight f of side c is processed by do_handshake()
HsStep(w, c, f) ==
  LET w1 == [w EXCEPT !.hs[c] = f] IN
  IF f = Flights[c] THEN [w1 EXCEPT !.out = Append(@, [k |-> "established", c |-> c])]
  ELSE IF c = "client"
    THEN (IF Mode = "server_first" THEN OpenServer([w1 EXCEPT !.ctls = "opening"]) ELSE StartClientTls(w1))
    ELSE [w1 EXCEPT !.net[c] = Append(@, Flight(f + 1)), !.pdone[c] = (f + 1 = Flights[c] /\ Early[c])]

\* TunnelLayer._handshake_finished (+ the peer receiving mitmproxy's last flight)
Finished(w, c) ==
  LET w1 == [w EXCEPT !.pdone[c] = TRUE, !.net[c] = @ \o PostItems(c)] IN
  IF c = "client"
    THEN FoldEvents(ToInner, [w1 EXCEPT !.ctls = "open", !.q2 = <<>>], w1.q2)         \* replay _event_queue
    ELSE IF Mode = "server_first"                                                     \* OpenConnectionCompleted -> ClientTLSLayer resumes
      THEN LET w2 == StartClientTls([w1 EXCEPT !.srv = "open"]) IN
           FoldEvents(FromCtls, [w2 EXCEPT !.q1 = <<>>], w2.q1)
      ELSE LET w2 == [w1 EXCEPT !.srv = "open", !.inner = "ready", !.out = Append(@, [k |-> "open_done", ok |-> TRUE])] IN
           FoldEvents(ToInner, [w2 EXCEPT !.q3 = <<>>], w2.q3)

W0(first) == [net |-> net, hs |-> hs, pdone |-> pdone, shut |-> shut, ctls |-> ctls, srv |-> srv, inner |-> inner,
              q1 |-> q1, q2 |-> q2, q3 |-> q3, out |-> <<first>>]
Commit(w) == /\ net' = w.net /\ hs' = w.hs /\ pdone' = w.pdone /\ shut' = w.shut /\ ctls' = w.ctls /\ srv' = w.srv
             /\ inner' = w.inner /\ q1' = w.q1 /\ q2' = w.q2 /\ q3' = w.q3 /\ Emit(w.out)

\* one DataReceived(c, segment): bio_write, then receive_handshake_data / receive_data
Deliver(c, n) ==
  /\ Live /\ ~finned[c] /\ n \in 1..(2 * Len(net[c]) - off[c])
  /\ LET tot == off[c] + n
         k == tot \div 2
         part == tot % 2
         done == SubSeq(net[c], 1, k)
         rest == SubSeq(net[c], k + 1, Len(net[c]))
         flights == SelectSeq(done, LAMBDA it : it.t = "hs")
         datas == SelectSeq(done, LAMBDA it : it.t = "data")
         ids == [i \in 1..Len(datas) |-> datas[i].id]
         hasCn == \E i \in 1..Len(done) : done[i].t = "cn"
         final == flights # <<>> /\ flights[1].id = Flights[c]
     IN /\ (part = 1 => cuts < MaxCuts)
        /\ cuts' = cuts + part /\ off' = [off EXCEPT ![c] = part]
        \* (each stage is bound by a singleton quantifier so that TLC evaluates it once)
        /\ \E w0 \in {[W0([k |-> "deliver", c |-> c, all |-> (rest = <<>>), part |-> (part = 1)]) EXCEPT !.net[c] = rest]} :
           \E w1 \in {IF flights # <<>> THEN HsStep(w0, c, flights[1].id) ELSE w0} :
           \* receive_data: all plaintext of the segment is one DataReceived, then the close
           \E w2 \in {IF ids # <<>> THEN Route(w1, c, Ev("data", c, ids)) ELSE w1} :
           \E w3 \in {IF hasCn THEN Route([w2 EXCEPT !.shut[c] = TRUE], c, Ev("closed", c, <<>>)) ELSE w2} :
           \E w4 \in {IF final THEN Finished(w3, c) ELSE w3} : Commit(w4)
        /\ UNCHANGED <<cnsent, finned, pd, cd>>

\* payload byte values: one range per stream, so that the order of independent actions does not multiply states
PeerId(c) == (IF c = "client" THEN 10 ELSE 20) + pd[c] + 1
ChildId(c) == (IF c = "client" THEN 30 ELSE 40) + cd[c] + 1
\* the peer writes application data (one SSL_write = one record) / sends close_notify
PeerSend(c) ==
  /\ Live /\ pdone[c] /\ ~cnsent[c] /\ ~finned[c] /\ pd[c] < MaxPeerData[c]
  /\ net' = [net EXCEPT ![c] = Append(@, [t |-> "data", id |-> PeerId(c)])]
  /\ pd' = [pd EXCEPT ![c] = @ + 1]
  /\ Emit(<<[k |-> "peer_send", c |-> c, id |-> PeerId(c), len |-> 1]>>)
  /\ UNCHANGED <<off, hs, pdone, cnsent, finned, shut, ctls, srv, inner, q1, q2, q3, cd, cuts>>
PeerCloseNotify(c) ==
  /\ Live /\ pdone[c] /\ ~cnsent[c] /\ ~finned[c]
  /\ net' = [net EXCEPT ![c] = Append(@, [t |-> "cn", id |-> 0])] /\ cnsent' = [cnsent EXCEPT ![c] = TRUE]
  /\ Emit(<<[k |-> "peer_cn", c |-> c]>>)
  /\ UNCHANGED <<off, hs, pdone, finned, shut, ctls, srv, inner, q1, q2, q3, pd, cd, cuts>>

\* ConnectionClosed(c) from the transport, after everything c sent: TLSLayer.receive_close
Fin(c) ==
  /\ Live /\ ~finned[c] /\ net[c] = <<>> /\ hs[c] = Flights[c]
  /\ (IF c = "client" THEN ctls = "open" ELSE srv = "open")
  /\ finned' = [finned EXCEPT ![c] = TRUE]
  /\ \E w0 \in {W0([k |-> "fin", c |-> c])} :
     \E w1 \in {IF shut[c] THEN w0 ELSE Route(w0, c, Ev("closed", c, <<>>))} : Commit(w1)
  /\ UNCHANGED <<off, cnsent, pd, cd, cuts>>

\* the inner layer sends: TLSLayer.send_data (sendall + tls_interact); the harness hands the record to the peer
ChildSend(c) ==
  /\ Live /\ inner = "ready" /\ (c = "server" => srv = "open") /\ ~finned[c] /\ cd[c] < MaxChildData[c]
  /\ cd' = [cd EXCEPT ![c] = @ + 1]
  /\ Emit(<<[k |-> "child_send", c |-> c, id |-> ChildId(c), len |-> 1],
            [k |-> "peer_recv", c |-> c, runs |-> <<<<ChildId(c), 1>>>>]>>)
  /\ UNCHANGED <<net, off, hs, pdone, cnsent, finned, shut, ctls, srv, inner, q1, q2, q3, pd, cuts>>

\* the inner layer opens the server connection and blocks: TunnelLayer._handle_command(OpenConnection)
ChildOpen ==
  /\ Live /\ Mode = "lazy" /\ inner = "ready" /\ srv = "closed"
  /\ \E w \in {OpenServer([W0([k |-> "child_open"]) EXCEPT !.inner = "opening"])} : Commit(w)
  /\ UNCHANGED <<off, cnsent, finned, pd, cd, cuts>>

Next == \/ \E c \in Sides, n \in 1..8 : Deliver(c, n)
        \/ \E c \in Sides : PeerSend(c)
        \/ \E c \in Sides : PeerCloseNotify(c)
        \/ \E c \in Sides : Fin(c)
        \/ \E c \in Sides : ChildSend(c)
        \/ ChildOpen
Spec == Init /\ [][Next]_vars
\* witnesses only record which antecedents were exercised; they must not multiply the states TLC explores
View == <<net, off, hs, pdone, cnsent, finned, shut, ctls, srv, inner, q1, q2, q3, pd, cd, cuts,
          [mon EXCEPT !.wit = {}], obs>>
Report == mon.bad # <<>> => PrintT(<<"BAD", mon.bad>>)
=============================================================================
