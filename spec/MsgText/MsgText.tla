------------------------------- MODULE MsgText -------------------------------
(* Implementation-shaped model (a decision table) of http.Message.set_text / get_text and
   net/http/headers.infer_content_encoding.

   Inputs are classes:
     T  content-type family: "absent" (no header), "garbage" (no slash: parse_content_type fails), "plain", "octet",
        "html", "xhtml" (contains "html" and "xml"), "xml", "svg" (contains "xml"), "css", "json", "js"
     P  charset parameter: "none", "latin-1", "utf-8", "UTF-8", "utf-16", "utf-32", "utf-16le", "gb2312", "ascii",
        "unknown" (no such codec), "quoted" (the value keeps its quotes; Python still finds utf-8), "nontext" (a codec that
        does not turn str into bytes, e.g. none / hex)
     N  spelling of the parameter NAME: "lower" (charset=) or "other" (Charset=, CHARSET=, ...).  The code looks the
        parameter up with params.get("charset"): any other spelling is not seen when inferring, and the UTF-8 fallback
        then ADDS a lower-case charset parameter after the existing one
     D  what the text starts with: "none", "feff" (U+FEFF), "lat16le" / "lat16be" / "lat8" (latin-1 characters whose
        bytes are a UTF-16 / UTF-8 byte-order mark), "meta_X" / "xml_X" / "css_X" (a declaration naming charset X in
        {latin1, utf8, unk}), "late_css" (a CSS @charset rule that is not the very first thing: not a declaration)
     S  repertoire of the rest: "ascii", "latin1", "cjk" (in gb2312), "gbk" (in gbk, not in gb2312),
        "gbdiv" (U+2015, U+30FB: in gb2312 and in gb18030, but Python's two codecs map the same bytes to different characters),
        "astral", "surrogate"
   Codecs: "latin1","ascii","utf8","utf16","utf32","utf16le","gb18030","unk","nontext", and on the read side also
   "utf8sig","utf16be","utf32le".                                                                           *)
EXTENDS Mon_MsgText, TLC
CONSTANTS Ts, Ps, Ds, Ss,
          NameCasePs    \* charset classes that are also tried with the parameter name spelled Charset / CHARSET
VARIABLES hdr, pc, mon, obs
vars == <<hdr, pc, mon, obs>>

Parsable(T) == T \notin {"absent", "garbage"}
HasHtml(T) == T \in {"html", "xhtml"}
HasXml(T)  == T \in {"xml", "svg", "xhtml"}

Codec(P) == CASE P = "latin-1" -> "latin1" [] P \in {"utf-8", "UTF-8"} -> "utf8" [] P = "utf-16" -> "utf16"
              [] P = "utf-32" -> "utf32" [] P = "utf-16le" -> "utf16le" [] P = "gb2312" -> "gb18030"   \* aliasing
              [] P = "ascii" -> "ascii" [] P = "nontext" -> "nontext"
              [] P = "quoted" -> "utf8"            \* codecs.lookup normalises the quotes away
              [] OTHER -> "unk"

DeclKind(D) == IF D \in {"meta_latin1", "meta_utf8", "meta_unk"} THEN "meta"
               ELSE IF D \in {"xml_latin1", "xml_utf8", "xml_unk"} THEN "xml"
               ELSE IF D \in {"css_latin1", "css_utf8", "css_unk"} THEN "css" ELSE "none"
DeclCodec(D) == IF D \in {"meta_latin1", "xml_latin1", "css_latin1"} THEN "latin1"
                ELSE IF D \in {"meta_utf8", "xml_utf8", "css_utf8"} THEN "utf8" ELSE "unk"

\* infer_content_encoding(content_type, content): bom = the BOM the content starts with, seen = kind of declaration
\* the regexes can see in the content ("none" when there is none or the content is not ASCII-compatible)
Infer(T, P, bom, seen, D) ==
  IF bom # "none" THEN (CASE bom = "utf8" -> "utf8sig" [] bom = "utf16le" -> "utf16le" [] bom = "utf16be" -> "utf16be"
                          [] bom = "utf32le" -> "utf32le" [] OTHER -> "utf32be")
  ELSE IF Parsable(T) /\ P # "none" THEN Codec(P)                           \* charset parameter of the header
  ELSE IF T = "json" THEN "utf8"
  ELSE IF HasHtml(T) THEN (IF seen = "meta" THEN DeclCodec(D) ELSE "utf8")
  ELSE IF HasXml(T) THEN (IF seen = "xml" THEN DeclCodec(D) ELSE "utf8")
  ELSE IF T = "js" THEN "utf8"
  ELSE IF T = "css" THEN (IF seen = "css" THEN DeclCodec(D) ELSE "utf8")
  ELSE "latin1"

\* character classes a text is made of
Chars(D, S) == {S} \cup (CASE D = "feff" -> {"feff"} [] D \in {"lat16le", "lat16be", "lat8"} -> {"latin1"}
                           [] D = "none" -> {} [] OTHER -> {"ascii"})
CanEncode(c, chars) ==
  CASE c = "latin1" -> chars \subseteq {"ascii", "latin1"}
    [] c = "ascii" -> chars \subseteq {"ascii"}
    [] c \in {"utf8", "utf16", "utf32", "utf16le", "gb18030"} -> "surrogate" \notin chars
    [] OTHER -> FALSE                                                         \* unk: LookupError -> ValueError

\* the BOM the encoded body starts with
BomOf(used, D) ==
  CASE used = "utf16" -> "utf16le"                                            \* Python's utf-16 / utf-32 codecs write one
    [] used = "utf32" -> "utf32le"
    [] D = "feff" /\ used \in {"utf8", "utf8se"} -> "utf8"
    [] D = "feff" /\ used = "utf16le" -> "utf16le"
    [] D = "lat16le" /\ used = "latin1" -> "utf16le"
    [] D = "lat16be" /\ used = "latin1" -> "utf16be"
    [] D = "lat8" /\ used = "latin1" -> "utf8"
    [] OTHER -> "none"
AsciiCompatible(used) == used \in {"latin1", "ascii", "utf8", "utf8se", "gb18030"}

\* does decoding what `used` wrote with codec g give the text back?
Same(used, g, D, S) ==
  LET chars == Chars(D, S) IN
  CASE used = "utf8se" -> g = "utf8" /\ "surrogate" \notin chars             \* strict utf-8 rejects the escaped bytes
    [] used \in {"utf16", "utf32"} -> FALSE                                  \* read as utf-16le / utf-32le: BOM kept as U+FEFF
    [] g = "utf8sig" -> FALSE                                                 \* strips the leading U+FEFF / misreads latin-1
    [] used = g -> TRUE
    [] used = "utf8" /\ g = "latin1" -> chars \subseteq {"ascii"}
    [] OTHER -> FALSE

\* ---- set_text then get_text -------------------------------------------------------------------------------
Round(T, P0, N, D, S) ==
  LET P == IF N = "lower" THEN P0 ELSE "none"                               \* what params.get("charset") finds
      e0 == Infer(T, P, "none", "none", D)                                  \* set_text infers from the header only
      chars == Chars(D, S)
      raises == e0 = "nontext"                                               \* str -> str / bytes-only codec: TypeError escapes
      ok == CanEncode(e0, chars)
      used == IF ok THEN e0 ELSE "utf8se"                                   \* fallback: utf-8 + surrogateescape ...
      T2 == IF ok \/ Parsable(T) THEN T ELSE "plain"                        \* ... and the header is rewritten
      P2 == IF ok THEN P ELSE "utf-8"
      bom == BomOf(used, D)
      seen == IF AsciiCompatible(used) THEN DeclKind(D) ELSE "none"
      g == Infer(T2, P2, bom, seen, D)
      hascs == Parsable(T2) /\ P2 # "none"
      setev == [k |-> "settext", T |-> T, P |-> P0, N |-> N, D |-> D, S |-> S, arg |-> 1,
                exc |-> IF raises THEN "TypeError" ELSE "", rep |-> TRUE, hascs |-> IF raises THEN Parsable(T) /\ P # "none" ELSE hascs,
                rawbom |-> IF raises THEN "none" ELSE bom, decl |-> DeclKind(D)]
  IN IF raises THEN <<setev>>
     ELSE <<setev, [k |-> "gettext", out |-> IF Same(used, g, D, S) THEN "same" ELSE "notsame"]>>

\* the model's get event carries the coarse outcome; for its own monitor run it is expanded to exc / res
Expand(ev) == IF ev.k # "gettext" THEN ev
              ELSE [k |-> "gettext", exc |-> "", res |-> IF ev.out = "same" THEN 1 ELSE 2]

Init == hdr = <<"-", "-", "-">> /\ pc = "new" /\ mon = MonInit /\ obs = <<>>
Live == mon.bad = <<>>
Valid(T, P, N) == /\ Parsable(T) \/ P = "none"
                  /\ N = "lower" \/ P \in NameCasePs
NewMsg(T, P, N) == /\ pc = "new" /\ Valid(T, P, N) /\ hdr' = <<T, P, N>> /\ pc' = "set" /\ obs' = <<>> /\ UNCHANGED mon
SetGet(D, S) == /\ Live /\ pc = "set" /\ pc' = "done" /\ UNCHANGED hdr
                /\ LET evs == Round(hdr[1], hdr[2], hdr[3], D, S) IN
                   obs' = evs /\ mon' = FoldEvents(MonStep, mon, [i \in 1..Len(evs) |-> Expand(evs[i])])
Next == \/ \E T \in Ts, P \in Ps, N \in {"lower", "other"} : NewMsg(T, P, N)
        \/ \E D \in Ds, S \in Ss : SetGet(D, S)
Spec == Init /\ [][Next]_vars
Report == mon.bad # <<>> => PrintT(<<"BAD", mon.bad>>)
=============================================================================
