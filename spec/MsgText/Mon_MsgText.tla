----------------------------- MODULE Mon_MsgText -----------------------------
(* Monitor for C32: message text round-trips for every content type.

   Event records (props/C32.py; strings are interned to integers, 0 = no value):
     [k |-> "settext", T, P, N, D, S,    classes of the inputs (N: "lower" = the parameter name is spelled charset, "other" = Charset / CHARSET / ...)
                                          classes of the inputs (content-type family, charset parameter, what the
                                          text starts with / declares about itself, its character repertoire)
                       arg,              id of the assigned string
                       exc,              "" or the class of the exception msg.text = ... raised
                       rep,              oracle (the least demanding reading of a header that may carry the parameter in
                                          several spellings: true if ANY charset parameter, or the absence of a lower-case one, fits):
                                          the text is encodable (Python codecs, gb2312/gbk read as gb18030,
                                          surrogateescape) in the charset the Content-Type declares AFTER the call,
                                          or it declares none
                       hascs,            the Content-Type after the call carries a (lower-case) charset parameter
                       rawbom,           which byte-order mark the raw body starts with ("none", "utf8", "utf16le", ...)
                       decl]             which in-body declaration the text carries ("none", "meta", "xml", "css")
     [k |-> "gettext", exc, res]         msg.text read back
   The signature of a violation names the feature of the input that the failure is attributed to.          *)
EXTENDS Verif

MonInit == [bad |-> <<>>, wit |-> {}, last |-> [k |-> "none"]]

Cause(s) == IF s.P = "nontext" /\ s.N = "lower" THEN "charset_names_non_text_codec"
            ELSE IF s.S = "surrogate" THEN "surrogate_escaped_text"
            ELSE IF s.k = "settext" /\ s.rawbom # "none" THEN "body_starts_with_bom"
            ELSE IF s.k = "settext" /\ s.decl # "none" /\ ~s.hascs THEN "body_declares_charset"
            ELSE "other"

Clause(m, ev) ==
  CASE ev.k = "settext" ->
         IF ev.exc # "" THEN <<"C32.set_raised", Cause([ev EXCEPT !.rawbom = "none", !.decl = "none"]), ev.exc>>
         ELSE IF ~ev.rep THEN <<"C32.charset_not_updated", Cause(ev)>>
         ELSE <<>>
    [] ev.k = "gettext" ->
         IF m.last.k # "settext" \/ m.last.exc # "" THEN <<>>
         ELSE IF ev.exc # "" THEN <<"C32.roundtrip", Cause(m.last), "raised">>
         ELSE IF ev.res # m.last.arg THEN <<"C32.roundtrip", Cause(m.last), "differs">>
         ELSE <<>>
    [] OTHER -> <<>>

W(c, s) == IF c THEN {s} ELSE {}
MonStep(m, ev) ==
  LET m1 == [m EXCEPT !.bad = Clause(m, ev)] IN
  CASE ev.k = "settext" ->
         [m1 EXCEPT !.last = ev,
                    !.wit = @ \cup {"set"} \cup W(ev.exc = "" /\ ev.hascs /\ ev.P \in {"none", "ascii", "latin-1", "unknown"}
                                                  /\ ev.S \notin {"ascii"}, "charset_updated")
                              \cup W(ev.exc = "" /\ ev.decl # "none", "text_with_declaration")
                              \cup W(ev.exc = "" /\ ev.rawbom # "none", "body_with_bom")
                              \cup W(ev.S = "surrogate", "surrogate_text")
                              \cup W(ev.exc = "" /\ ev.N # "lower" /\ ev.hascs, "fallback_beside_other_spelling")
                              \cup W(ev.exc = "" /\ ev.N # "lower" /\ ~ev.hascs, "other_spelling_kept")]
    [] ev.k = "gettext" ->
         [m1 EXCEPT !.wit = @ \cup W(m.last.k = "settext" /\ m.last.exc = "" /\ ev.exc = "" /\ ev.res = m.last.arg, "roundtrip_ok")
                              \cup W(m.last.k = "settext" /\ m.last.exc = "" /\ ev.exc = "" /\ ev.res = m.last.arg
                                     /\ m.last.S \notin {"ascii", "latin1"}, "roundtrip_ok_non_latin1")]
    [] OTHER -> m1
Wit(m) == m.wit
=============================================================================
