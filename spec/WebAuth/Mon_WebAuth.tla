---------------------------- MODULE Mon_WebAuth ----------------------------
(* Monitor for C46: mitmweb requires authentication and blocks cross-site state changes.

   Event records (projected from the real tornado Application of mitmproxy.tools.web by props/C46.py):
     [k |-> "req",
      route  |-> name of the matched route (handler class name),  cls |-> "api" | "index" | "ws" | "static",
      method |-> HTTP method,  impl |-> BOOLEAN: the route's handler class implements that method (an endpoint),
      kept   |-> BOOLEAN: sent on the keep-alive connection that carried the client's previous request (FALSE: on a
                 fresh connection).  The statement speaks about what a REQUEST carries, so kept never excuses anything;
                 it is recorded to make sure requests following an authenticated one on the same connection are tried,
      cred   |-> class of the password/token carried (header, query or form),
      credok |-> "yes": it is the valid password in a documented carrier, "no": it is not the valid password,
                 "amb": the valid password in an undocumented carrier (no clause speaks about it),
      ck     |-> session cookie presented: 0 none, n > 0 the n-th auth cookie this client received from the server,
                 n < 0 a cookie the server never issued (unsigned, garbage, tampered, signed with another key ...),
      setck  |-> 0, or the number of the auth cookie set by this response,
      xsrf   |-> class of the XSRF material,  xsrfok |-> BOOLEAN: a token matching the XSRF cookie is carried,
      sfs    |-> value of Sec-Fetch-Site ("" = header absent),
      status |-> HTTP status (0: connection closed without an answer),
      changed|-> BOOLEAN: the state projection (flows, options, event log, subscriptions) differs after the request,
      leak   |-> BOOLEAN: flow data (planted canary strings, flow ids) occurs in the answer or in pushed frames,
      pred   |-> the model's outcome class (drift bookkeeping only; never read here)]
     [k |-> "restart"]   a new instance of the web application (new cookie secret): earlier sessions are gone
     [k |-> "newpw"]     the operator changed web_password (recorded only)

   A session cookie is valid iff this instance issued it in an answer to an authenticated request.
   Statement, clause by clause:
     requests with neither a valid password/token nor a valid session cookie: status 403 on every endpoint, no state
     change, no flow data;  state-changing requests without a valid XSRF token are refused;  state-changing
     requests marked cross-site by the browser are refused.
   Scope decisions: a method the route does not implement is not an endpoint: it must be refused (status >= 400), not
   necessarily with 403.  Static assets (cls = "static", needed by the login page) must not change state or disclose
   flow data, their status is not judged.                                                               *)
EXTENDS Verif

MonInit == [bad |-> <<>>, wit |-> {}, issued |-> {}, ever |-> {},
            connauth |-> FALSE]   \* the current connection has carried a request with the valid password

Safe == {"GET", "HEAD", "OPTIONS"}
CookieValid(m, ev) == ev.ck > 0 /\ ev.ck \in m.issued
Authorised(m, ev) == ev.credok = "yes" \/ CookieValid(m, ev)
Unauth(m, ev) == ev.credok = "no" /\ ~CookieValid(m, ev)
StateChanging(ev) == ev.method \notin Safe \/ ev.changed
Refused(ev) == (ev.status = 0 \/ ev.status >= 400) /\ ~ev.changed
CkClass(m, ev) == IF ev.ck = 0 THEN "none" ELSE IF ev.ck < 0 THEN "forged"
                  ELSE IF ev.ck \in m.issued THEN "valid" ELSE IF ev.ck \in m.ever THEN "stale" ELSE "unissued"
SfsClass(ev) == IF ev.sfs \in {"", "same-origin", "none"} THEN "sfs_own" ELSE "sfs_foreign"
StatusClass(ev) == IF ev.status = 0 THEN "closed" ELSE IF ev.status < 300 THEN "2xx" ELSE IF ev.status < 400 THEN "3xx"
                   ELSE IF ev.status < 500 THEN "4xx" ELSE "5xx"

Clause(m, ev) ==
  IF ev.k # "req" THEN <<>>
  ELSE IF Unauth(m, ev) /\ ev.changed
       THEN <<"C46.unauthenticated_state_change", ev.route, ev.method, ev.cred, CkClass(m, ev)>>
  ELSE IF Unauth(m, ev) /\ ev.leak
       THEN <<"C46.unauthenticated_disclosure", ev.route, ev.method, ev.cred, CkClass(m, ev)>>
  ELSE IF Unauth(m, ev) /\ ev.cls # "static" /\ ev.impl /\ ev.status # 403
       THEN <<"C46.unauthenticated_not_403", ev.route, ev.method, SfsClass(ev), StatusClass(ev)>>
  ELSE IF Unauth(m, ev) /\ ev.cls # "static" /\ ~ev.impl /\ ev.status # 0 /\ ev.status < 400
       THEN <<"C46.unauthenticated_not_refused", ev.route, ev.method, SfsClass(ev), StatusClass(ev)>>
  ELSE IF StateChanging(ev) /\ ~ev.xsrfok /\ ~Refused(ev)
       THEN <<"C46.state_change_without_xsrf", ev.route, ev.method, ev.xsrf>>
  ELSE IF StateChanging(ev) /\ ev.sfs = "cross-site" /\ ~Refused(ev)
       THEN <<"C46.cross_site_state_change", ev.route, ev.method>>
  ELSE <<>>

MonStep(m, ev) ==
  IF ev.k = "restart" THEN [m EXCEPT !.issued = {}, !.connauth = FALSE, !.wit = @ \cup {"restart"}]
  ELSE IF ev.k # "req" THEN [m EXCEPT !.wit = @ \cup {ev.k}]
  ELSE
    LET granted == ev.setck > 0 /\ Authorised(m, ev) /\ ev.status # 403 IN
    [m EXCEPT !.bad = Clause(m, ev),
              !.issued = IF granted THEN @ \cup {ev.setck} ELSE @,
              !.ever = IF granted THEN @ \cup {ev.setck} ELSE @,
              !.connauth = (ev.kept /\ @) \/ ev.credok = "yes",
              !.wit = @ \cup (IF Unauth(m, ev) /\ ev.impl /\ ev.cls # "static" THEN {"unauth_endpoint"} ELSE {})
                        \cup (IF Unauth(m, ev) /\ ~ev.impl THEN {"unauth_unimplemented"} ELSE {})
                        \cup (IF Unauth(m, ev) /\ ev.cls = "ws" THEN {"unauth_ws"} ELSE {})
                        \cup (IF Unauth(m, ev) /\ ev.kept /\ m.connauth /\ ev.impl /\ ev.cls # "static"
                              THEN {"unauth_on_authenticated_connection"} ELSE {})
                        \cup (IF Unauth(m, ev) /\ ev.kept THEN {"unauth_on_kept_connection"} ELSE {})
                        \cup (IF Unauth(m, ev) /\ ev.cls = "static" THEN {"unauth_static"} ELSE {})
                        \cup (IF Unauth(m, ev) /\ ev.ck < 0 THEN {"forged_cookie"} ELSE {})
                        \cup (IF Unauth(m, ev) /\ ev.ck > 0 /\ ev.ck \in m.ever THEN {"stale_cookie"} ELSE {})
                        \cup (IF Unauth(m, ev) /\ ev.cred # "none" THEN {"wrong_credential"} ELSE {})
                        \cup (IF CookieValid(m, ev) /\ ev.credok # "yes" /\ ev.status < 400 THEN {"cookie_session_ok"} ELSE {})
                        \cup (IF ev.credok = "yes" /\ ev.status < 400 THEN {"password_ok"} ELSE {})
                        \cup (IF granted THEN {"session_granted"} ELSE {})
                        \cup (IF Authorised(m, ev) /\ ev.changed THEN {"authorised_state_change"} ELSE {})
                        \cup (IF Authorised(m, ev) /\ ev.leak THEN {"authorised_sees_flows"} ELSE {})
                        \cup (IF Authorised(m, ev) /\ ev.cls = "ws" /\ ev.status = 101 THEN {"authorised_ws"} ELSE {})
                        \cup (IF Authorised(m, ev) /\ ev.method \notin Safe /\ ~ev.xsrfok THEN {"authorised_no_xsrf"} ELSE {})
                        \cup (IF Authorised(m, ev) /\ ev.method \notin Safe /\ ev.xsrfok /\ ev.sfs = "cross-site"
                              THEN {"authorised_cross_site"} ELSE {})]
Wit(m) == m.wit
=============================================================================
