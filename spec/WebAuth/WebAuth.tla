------------------------------ MODULE WebAuth ------------------------------
(* Implementation-shaped model of the request pipeline of mitmweb:
     tornado.web.RequestHandler._execute  (method check, check_xsrf_cookie, prepare, method dispatch)
     mitmproxy/tools/web/app.py           RequestHandler.prepare (Sec-Fetch-Site), AuthRequestHandler._require_auth
                                          (wraps every implemented method), get_current_user (signed cookie),
                                          Application (cookie_secret generated per instance)
     mitmproxy/tools/web/webaddons.py     WebAuth.is_valid_password
   The client talks over keep-alive connections: `open` says that its current connection has carried a request and is
   still usable; a probe is sent either on that connection (kept) or on a fresh one.  Authentication is decided per
   REQUEST (_require_auth runs for every request; nothing is remembered per connection), so `kept` does not appear in
   Outcome.
   A behaviour is a short session: up to MaxPre preparatory steps (logins that fill the client's cookie jar, a restart
   of the application, a password change), then ONE probe request out of Rows / SessRows, then nothing.
   Outcome of a request, in the order the code decides it:
     1. method not in SUPPORTED_METHODS                           -> 405
     2. method not GET/HEAD/OPTIONS and no matching XSRF token    -> 403   (check_xsrf_cookie)
     3. prepare(): api/index handler, unsafe method, Sec-Fetch-Site present and not same-origin/none
                                                                  -> PrepareStatus = 403 (tornado.web.HTTPError; it
                                                                     was 500 before /repo 94d6b06b5, when prepare
                                                                     raised tornado.httpclient.HTTPError)
     4. method not implemented by the handler class               -> 405   (unwrapped _unimplemented_method)
     5. static file handler                                       -> handler (no authentication)
     6. _require_auth: no valid cookie and no valid password      -> 403
     7. otherwise the handler runs ("handler": status decided by the handler, not predicted)
   A valid password reaches _require_auth as "Authorization: Bearer <pw>", or - when there is no non-empty Bearer
   value - as the argument "token" (query or form body).  A successful password login sets a new signed cookie. *)
EXTENDS Mon_WebAuth, TLC
CONSTANTS Routes,      \* route names
          Kind,        \* [route |-> "api" | "index" | "ws" | "static"]
          Impl,        \* [route |-> set of implemented methods]
          Rows,        \* probe rows <<route, method, cred, ck, xsrf, sfs>> tried from the initial state
          SessRows,    \* probe rows tried after a prefix (they use the cookie jar or the old password)
          PrepareStatus, \* 403: prepare() raises tornado.web.HTTPError (500 with the old tornado.httpclient.HTTPError)
          Logins,      \* login flavours: subset of {"bearer_valid", "query_valid", "form_valid"}
          MaxPre
VARIABLES valid,   \* cookie numbers the running instance accepts
          jar,     \* cookie numbers the client holds, oldest first
          open,    \* the client's current keep-alive connection is usable (it carried the last request)
          nextCk, pwChanged, n, probed, mon, obs
vars == <<valid, jar, open, nextCk, pwChanged, n, probed, mon, obs>>

Std == {"GET", "HEAD", "POST", "DELETE", "PATCH", "PUT", "OPTIONS"}
XsrfOk(x) == x \in {"pair_hdr", "pair_arg", "pair_form", "pair_remask", "pair_csrfhdr"}
\* what the code accepts as password (is_valid_password of the value it extracts)
CredAccepted(c) == c \in {"bearer_valid", "query_valid", "form_valid", "bearer_empty_query_valid"}
\* what the scenario knows about the credential
CredOk(c) == IF c \in {"bearer_valid", "query_valid", "form_valid", "bearer_empty_query_valid"} THEN "yes"
             ELSE IF c \in {"scheme_lower_valid", "basic_valid", "bearer_wrong_query_valid"} THEN "amb" ELSE "no"
ForgedNo(ck) == CASE ck = "plain" -> -1 [] ck = "garbage" -> -2 [] ck = "tampered" -> -3 [] ck = "forged" -> -4
                  [] ck = "forged_v1" -> -5 [] ck = "xsrf_only" -> -6 [] OTHER -> 0

Init == /\ valid = {} /\ jar = <<>> /\ open = FALSE /\ nextCk = 1 /\ pwChanged = FALSE /\ n = 0 /\ probed = FALSE
        /\ mon = MonInit /\ obs = <<>>
Live == mon.bad = <<>> /\ ~probed
Emit(evs) == obs' = evs /\ mon' = FoldEvents(MonStep, mon, evs)

Outcome(route, method, cred, ckvalid, xsrf, sfs) ==
  IF method \notin Std THEN "s405"
  ELSE IF method \notin Safe /\ ~XsrfOk(xsrf) THEN "s403"
  ELSE IF Kind[route] \in {"api", "index"} /\ method \notin Safe /\ sfs \notin {"", "same-origin", "none"} THEN "sprep"
  ELSE IF method \notin Impl[route] THEN "s405"
  ELSE IF Kind[route] = "static" THEN "handler"
  ELSE IF ~ckvalid /\ ~CredAccepted(cred) THEN "s403"
  ELSE "handler"
Status(o) == CASE o = "s405" -> 405 [] o = "s403" -> 403 [] o = "sprep" -> PrepareStatus [] OTHER -> 0

\* one request through the pipeline; ckno = number of the presented cookie (0 none, < 0 forged)
Req(route, method, cred, ckno, xsrf, sfs, kept) ==
  LET ckvalid == ckno > 0 /\ ckno \in valid
      o == Outcome(route, method, cred, ckvalid, xsrf, sfs)
      grant == o = "handler" /\ Kind[route] # "static" /\ ~ckvalid     \* set_signed_cookie in _require_auth
  IN [ev |-> [k |-> "req", route |-> route, cls |-> Kind[route], method |-> method,
              impl |-> method \in Impl[route], cred |-> cred, credok |-> CredOk(cred), kept |-> kept,
              ck |-> ckno, setck |-> IF grant THEN nextCk ELSE 0,
              xsrf |-> xsrf, xsrfok |-> XsrfOk(xsrf), sfs |-> sfs,
              status |-> Status(o), changed |-> FALSE, leak |-> FALSE, pred |-> o],
      grant |-> grant]

\* a login: GET / with the password (form flavour: the login form, POST / with token and _xsrf in the body)
Login(c) ==
  /\ Live /\ n < MaxPre /\ n' = n + 1 /\ c \in Logins
  /\ open' = TRUE                     \* a login opens a fresh connection and leaves it open
  /\ LET r == IF c = "form_valid" THEN Req("IndexHandler", "POST", c, 0, "pair_form", "same-origin", FALSE)
                                  ELSE Req("IndexHandler", "GET", c, 0, "none", "", FALSE) IN
     /\ Emit(<<r.ev>>)
     /\ valid' = IF r.grant THEN valid \cup {nextCk} ELSE valid
     /\ jar' = IF r.grant THEN Append(jar, nextCk) ELSE jar
     /\ nextCk' = IF r.grant THEN nextCk + 1 ELSE nextCk
  /\ UNCHANGED <<pwChanged, probed>>

\* mitmweb is restarted: Application.__init__ draws a new cookie_secret
Restart ==
  /\ Live /\ n < MaxPre /\ n' = n + 1 /\ jar # <<>> /\ valid # {}
  /\ valid' = {} /\ open' = FALSE /\ Emit(<<[k |-> "restart"]>>)
  /\ UNCHANGED <<jar, nextCk, pwChanged, probed>>

\* the operator sets a new web_password (WebAuth.configure); sessions stay, the old password stops working
NewPw ==
  /\ Live /\ n < MaxPre /\ n' = n + 1 /\ ~pwChanged
  /\ pwChanged' = TRUE /\ Emit(<<[k |-> "newpw"]>>)
  /\ UNCHANGED <<valid, jar, open, nextCk, probed>>

Probe(row, kept) ==
  /\ Live /\ probed' = TRUE /\ UNCHANGED <<n, pwChanged>>
  /\ kept => open
  /\ open' = TRUE
  /\ \/ n = 0 /\ row \in Rows
     \/ n > 0 /\ row \in SessRows
  /\ row[4] \in {"jar", "jar_first"} => jar # <<>>
  /\ row[3] \in {"bearer_old", "query_old"} => pwChanged
  /\ LET ckno == CASE row[4] = "jar" -> jar[Len(jar)] [] row[4] = "jar_first" -> jar[1] [] OTHER -> ForgedNo(row[4])
         r == Req(row[1], row[2], row[3], ckno, row[5], row[6], kept) IN
     /\ Emit(<<r.ev>>)
     /\ valid' = IF r.grant THEN valid \cup {nextCk} ELSE valid
     /\ jar' = IF r.grant THEN Append(jar, nextCk) ELSE jar
     /\ nextCk' = IF r.grant THEN nextCk + 1 ELSE nextCk

Next == \/ \E c \in Logins : Login(c)
        \/ Restart
        \/ NewPw
        \/ \E row \in Rows \cup SessRows, kept \in BOOLEAN : Probe(row, kept)
Spec == Init /\ [][Next]_vars
Report == mon.bad # <<>> => PrintT(<<"BAD", mon.bad>>)
=============================================================================
