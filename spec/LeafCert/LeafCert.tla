------------------------------ MODULE LeafCert ------------------------------
(* Implementation-shaped model of how mitmproxy chooses and issues the certificate it presents to a client.

   An environment <<ca, tz>> (which CA the certstore was loaded with, the process time zone in hours) is the initial
   condition; then up to MaxConns client connections share one certstore.  A connection is a record
     [sni, local, addr, upcn, upsans, uporg, upopt, icls]   (tokens, "none" = absent; upsans a sequence; uporg = the
     upstream certificate has an organization; upopt = the upstream_cert option; icls = class of the requested
     identity, carried through for the witnesses only)
   A follow-up connection may be `nested`: a second TLS handshake INSIDE an explicit-proxy outer hop (secure web proxy,
   CONNECT, inner ClientHello) on the same Client object.  Each handshake is two critical sections of the real code:

     GetCert(c)  mitmproxy/addons/tlsconfig.py  TlsConfig.get_cert: altnames = upstream CN + upstream SANs (if
                 upstream_cert and a server certificate is known), then SNI or local address, then server address;
                 first occurrence kept; cn = first altname.  _ip_or_dns_name() IDNA-encodes the upstream CN, the SNI
                 and the addresses and raises UnicodeError for a string with an empty or > 63 byte label (BadIdna);
                 since bf9975be6 such an upstream CN is skipped (LegacyCnRaises: the hook raised, no certificate).
     Issue       mitmproxy/certs.py  CertStore.get_cert (cache keyed by (cn, sans); a hit returns the earlier entry)
                 and dummy_cert: issuer = CA subject, validity = now - 2 d .. now + 197 d with now a NAIVE LOCAL time
                 that cryptography reads as UTC (so both ends move by the zone offset), EKU serverAuth, CN only if
                 shorter than 64 characters (Long tokens have none), O = upstream organization, SANs = altnames,
                 marked critical exactly when the subject is empty (25ceae060; LegacyCritSan: whenever the CN was left
                 out, even if O makes the subject non-empty, which a strict verifier rejects -- CritSan); then the
                 handshake presents it.  The cache key ignores O.
   (STORE_CAP eviction is C17's subject and not modelled: MaxConns is far below the capacity.)               *)
EXTENDS Mon_LeafCert, TLC
CONSTANTS Envs,      \* set of <<ca, tz>>
          MainEnv,   \* the environment in which every connection of Conns is tried first
          Conns,     \* connections that may come first (in MainEnv)
          ConnsAlt,  \* subset of Conns tried first in the other environments
          Conns2,    \* connections that may follow
          MaxConns,
          Long,      \* tokens whose text is >= 64 characters
          BadIdna,   \* tokens whose text the idna codec rejects
          DnsIp,     \* set of <<d, i>>: token d is the IP literal of token i written as a dNSName (another SAN type,
                     \* same text: as an untyped CN it reads as the address i)
          KeepOuterSni,   \* named deviation (FALSE = the current code), see SniAfterHello
          LegacyCnRaises, LegacyCritSan   \* named deviations before bf9975be6 / 25ceae060 (FALSE = the current code)
VARIABLES env, pc, cur, store, n, csni, olocal, mon, obs
vars == <<env, pc, cur, store, n, csni, olocal, mon, obs>>

NoCur == [c |-> [sni |-> "none", local |-> "none", addr |-> "none", upcn |-> "none", upsans |-> <<>>, uporg |-> FALSE,
                 upopt |-> FALSE, icls |-> "none", nested |-> FALSE],
          cn |-> "none", alt |-> <<>>]

\* csni   = the client connection's `sni` attribute (connection.Client.sni), which get_cert reads;
\* olocal = local address of an explicit-proxy outer hop that is still open ("none" otherwise): the next handshake may
\*          be NESTED in it (TLS-over-TLS after CONNECT) -- same Client object, so csni is history.
Init == /\ env \in Envs /\ pc = "idle" /\ cur = NoCur /\ store = {} /\ n = 0 /\ csni = "none" /\ olocal = "none"
        /\ mon = MonInit /\ obs = <<>>

Live == mon.bad = <<>>
Emit(evs) == obs' = evs /\ mon' = FoldEvents(MonStep, mon, evs)

RECURSIVE Dedup(_, _)
Dedup(s, seen) == IF s = <<>> THEN <<>>
                  ELSE IF Head(s) \in seen THEN Dedup(Tail(s), seen)
                  ELSE <<Head(s)>> \o Dedup(Tail(s), seen \cup {Head(s)})
Opt(x) == IF x = "none" THEN <<>> ELSE <<x>>

\* layers/tls.py ClientTLSLayer: __init__ of a nested layer resets client.sni (and the other TLS attributes) to None,
\* a fresh connection starts with None; receive_handshake_data then assigns client_hello.sni (None if absent/invalid).
\* So whatever csni was, after the hello it is exactly this handshake's SNI.  KeepOuterSni = TRUE names the deviation
\* "no reset, and a hello without SNI does not overwrite": the outer hop's SNI then survives into the nested handshake.
SniAfterHello(c) == IF c.sni # "none" THEN c.sni
                    ELSE IF KeepOuterSni /\ c.nested THEN csni ELSE "none"
Ident(c) == IF c.sni # "none" THEN c.sni ELSE c.local        \* what the client asked for (ground truth, for the record)
CodeId(c) == IF SniAfterHello(c) # "none" THEN SniAfterHello(c) ELSE c.local   \* what get_cert reads from client.sni
UpNames(c) == Opt(c.upcn) \o c.upsans                      \* names of the upstream certificate, if one is known
\* bf9975be6: an upstream CN the idna codec rejects is ignored (its SANs are still copied)
UpUsed(c) == (IF c.upcn \in BadIdna /\ ~LegacyCnRaises THEN <<>> ELSE Opt(c.upcn)) \o c.upsans
AltNames(c) == Dedup((IF c.upopt THEN UpUsed(c) ELSE <<>>) \o <<CodeId(c)>> \o Opt(c.addr), {})
\* strings that go through _ip_or_dns_name unguarded (upstream SANs are copied as GeneralName objects, not re-encoded)
Encoded(c) == (IF c.upopt /\ LegacyCnRaises THEN Opt(c.upcn) ELSE <<>>) \o <<CodeId(c)>> \o Opt(c.addr)
Raises(c) == \E i \in 1..Len(Encoded(c)) : Encoded(c)[i] \in BadIdna
RaiseSrc(c) == IF c.upopt /\ c.upcn \in BadIdna THEN "upstream_cn" ELSE "other"

CnTok(t) == IF \E p \in DnsIp : p[1] = t THEN (CHOOSE p \in DnsIp : p[1] = t)[2] ELSE t
Pool == IF n = 0 THEN (IF env = MainEnv THEN Conns ELSE ConnsAlt) ELSE Conns2
GetCert(c) ==
  /\ Live /\ pc = "idle" /\ n < MaxConns /\ c \in Pool
  /\ c.nested => (olocal # "none" /\ c.local = olocal /\ c.addr # "none")
  /\ csni' = SniAfterHello(c)
  \* (an outer hop has no upstream server yet, hence no upstream certificate: only such hops are nested into)
  /\ olocal' = IF ~c.nested /\ c.addr = "none" /\ c.upcn = "none" /\ c.upsans = <<>> /\ ~Raises(c) THEN c.local ELSE "none"
  /\ n' = n + 1 /\ UNCHANGED <<env, store>>
  /\ IF Raises(c)
       THEN /\ pc' = "idle" /\ cur' = NoCur
            /\ Emit(<<[k |-> "raised", exc |-> "UnicodeError", src |-> RaiseSrc(c)]>>)
       ELSE /\ pc' = "issue"
            /\ cur' = [c |-> c, cn |-> AltNames(c)[1], alt |-> AltNames(c)]
            /\ Emit(<<>>)

\* store: set of <<key, org>>: what was generated for a key (the first request decides the organization)
Cached(key) == \E e \in store : e[1] = key
OrgOf(key) == (CHOOSE e \in store : e[1] = key)[2]
CritSan == "san_critical_with_subject"
Issue ==
  /\ Live /\ pc = "issue"
  /\ LET c == cur.c
         key == <<cur.cn, cur.alt>>
         tz == env[2]
         org == IF Cached(key) THEN OrgOf(key) ELSE (c.upopt /\ c.uporg)
     IN /\ store' = IF Cached(key) THEN store ELSE store \cup {<<key, org>>}
        /\ Emit(<<[k |-> "leaf", ident |-> Ident(c),
                   allowed |-> Dedup(<<Ident(c)>> \o Opt(c.addr) \o UpNames(c), {}),
                   names |-> (IF cur.cn \in Long THEN <<>> ELSE <<CnTok(cur.cn)>>) \o cur.alt,
                   issuer_ok |-> TRUE, nb |-> (tz - 48) * 3600, na |-> (tz - 48 + 199 * 24) * 3600,
                   eku_server |-> TRUE, verify |-> IF LegacyCritSan /\ cur.cn \in Long /\ org THEN CritSan
                              ELSE IF ~\E i \in 1..Len(cur.alt) : cur.alt[i] = Ident(c)
                                   THEN "leaf_certificate_has_no_matching_subjectaltname" ELSE "ok",
                   fresh |-> ~Cached(key),
                   icls |-> c.icls, ca |-> env[1]]>>)
  /\ pc' = "idle" /\ cur' = NoCur /\ UNCHANGED <<env, n, csni, olocal>>

\* (a constant bound keeps TLC's edge label GetCert(c); the guard c \in Pool is inside the action)
Next == \/ \E c \in Conns \cup Conns2 : GetCert(c)
        \/ Issue
Spec == Init /\ [][Next]_vars
Report == mon.bad # <<>> => PrintT(<<"BAD", mon.bad>>)
=============================================================================
