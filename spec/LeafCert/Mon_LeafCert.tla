---------------------------- MODULE Mon_LeafCert ----------------------------
(* Monitor for C16: generated leaf certificates are valid for the identity the client asked for.

   One record per client TLS handshake in which mitmproxy presents a generated certificate (props/C16.py projects the
   chain an independent TLS client received):
     [k |-> "leaf",
      ident     |-> token of the identity the client asked for: its SNI, or -- without SNI -- the local address,
      allowed   |-> <<tokens>>: ident, the server address (if known) and every name (CN, SANs) of the upstream
                    certificate (if one is known),
      names     |-> <<tokens>>: CN (if present) and SANs of the presented certificate; a name that is none of the
                    scenario's identities is a token "f1", "f2", ...,
      issuer_ok |-> BOOLEAN: issuer name = subject of mitmproxy's CA and the signature verifies under the CA's key,
      nb, na    |-> not_before - now, not_after - now in seconds (now = time of the handshake),
      eku_server|-> BOOLEAN: ExtendedKeyUsage contains serverAuth,
      verify    |-> "ok" or the failure class of cryptography's strict WebPKI server verifier for `ident` with the
                    CA's root as the only trust anchor and the presented intermediates,
      fresh     |-> BOOLEAN (prediction only: the certificate was generated for this handshake, not cached),
      icls, ca  |-> class of ident (dns, long, idn, ip4, ip6, local4, local6) and of the CA (default, chain):
                    used for non-vacuity witnesses only]
     [k |-> "raised", exc |-> exception class, src |-> feature of the scenario]: the hook that must supply the
                    certificate raised, so no certificate was presented
     [k |-> "no_cert"]: the handshake did not deliver a certificate for another reason
   Tokens are identity names "kind:n" interned per scenario (DNS names compare case-insensitively as A-labels, IP
   addresses by value).                                                                                       *)
EXTENDS Verif

MonInit == [bad |-> <<>>, wit |-> {}]

Foreign(ev) == { i \in 1..Len(ev.names) : ~\E j \in 1..Len(ev.allowed) : ev.allowed[j] = ev.names[i] }

Clause(ev) ==
  IF ev.k = "raised" THEN <<"C16.no_certificate", ev.exc, ev.src>>
  ELSE IF ev.k = "no_cert" THEN <<"C16.no_certificate", "handshake_failed", ev.src>>
  ELSE IF ev.k # "leaf" THEN <<>>
  ELSE IF ~ev.issuer_ok THEN <<"C16.not_issued_by_ca">>
  ELSE IF ~(ev.nb <= 0 /\ ev.na >= 0) THEN <<"C16.not_valid_at_issue", IF ev.nb > 0 THEN "not_yet" ELSE "expired">>
  ELSE IF ~ev.eku_server THEN <<"C16.no_server_auth">>
  ELSE IF ev.verify # "ok" THEN <<"C16.does_not_verify", ev.verify>>
  ELSE IF Foreign(ev) # {} THEN <<"C16.foreign_name">>
  ELSE <<>>

Witness(ev) ==
  IF ev.k # "leaf" THEN {ev.k} ELSE
     {"leaf", "ident_" \o ev.icls, "ca_" \o ev.ca}
     \cup (IF Len(ev.allowed) > 1 THEN {"other_identities_known"} ELSE {})
     \cup (IF Len(ev.names) > 0 /\ ev.names[1] # ev.ident THEN {"first_name_is_not_ident"} ELSE {})
     \cup (IF \E i \in 1..Len(ev.names) : ev.names[i] = ev.ident THEN {"ident_named"} ELSE {})
     \cup (IF ~ev.fresh THEN {"cached"} ELSE {"fresh"})

MonStep(m, ev) == [m EXCEPT !.bad = Clause(ev), !.wit = @ \cup Witness(ev)]
Wit(m) == m.wit
=============================================================================
