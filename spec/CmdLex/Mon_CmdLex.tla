------------------------------ MODULE Mon_CmdLex ------------------------------
(* Monitor for C45: command-line arguments reach commands unchanged.

   Strings are sequences of code points (integers), so TLC compares them exactly.
   Event records (projected by props/C45.py from command_lexer.quote + CommandManager.execute):
     [k |-> "line",  pt |-> "str" | "raw",       \* parameter type of the registered test command: varargs of str / of CmdArgs
                     sent |-> <<arg, ...>>,      \* the strings that were quoted with command_lexer.quote
                     line |-> string]            \* the command line that was built (prediction only)
     [k |-> "parts", parts |-> <<string, ...>>]  \* CommandManager.parse_partial(line) values (prediction only)
     [k |-> "call",  outcome |-> "called" | exception class name,
                     recv |-> <<arg, ...>>]      \* what the registered command received; one record per execution of
                                                 \* the line (the same line may be executed again on the same manager)

   Clauses (only what the statement says):
     C45.not_executed  the command line built from quoted arguments is not executed (any exception)
     C45.split         the command receives a different NUMBER of arguments (not split exactly at unquoted whitespace)
     C45.arg_changed   some argument differs from the string that was quoted
   Signature: parameter type and abstract features of the offending argument (quote class, has backslash, has TAB). *)
EXTENDS Verif

DQ == 34
SQ == 39
BS == 92
TAB == 9
LexWs == {32, 9, 10, 13}                                 \* what the lexer treats as whitespace
PySpace == {9, 10, 11, 12, 13, 28, 29, 30, 31, 32, 133, 160, 5760, 8232, 8233, 8239, 8287, 12288}
           \cup 8192..8202                                 \* str.isspace()

QuoteClass(s) == LET S == ToSet(s) IN
  IF DQ \in S /\ SQ \in S THEN "bothq" ELSE IF DQ \in S THEN "dq" ELSE IF SQ \in S THEN "sq"
  ELSE IF s = <<>> THEN "empty"
  ELSE IF S \subseteq (PySpace \ LexWs) THEN "owsonly"
  ELSE IF S \cap LexWs # {} THEN "ws" ELSE "plain"
Tag(s) == <<QuoteClass(s), IF BS \in ToSet(s) THEN "bs" ELSE "nobs", IF TAB \in ToSet(s) THEN "tab" ELSE "notab">>
PlainTag == <<"plain", "nobs", "notab">>

FirstIdx(S) == CHOOSE i \in S : \A j \in S : i <= j
\* the argument a whole-line failure is attributed to: the first one satisfying Pref, else the first non-plain, else 1
Culprit(sent, Pref(_)) ==
  LET P == { i \in 1..Len(sent) : Pref(sent[i]) }
      N == { i \in 1..Len(sent) : Tag(sent[i]) # PlainTag }
  IN IF sent = <<>> THEN <<"none", "nobs", "notab">>
     ELSE IF P # {} THEN Tag(sent[FirstIdx(P)])
     ELSE IF N # {} THEN Tag(sent[FirstIdx(N)]) ELSE Tag(sent[1])

HasBs(s) == BS \in ToSet(s)
IsOws(s) == QuoteClass(s) = "owsonly"

MonInit == [bad |-> <<>>, wit |-> {}, pt |-> "", sent |-> <<>>, open |-> FALSE, calls |-> 0]
\* an argument that itself begins and ends with the same quote character (unquoting twice would strip it)
SelfQuoted(s) == Len(s) > 1 /\ s[1] \in {DQ, SQ} /\ s[1] = s[Len(s)]

LineStep(m, ev) ==
  LET tags == { Tag(ev.sent[i]) : i \in 1..Len(ev.sent) }
      w == {"pt_" \o ev.pt} \cup { "q_" \o t[1] : t \in tags } \cup { t[2] : t \in tags } \cup { t[3] : t \in tags }
           \cup (IF Len(ev.sent) > 1 THEN {"multi"} ELSE {}) \cup (IF Len(ev.sent) = 0 THEN {"noargs"} ELSE {})
  IN [m EXCEPT !.pt = ev.pt, !.sent = ev.sent, !.open = TRUE, !.calls = 0, !.wit = @ \cup w]

CallStep(m, ev) ==
  LET D == { i \in 1..Len(m.sent) : i <= Len(ev.recv) /\ ev.recv[i] # m.sent[i] }
      bad == IF ~m.open THEN <<>>
             ELSE IF ev.outcome # "called" THEN <<"C45.not_executed", m.pt>> \o Culprit(m.sent, HasBs)
             ELSE IF Len(ev.recv) # Len(m.sent) THEN <<"C45.split", m.pt>> \o Culprit(m.sent, IsOws)
             ELSE IF D # {} THEN <<"C45.arg_changed", m.pt>> \o Tag(m.sent[FirstIdx(D)])
             ELSE <<>>
  IN [m EXCEPT !.bad = bad, !.calls = @ + 1,      \* every execution of the line is judged, not only the first
               !.wit = @ \cup (IF m.open THEN {"call_checked"} ELSE {})
                         \cup (IF m.open /\ m.calls >= 1 THEN {"call_repeated"} ELSE {})
                         \cup (IF m.open /\ m.calls >= 1 /\ \E i \in 1..Len(m.sent) : SelfQuoted(m.sent[i])
                               THEN {"repeat_self_quoted"} ELSE {})]

MonStep(m, ev) == IF ev.k = "line" THEN LineStep(m, ev)
                  ELSE IF ev.k = "call" THEN CallStep(m, ev)
                  ELSE m
Wit(m) == m.wit
=============================================================================
