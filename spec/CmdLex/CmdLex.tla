------------------------------- MODULE CmdLex -------------------------------
(* Implementation-shaped model of the console's quoting rule and command execution path:
     BuildLine = consoleaddons.console_command: " ".join(command_lexer.quote(x) for x in args)   (separator generalised)
     Parse     = CommandManager.parse_partial: command_lexer.expr.parse_string(line, parse_all=True)
                 (ExpandTabs = TRUE: pyparsing expands TABs to 8-column tab stops before it parses -- the code before
                  commit eda6c3c2d; FALSE: expr.parse_with_tabs() is set, TABs reach the lexer -- the code as it is)
     Call      = CommandManager.execute (possibly several times for the same line: parse_partial is lru_cached and
                 returns the same list object again): drop Space parts (part.isspace()), unquote, call_strings ->
                 Command.prepare_args -> types.*.parse per argument (str: backslash escapes are interpreted)
   Strings are sequences of code points.  The arguments, the parameter type and the separator are chosen in Init
   (one initial state per scenario).

   Deviations of the code from the property that the model reproduces (see findings_proposed/C45.md):
     quote() writes \x22 for a double quote when both quote characters occur; only the str type turns it back;
     the str type interprets every backslash escape (quote() does not protect backslashes);
     (repaired by eda6c3c2d, kept as ExpandTabs = TRUE for the revert mutant: pyparsing expanded TABs, also inside
      quoted arguments;)
     an unquoted part consisting only of non-ASCII-lexer whitespace (VT, FF, NBSP, ...) is taken for a separator. *)
EXTENDS Mon_CmdLex, TLC
CONSTANTS Alphabet,   \* set of code points arguments are built from
          MaxLen,     \* maximal length of a single argument (one-argument lines)
          MaxLen2,    \* maximal length of each argument on two-argument lines
          Seps,       \* set of separator strings (non-empty sequences over LexWs)
          SepLen,     \* lines whose arguments have at most this total length are built with every separator of Seps,
                      \* longer ones with a single space
          CmdName,    \* function pt -> name of the registered test command (code points)
          ExpandTabs, \* BOOLEAN, see Parse above
          MaxExec     \* how often the same line is executed on the same CommandManager
VARIABLES args, pt, sep, pc, line, parts, execs, mon, obs
vars == <<args, pt, sep, pc, line, parts, execs, mon, obs>>

Live == mon.bad = <<>>
Emit(evs) == obs' = evs /\ mon' = FoldEvents(MonStep, mon, evs)

Strs(n) == UNION { [1..k -> Alphabet] : k \in 0..n }
ArgLists == {<<>>} \cup { <<a>> : a \in Strs(MaxLen) } \cup { <<a, b>> : a \in Strs(MaxLen2), b \in Strs(MaxLen2) }

RECURSIVE Concat(_)
Concat(ss) == IF ss = <<>> THEN <<>> ELSE Head(ss) \o Concat(Tail(ss))
SepsFor(al) == IF Len(Concat(al)) <= SepLen THEN Seps ELSE {<<32>>}

Init == /\ args \in ArgLists /\ pt \in DOMAIN CmdName /\ sep \in SepsFor(args)
        /\ pc = "start" /\ line = <<>> /\ parts = <<>> /\ execs = 0 /\ mon = MonInit /\ obs = <<>>

HasAny(s, S) == \E i \in 1..Len(s) : s[i] \in S

\* command_lexer.quote
Quote(v) ==
  IF v # <<>> /\ ~HasAny(v, {SQ, DQ, 32, 13, 10, 9}) THEN v
  ELSE IF ~HasAny(v, {DQ}) THEN <<DQ>> \o v \o <<DQ>>
  ELSE IF ~HasAny(v, {SQ}) THEN <<SQ>> \o v \o <<SQ>>
  ELSE <<DQ>> \o Concat([i \in 1..Len(v) |-> IF v[i] = DQ THEN <<BS, 120, 50, 50>> ELSE <<v[i]>>]) \o <<DQ>>

\* console_command: cmd, then every quoted argument preceded by the separator, then a trailing space
BuildLine ==
  /\ Live /\ pc = "start"
  /\ pc' = "built" /\ UNCHANGED <<args, pt, sep, parts, execs>>
  /\ LET l == CmdName[pt] \o Concat([i \in 1..Len(args) |-> sep \o Quote(args[i])]) \o <<32>>
     IN /\ line' = l
        /\ Emit(<<[k |-> "line", pt |-> pt, sent |-> args, line |-> l]>>)

\* str.expandtabs(8), as pyparsing's parse_string applies it unless parse_with_tabs() was called on the grammar
RECURSIVE Expand(_, _, _)
Expand(s, i, col) ==
  IF i > Len(s) THEN <<>>
  ELSE IF s[i] = TAB THEN LET n == 8 - (col % 8) IN [j \in 1..n |-> 32] \o Expand(s, i + 1, col + n)
  ELSE IF s[i] \in {10, 13} THEN <<s[i]>> \o Expand(s, i + 1, 0)
  ELSE <<s[i]>> \o Expand(s, i + 1, col + 1)

\* end (exclusive) of the maximal run starting at i whose characters satisfy: in S (inS) / not in S
RunEnd(s, i, S, inS) == LET E == { e \in i..(Len(s) + 1) : \A j \in i..(e - 1) : (s[j] \in S) = inS }
                        IN CHOOSE e \in E : \A f \in E : f <= e
\* command_lexer.expr: PartialQuotedString | Word(" \r\n\t") | CharsNotIn("'\" \r\n\t"), repeated
RECURSIVE Lex(_, _)
Lex(s, i) ==
  IF i > Len(s) THEN <<>>
  ELSE IF s[i] \in {DQ, SQ}
       THEN LET close == RunEnd(s, i + 1, {s[i]}, FALSE)        \* index of the closing quote, or Len+1 at EOF
                e == IF close <= Len(s) THEN close + 1 ELSE close
            IN <<SubSeq(s, i, e - 1)>> \o Lex(s, e)
  ELSE IF s[i] \in LexWs
       THEN LET e == RunEnd(s, i, LexWs, TRUE) IN <<SubSeq(s, i, e - 1)>> \o Lex(s, e)
  ELSE LET e == RunEnd(s, i, LexWs \cup {DQ, SQ}, FALSE) IN <<SubSeq(s, i, e - 1)>> \o Lex(s, e)

Parse ==
  /\ Live /\ pc = "built"
  /\ pc' = "parsed" /\ UNCHANGED <<args, pt, sep, line, execs>>
  /\ LET ps == Lex(IF ExpandTabs THEN Expand(line, 1, 0) ELSE line, 1)
     IN /\ parts' = ps
        /\ Emit(<<[k |-> "parts", parts |-> ps]>>)

IsSpacePart(p) == p # <<>> /\ \A i \in 1..Len(p) : p[i] \in PySpace          \* str.isspace()
Unquote(x) == IF Len(x) > 1 /\ x[1] \in {DQ, SQ} /\ x[1] = x[Len(x)] THEN SubSeq(x, 2, Len(x) - 1) ELSE x

\* types._StrType.parse: escape_sequences.sub(unicode-escape decode); result <<ok, string>>
Oct(c) == c >= 48 /\ c <= 55
HexVal(c) == IF c >= 48 /\ c <= 57 THEN c - 48 ELSE IF c >= 97 /\ c <= 102 THEN c - 87
             ELSE IF c >= 65 /\ c <= 70 THEN c - 55 ELSE -1
Simple == (BS :> BS) @@ (SQ :> SQ) @@ (DQ :> DQ) @@ (97 :> 7) @@ (98 :> 8) @@ (102 :> 12) @@ (110 :> 10)
          @@ (114 :> 13) @@ (116 :> 9) @@ (118 :> 11)
RECURSIVE StrParse(_, _)
StrParse(s, i) ==
  IF i > Len(s) THEN <<TRUE, <<>>>>
  ELSE IF s[i] # BS \/ i = Len(s) THEN LET r == StrParse(s, i + 1) IN <<r[1], <<s[i]>> \o r[2]>>
  ELSE LET c == s[i + 1] IN
    IF c \in DOMAIN Simple THEN LET r == StrParse(s, i + 2) IN <<r[1], <<Simple[c]>> \o r[2]>>
    ELSE IF Oct(c) THEN
      LET n == IF i + 2 <= Len(s) /\ Oct(s[i + 2]) THEN (IF i + 3 <= Len(s) /\ Oct(s[i + 3]) THEN 3 ELSE 2) ELSE 1
          v == IF n = 1 THEN c - 48 ELSE IF n = 2 THEN 8 * (c - 48) + (s[i + 2] - 48)
               ELSE 64 * (c - 48) + 8 * (s[i + 2] - 48) + (s[i + 3] - 48)
          r == StrParse(s, i + 1 + n)
      IN <<r[1], <<v>> \o r[2]>>
    ELSE IF c = 120 /\ i + 3 <= Len(s) /\ s[i + 2] # 10 /\ s[i + 3] # 10 THEN      \* x.. ("." is not a newline)
      IF HexVal(s[i + 2]) >= 0 /\ HexVal(s[i + 3]) >= 0
      THEN LET r == StrParse(s, i + 4) IN <<r[1], <<16 * HexVal(s[i + 2]) + HexVal(s[i + 3])>> \o r[2]>>
      ELSE <<FALSE, <<>>>>                          \* UnicodeDecodeError (a ValueError) -> CommandError
    ELSE LET r == StrParse(s, i + 1) IN <<r[1], <<BS>> \o r[2]>>                   \* no escape: kept

Convert(a) == IF pt = "str" THEN StrParse(a, 1) ELSE <<TRUE, a>>

\* execute: parse_partial(line) -- an lru_cache hit from the second time on: `parts` is the CACHED list, which execute
\* must only read -- then unquote the non-space parts, first is the command name, convert the rest and call.
\* The same line may be executed again on the same CommandManager (a key binding, command history).
Call ==
  /\ Live /\ pc = "parsed" /\ execs < MaxExec
  /\ execs' = execs + 1 /\ UNCHANGED <<args, pt, sep, pc, line, parts>>
  /\ LET vals == SelectSeq(parts, LAMBDA p : ~IsSpacePart(p))
         argv == [i \in 1..(Len(vals) - 1) |-> Convert(Unquote(vals[i + 1]))]
         ok   == \A i \in 1..Len(argv) : argv[i][1]
     IN Emit(<<[k |-> "call", outcome |-> IF ok THEN "called" ELSE "CommandError",
                recv |-> IF ok THEN [i \in 1..Len(argv) |-> argv[i][2]] ELSE <<>>]>>)

Next == \/ BuildLine
        \/ Parse
        \/ Call
Spec == Init /\ [][Next]_vars
Report == mon.bad # <<>> => PrintT(<<"BAD", mon.bad>>)
=============================================================================
