------------------------------- MODULE H2Mux -------------------------------
(* Implementation-shaped model of the HTTP/2 -> HTTP/2 path of mitmproxy:

     Http2Server  (_http2.py: handle_h2_event, _handle_event for Response* events, is_open_for_us / is_closed)
     HttpLayer    (__init__.py: streams routing, make_stream, DropStream)
     HttpStream   (__init__.py: state_wait_for_request_headers, state_consume_request_body, state_stream_request_body,
                   state_wait_for_response_headers, state_consume_response_body, state_stream_response_body,
                   send_response, flow_done, handle_protocol_error)
     Http2Client  (_http2.py: _handle_event = id translation + stream_queue + can_resume_queue, _handle_event2,
                   handle_h2_event, provisional_max_concurrency)

   One action = one delivery of one frame by a peer (one DataReceived), including the completion of every hook it
   triggers (the harness completes hooks at once, in FIFO order, after the feed returned).  The operators follow
   the code:  ToServer = Http2Client._handle_event(HttpEvent),  Handle2 = _handle_event2 / Http2Connection._handle_event,
   Resume = the can_resume_queue tail,  ToClient = Http2Server._handle_event(HttpEvent),  Release = make_server_connection
   + the SendHttp(...) sequence of the stream.  Client stream i has id 2i-1, server stream j has id 2j-1.
   Request data chunk k of stream i is the integer 10i+k, response chunk k of server stream j is 130+10(j-1)+k.

   Flow control is modelled towards the client (cfg.fc): per-stream and connection windows, BufferedH2Connection's parked
   chunks / queued trailers, WINDOW_UPDATE on a stream or on the connection in either order (CWu).
   Not modelled (left to the random driver of props/C05.py, which the monitor judges all the same): several frames
   in one delivery, flow control towards the server, connection loss.                                                      *)
EXTENDS Mon_H2Mux, TLC
CONSTANTS N,            \* bound on the number of client streams (domain of the per-stream functions)
          Configs,      \* set of scenario configurations; Init picks one (so that one TLC run covers them all):
                        \*   n        number of client streams (<= N)
                        \*   maxdata  data chunks per message
                        \*   rs, ps   sequences of BOOLEAN: request / response of client stream i is streamed (flow.*.stream = True)
                        \*   limit0   MAX_CONCURRENT_STREAMS in the server preface (0: not announced)
                        \*   late     the server preface is withheld until the server first acts
                        \*   setvals  values of later SETTINGS frames,  maxset: how many of them
                        \*   ck, sk   frame kinds the client / the server may use
                        \*   fc       flow control towards the client, in units of one "granule" of body bytes:
                        \*            [sw: initial stream window, cw: connection window, chunk: units per DATA chunk,
                        \*             wus: sizes of the client's WINDOW_UPDATEs, maxwu: how many]  (sw = cw = 1000: none)
          Prov          \* Http2Client.provisional_max_concurrency (10 in the code)
VARIABLES cfg, st, sv, mux, mon, obs
vars == <<cfg, st, sv, mux, mon, obs>>
CS == 1..N
MaxData == cfg.maxdata
RS == cfg.rs
PS == cfg.ps
Limit0 == cfg.limit0
Late == cfg.late
SetVals == cfg.setvals
MaxSet == cfg.maxset
CKinds == cfg.ck
SKinds == cfg.sk
FC == cfg.fc
Big == 1000                    \* "the window is opened completely" (final drain)
Rep(x, k) == [q \in 1..k |-> x]

St0 == [cph |-> "idle", cn |-> 0, ctrl |-> FALSE, hs |-> FALSE, live |-> FALSE, f |-> 0,
        cst |-> "none", sst |-> "none", rbuf |-> <<>>, rtrl |-> FALSE, cout |-> "none",
        \* BufferedH2Connection (client side): stream window, stream_buffers[i] (SendH2Data items), stream_trailers[i],
        \* and whether END_STREAM has really gone out
        sw |-> 0, park |-> <<>>, ptrl |-> FALSE, cend |-> FALSE]
Sv0 == [src |-> 0, sph |-> "none", sn |-> 0, lend |-> FALSE, prst |-> FALSE, hstate |-> "none"]
Init == /\ cfg \in Configs
        /\ st = [i \in CS |-> [St0 EXCEPT !.sw = cfg.fc.sw]]
        /\ sv = [j \in CS |-> Sv0]
        /\ mux = [our |-> [i \in CS |-> 0], queue |-> <<>>, nextj |-> 1, prov |-> TRUE, limit |-> NoLimit,
                  conn |-> "none", pref |-> FALSE, nextf |-> 1, nextc |-> 1, nset |-> 0,
                  cw |-> cfg.fc.cw, border |-> <<>>, nwu |-> 0]   \* connection window, key order of stream_buffers
        /\ mon = MonInit /\ obs = <<>>

Ended == obs # <<>> /\ obs[Len(obs)].k = "end"
Live == mon.bad = <<>> /\ ~Ended
Emit(evs) == obs' = evs /\ mon' = FoldEvents(MonStep, mon, evs)

\* ---- events between HttpStream and the connections ----
H(end) == [t |-> "H", end |-> end, d |-> <<>>]
D(d) == [t |-> "D", end |-> FALSE, d |-> d]
T == [t |-> "T", end |-> FALSE, d |-> <<>>]
E == [t |-> "E", end |-> FALSE, d |-> <<>>]
X == [t |-> "X", end |-> FALSE, d |-> <<>>]

ReqBody(i, n) == [k \in 1..(n * cfg.fc.chunk) |-> 10 * i + ((k - 1) \div cfg.fc.chunk)]
RespId(j, k) == 130 + 10 * (j - 1) + k

\* ---- Http2Client ----
\* h2: a stream counts against the limit until it is closed (both sides ended, or reset by either side)
ClosedP(s) == s.prst \/ s.sph = "rst" \/ (s.lend /\ s.sph = "ended")
OpenCount(w) == Cardinality({j \in CS : w.sv[j].src # 0 /\ ~ClosedP(w.sv[j])})
Lim(w) == IF w.mux.prov THEN Prov ELSE w.mux.limit
NoFree(w) == OpenCount(w) >= Lim(w)
\* self.stream_queue[event.stream_id].append(event): one entry per waiting stream, in order of first arrival
Enq(q, i, ev) == IF \E k \in 1..Len(q) : q[k].i = i
                 THEN [k \in 1..Len(q) |-> IF q[k].i = i THEN [q[k] EXCEPT !.evs = Append(@, ev)] ELSE q[k]]
                 ELSE Append(q, [i |-> i, evs |-> <<ev>>])

Handle2(w, i, j, ev) ==
  LET s == w.sv[j]
      openForUs == ~s.lend /\ ~ClosedP(s)
  IN CASE ev.t = "H" ->
            [w EXCEPT !.sv[j].sph = "open", !.sv[j].lend = ev.end, !.sv[j].hstate = "exp",
                      !.out = @ \o <<[k |-> "s_req", t |-> j, ms |-> <<i>>]>>
                                \o (IF ev.end THEN <<[k |-> "s_end", t |-> j]>> ELSE <<>>)]
       [] ev.t = "D" -> IF openForUs THEN [w EXCEPT !.out = Append(@, [k |-> "s_data", t |-> j, d |-> ev.d])] ELSE w
       [] ev.t = "T" -> IF openForUs
                        THEN [w EXCEPT !.sv[j].lend = TRUE,
                                       !.out = @ \o <<[k |-> "s_trl", t |-> j, ms |-> <<i>>], [k |-> "s_end", t |-> j]>>]
                        ELSE w
       [] ev.t = "E" -> IF openForUs
                        THEN [w EXCEPT !.sv[j].lend = TRUE, !.out = Append(@, [k |-> "s_end", t |-> j])]
                        ELSE w
       [] ev.t = "X" -> IF ~ClosedP(s)
                        THEN [w EXCEPT !.sv[j].prst = TRUE, !.out = Append(@, [k |-> "s_rst", t |-> j])]
                        ELSE w

RECURSIVE ToServer(_, _, _), Resume(_), Feed(_, _, _)
ToServer(w, i, ev) ==
  IF w.mux.our[i] = 0
  THEN IF NoFree(w) THEN [w EXCEPT !.mux.queue = Enq(@, i, ev)]           \* ... and return: no resume
       ELSE LET j == w.mux.nextj                                          \* get_next_available_stream_id
                w1 == [w EXCEPT !.mux.our[i] = j, !.mux.nextj = j + 1, !.sv[j].src = i]
            IN Resume(Handle2(w1, i, j, ev))
  ELSE Resume(Handle2(w, i, w.mux.our[i], ev))
Resume(w) ==
  IF w.mux.queue # <<>> /\ ~NoFree(w)
  THEN LET e == Head(w.mux.queue) IN Feed([w EXCEPT !.mux.queue = Tail(@)], e.i, e.evs)   \* FIFO pop
  ELSE w
Feed(w, i, evs) == IF evs = <<>> THEN w ELSE Feed(ToServer(w, i, Head(evs)), i, Tail(evs))

\* server preface: first SETTINGS seen -> provisional_max_concurrency = None
Preface(w) ==
  Resume([w EXCEPT !.mux.pref = TRUE, !.mux.prov = FALSE,
                   !.mux.limit = IF Limit0 = 0 THEN @ ELSE Limit0,
                   !.out = @ \o <<[k |-> "in", side |-> "s"], [k |-> "r_settings", max |-> Limit0]>>])

\* the hook after which the request goes upstream completes: GetHttpConnection (first time: the connection is
\* opened, and the server's preface follows unless withheld), then the stream's SendHttp sequence
Release(w, i, evs) ==
  LET w1 == [w EXCEPT !.out = Append(@, [k |-> "release", s |-> i])]
  IN IF w1.mux.conn = "none"
     THEN LET w2 == Feed([w1 EXCEPT !.mux.conn = "up"], i, evs)
          IN IF Late THEN w2 ELSE Preface(w2)
     ELSE Feed(w1, i, evs)

\* ---- Http2Server: sending to the client ----
OpenForUsC(s) == s.cout \notin {"ended", "rst"} /\ s.cph # "rst"
ClosedC(s) == s.cout = "rst" \/ s.cph = "rst" \/ (s.cout = "ended" /\ s.cph = "ended")
\* ---- BufferedH2Connection towards the client (_http_h2.py) ----
Min2w(w, i) == Min2(w.st[i].sw, w.mux.cw)                    \* local_flow_control_window = min(stream, connection)
DropB(q, i) == SelectSeq(q, LAMBDA y : y # i)
\* bytes (and END_STREAM) that really go out: decoded by the client peer
Wire(w, i, d, end) ==
  [w EXCEPT !.st[i].sw = @ - Len(d), !.mux.cw = @ - Len(d), !.st[i].cend = @ \/ end,
            !.out = @ \o (IF d # <<>> THEN <<[k |-> "c_rdata", s |-> i, d |-> d]>> ELSE <<>>)
                      \o (IF end THEN <<[k |-> "c_rend", s |-> i]>> ELSE <<>>)]
\* send_data: append behind parked data; else send what fits and park the rest
SendData(w, i, d, end) ==
  IF w.st[i].park # <<>> THEN [w EXCEPT !.st[i].park = Append(@, [d |-> d, end |-> end])]
  ELSE LET a == Min2w(w, i) IN
       IF Len(d) <= a THEN Wire(w, i, d, end)
       ELSE LET w1 == IF a > 0 THEN Wire(w, i, SubSeq(d, 1, a), FALSE) ELSE w
            IN [w1 EXCEPT !.st[i].park = <<[d |-> SubSeq(d, a + 1, Len(d)), end |-> end]>>,
                          !.mux.border = Append(DropB(@, i), i)]
\* stream_window_updated: returns [w, any]
RECURSIVE FlushLoop(_, _, _, _)
FlushLoop(w, i, a, any) ==
  IF a <= 0 \/ w.st[i].park = <<>> THEN [w |-> w, any |-> any]
  ELSE LET c == Head(w.st[i].park)
           fits == Len(c.d) <= a
           w1 == IF fits THEN [Wire(w, i, c.d, c.end) EXCEPT !.st[i].park = Tail(@)]
                 ELSE [Wire(w, i, SubSeq(c.d, 1, a), FALSE) EXCEPT
                          !.st[i].park = <<[d |-> SubSeq(c.d, a + 1, Len(c.d)), end |-> c.end]>> \o Tail(@)]   \* appendleft
           sent == IF fits THEN Len(c.d) ELSE a
           w2 == IF w1.st[i].park = <<>>
                 THEN LET w3 == [w1 EXCEPT !.mux.border = DropB(@, i)] IN
                      IF w3.st[i].ptrl                                            \* queued trailers follow the data
                      THEN [w3 EXCEPT !.st[i].ptrl = FALSE, !.st[i].cend = TRUE,
                                      !.out = @ \o <<[k |-> "c_rtrl", s |-> i, ms |-> <<w.mux.our[i]>>], [k |-> "c_rend", s |-> i]>>]
                      ELSE w3
                 ELSE w1
       IN FlushLoop(w2, i, a - sent, TRUE)
Flush(w, i) == FlushLoop(w, i, Min2w(w, i), FALSE)
\* connection_window_updated: round robin over stream_buffers (each key is moved to the end when its turn comes)
RECURSIVE Pass(_, _, _), ConnUpdated(_)
Pass(w, todo, any) ==
  IF todo = <<>> THEN [w |-> w, any |-> any, stop |-> FALSE]
  ELSE LET i == Head(todo)
           r == Flush([w EXCEPT !.mux.border = Append(DropB(@, i), i)], i)
       IN IF r.any /\ r.w.mux.cw = 0 THEN [w |-> r.w, any |-> TRUE, stop |-> TRUE]
          ELSE Pass(r.w, Tail(todo), any \/ r.any)
ConnUpdated(w) == LET r == Pass(w, w.mux.border, FALSE) IN IF r.stop \/ ~r.any THEN r.w ELSE ConnUpdated(r.w)

ToClient(w, i, ev) ==
  LET s == w.st[i]
      j == w.mux.our[i]
  IN CASE ev.t = "H" ->
            IF OpenForUsC(s)
            THEN [w EXCEPT !.st[i].cout = IF ev.end THEN "ended" ELSE "hdr", !.st[i].cend = ev.end,
                           !.out = @ \o <<[k |-> "c_resp", s |-> i, ms |-> <<j>>, own |-> FALSE]>>
                                     \o (IF ev.end THEN <<[k |-> "c_rend", s |-> i]>> ELSE <<>>)]
            ELSE w
       [] ev.t = "D" -> IF OpenForUsC(s) THEN SendData(w, i, ev.d, FALSE) ELSE w
       [] ev.t = "T" -> IF ~OpenForUsC(s) THEN w                                   \* send_trailers
                        ELSE IF s.park # <<>> THEN [w EXCEPT !.st[i].cout = "ended", !.st[i].ptrl = TRUE]
                        ELSE [w EXCEPT !.st[i].cout = "ended", !.st[i].cend = TRUE,
                                       !.out = @ \o <<[k |-> "c_rtrl", s |-> i, ms |-> <<j>>], [k |-> "c_rend", s |-> i]>>]
       [] ev.t = "E" -> IF OpenForUsC(s)                                           \* end_stream
                        THEN SendData([w EXCEPT !.st[i].cout = "ended"], i, <<>>, TRUE)
                        ELSE w
       [] ev.t = "X" ->        \* ResponseProtocolError: an error page if nothing was sent yet, else RST_STREAM
            IF ClosedC(s) THEN w
            ELSE IF OpenForUsC(s) /\ s.cout = "none"
            THEN [w EXCEPT !.st[i].cout = "ended", !.st[i].cend = TRUE,
                           !.out = @ \o <<[k |-> "c_resp", s |-> i, ms |-> <<>>, own |-> TRUE],
                                          [k |-> "c_rdata", s |-> i, d |-> <<>>], [k |-> "c_rend", s |-> i]>>]
            ELSE [w EXCEPT !.st[i].cout = "rst", !.st[i].park = <<>>, !.mux.border = DropB(@, i),
                           !.out = Append(@, [k |-> "c_rrst", s |-> i])]

\* HttpStream.flow_done: DropStream, then the delayed ResponseEndOfMessage
FlowDone(w, i) == ToClient([w EXCEPT !.st[i].live = FALSE], i, E)

W0(first) == [st |-> st, sv |-> sv, mux |-> mux, out |-> first]
Commit(w) == st' = w.st /\ sv' = w.sv /\ mux' = w.mux /\ Emit(w.out) /\ UNCHANGED cfg
FReq(w, i, streamed, d, tm) ==
  [k |-> "f_req", f |-> w.st[i].f, ms |-> <<i>>, streamed |-> streamed, d |-> d, tm |-> tm]
FResp(w, i, j, streamed, d, tm) ==
  [k |-> "f_resp", f |-> w.st[i].f, qms |-> <<i>>, ms |-> <<j>>, streamed |-> streamed, d |-> d, tm |-> tm]

\* ---- the client sends a frame ----
CHdr(i, end) ==
  /\ Live /\ i = mux.nextc /\ i <= cfg.n /\ (IF end THEN "hdr_end" ELSE "hdr") \in CKinds
  /\ LET f == mux.nextf
         w0 == W0(<<[k |-> "in", side |-> "c"], [k |-> "c_hdr", s |-> i]>> \o (IF end THEN <<[k |-> "c_end", s |-> i]>> ELSE <<>>))
         \* Http2Server RequestReceived -> make_stream -> state_wait_for_request_headers -> requestheaders hook
         w1 == [w0 EXCEPT !.st[i].cph = IF end THEN "ended" ELSE "open", !.st[i].hs = TRUE, !.st[i].live = TRUE,
                          !.st[i].f = f, !.st[i].sst = "wait", !.mux.nextf = f + 1, !.mux.nextc = i + 1,
                          !.out = Append(@, [k |-> "f_reqh", f |-> f, ms |-> <<i>>])]
     IN IF RS[i] /\ ~end
        THEN Commit(Release([w1 EXCEPT !.st[i].cst = "stream"], i, <<H(FALSE)>>))              \* start_request_stream
        ELSE IF end                                                                            \* queued EOM -> request hook
        THEN Commit(Release([w1 EXCEPT !.st[i].cst = "done", !.out = Append(@, FReq(w1, i, FALSE, <<>>, <<>>))],
                            i, <<H(TRUE), E>>))
        ELSE Commit([w1 EXCEPT !.st[i].cst = "consume"])

CBody(i, kind) ==
  /\ Live /\ st[i].cph = "open" /\ kind \in CKinds
  /\ st[i].cout # "rst"                    \* the proxy has reset the stream: the client peer cannot send on it any more
  /\ kind \in {"data", "data_end"} => st[i].cn < MaxData
  /\ LET s == st[i]
         isData == kind \in {"data", "data_end"}
         ends == kind # "data"
         d == Rep(10 * i + s.cn, cfg.fc.chunk)
         cn2 == IF isData THEN s.cn + 1 ELSE s.cn
         trl2 == kind = "trl"
         body == ReqBody(i, cn2)
         tm == IF trl2 THEN <<i>> ELSE <<>>
         stim == <<[k |-> "in", side |-> "c"]>> \o (IF isData THEN <<[k |-> "c_data", s |-> i, d |-> d]>> ELSE <<>>)
                   \o (IF trl2 THEN <<[k |-> "c_trl", s |-> i]>> ELSE <<>>) \o (IF ends THEN <<[k |-> "c_end", s |-> i]>> ELSE <<>>)
         w1 == [W0(stim) EXCEPT !.st[i].cn = cn2, !.st[i].ctrl = trl2, !.st[i].cph = IF ends THEN "ended" ELSE "open",
                                \* Http2Server: StreamEnded pops the stream if it is closed on both sides
                                !.st[i].hs = IF ends /\ s.cout \in {"ended", "rst"} THEN FALSE ELSE @]
     IN IF ~s.live \/ s.cst \in {"err", "done", "none"} THEN Commit(w1)
        ELSE IF s.cst = "consume"
        THEN IF ~ends THEN Commit(w1)
             ELSE Commit(Release([w1 EXCEPT !.st[i].cst = "done", !.out = Append(@, FReq(w1, i, FALSE, body, tm))], i,
                                 <<H(body = <<>> /\ ~trl2)>> \o (IF body # <<>> THEN <<D(body)>> ELSE <<>>)
                                   \o (IF trl2 THEN <<T>> ELSE <<>>) \o <<E>>))
        ELSE \* state_stream_request_body
             LET w2 == IF isData THEN ToServer(w1, i, D(d)) ELSE w1
             IN IF ~ends THEN Commit(w2)
                ELSE LET w3 == [w2 EXCEPT !.st[i].cst = "done", !.out = Append(@, FReq(w2, i, TRUE, <<>>, tm))]
                         w4 == Feed(w3, i, (IF trl2 THEN <<T>> ELSE <<>>) \o <<E>>)
                     IN IF w4.st[i].sst = "done" THEN Commit(FlowDone(w4, i)) ELSE Commit(w4)

CRst(i) ==
  /\ Live /\ "rst" \in CKinds /\ st[i].cph \in {"open", "ended"}
  /\ ~(st[i].cout = "rst" \/ (st[i].cph = "ended" /\ st[i].cout = "ended"))       \* still open on the client peer
  /\ LET s == st[i]
         w1 == [W0(<<[k |-> "in", side |-> "c"], [k |-> "c_rst", s |-> i]>>) EXCEPT !.st[i].cph = "rst", !.st[i].hs = FALSE]
     IN IF ~s.hs \/ ~s.live THEN Commit(w1)
        ELSE \* HttpStream.handle_protocol_error(RequestProtocolError)
             LET talk == s.cst \in {"stream", "done"} /\ s.sst \notin {"done", "err"}
                 need == ~(s.cst = "err" \/ s.sst \in {"done", "err"})
                 w2 == IF talk THEN ToServer([w1 EXCEPT !.st[i].cst = "err"], i, X) ELSE w1
                 w3 == IF need THEN [w2 EXCEPT !.out = Append(@, [k |-> "f_err", f |-> s.f, qms |-> <<i>>])] ELSE w2
             IN Commit([w3 EXCEPT !.st[i].live = FALSE])

\* ---- the server sends a frame on server stream j ----
SpeerOpen(s) == s.src # 0 /\ ~s.prst /\ s.sph # "rst" /\ ~(s.lend /\ s.sph = "ended")
Pre(stim) == IF mux.pref THEN W0(stim) ELSE LET p == Preface(W0(<<>>)) IN [p EXCEPT !.out = @ \o stim]

SResp(j, kind) ==
  /\ Live /\ kind \in SKinds /\ SpeerOpen(sv[j])
  /\ kind \in {"hdr", "hdr_end"} => sv[j].sph = "open"
  /\ kind \in {"data", "data_end", "trl", "end"} => sv[j].sph = "hdr"
  /\ kind = "rst" => sv[j].sph \in {"open", "hdr"}
  /\ kind \in {"data", "data_end"} => sv[j].sn < MaxData
  /\ LET i == sv[j].src
         s == st[i]
         isHdr == kind \in {"hdr", "hdr_end"}
         isData == kind \in {"data", "data_end"}
         ends == kind \in {"hdr_end", "data_end", "trl", "end"}
         d == Rep(RespId(j, sv[j].sn), cfg.fc.chunk)
         trl2 == kind = "trl"
         stim == <<[k |-> "in", side |-> "s"]>> \o (IF isHdr THEN <<[k |-> "r_hdr", t |-> j]>> ELSE <<>>)
                   \o (IF isData THEN <<[k |-> "r_data", t |-> j, d |-> d]>> ELSE <<>>)
                   \o (IF trl2 THEN <<[k |-> "r_trl", t |-> j]>> ELSE <<>>)
                   \o (IF ends THEN <<[k |-> "r_end", t |-> j]>> ELSE <<>>)
                   \o (IF kind = "rst" THEN <<[k |-> "r_rst", t |-> j]>> ELSE <<>>)
         w1 == [Pre(stim) EXCEPT !.sv[j].sph = IF kind = "rst" THEN "rst" ELSE IF ends THEN "ended" ELSE "hdr",
                                 !.sv[j].sn = IF isData THEN @ + 1 ELSE @,
                                 !.sv[j].hstate = IF kind = "rst" \/ (ends /\ sv[j].lend) THEN "gone" ELSE "got"]
         tm == IF trl2 THEN <<j>> ELSE <<>>
     IN IF kind = "rst"
        THEN \* Http2Client StreamReset -> ResponseProtocolError -> HttpStream.handle_protocol_error
             IF ~s.live THEN Commit(Resume(w1))
             ELSE LET need == ~(s.cst = "err" \/ s.sst \in {"done", "err"})
                      fin(w) == [(IF s.cst # "err" THEN ToClient(w, i, X) ELSE w) EXCEPT !.st[i].sst = "err", !.st[i].live = FALSE]
                  IN IF need THEN Commit(fin(Resume([w1 EXCEPT !.out = Append(@, [k |-> "f_err", f |-> s.f, qms |-> <<i>>])])))
                     ELSE Commit(Resume(fin(w1)))
        ELSE IF ~s.live \/ s.sst \in {"done", "err", "none"} THEN Commit(Resume(w1))
        ELSE IF isHdr
        THEN \* state_wait_for_response_headers: responseheaders hook, completed after the feed (i.e. after Resume)
             LET w2 == Resume([w1 EXCEPT !.out = Append(@, [k |-> "f_resph", f |-> s.f, qms |-> <<i>>, ms |-> <<j>>])])
             IN IF PS[i] /\ ~ends
                THEN Commit(ToClient([w2 EXCEPT !.st[i].sst = "stream"], i, H(FALSE)))             \* start_response_stream
                ELSE IF ~ends THEN Commit([w2 EXCEPT !.st[i].sst = "consume"])
                ELSE \* queued EOM -> send_response: response hook, then headers (END_STREAM), then flow_done
                     LET w3 == [w2 EXCEPT !.st[i].sst = "done", !.out = Append(@, FResp(w2, i, j, FALSE, <<>>, <<>>))]
                         w4 == ToClient(w3, i, H(TRUE))
                     IN IF s.cst = "done" THEN Commit(FlowDone(w4, i)) ELSE Commit(w4)
        ELSE IF s.sst = "consume"
        THEN LET buf == IF isData THEN s.rbuf \o d ELSE s.rbuf
                 w2 == [w1 EXCEPT !.st[i].rbuf = buf, !.st[i].rtrl = trl2]
             IN IF ~ends THEN Commit(Resume(w2))
                ELSE LET w3 == Resume([w2 EXCEPT !.st[i].sst = "done", !.out = Append(@, FResp(w2, i, j, FALSE, buf, tm))])
                         w4 == ToClient(w3, i, H(buf = <<>> /\ ~trl2))
                         w5 == IF buf # <<>> THEN ToClient(w4, i, D(buf)) ELSE w4
                         w6 == IF trl2 THEN ToClient(w5, i, T) ELSE w5
                     IN IF s.cst = "done" THEN Commit(FlowDone(w6, i)) ELSE Commit(w6)
        ELSE \* state_stream_response_body
             LET w2 == IF isData THEN ToClient(w1, i, D(d)) ELSE w1
             IN IF ~ends THEN Commit(Resume(w2))
                ELSE LET w3 == Resume([w2 EXCEPT !.st[i].sst = "done", !.out = Append(@, FResp(w2, i, j, TRUE, <<>>, tm))])
                         w4 == IF trl2 THEN ToClient(w3, i, T) ELSE w3
                     IN IF s.cst = "done" THEN Commit(FlowDone(w4, i)) ELSE Commit(w4)

\* a later SETTINGS frame changes MAX_CONCURRENT_STREAMS (with the withheld preface in front, if any)
Settings(n) ==
  /\ Live /\ mux.conn = "up" /\ mux.nset < MaxSet /\ n \in SetVals
  /\ (mux.prov \/ n # mux.limit)
  /\ Commit(Resume([W0(<<[k |-> "in", side |-> "s"], [k |-> "r_settings", max |-> n]>>) EXCEPT
                       !.mux.pref = TRUE, !.mux.prov = FALSE, !.mux.limit = n, !.mux.nset = @ + 1]))

\* the client grants flow-control credit: WINDOW_UPDATE on stream i (i = 0: on the connection)
CWu(i, n) ==
  /\ Live /\ n \in FC.wus /\ mux.nwu < FC.maxwu
  /\ IF i = 0
     THEN Commit(ConnUpdated([W0(<<[k |-> "in", side |-> "c"], [k |-> "c_wu", s |-> 0]>>) EXCEPT !.mux.cw = @ + n, !.mux.nwu = @ + 1]))
     ELSE /\ i \in CS /\ st[i].cph \notin {"idle", "rst"} /\ ~st[i].cend /\ st[i].cout # "rst"     \* open at the client peer
          /\ Commit(Flush([W0(<<[k |-> "in", side |-> "c"], [k |-> "c_wu", s |-> i]>>) EXCEPT !.st[i].sw = @ + n, !.mux.nwu = @ + 1], i).w)

\* end of the scenario; with flow control the harness first opens all windows: a connection-level WINDOW_UPDATE, then
\* SETTINGS_INITIAL_WINDOW_SIZE (both end in connection_window_updated)
Finish ==
  /\ Live /\ UNCHANGED cfg
  /\ IF FC.sw >= Big THEN UNCHANGED <<st, sv, mux>> /\ Emit(<<[k |-> "end"]>>)
     ELSE LET w1 == ConnUpdated([W0(<<[k |-> "in", side |-> "c"], [k |-> "c_wu", s |-> 0]>>) EXCEPT !.mux.cw = @ + Big])
              w2 == ConnUpdated([w1 EXCEPT !.st = [i \in CS |-> [w1.st[i] EXCEPT !.sw = @ + Big]],
                                           !.out = @ \o <<[k |-> "in", side |-> "c"], [k |-> "c_wu", s |-> 0]>>])
          IN st' = w2.st /\ sv' = w2.sv /\ mux' = w2.mux /\ Emit(Append(w2.out, [k |-> "end"]))

Next == \/ \E i \in CS, e \in BOOLEAN : CHdr(i, e)
        \/ \E i \in CS, kind \in {"data", "data_end", "trl", "end"} : CBody(i, kind)
        \/ \E i \in CS : CRst(i)
        \/ \E j \in CS, kind \in {"hdr", "hdr_end", "data", "data_end", "trl", "end", "rst"} : SResp(j, kind)
        \/ \E n \in 1..N : Settings(n)
        \/ \E i \in 0..N, n \in 1..N : CWu(i, n)
        \/ Finish
Spec == Init /\ [][Next]_vars
Report == mon.bad # <<>> => PrintT(<<"BAD", mon.bad>>)
=============================================================================
