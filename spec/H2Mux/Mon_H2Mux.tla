----------------------------- MODULE Mon_H2Mux -----------------------------
(* Monitor for C05: HTTP/2 streams are isolated and correctly mapped.

   Observed on the real stack  Http2Server -> HttpLayer/HttpStream -> Http2Client  between two independent
   hyper-h2 peers (props/C05.py).  Client stream index i = (id+1)/2, server stream index j = (id+1)/2.  Every header
   block, data byte and trailer block carries the index of the stream it was SENT on ("marker"); data is a
   sequence of small integers (one per byte).  ms = markers found in a decoded header block (a sequence).

   stimuli (logged when they are delivered to the proxy; a delivery starts with "in"):
     [k |-> "cfg", fc, sep]                    fc: flow-control windows are small in this scenario;  sep: the upstream speaks
                                               HTTP/1 only, so every stream gets a server connection of its own (t = its number)
     [k |-> "in", side]                        side "c" | "s": the environment acts (client / server bytes arrive)
     [k |-> "c_hdr", s] [k |-> "c_data", s, d] [k |-> "c_trl", s] [k |-> "c_end", s] [k |-> "c_rst", s]   client, stream s
     [k |-> "r_hdr", t] [k |-> "r_data", t, d] [k |-> "r_trl", t] [k |-> "r_end", t] [k |-> "r_rst", t]   server, stream t
     [k |-> "r_settings", max]                 server SETTINGS (max = 0: no MAX_CONCURRENT_STREAMS entry in it)
     [k |-> "r_close"]                         server closed the connection
     [k |-> "c_wu", s] [k |-> "r_wu", t]       window updates
     [k |-> "held", t, what]                   the server SENT end / rst on t, but the bytes are still in flight
     [k |-> "release", s]                      the environment completed the hook after which request s goes upstream
   observations:
     [k |-> "s_req", t, ms] [k |-> "s_data", t, d] [k |-> "s_trl", t, ms] [k |-> "s_end", t] [k |-> "s_rst", t]
                                               decoded by the server peer on server stream t
     [k |-> "c_resp", s, ms, own] [k |-> "c_rdata", s, d] [k |-> "c_rtrl", s, ms] [k |-> "c_rend", s] [k |-> "c_rrst", s]
                                               decoded by the client peer on client stream s (own: proxy-made response)
     [k |-> "f_reqh", f, ms] [k |-> "f_req", f, ms, streamed, d, tm]
     [k |-> "f_resph", f, qms, ms] [k |-> "f_resp", f, qms, ms, streamed, d, tm] [k |-> "f_err", f, qms]
                                               flow f as the hooks see it (qms: markers of flow.request)
     [k |-> "p_close", side] [k |-> "c_goaway"] [k |-> "s_goaway"] [k |-> "peer_error", side, exc] [k |-> "crashed", exc] [k |-> "end"]                  *)
EXTENDS Verif
CONSTANTS NS             \* bound on stream indices

NoLimit == 100000
Idx == 1..NS
Msg0 == [hdr |-> 0, body |-> <<>>, trl |-> FALSE, ended |-> FALSE, rst |-> FALSE]

MonInit == [bad |-> <<>>, wit |-> {},
            cs |-> [i \in Idx |-> Msg0],     \* what the client sent on client stream i (delivered to the proxy)
            sq |-> [j \in Idx |-> Msg0],     \* what the server peer decoded on server stream j
            rr |-> [j \in Idx |-> Msg0],     \* what the server sent on j (delivered to the proxy)
            cr |-> [i \in Idx |-> Msg0],     \* what the client peer decoded on i (hdr: 1 relayed, 2 made by the proxy)
            src |-> [j \in Idx |-> 0],       \* server stream -> client stream whose request it carries
            dst |-> [i \in Idx |-> 0],       \* client stream -> its server stream
            waiting |-> <<>>,                \* released client streams not yet opened upstream, in arrival order
            fl |-> <<>>,                     \* flow number -> client stream
            se |-> {}, sr |-> {},            \* server streams on which the server has SENT end / reset (possibly not yet delivered)
            limit |-> NoLimit, known |-> FALSE,
            sdead |-> FALSE, dead |-> FALSE, fc |-> FALSE,
            sep |-> FALSE]                   \* every stream gets an upstream connection of its own (HTTP/1-only server)

One(ms) == IF Len(ms) = 1 /\ ms[1] \in Idx THEN ms[1] ELSE 0
Closed(m, j) == m.sq[j].rst \/ m.rr[j].rst \/ (m.sq[j].ended /\ m.rr[j].ended)
Open(m) == Cardinality({j \in Idx : m.src[j] # 0 /\ ~Closed(m, j)})       \* as the proxy can know it
\* as the server counts: it has closed a stream as soon as it SENT its end / reset
OpenSrv(m) == Cardinality({j \in Idx : m.src[j] # 0 /\ ~(m.sq[j].rst \/ j \in m.sr \/ (m.sq[j].ended /\ j \in m.se))})
Without(s, x) == SelectSeq(s, LAMBDA y : y # x)
InSeq(s, x) == \E k \in 1..Len(s) : s[k] = x
\* a proxy-made error / reset on client stream i is explained by: the server reset i's server stream, or the server is gone
Cause(m, i) == m.sdead \/ (m.dst[i] # 0 /\ (m.rr[m.dst[i]].rst \/ m.dst[i] \in m.sr))
FlowOf(m, f) == IF f \in 1..Len(m.fl) THEN m.fl[f] ELSE 0

\* checked whenever the environment acts again (and at the end): a released stream must not wait while there is room
Stalled(m) == IF m.known /\ ~m.sdead /\ ~m.dead /\ m.waiting # <<>> /\ Open(m) < m.limit
              THEN <<"C05.queued_stream_stalled">> ELSE <<>>

\* checked at the end (everything flushed, all windows opened): nothing complete may be missing at its destination
Terminated(m, i) == m.cr[i].rst \/ m.cr[i].ended \/ m.cs[i].rst
AtEnd(m) ==
  IF m.dead THEN <<>>
  ELSE IF Stalled(m) # <<>> THEN Stalled(m)
  \* no capacity to wait for: a released request that never reached a server is lost
  ELSE IF m.sep /\ m.waiting # <<>> THEN <<"C05.request_lost", "no_upstream_connection">>
  \* the server connection is gone: every stream that was waiting for it, or on it, must have been answered or reset
  ELSE IF m.sdead /\ \E k \in 1..Len(m.waiting) : ~Terminated(m, m.waiting[k])
       THEN <<"C05.queued_stream_lost", "server_closed">>
  ELSE IF m.sdead /\ \E j \in Idx : m.src[j] # 0 /\ ~m.rr[j].ended /\ ~Terminated(m, m.src[j])
       THEN <<"C05.reset_lost", "server_closed">>
  ELSE IF \E i \in Idx : m.dst[i] # 0 /\ m.cs[i].ended /\ ~m.cs[i].rst /\ ~m.sdead /\ ~m.rr[m.dst[i]].rst
                         /\ ~(m.sq[m.dst[i]].ended /\ m.sq[m.dst[i]].body = m.cs[i].body /\ m.sq[m.dst[i]].trl = m.cs[i].trl)
       THEN <<"C05.request_lost", "incomplete">>
  ELSE IF \E j \in Idx : m.src[j] # 0 /\ m.rr[j].ended /\ ~m.rr[j].rst /\ ~m.cs[m.src[j]].rst /\ ~m.sdead
                         /\ ~(m.cr[m.src[j]].hdr = 1 /\ m.cr[m.src[j]].body = m.rr[j].body /\ m.cr[m.src[j]].trl = m.rr[j].trl
                              /\ (m.cs[m.src[j]].ended => m.cr[m.src[j]].ended))
       THEN <<"C05.response_lost">>
  ELSE IF \E j \in Idx : m.src[j] # 0 /\ m.rr[j].rst /\ ~m.cs[m.src[j]].rst
                         /\ ~(m.cr[m.src[j]].rst \/ m.cr[m.src[j]].ended)
       THEN <<"C05.reset_lost", "server_reset">>
  ELSE <<>>

Clause(m, ev) ==
  CASE ev.k = "in" -> Stalled(m)
    [] ev.k = "end" -> AtEnd(m)
    [] ev.k = "crashed" -> <<"C05.proxy_crashed", ev.exc>>
    [] ev.k = "peer_error" -> <<"C05.peer_protocol_error", ev.side>>
    \* the peers of the harness never break the protocol, so nothing entitles the proxy to give up a connection
    \* (and with it every stream on it), except that the server closed first
    [] ev.k \in {"c_goaway", "s_goaway", "p_close"} ->
         IF ev.k = "c_goaway" \/ (ev.k = "p_close" /\ ev.side = "c") THEN <<"C05.connection_terminated_by_proxy", "c">>
         ELSE IF ~m.sdead THEN <<"C05.connection_terminated_by_proxy", "s">>
         ELSE <<>>
    [] ev.k = "s_req" ->
         LET i == One(ev.ms) IN
         IF i = 0 \/ ~(ev.t \in Idx) THEN <<"C05.request_headers_mixed">>
         ELSE IF m.cs[i].hdr = 0 THEN <<"C05.request_headers_mixed">>
         ELSE IF m.dst[i] # 0 THEN <<"C05.stream_duplicated">>
         ELSE IF m.src[ev.t] # 0 THEN <<"C05.server_stream_reused">>
         ELSE IF m.known /\ OpenSrv(m) >= m.limit THEN <<"C05.opened_beyond_limit">>
         ELSE IF ~m.sep /\ InSeq(m.waiting, i) /\ Head(m.waiting) # i THEN <<"C05.queue_order">>
         ELSE <<>>
    [] ev.k = "s_data" ->
         IF ~(ev.t \in Idx) \/ m.src[ev.t] = 0 THEN <<"C05.request_body_foreign">>
         ELSE IF ~IsPrefix(m.sq[ev.t].body \o ev.d, m.cs[m.src[ev.t]].body) THEN <<"C05.request_body_foreign">>
         ELSE <<>>
    [] ev.k = "s_trl" ->
         IF ~(ev.t \in Idx) \/ m.src[ev.t] = 0 THEN <<"C05.request_trailers_foreign">>
         ELSE IF One(ev.ms) # m.src[ev.t] \/ ~m.cs[m.src[ev.t]].trl THEN <<"C05.request_trailers_foreign">>
         ELSE <<>>
    [] ev.k = "s_end" ->
         IF ~(ev.t \in Idx) \/ m.src[ev.t] = 0 THEN <<"C05.request_truncated">>
         ELSE LET i == m.src[ev.t] IN
              IF ~m.cs[i].ended \/ m.sq[ev.t].body # m.cs[i].body \/ (m.cs[i].trl /\ ~m.sq[ev.t].trl)
              THEN <<"C05.request_truncated">> ELSE <<>>
    [] ev.k = "s_rst" ->
         IF ~(ev.t \in Idx) \/ m.src[ev.t] = 0 THEN <<"C05.foreign_reset_upstream">>
         ELSE IF ~m.cs[m.src[ev.t]].rst THEN <<"C05.foreign_reset_upstream">>
         ELSE <<>>
    [] ev.k = "c_resp" ->
         IF ~(ev.s \in Idx) THEN <<"C05.response_on_wrong_stream">>
         ELSE IF ev.own THEN (IF Cause(m, ev.s) THEN <<>> ELSE <<"C05.foreign_error_downstream">>)
         ELSE LET j == One(ev.ms) IN
              IF j = 0 THEN <<"C05.response_on_wrong_stream">>
              ELSE IF m.src[j] # ev.s \/ m.rr[j].hdr = 0 THEN <<"C05.response_on_wrong_stream">>
              ELSE <<>>
    [] ev.k = "c_rdata" ->
         IF ~(ev.s \in Idx) THEN <<"C05.response_body_foreign">>
         ELSE IF m.cr[ev.s].hdr = 2 THEN <<>>
         ELSE IF m.dst[ev.s] = 0 THEN <<"C05.response_body_foreign">>
         ELSE IF ~IsPrefix(m.cr[ev.s].body \o ev.d, m.rr[m.dst[ev.s]].body) THEN <<"C05.response_body_foreign">>
         ELSE <<>>
    [] ev.k = "c_rtrl" ->
         IF ~(ev.s \in Idx) \/ m.dst[ev.s] = 0 THEN <<"C05.response_trailers_foreign">>
         ELSE IF One(ev.ms) # m.dst[ev.s] \/ ~m.rr[m.dst[ev.s]].trl THEN <<"C05.response_trailers_foreign">>
         ELSE <<>>
    [] ev.k = "c_rend" ->
         IF ~(ev.s \in Idx) THEN <<"C05.response_truncated">>
         ELSE IF m.cr[ev.s].hdr = 2 THEN <<>>
         ELSE IF m.dst[ev.s] = 0 THEN <<"C05.response_truncated">>
         ELSE LET j == m.dst[ev.s] IN
              IF ~m.rr[j].ended \/ m.cr[ev.s].body # m.rr[j].body \/ (m.rr[j].trl /\ ~m.cr[ev.s].trl)
              THEN <<"C05.response_truncated">> ELSE <<>>
    [] ev.k = "c_rrst" ->
         IF ~(ev.s \in Idx) THEN <<"C05.foreign_reset_downstream">>
         ELSE IF Cause(m, ev.s) THEN <<>> ELSE <<"C05.foreign_reset_downstream">>
    [] ev.k = "f_reqh" ->
         LET i == One(ev.ms) IN
         IF i = 0 THEN <<"C05.flow_request_mixed">>
         ELSE IF m.cs[i].hdr = 0 THEN <<"C05.flow_request_mixed">>
         ELSE IF ev.f <= Len(m.fl) \/ InSeq(m.fl, i) THEN <<"C05.flow_duplicated">>
         ELSE <<>>
    [] ev.k = "f_req" ->
         LET i == FlowOf(m, ev.f) IN
         IF i = 0 \/ One(ev.ms) # i THEN <<"C05.flow_request_mixed">>
         ELSE IF ~m.cs[i].ended \/ (~ev.streamed /\ ev.d # m.cs[i].body)
                 \/ ev.tm # (IF m.cs[i].trl THEN <<i>> ELSE <<>>) THEN <<"C05.flow_request_mixed">>
         ELSE <<>>
    [] ev.k = "f_resph" ->
         LET i == FlowOf(m, ev.f) j == One(ev.ms) IN
         IF i = 0 \/ One(ev.qms) # i \/ j = 0 THEN <<"C05.flow_response_mixed">>
         ELSE IF m.src[j] # i \/ m.rr[j].hdr = 0 THEN <<"C05.flow_response_mixed">>
         ELSE <<>>
    [] ev.k = "f_resp" ->
         LET i == FlowOf(m, ev.f) j == One(ev.ms) IN
         IF i = 0 \/ One(ev.qms) # i \/ j = 0 THEN <<"C05.flow_response_mixed">>
         ELSE IF m.src[j] # i \/ ~m.rr[j].ended \/ (~ev.streamed /\ ev.d # m.rr[j].body)
                 \/ ev.tm # (IF m.rr[j].trl THEN <<j>> ELSE <<>>) THEN <<"C05.flow_response_mixed">>
         ELSE <<>>
    [] ev.k = "f_err" ->
         IF FlowOf(m, ev.f) = 0 \/ One(ev.qms) # FlowOf(m, ev.f) THEN <<"C05.flow_request_mixed">> ELSE <<>>
    [] OTHER -> <<>>

W(c, name) == IF c THEN {name} ELSE {}

MonStep(m, ev) ==
  LET b == Clause(m, ev)
      m1 == [m EXCEPT !.bad = b] IN
  IF b # <<>> THEN m1 ELSE
  CASE ev.k = "cfg" -> [m1 EXCEPT !.fc = ev.fc, !.sep = Get(ev, "sep", FALSE),
                                  !.wit = @ \cup W(ev.fc, "flow_control") \cup W(Get(ev, "sep", FALSE), "h1_upstream")]
    [] ev.k = "c_hdr" -> [m1 EXCEPT !.cs[ev.s].hdr = 1]
    [] ev.k = "c_data" -> [m1 EXCEPT !.cs[ev.s].body = @ \o ev.d]
    [] ev.k = "c_trl" -> [m1 EXCEPT !.cs[ev.s].trl = TRUE]
    [] ev.k = "c_end" -> [m1 EXCEPT !.cs[ev.s].ended = TRUE]
    [] ev.k = "c_rst" -> [m1 EXCEPT !.cs[ev.s].rst = TRUE, !.waiting = Without(@, ev.s),
                                   !.wit = @ \cup W(InSeq(m.waiting, ev.s), "client_reset_while_queued")
                                             \cup W(m.dst[ev.s] # 0, "client_reset_while_upstream")]
    [] ev.k = "release" ->
         IF ev.s \in Idx /\ m.dst[ev.s] = 0 /\ ~InSeq(m.waiting, ev.s) /\ ~m.cs[ev.s].rst
         THEN [m1 EXCEPT !.waiting = Append(@, ev.s),
                         !.wit = @ \cup W(m.known /\ Open(m) >= m.limit, "queued")
                                   \cup W(m.waiting # <<>> /\ Head(m.waiting) > ev.s, "arrival_not_in_id_order")]
         ELSE m1
    [] ev.k = "s_req" ->
         LET i == One(ev.ms) IN
         [m1 EXCEPT !.src[ev.t] = i, !.dst[i] = ev.t, !.sq[ev.t].hdr = 1, !.waiting = Without(@, i),
                    !.wit = @ \cup W(Len(m.waiting) >= 2, "dequeued_fifo")
                              \cup W(m.known /\ Open(m) = m.limit - 1, "filled_to_limit")
                              \cup W(ev.t # i, "ids_differ")]
    [] ev.k = "s_data" -> [m1 EXCEPT !.sq[ev.t].body = @ \o ev.d]
    [] ev.k = "s_trl" -> [m1 EXCEPT !.sq[ev.t].trl = TRUE, !.wit = @ \cup {"request_trailers"}]
    [] ev.k = "s_end" -> [m1 EXCEPT !.sq[ev.t].ended = TRUE]
    [] ev.k = "s_rst" -> [m1 EXCEPT !.sq[ev.t].rst = TRUE, !.wit = @ \cup {"reset_upstream"}]
    [] ev.k = "r_hdr" -> [m1 EXCEPT !.rr[ev.t].hdr = 1]
    [] ev.k = "r_data" -> [m1 EXCEPT !.rr[ev.t].body = @ \o ev.d]
    [] ev.k = "r_trl" -> [m1 EXCEPT !.rr[ev.t].trl = TRUE]
    [] ev.k = "held" -> IF ev.what = "rst" THEN [m1 EXCEPT !.sr = @ \cup {ev.t}, !.wit = @ \cup {"in_flight_close"}]
                        ELSE [m1 EXCEPT !.se = @ \cup {ev.t}, !.wit = @ \cup {"in_flight_close"}]
    [] ev.k = "r_end" -> [m1 EXCEPT !.rr[ev.t].ended = TRUE, !.se = @ \cup {ev.t},
                                   !.wit = @ \cup W(m.waiting # <<>>, "capacity_freed_by_response")]
    [] ev.k = "r_rst" -> [m1 EXCEPT !.rr[ev.t].rst = TRUE, !.sr = @ \cup {ev.t}, !.wit = @ \cup {"server_reset"}]
    [] ev.k = "r_settings" ->
         [m1 EXCEPT !.known = TRUE, !.limit = IF ev.max = 0 THEN @ ELSE ev.max,
                    !.wit = @ \cup W(m.known /\ ev.max # 0 /\ ev.max < m.limit, "limit_lowered")
                              \cup W(m.known /\ m.waiting # <<>> /\ ev.max > m.limit, "limit_raised_with_queue")
                              \cup W(~m.known /\ Open(m) > 1, "late_settings")]
    [] ev.k = "r_close" -> [m1 EXCEPT !.sdead = TRUE, !.wit = @ \cup {"server_closed"} \cup W(m.waiting # <<>>, "server_closed_with_queue")]
    [] ev.k = "c_resp" -> [m1 EXCEPT !.cr[ev.s].hdr = IF ev.own THEN 2 ELSE 1,
                                    !.wit = @ \cup W(ev.own, "proxy_error_response") \cup W(~ev.own, "response")]
    [] ev.k = "c_rdata" -> IF m.cr[ev.s].hdr = 2 THEN m1 ELSE [m1 EXCEPT !.cr[ev.s].body = @ \o ev.d]
    [] ev.k = "c_rtrl" -> [m1 EXCEPT !.cr[ev.s].trl = TRUE, !.wit = @ \cup {"response_trailers"}]
    [] ev.k = "c_rend" -> [m1 EXCEPT !.cr[ev.s].ended = TRUE]
    [] ev.k = "c_rrst" -> [m1 EXCEPT !.cr[ev.s].rst = TRUE, !.wit = @ \cup {"reset_downstream"}]
    [] ev.k = "f_reqh" -> [m1 EXCEPT !.fl = Append(@, One(ev.ms))]
    [] ev.k = "f_req" -> [m1 EXCEPT !.wit = @ \cup W(ev.streamed, "flow_request_streamed") \cup W(~ev.streamed, "flow_request")]
    [] ev.k = "f_resp" -> [m1 EXCEPT !.wit = @ \cup W(ev.streamed, "flow_response_streamed") \cup W(~ev.streamed, "flow_response")]
    [] ev.k = "p_close" -> IF ev.side = "s" THEN [m1 EXCEPT !.sdead = TRUE] ELSE [m1 EXCEPT !.dead = TRUE]
    [] OTHER -> m1
Wit(m) == m.wit
=============================================================================
