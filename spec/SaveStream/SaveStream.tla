----------------------------- MODULE SaveStream -----------------------------
(* Implementation-shaped model of mitmproxy.addons.save.Save (stream saving) with io.FilteredFlowWriter.

   Addon state (save.py):  stream (0 = None, else the path id of the open file), curPath (current_path), filt,
                           active (active_flows).
   Options:                optFile (0 = unset), filt doubles as save_stream_filter (its parsed form).
   files[p]                "empty" / "nonempty": whether the file at path p holds records (decides whether opening it
                           in overwrite mode loses records); every file holds a foreign record at the beginning.
   Flows 1..Len(FlowTypes) with type FlowTypes[f] in {"http","ws","tcp","udp","dns"}; pc[f] is the position in the
   hook lifecycle the proxy core drives:
       http: new -request-> started -response-> responded [-error-> done]      started -error-> done
       ws:   new -request-> started -response(101, flow.websocket set)-> wsopen [-error-> wserr] -websocket_end-> done
                                    started -error-> done        (no upgrade: a plain HTTP error)
       tcp/udp: new -*_start-> started -*_end-> done | -*_error-> done
       dns:  new -dns_request-> started -dns_response-> done | -dns_error-> done
   hasResp / hasErr / wsd are the facts a filter can see (flow.response, flow.error, flow.websocket set by the core
   before the hook runs); Marked is the set of flows marked from the beginning.
   One action per addon entry point: configure (SetFile / SetFileBad / SetFilter / Unset), done (Done), one per hook. *)
EXTENDS Mon_SaveStream, TLC
CONSTANTS FlowTypes, Marked, Paths, Filters, MaxCfg,
          BadPaths,   \* TRUE: the environment may also try to set an unopenable path (SetFileBad)
          OpenFirst   \* TRUE: the code since /repo commit e93d632de (the new file is opened first, the old stream is
                      \* replaced only afterwards); FALSE: the code before it (old stream dropped before the open)
VARIABLES optFile, filt, stream, curPath, active, files, pc, hasResp, hasErr, wsd, cfg, finished, mon, obs
vars == <<optFile, filt, stream, curPath, active, files, pc, hasResp, hasErr, wsd, cfg, finished, mon, obs>>
addon == <<optFile, filt, stream, curPath, active, files, cfg, finished>>
facts == <<pc, hasResp, hasErr, wsd>>

NF == Len(FlowTypes)
F == 1..NF
Init == /\ optFile = 0 /\ filt = "none" /\ stream = 0 /\ curPath = 0 /\ active = {}
        /\ files = [p \in Paths |-> "nonempty"]
        /\ pc = [f \in F |-> "new"] /\ hasResp = [f \in F |-> FALSE] /\ hasErr = [f \in F |-> FALSE]
        /\ wsd = [f \in F |-> FALSE] /\ cfg = 0 /\ finished = FALSE /\ mon = MonInit /\ obs = <<>>
Emit(evs) == obs' = evs /\ mon' = FoldEvents(MonStep, mon, evs)
Live == mon.bad = <<>> /\ ~finished

\* the filter expressions of the scenario vocabulary (props/C39.py evaluates them independently of flowfilter)
Matches(fl, f, r, e, w) ==
  CASE fl = "none"      -> TRUE
    [] fl = "http"      -> FlowTypes[f] \in {"http", "ws"}                 \* ~http
    [] fl = "tcp"       -> FlowTypes[f] = "tcp"                             \* ~tcp
    [] fl = "udp"       -> FlowTypes[f] = "udp"                             \* ~udp
    [] fl = "dns"       -> FlowTypes[f] = "dns"                             \* ~dns
    [] fl = "websocket" -> w[f]                                             \* ~websocket
    [] fl = "resp"      -> FlowTypes[f] \in {"http", "ws", "dns"} /\ r[f]   \* ~s
    [] fl = "noresp"    -> FlowTypes[f] \in {"http", "ws", "dns"} /\ ~r[f]  \* ~q
    [] fl = "err"       -> e[f]                                             \* ~e
    [] fl = "marked"    -> f \in Marked                                     \* ~marked
    [] fl = "unmarked"  -> f \notin Marked                                  \* !~marked
MatchingSeq(fl, r, e, w) == SelectSeq([i \in F |-> i], LAMBDA f : Matches(fl, f, r, e, w))

\* configure({"save_stream_file"}) with a path: maybe_rotate_to_new_file(); assert self.stream; stream.flt = filt
SetFile(p, app) ==
  /\ Live /\ cfg < MaxCfg /\ cfg' = cfg + 1
  /\ optFile' = p
  /\ IF curPath = p
     THEN \* nothing is reopened.  (~OpenFirst only: after SetFileBad stream may be 0 here; "assert self.stream" then
          \* fails inside the configure hook, the addon manager logs it and the caller sees a successful option change)
          /\ UNCHANGED <<stream, curPath, files>>
          /\ Emit(<<[k |-> "setfile", path |-> p, append |-> app, new |-> <<>>, trunc |-> FALSE]>>)
     ELSE /\ stream' = p /\ curPath' = p                 \* closes the old stream, opens p with mode "ab" / "wb"
          /\ files' = [files EXCEPT ![p] = IF app THEN @ ELSE "empty"]
          /\ Emit(<<[k |-> "setfile", path |-> p, append |-> app, new |-> <<>>,
                     trunc |-> ~app /\ files[p] = "nonempty"]>>)
  /\ UNCHANGED <<filt, active, finished>> /\ UNCHANGED facts

\* configure({"save_stream_file"}) with a path that cannot be opened: OSError -> OptionsError, the option manager rolls
\* the option back and re-runs configure (current_path unchanged: nothing to do).  With OpenFirst nothing changes.
\* Before e93d632de maybe_rotate_to_new_file() closed and dropped the old stream BEFORE the failing open, so stream
\* stayed None while the option (rolled back) and current_path said saving was on
SetFileBad ==
  /\ Live /\ BadPaths /\ cfg < MaxCfg /\ cfg' = cfg + 1
  /\ stream' = IF OpenFirst THEN stream ELSE 0
  /\ UNCHANGED <<optFile, filt, curPath, active, files, finished>> /\ UNCHANGED facts
  /\ Emit(<<[k |-> "setfile_failed", new |-> <<>>, trunc |-> FALSE]>>)

\* configure({"save_stream_filter"}): parse; with a file set: maybe_rotate (same path: nothing), assert, stream.flt = filt
SetFilter(fl) ==
  /\ Live /\ cfg < MaxCfg /\ cfg' = cfg + 1 /\ fl # filt
  /\ filt' = fl
  /\ UNCHANGED <<optFile, stream, curPath, active, files, finished>> /\ UNCHANGED facts
  /\ Emit(<<[k |-> "setfilter", flt |-> fl, new |-> <<>>, trunc |-> FALSE]>>)   \* (same swallowed assert if stream = 0)

\* Save.done(): every active flow goes through the filtered writer, active_flows is cleared, the stream is closed
StopWith(how) ==
  LET written == SelectSeq([i \in F |-> i], LAMBDA f : f \in active /\ Matches(filt, f, hasResp, hasErr, wsd))
  IN IF stream # 0
     THEN /\ active' = {} /\ stream' = 0 /\ curPath' = 0
          /\ files' = IF written # <<>> THEN [files EXCEPT ![stream] = "nonempty"] ELSE files
          /\ Emit(<<[k |-> "stop", how |-> how, matching |-> MatchingSeq(filt, hasResp, hasErr, wsd),
                     new |-> written, trunc |-> FALSE]>>)
     ELSE \* if self.stream: ... is skipped entirely (only after SetFileBad): nothing written, nothing reset
          /\ UNCHANGED <<active, stream, curPath, files>>
          /\ Emit(<<[k |-> "stop", how |-> how, matching |-> MatchingSeq(filt, hasResp, hasErr, wsd),
                     new |-> <<>>, trunc |-> FALSE]>>)
\* configure({"save_stream_file"}) with None
Unset == /\ Live /\ cfg < MaxCfg /\ cfg' = cfg + 1 /\ optFile # 0
         /\ optFile' = 0 /\ StopWith("unset") /\ UNCHANGED <<filt, finished>> /\ UNCHANGED facts
\* the done hook (shutdown)
Done == /\ Live /\ optFile # 0 /\ StopWith("done") /\ finished' = TRUE /\ UNCHANGED <<optFile, filt, cfg>>
        /\ UNCHANGED facts

HookName(f, kind) ==
  LET t == FlowTypes[f]
  IN CASE kind = "start" -> (CASE t \in {"http", "ws"} -> "request" [] t = "tcp" -> "tcp_start"
                               [] t = "udp" -> "udp_start" [] t = "dns" -> "dns_request")
       [] kind = "end"   -> (CASE t = "tcp" -> "tcp_end" [] t = "udp" -> "udp_end" [] t = "dns" -> "dns_response")
       [] kind = "fail"  -> (CASE t = "tcp" -> "tcp_error" [] t = "udp" -> "udp_error" [] t = "dns" -> "dns_error")

HookEv(h, f, r, e, w, new) ==
  [k |-> "hook", h |-> h, f |-> f, ws |-> w[f], match |-> Matches(filt, f, r, e, w), new |-> new, trunc |-> FALSE]

\* request / tcp_start / udp_start / dns_request:  if self.stream: self.active_flows.add(flow)
StartHook(f) ==
  /\ Live /\ pc[f] = "new"
  /\ pc' = [pc EXCEPT ![f] = "started"]
  /\ active' = IF stream # 0 THEN active \cup {f} ELSE active
  /\ UNCHANGED <<optFile, filt, stream, curPath, files, cfg, finished, hasResp, hasErr, wsd>>
  /\ Emit(<<HookEv(HookName(f, "start"), f, hasResp, hasErr, wsd, <<>>)>>)

\* save_flow(flow): if not self.stream: return; stream.add(flow) (filtered); active_flows.discard(flow)
SaveFlow(h, f, r, e, w) ==
  IF stream = 0
  THEN /\ UNCHANGED <<active, files>> /\ Emit(<<HookEv(h, f, r, e, w, <<>>)>>)
  ELSE /\ active' = active \ {f}
       /\ IF Matches(filt, f, r, e, w)
          THEN files' = [files EXCEPT ![stream] = "nonempty"] /\ Emit(<<HookEv(h, f, r, e, w, <<f>>)>>)
          ELSE UNCHANGED files /\ Emit(<<HookEv(h, f, r, e, w, <<>>)>>)
NoSave(h, f, r, e, w) == UNCHANGED <<active, files>> /\ Emit(<<HookEv(h, f, r, e, w, <<>>)>>)

\* response:  if flow.websocket is None: self.save_flow(flow)
RespHook(f) ==
  /\ Live /\ FlowTypes[f] \in {"http", "ws"} /\ pc[f] = "started"
  /\ hasResp' = [hasResp EXCEPT ![f] = TRUE]
  /\ IF FlowTypes[f] = "ws"
     THEN /\ wsd' = [wsd EXCEPT ![f] = TRUE] /\ pc' = [pc EXCEPT ![f] = "wsopen"]
          /\ NoSave("response", f, hasResp', hasErr, wsd')
     ELSE /\ UNCHANGED wsd /\ pc' = [pc EXCEPT ![f] = "responded"]
          /\ SaveFlow("response", f, hasResp', hasErr, wsd)
  /\ UNCHANGED <<optFile, filt, stream, curPath, cfg, finished, hasErr>>

\* error:  self.response(flow)
ErrHook(f) ==
  /\ Live /\ FlowTypes[f] \in {"http", "ws"} /\ pc[f] \in {"started", "responded", "wsopen"}
  /\ hasErr' = [hasErr EXCEPT ![f] = TRUE]
  /\ IF pc[f] = "wsopen"
     THEN pc' = [pc EXCEPT ![f] = "wserr"] /\ NoSave("error", f, hasResp, hasErr', wsd)
     ELSE pc' = [pc EXCEPT ![f] = "done"] /\ SaveFlow("error", f, hasResp, hasErr', wsd)
  /\ UNCHANGED <<optFile, filt, stream, curPath, cfg, finished, hasResp, wsd>>

\* websocket_end:  self.save_flow(flow)
WsEndHook(f) ==
  /\ Live /\ pc[f] \in {"wsopen", "wserr"}
  /\ pc' = [pc EXCEPT ![f] = "done"]
  /\ SaveFlow("websocket_end", f, hasResp, hasErr, wsd)
  /\ UNCHANGED <<optFile, filt, stream, curPath, cfg, finished, hasResp, hasErr, wsd>>

\* tcp_end / udp_end / dns_response:  self.save_flow(flow)
EndHook(f) ==
  /\ Live /\ FlowTypes[f] \in {"tcp", "udp", "dns"} /\ pc[f] = "started"
  /\ pc' = [pc EXCEPT ![f] = "done"]
  /\ hasResp' = IF FlowTypes[f] = "dns" THEN [hasResp EXCEPT ![f] = TRUE] ELSE hasResp
  /\ SaveFlow(HookName(f, "end"), f, hasResp', hasErr, wsd)
  /\ UNCHANGED <<optFile, filt, stream, curPath, cfg, finished, hasErr, wsd>>

\* tcp_error / udp_error / dns_error:  self.tcp_end(flow) / self.udp_end(flow) / self.save_flow(flow)
FailHook(f) ==
  /\ Live /\ FlowTypes[f] \in {"tcp", "udp", "dns"} /\ pc[f] = "started"
  /\ pc' = [pc EXCEPT ![f] = "done"]
  /\ hasErr' = [hasErr EXCEPT ![f] = TRUE]
  /\ SaveFlow(HookName(f, "fail"), f, hasResp, hasErr', wsd)
  /\ UNCHANGED <<optFile, filt, stream, curPath, cfg, finished, hasResp, wsd>>

Next == \/ \E p \in Paths, app \in BOOLEAN : SetFile(p, app)
        \/ \E fl \in Filters : SetFilter(fl)
        \/ SetFileBad
        \/ Unset
        \/ Done
        \/ \E f \in F : StartHook(f)
        \/ \E f \in F : RespHook(f)
        \/ \E f \in F : ErrHook(f)
        \/ \E f \in F : WsEndHook(f)
        \/ \E f \in F : EndHook(f)
        \/ \E f \in F : FailHook(f)
Spec == Init /\ [][Next]_vars
View == <<optFile, filt, stream, curPath, active, files, pc, hasResp, hasErr, wsd, cfg, finished, obs,
          [mon EXCEPT !.wit = {}]>>
Report == mon.bad # <<>> => PrintT(<<"BAD", mon.bad>>)
=============================================================================
