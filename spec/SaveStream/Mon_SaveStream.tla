--------------------------- MODULE Mon_SaveStream ---------------------------
(* Monitor for C39: stream saving writes each completed flow once and keeps open flows at shutdown.

   Flows are small integers.  Event records (projected from the real mitmproxy.addons.save.Save by props/C39.py);
   "new" is the sequence of flows whose records were appended to the stream file(s) by the step (read back from
   disk with an independent tnetstring reader; a record that is none of the scenario's flows is -1), "trunc" says
   that records which were on disk before the step are gone:
     [k |-> "setfile",   path, append, new, trunc]     save_stream_file set to a path (saving starts, or rotates)
     [k |-> "setfilter", flt, new, trunc]               save_stream_filter changed
     [k |-> "setfile_failed", new, trunc]               setting save_stream_file to an unopenable path was refused
                                                        (OptionsError); the option keeps its previous value
     [k |-> "hook", h, f, ws, match, new, trunc]        lifecycle hook h of flow f; ws = the flow carries WebSocket data;
                                                        match = f matches the filter now (independent evaluation)
     [k |-> "stop", how, matching, new, trunc]          saving stops (option unset / shutdown); matching = the
                                                        flows that match the filter now
     [k |-> "raised", op, exc]                          the call raised
   Completion of a flow (from the statement): response or error for plain HTTP, WebSocket end, TCP/UDP end or
   error, DNS response or error.                                                                              *)
EXTENDS Verif

MonInit == [bad |-> <<>>, wit |-> {}, saving |-> FALSE,
            path |-> 0,         \* the path saving currently goes to (0 = none)
            nrec |-> 0,         \* 1 once a record was appended in this saving session, else 0 (witnesses only)
            app |-> FALSE,      \* the current file was opened in append mode (witnesses only)
            cfgfail |-> FALSE,  \* an option change was refused while saving, earlier in this history: only used in signatures
            pending |-> {},     \* started while saving was active, not completed, not yet handled by a stop
            stopw |-> {},       \* written at a stop and neither completed nor started again since
            completed |-> {},   \* last lifecycle event was a completion that matched (so its record was written)
            norec |-> {}]       \* last lifecycle event was a completion that appended nothing (the flow did not match
                                \* then, or saving was off): the flow HAS completed, so a later stop owes it nothing --
                                \* a stop writes the flows that "had not completed"; a record for this one now would be
                                \* a record of a completion that did not match

StartHooks == {"request", "tcp_start", "udp_start", "dns_request"}
EndHooks   == {"tcp_end", "tcp_error", "udp_end", "udp_error", "dns_response", "dns_error", "websocket_end"}
IsStart(ev) == ev.h \in StartHooks
IsCompletion(ev) == ev.h \in EndHooks \/ (ev.h \in {"response", "error"} /\ ~ev.ws)

Count(s, x) == Cardinality({i \in 1..Len(s) : s[i] = x})
Others(s, x) == \E i \in 1..Len(s) : s[i] # x

Cause(m) == IF m.cfgfail THEN "after_refused_option_change" ELSE "normal"

HookClause(m, ev) ==
  IF ev.trunc THEN <<"C39.records_lost", "hook">>
  ELSE IF IsCompletion(ev) THEN
    IF Others(ev.new, ev.f) THEN <<"C39.other_flow_written", ev.h>>
    ELSE IF ev.match /\ Count(ev.new, ev.f) = 0 THEN <<"C39.completion_not_written", ev.h, Cause(m)>>
    ELSE IF ev.match /\ Count(ev.new, ev.f) > 1 THEN <<"C39.completion_written_twice", ev.h>>
    ELSE IF ~ev.match /\ Count(ev.new, ev.f) > 0 THEN <<"C39.nonmatching_written", ev.h>>
    ELSE <<>>
  ELSE IF Count(ev.new, ev.f) > 0 THEN <<"C39.written_before_completion", ev.h>>
  ELSE IF ev.new # <<>> THEN <<"C39.other_flow_written", ev.h>>
  ELSE <<>>

StopClause(m, ev) ==
  LET M == ToSet(ev.matching)
      N == ToSet(ev.new)
  IN IF ev.trunc THEN <<"C39.records_lost", "stop">>
     ELSE IF \E f \in m.pending \cap M : Count(ev.new, f) = 0 THEN <<"C39.stop_open_flow_not_written", Cause(m)>>
     ELSE IF \E f \in N : Count(ev.new, f) > 1 THEN <<"C39.stop_written_twice">>
     ELSE IF N \ M # {} THEN <<"C39.nonmatching_written", "stop">>
     ELSE IF N \cap m.stopw # {} THEN <<"C39.stop_written_again">>
     ELSE IF N \cap m.completed # {} THEN <<"C39.stop_completed_rewritten">>
     ELSE IF N \cap m.norec # {} THEN <<"C39.stop_wrote_completed_flow">>
     ELSE <<>>

Clause(m, ev) ==
  CASE ev.k = "raised" -> <<"C39.raised", ev.op, ev.exc>>
    [] ev.k = "hook" /\ m.saving -> HookClause(m, ev)
    [] ev.k = "stop" /\ m.saving -> StopClause(m, ev)
    [] ev.k \in {"setfile", "setfilter", "setfile_failed"} /\ m.saving ->
         \* records already appended stay in the file across option changes; only opening ANOTHER path in
         \* overwrite mode may legitimately empty that other file
         IF ev.trunc /\ (ev.k # "setfile" \/ ev.path = m.path) THEN <<"C39.records_lost", ev.k>>
         ELSE IF ev.new # <<>> THEN <<"C39.written_outside_completion", ev.k>> ELSE <<>>
    [] OTHER -> <<>>

WitOf(m, ev) ==
  CASE ev.k = "hook" /\ m.saving ->
         {ev.h}
         \cup (IF IsCompletion(ev) THEN (IF ev.match THEN {"completion_match"} ELSE {"completion_nomatch"}) ELSE {})
         \cup (IF IsCompletion(ev) /\ ev.f \notin m.pending THEN {"completion_of_flow_not_started_while_saving"} ELSE {})
         \cup (IF IsCompletion(ev) /\ ev.f \in m.completed THEN {"second_completion"} ELSE {})
         \cup (IF ev.h \in {"response", "error"} /\ ev.ws THEN {"ws_not_a_completion"} ELSE {})
         \cup (IF IsCompletion(ev) /\ ev.f \in m.stopw THEN {"completion_after_stop_write"} ELSE {})
    [] ev.k = "stop" /\ m.saving ->
         {IF ev.how = "unset" THEN "stop_unset" ELSE "stop_done"}
         \cup (IF m.pending \cap ToSet(ev.matching) # {} THEN {"stop_pending_match"} ELSE {})
         \cup (IF m.pending \ ToSet(ev.matching) # {} THEN {"stop_pending_nomatch"} ELSE {})
         \cup (IF Cardinality(m.pending) > 1 THEN {"stop_several_pending"} ELSE {})
         \cup (IF m.completed # {} THEN {"stop_with_completed"} ELSE {})
         \cup (IF m.norec \cap ToSet(ev.matching) # {} THEN {"stop_with_unwritten_completion_now_matching"} ELSE {})
    [] ev.k = "setfile" ->
         (IF m.saving THEN {"rotate"} \cup (IF m.pending # {} THEN {"rotate_while_pending"} ELSE {})
          ELSE {IF ev.append THEN "start_append" ELSE "start_overwrite"}
               \cup (IF m.stopw # {} \/ m.completed # {} THEN {"second_session"} ELSE {}))
    [] ev.k = "setfile_failed" -> IF m.saving THEN {"refused_option_change_while_saving"} ELSE {"refused_option_change"}
    [] ev.k = "setfilter" /\ m.saving ->
         {"filter_change"} \cup (IF m.pending # {} THEN {"filter_change_while_pending"} ELSE {})
                           \cup (IF m.nrec > 0 THEN {IF m.app THEN "filter_change_after_records_append"
                                                              ELSE "filter_change_after_records_overwrite"} ELSE {})
    [] OTHER -> {}

MonStep(m, ev) ==
  IF ev.k = "raised" THEN [m EXCEPT !.bad = Clause(m, ev)]
  ELSE
  [m EXCEPT
    !.bad = Clause(m, ev),
    !.wit = @ \cup WitOf(m, ev),
    !.saving = CASE ev.k = "setfile" -> TRUE [] ev.k = "stop" -> FALSE [] OTHER -> @,
    !.path = CASE ev.k = "setfile" -> ev.path [] ev.k = "stop" -> 0 [] OTHER -> @,
    !.app = IF ev.k = "setfile" /\ (~m.saving \/ ev.path # m.path) THEN ev.append ELSE @,
    !.nrec = CASE ev.k = "stop" -> 0 [] ev.k = "setfile" /\ ~m.saving -> 0 [] OTHER -> IF ev.new # <<>> THEN 1 ELSE @,
    !.cfgfail = @ \/ (ev.k = "setfile_failed" /\ m.saving),
    !.pending = CASE ev.k = "hook" /\ IsStart(ev) /\ m.saving -> @ \cup {ev.f}
                  [] ev.k = "hook" /\ IsCompletion(ev) -> @ \ {ev.f}
                  [] ev.k = "stop" -> {}
                  [] OTHER -> @,
    !.stopw = CASE ev.k = "hook" /\ (IsStart(ev) \/ IsCompletion(ev)) -> @ \ {ev.f}
                [] ev.k = "stop" /\ m.saving -> @ \cup ToSet(ev.new)
                [] OTHER -> @,
    !.norec = CASE ev.k = "hook" /\ IsStart(ev) -> @ \ {ev.f}
                [] ev.k = "hook" /\ IsCompletion(ev) -> IF ev.match /\ m.saving THEN @ \ {ev.f} ELSE @ \cup {ev.f}
                [] OTHER -> @,
    !.completed = CASE ev.k = "hook" /\ IsStart(ev) -> @ \ {ev.f}
                    [] ev.k = "hook" /\ IsCompletion(ev) -> IF ev.match /\ m.saving THEN @ \cup {ev.f} ELSE @ \ {ev.f}
                    [] OTHER -> @]
Wit(m) == m.wit
=============================================================================
