----------------------------- MODULE FilterExpr -----------------------------
(* Generator of filter expression texts, token by token, together with
     (d) the tree the documented grammar gives the text (see Mon_FilterExpr) and
     (c) what mitmproxy.flowfilter does with it, shaped like flowfilter._make():
           bnf = OneOrMore(infix_notation(atom, [("!", 1, RIGHT), ("&", 2, LEFT), ("|", 2, LEFT)]))  -> FAnd of the parts
         i.e. juxtaposition separates complete infix expressions at the top level only.
   A frame of the stack is one parenthesis level under construction:
     dOr, dAnd : documented reading -- finished alternatives of the "|" chain, factors of the current "&" chain
     cJ, cOr, cAnd : the code's reading -- finished juxtaposed parts, finished alternatives, current factors
     negs : "!" seen before the next operand;  pad : the group is written "( x )" rather than "(x)"
   Deliberate deviations of the code from the documented grammar, as they are in flowfilter._make():
     JuxtLowest    = TRUE : a juxtaposition ends the whole infix expression ("a | b c" is (a|b) & c, not a | (b&c))
     JuxtInGroup   = FALSE: inside parentheses only one infix expression is accepted ("(a b)" is rejected)
     UnaryAtRparen = FALSE: Literal("~q") + WordEnd() uses the default word characters (all printables), so an
                            operator without argument directly followed by ")" is rejected ("(~q)", "(~u x | ~s)")   *)
EXTENDS Mon_FilterExpr, TLC
CONSTANTS NAtoms,      \* atoms a1..aK of a scenario
          AtomKind,    \* <<"unary" | "arg">>: written "~q" or "~u regex" / "~c 200" / bare regex
          MaxAtoms,    \* atom occurrences per expression
          MaxDepth,    \* nesting of parentheses
          MaxNeg,      \* consecutive "!"
          Pads,        \* subset of BOOLEAN: ways to write a group
          Again,       \* ways a second, related text is parsed afterwards in the same process:
                       \*   "respaced"    the same text with other white space between the tokens
                       \*   "inner_space" the same text, but quoted arguments with other white space INSIDE the quotes
                       \*                 (a different regex: the harness builds the flows for it anew)
                       \*   "recased"     the same text with the letters of the regexes in the other case
          JuxtLowest, JuxtInGroup, UnaryAtRparen
VARIABLES toks, stack, phase, natoms, lastUnary, accepted, fparse, feval, uses, mon, obs
vars == <<toks, stack, phase, natoms, lastUnary, accepted, fparse, feval, uses, mon, obs>>

Frame(pad) == [dOr |-> <<>>, dAnd |-> <<>>, cJ |-> <<>>, cOr |-> <<>>, cAnd |-> <<>>, negs |-> 0, pad |-> pad,
               hasJ |-> FALSE, hasOr |-> FALSE]
Init == /\ toks = <<>> /\ stack = <<Frame(FALSE)>> /\ phase = "operand" /\ natoms = 0 /\ lastUnary = FALSE
        /\ accepted = TRUE /\ fparse = "plain" /\ feval = "plain" /\ uses = {} /\ mon = MonInit /\ obs = <<>>
Emit(evs) == obs' = evs /\ mon' = FoldEvents(MonStep, mon, evs)
Live == mon.bad = <<>>
Quiet == UNCHANGED <<mon, obs>>

RECURSIVE FoldOp(_, _)
FoldOp(op, s) == IF Len(s) = 1 THEN s[1] ELSE <<op, FoldOp(op, SubSeq(s, 1, Len(s) - 1)), s[Len(s)]>>   \* left-assoc
RECURSIVE NotN(_, _)
NotN(n, t) == IF n = 0 THEN t ELSE <<"not", NotN(n - 1, t)>>
DocVal(fr) == FoldOp("or", fr.dOr \o <<FoldOp("and", fr.dAnd)>>)
CodeE(fr) == FoldOp("or", fr.cOr \o <<FoldOp("and", fr.cAnd)>>)
CodeVal(fr) == FoldOp("and", fr.cJ \o <<CodeE(fr)>>)

Top == stack[Len(stack)]
SetTop(fr) == [stack EXCEPT ![Len(stack)] = fr]
\* an operand (documented tree d, code tree c) arrives in frame fr
Operand(fr, d, c) == [fr EXCEPT !.dAnd = Append(@, NotN(fr.negs, d)), !.cAnd = Append(@, NotN(fr.negs, c)), !.negs = 0]

Atom(i) ==
  /\ Live /\ phase = "operand" /\ natoms < MaxAtoms
  /\ toks' = Append(toks, <<"a", i>>) /\ natoms' = natoms + 1 /\ phase' = "operator"
  /\ stack' = SetTop(Operand(Top, <<"a", i>>, <<"a", i>>)) /\ lastUnary' = (AtomKind[i] = "unary")
  /\ uses' = uses \cup {AtomKind[i]} /\ UNCHANGED <<accepted, fparse, feval>> /\ Quiet

Not ==
  /\ Live /\ phase = "operand" /\ Top.negs < MaxNeg /\ natoms < MaxAtoms
  /\ toks' = Append(toks, <<"!">>) /\ stack' = SetTop([Top EXCEPT !.negs = @ + 1])
  /\ uses' = uses \cup {"not"} /\ UNCHANGED <<phase, natoms, lastUnary, accepted, fparse, feval>> /\ Quiet

Open(pad) ==
  /\ Live /\ phase = "operand" /\ Len(stack) <= MaxDepth /\ natoms < MaxAtoms
  /\ toks' = Append(toks, <<"(", pad>>) /\ stack' = Append(stack, Frame(pad))
  /\ uses' = uses \cup {"group"} \cup (IF pad THEN {"padded_group"} ELSE {"tight_group"})
  /\ UNCHANGED <<phase, natoms, lastUnary, accepted, fparse, feval>> /\ Quiet

And ==
  /\ Live /\ phase = "operator" /\ natoms < MaxAtoms
  /\ toks' = Append(toks, <<"&">>) /\ phase' = "operand" /\ uses' = uses \cup {"and"}
  /\ UNCHANGED <<stack, natoms, lastUnary, accepted, fparse, feval>> /\ Quiet

Or ==
  /\ Live /\ phase = "operator" /\ natoms < MaxAtoms
  /\ toks' = Append(toks, <<"|">>) /\ phase' = "operand" /\ uses' = uses \cup {"or"}
  /\ stack' = SetTop([Top EXCEPT !.dOr = Append(@, FoldOp("and", Top.dAnd)), !.dAnd = <<>>,
                                 !.cOr = Append(@, FoldOp("and", Top.cAnd)), !.cAnd = <<>>, !.hasOr = TRUE])
  /\ feval' = IF Top.hasJ /\ JuxtLowest THEN "juxtaposition_beside_or" ELSE feval
  /\ UNCHANGED <<natoms, lastUnary, accepted, fparse>> /\ Quiet

\* the next operand follows without an operator
Juxt ==
  /\ Live /\ phase = "operator" /\ natoms < MaxAtoms
  /\ toks' = Append(toks, <<"_">>) /\ phase' = "operand" /\ uses' = uses \cup {"juxtaposition"}
  /\ stack' = SetTop(IF JuxtLowest
                     THEN [Top EXCEPT !.cJ = Append(@, CodeE(Top)), !.cOr = <<>>, !.cAnd = <<>>, !.hasJ = TRUE]
                     ELSE [Top EXCEPT !.hasJ = TRUE])
  /\ feval' = IF Top.hasOr /\ JuxtLowest THEN "juxtaposition_beside_or" ELSE feval
  /\ IF Len(stack) > 1 /\ ~JuxtInGroup
     THEN accepted' = FALSE /\ fparse' = (IF fparse = "plain" THEN "juxtaposition_in_group" ELSE fparse)
     ELSE UNCHANGED <<accepted, fparse>>
  /\ UNCHANGED <<natoms, lastUnary>> /\ Quiet

Close ==
  /\ Live /\ phase = "operator" /\ Len(stack) > 1
  /\ LET fr == Top
         parent == stack[Len(stack) - 1]
         stuck == lastUnary /\ ~fr.pad /\ ~UnaryAtRparen
     IN /\ toks' = Append(toks, <<")", fr.pad>>)
        /\ stack' = [SubSeq(stack, 1, Len(stack) - 2) \o <<Operand(parent, DocVal(fr), CodeVal(fr))>> EXCEPT ![1] = @]
        /\ accepted' = (accepted /\ ~stuck)
        /\ fparse' = IF stuck THEN "unary_before_rparen" ELSE fparse
  /\ lastUnary' = FALSE /\ UNCHANGED <<phase, natoms, feval, uses>> /\ Quiet

Rows == [r \in 1..(2 ^ NAtoms) |-> [i \in 1..NAtoms |-> ((r - 1) \div (2 ^ (i - 1))) % 2 = 1]]

\* flowfilter.parse(text) and filter(flow) for every flow
Judged ==
  LET d == DocVal(Top)
      c == CodeVal(Top)
      p == [k |-> "parse", toks |-> toks, ok |-> accepted, ast |-> d, fparse |-> fparse, feval |-> feval,
            uses |-> SetToSortSeq(uses, LAMBDA a, b : TRUE)]
  IN IF accepted
     THEN <<p, [k |-> "verdicts", got |-> [r \in 1..Len(Rows) |-> Eval(c, Rows[r])], facts |-> Rows]>>
     ELSE <<p>>

Finish ==
  /\ Live /\ phase = "operator" /\ Len(stack) = 1
  /\ phase' = "done" /\ UNCHANGED <<toks, stack, natoms, lastUnary, accepted, fparse, feval, uses>>
  /\ Emit(Judged)

\* a related text is parsed in the same process afterwards: parse() is a function of its argument alone, so the
\* structure, and with it both readings, are those of the first text (the atoms may be other regexes)
Reparse(how) ==
  /\ Live /\ phase = "done" /\ accepted
  /\ phase' = "done2" /\ UNCHANGED <<toks, stack, natoms, lastUnary, accepted, fparse, feval, uses>>
  /\ Emit(Judged)

Next == \/ \E i \in 1..NAtoms : Atom(i)
        \/ Not
        \/ \E pad \in Pads : Open(pad)
        \/ And
        \/ Or
        \/ Juxt
        \/ Close
        \/ Finish
        \/ \E how \in Again : Reparse(how)
Spec == Init /\ [][Next]_vars
Report == mon.bad # <<>> => PrintT(<<"BAD", mon.bad>>)
=============================================================================
