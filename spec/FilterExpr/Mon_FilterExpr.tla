--------------------------- MODULE Mon_FilterExpr ---------------------------
(* Monitor for C42: filter expressions mean what the documented grammar says.

   The documented grammar (docs/src/content/concepts/filters.md, flowfilter module docstring and help table):
       expr   ::= conj ( "|" conj )*                    "|" binds weakest
       conj   ::= unary ( ["&"] unary )*                juxtaposition: "the default binary operator is &"
       unary  ::= "!" unary | "(" expr ")" | atom      "!" binds tightest
   An expression tree is  <<"a", i>> (atom number i of the scenario) | <<"not", t>> | <<"and", t, u>> | <<"or", t, u>>.
   Event records (props/C42.py):
     [k |-> "parse", ok |-> BOOLEAN,               \* flowfilter.parse returned a filter (FALSE: it raised ValueError)
                     ast |-> tree,                 \* the text read by the harness's reference parser of the grammar above
                     fparse, feval |-> STRING,     \* abstract feature of the text (signature of a violation only)
                     uses |-> <<STRING>>, ...]     \* constructs the text uses (witnesses only)
     [k |-> "verdicts", got |-> <<BOOLEAN>>,       \* filter(flow) for every flow of the scenario
                        facts |-> << <<BOOLEAN>> >>] \* facts[r][i]: atom i holds on flow r (table flows: by construction;
                                                     \* pool flows: by the harness's own reading of the flow)
     [k |-> "raised", exc |-> STRING]              \* filter(flow) raised instead of giving a verdict               *)
EXTENDS Verif

MonInit == [bad |-> <<>>, wit |-> {}, ast |-> <<>>, feval |-> ""]

RECURSIVE Eval(_, _)
Eval(t, row) == CASE t[1] = "a" -> row[t[2]]
                  [] t[1] = "not" -> ~Eval(t[2], row)
                  [] t[1] = "and" -> Eval(t[2], row) /\ Eval(t[3], row)
                  [] t[1] = "or" -> Eval(t[2], row) \/ Eval(t[3], row)
                  [] OTHER -> FALSE

\* shape witnesses: where precedence and grouping matter
RECURSIVE Shapes(_)
Shapes(t) ==
  CASE t[1] = "a" -> {}
    [] t[1] = "not" -> {"not"} \cup (IF t[2][1] \in {"and", "or"} THEN {"not_of_group"} ELSE {})
                               \cup (IF t[2][1] = "not" THEN {"not_not"} ELSE {}) \cup Shapes(t[2])
    [] t[1] = "and" -> {"and"} \cup (IF t[2][1] = "or" \/ t[3][1] = "or" THEN {"and_of_or"} ELSE {})
                               \cup (IF t[3][1] = "and" THEN {"and_right_nested"} ELSE {})
                               \cup Shapes(t[2]) \cup Shapes(t[3])
    [] t[1] = "or" -> {"or"} \cup (IF t[2][1] = "and" \/ t[3][1] = "and" THEN {"or_of_and"} ELSE {})
                             \cup (IF t[2][1] = "not" \/ t[3][1] = "not" THEN {"or_of_not"} ELSE {})
                             \cup Shapes(t[2]) \cup Shapes(t[3])
    [] OTHER -> {}

MonStep(m, ev) ==
  IF ev.k = "parse" THEN
    [m EXCEPT !.bad = IF ev.ok THEN <<>> ELSE <<"C42.not_accepted", ev.fparse>>,
              !.ast = ev.ast, !.feval = ev.feval,
              !.wit = @ \cup {"parse"} \cup (IF ev.ok THEN Shapes(ev.ast) \cup ToSet(ev.uses) ELSE {})
                        \cup (IF m.ast # <<>> THEN {"parsed_after_another"} ELSE {})]
  ELSE IF ev.k = "verdicts" THEN
    LET wrong == { r \in 1..Len(ev.got) : ev.got[r] # Eval(m.ast, ev.facts[r]) }
    IN [m EXCEPT !.bad = IF wrong = {} THEN <<>> ELSE <<"C42.verdict_differs", m.feval>>,
                 !.wit = @ \cup {"verdicts"}
                           \cup (IF \E r \in 1..Len(ev.got) : ev.got[r] THEN {"some_match"} ELSE {})
                           \cup (IF \E r \in 1..Len(ev.got) : ~ev.got[r] THEN {"some_nonmatch"} ELSE {})]
  ELSE IF ev.k = "raised" THEN
    [m EXCEPT !.bad = <<"C42.evaluation_raised", ev.exc>>]
  ELSE m
Wit(m) == m.wit
=============================================================================
