---------------------------- MODULE Mon_Export ----------------------------
(* Monitor for C48: exported commands reproduce the request and are shell-safe.

   Event records (props/C48.py: the real mitmproxy.addons.export.Export writes the command to a file, /bin/bash runs
   the file with PATH = a directory of stub programs that dump their argv and stdin; a DEBUG trap logs every simple
   command the shell executes; independent reference decoders turn the argv back into a request):
     (every record carries nth: the how-manieth export of the SAME flow this is; want is always the request the flow
      was created with, so an export that alters the flow shows up in the following exports)
     [k |-> "run", fmt |-> "curl" | "httpie", field |-> the field that carries the generated string ("mixed": several),
      cls   |-> the character classes of that string (<<>> for hand-made strings; informational),
      cmds  |-> << names of the simple commands the shell executed, in order >>   ("curl", "http", "printf", ...)
      nprog |-> how often the stub of the target program ran,
      other |-> how many other programs were looked up or run (planted canary program, unknown command names),
      sherr |-> BOOLEAN: the shell reported a syntax error or the target program never ran,
      m, u, b |-> <<want, got>>: method, URL, body as small ids (equal ids = equal strings; want is always 1),
      h_w, h_g |-> header lists, one id per (name, value); h_w in request order with ids 1..n, h_g in argument
                   order; compared as multisets ("header set")
      text  |-> BOOLEAN: the request body is valid text (only then the body is judged, and only for curl),
      tags  |-> sorted sequence of scenario features (fixed by the generated strings): body_at body_bs body_ctl
                body_hy body_pct body_trail_nl get_with_body hdr_at hdr_empty_value url_glob]
     [k |-> "refused", fmt, exc]      the exporter raised (e.g. CommandError for a body that is not valid text)
     [k |-> "raw", parsed |-> BOOLEAN, m, t, v, b |-> <<want, got>>, h_w, h_g |-> header lists in wire order]   raw export parsed back by the
                                      reference HTTP/1 parser (method, target, version, headers, body)
   "got" is what curl would do with the argv according to its manual: -X, -H (a value that is empty after the colon
   removes the header, a leading @ reads a file), -d (a leading @ reads a file; implies POST), URL globbing of
   [ ] { } unless -g is given.  For httpie only the argv convention  http METHOD URL 'name: value'...  is compared. *)
EXTENDS Verif

MonInit == [bad |-> <<>>, wit |-> {}]

Prog(ev) == IF ev.fmt = "curl" THEN "curl" ELSE "http"
Has(ev, t) == \E i \in 1..Len(ev.tags) : ev.tags[i] = t
Differs(p) == p[1] # p[2]
Count(s, x) == Cardinality({i \in 1..Len(s) : s[i] = x})
SameBag(a, b) == Len(a) = Len(b) /\ \A x \in ToSet(a) \cup ToSet(b) : Count(a, x) = Count(b, x)

BodyCause(ev) ==
  IF Has(ev, "body_at") THEN "at_prefix"
  ELSE IF ~Has(ev, "body_ctl") THEN "plain"
  ELSE IF Has(ev, "body_hy") THEN "printf_leading_hyphen"
  ELSE IF Has(ev, "body_pct") THEN "printf_percent"
  ELSE IF Has(ev, "body_bs") THEN "printf_backslash"
  ELSE IF Has(ev, "body_trail_nl") THEN "substitution_strips_newline"
  ELSE "printf_plain"
UrlCause(ev) == IF Has(ev, "url_glob") THEN "glob_chars" ELSE "plain"
HdrCause(ev) == IF Has(ev, "hdr_at") THEN "at_prefix" ELSE IF Has(ev, "hdr_empty_value") THEN "empty_value" ELSE "plain"
MethodCause(ev) == IF Has(ev, "get_with_body") THEN "get_with_body" ELSE "plain"

RunClause(ev) ==
  IF ev.other > 0 \/ \E i \in 1..Len(ev.cmds) : ev.cmds[i] \notin {Prog(ev), "printf"}
    THEN <<"C48.executes_other_command", ev.fmt, ev.field>>
  ELSE IF ev.sherr \/ ev.nprog # 1
    THEN <<"C48.not_exactly_one_program_run", ev.fmt, ev.field>>
  ELSE IF Differs(ev.m) THEN <<"C48.method_differs", ev.fmt, MethodCause(ev)>>
  ELSE IF Differs(ev.u) THEN <<"C48.url_differs", ev.fmt, UrlCause(ev)>>
  ELSE IF ~SameBag(ev.h_w, ev.h_g) THEN <<"C48.headers_differ", ev.fmt, HdrCause(ev)>>
  ELSE IF ev.fmt = "curl" /\ ev.text /\ Differs(ev.b) THEN <<"C48.body_differs", ev.fmt, BodyCause(ev)>>
  ELSE <<>>

RawClause(ev) ==
  IF ~ev.parsed THEN <<"C48.raw_differs", "unparsable">>
  ELSE IF Differs(ev.m) THEN <<"C48.raw_differs", "method">>
  ELSE IF Differs(ev.t) THEN <<"C48.raw_differs", "target">>
  ELSE IF Differs(ev.v) THEN <<"C48.raw_differs", "version">>
  ELSE IF ev.h_w # ev.h_g THEN <<"C48.raw_differs", "headers">>
  ELSE IF Differs(ev.b) THEN <<"C48.raw_differs", "body">>
  ELSE <<>>

MonStep(m, ev) ==
  IF ev.k = "run" THEN
    [m EXCEPT !.bad = RunClause(ev),
              !.wit = @ \cup {ev.fmt} \cup (IF ev.nth > 1 THEN {"command_after_export"} ELSE {})
                        \cup (IF Len(ev.cmds) > 1 THEN {"printf_form"} ELSE {})
                        \cup (IF ev.fmt = "curl" /\ ev.text /\ ~Differs(ev.b) /\ ev.b[1] = 1 /\ Len(ev.tags) = 0 THEN {"plain_ok"} ELSE {})
                        \cup (IF ev.fmt = "curl" /\ ev.text /\ ~Differs(ev.b) /\ Has(ev, "body_ctl") THEN {"ctl_body_ok"} ELSE {})
                        \cup (IF Len(ev.h_w) > 2 THEN {"several_headers"} ELSE {})]
  ELSE IF ev.k = "raw" THEN
    [m EXCEPT !.bad = RawClause(ev), !.wit = @ \cup {"raw"} \cup (IF ev.nth > 1 THEN {"raw_after_export"} ELSE {})]
  ELSE IF ev.k = "refused" THEN
    \* CommandError is the exporter's documented answer (e.g. a body that is no valid text); any other exception is a
    \* crash inside the export, which produced no command at all
    [m EXCEPT !.bad = IF ev.exc = "CommandError" THEN <<>> ELSE <<"C48.export_crashed", ev.fmt, ev.exc>>,
              !.wit = @ \cup {"refused"}]
  ELSE m
Wit(m) == m.wit
=============================================================================
