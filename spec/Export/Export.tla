------------------------------- MODULE Export -------------------------------
(* Implementation-shaped model of mitmproxy/addons/export.py (curl_command, httpie_command,
   request_content_for_console, shlex.quote) TOGETHER WITH the environment that gives the exported text a meaning:
   a model of POSIX shell word splitting / quoting / command substitution (ShParse), of the printf builtin on the
   emitted format strings (Printf) and of curl's reading of its arguments (CurlDecode).

   Strings are sequences of character CLASSES (the harness picks concrete characters of each class):
     "a"  letter/digit that is no printf escape letter     "sp" space         "sq" '      "dq" "      "bs" backslash
     "dl" $     "bt" backquote     "sc" shell operator ; | & ( ) < >          "nl" newline    "ct" other control char
     "cw" control character that is white space (TAB, CR, VT)
     "pc" %     "bg" !             "na" non-ASCII letter    "at" @            "hy" -          "lb" one of [ ] { }
   Shell source text additionally uses the word tokens  C (curl) H (http) P (printf) oH (-H) oX (-X) od (-d)
   CL0 (content-length: 0)  S (scheme://)  sl (/)  co (:)  lp/rp ( and ) of $( )  lt3 (<<<)  xnl/xct (the four characters
   \xNN that request_content_for_console writes for a control character)  GET POST (those method names).

   One behaviour = up to MaxSeq exports, in any formats, of ONE flow whose request differs from the base request in
   one field (an export must not change the flow: cleanup_request works on a copy).  Sequences longer than one are
   explored for strings of length <= SeqLen.                                                             *)
EXTENDS Mon_Export, TLC
CONSTANTS Alphabet,     \* character classes used for generated strings
          Work,         \* set of <<fmt, field, maxlen>>: which strings are explored for which format / field
          MaxSeq, SeqLen,
          Repaired      \* FALSE: export.py as it is.  TRUE: the handler proposed in findings_proposed/C48.md (body always
                        \* shlex.quote'd, curl --globoff / --data-raw / "-H 'name;'" for empty values / -X whenever a
                        \* body is sent, CommandError for a header name starting with @)
VARIABLES nexp,   \* exports done on this flow
          cur,    \* <<field, string>> that defines the flow's request (fixed by the first export)
          mon, obs
vars == <<nexp, cur, mon, obs>>

Init == nexp = 0 /\ cur = <<"", <<>>>> /\ mon = MonInit /\ obs = <<>>
Live == mon.bad = <<>> /\ nexp < MaxSeq
\* the same flow is exported again: its request is still the one the first export saw
SameFlow(field, s) == IF nexp = 0 THEN TRUE ELSE cur[1] = field /\ cur[2] = s /\ Len(s) <= SeqLen
Step(field, s) == nexp' = nexp + 1 /\ cur' = <<field, s>>
Emit(evs) == obs' = evs /\ mon' = FoldEvents(MonStep, mon, evs)

Strings(n) == UNION {[1..k -> Alphabet] : k \in 0..n}
RECURSIVE Flat(_)
Flat(ss) == IF Len(ss) = 0 THEN <<>> ELSE Head(ss) \o Flat(Tail(ss))

---------------------------------------------------------------------------
(* export.py *)
SafeCh == {"a", "pc", "at", "hy", "co", "sl", "S", "C", "H", "P", "oH", "oX", "od", "GET", "POST", "ctn", "oG", "odr"}   \* [\w@%+=:,./-]
Ctl == {"nl", "ct", "cw"}
Blank == {"sp", "nl", "cw"}       \* white space: not at either end of a header name / value (HTTP trims it)

\* shlex.quote
ShlexQuote(s) ==
  IF Len(s) = 0 THEN <<"sq", "sq">>
  ELSE IF \A i \in 1..Len(s) : s[i] \in SafeCh THEN s
  ELSE <<"sq">> \o Flat([i \in 1..Len(s) |-> IF s[i] = "sq" THEN <<"sq", "dq", "sq", "dq", "sq">> ELSE <<s[i]>>])
       \o <<"sq">>

\* request_content_for_console: control characters become \xNN; if there was one, wrap in "$(printf ...)"
Escaped(s) == [i \in 1..Len(s) |-> IF s[i] = "nl" THEN "xnl" ELSE IF s[i] = "ct" THEN "xct"
                                    ELSE IF s[i] = "cw" THEN "xcw" ELSE s[i]]
ContentForConsole(s) ==
  IF Repaired THEN ShlexQuote(s) ELSE
  IF \E i \in 1..Len(s) : s[i] \in Ctl
  THEN <<"dq", "dl", "lp", "P", "sp">> \o ShlexQuote(Escaped(s)) \o <<"rp", "dq">>
  ELSE ShlexQuote(Escaped(s))

RECURSIVE JoinSp(_)
JoinSp(ws) == IF Len(ws) = 0 THEN <<>> ELSE IF Len(ws) = 1 THEN ws[1] ELSE ws[1] \o <<"sp">> \o JoinSp(Tail(ws))

Url(r) == <<"S">> \o r.host \o <<"sl">> \o r.path
HeaderArg(r) == r.hname \o <<"co", "sp">> \o r.hval
CurlHeaderArg(r) == IF Repaired /\ Len(r.hval) = 0 THEN r.hname \o <<"semi">> ELSE HeaderArg(r)
\* every generated request also carries  content-type: text/plain; charset=utf-8  (ctn: ctv; ctv needs quoting)
CtArg == <<"ctn", "co", "sp", "ctv">>

\* curl_command (one header; no accept-encoding, no --resolve in the model)
CurlCommand(r) ==
  LET args == (IF Repaired THEN <<<<"C">>, <<"oG">>>> ELSE <<<<"C">>>>)
              \o <<<<"oH">>, CurlHeaderArg(r), <<"oH">>, CtArg>>
              \o (IF r.method # <<"GET">> \/ (Repaired /\ Len(r.body) > 0)
                  THEN (IF Len(r.body) = 0 THEN <<<<"oH">>, <<"CL0">>>> ELSE <<>>) \o <<<<"oX">>, r.method>>
                  ELSE <<>>)
              \o <<Url(r)>>
      cmd == JoinSp([i \in 1..Len(args) |-> ShlexQuote(args[i])])
  IN IF Len(r.body) > 0 THEN cmd \o <<"sp", IF Repaired THEN "odr" ELSE "od", "sp">> \o ContentForConsole(r.body) ELSE cmd

\* httpie_command
HttpieCommand(r) ==
  LET args == <<<<"H">>, r.method, Url(r), HeaderArg(r), CtArg>>
      cmd == JoinSp([i \in 1..Len(args) |-> ShlexQuote(args[i])])
  IN IF Len(r.body) > 0 THEN cmd \o <<"sp", "lt3", "sp">> \o ContentForConsole(r.body) ELSE cmd

---------------------------------------------------------------------------
(* the printf builtin applied to a format string (bash 5): what the emitted format strings rely on *)
RECURSIVE PrintfScan(_, _, _)
PrintfScan(f, i, acc) ==    \* acc = [out, bad]
  IF i > Len(f) THEN acc
  ELSE LET c == f[i]
           nx == IF i < Len(f) THEN f[i + 1] ELSE "" IN
    IF c = "pc" THEN [acc EXCEPT !.bad = TRUE]                              \* % starts a conversion
    ELSE IF c = "xnl" THEN PrintfScan(f, i + 1, [acc EXCEPT !.out = Append(@, "nl")])
    ELSE IF c = "xct" THEN PrintfScan(f, i + 1, [acc EXCEPT !.out = Append(@, "ct")])
    ELSE IF c = "xcw" THEN PrintfScan(f, i + 1, [acc EXCEPT !.out = Append(@, "cw")])
    ELSE IF c = "bs" THEN
         IF nx = "bs" THEN PrintfScan(f, i + 2, [acc EXCEPT !.out = Append(@, "bs")])          \* \\ -> \
         ELSE IF nx = "sq" THEN PrintfScan(f, i + 2, [acc EXCEPT !.out = Append(@, nx)])          \* \' -> '  (\" stays)
         ELSE IF nx \in {"xnl", "xct", "xcw"} THEN [acc EXCEPT !.bad = TRUE]           \* \ + \xNN reads as \\ then xNN
         ELSE PrintfScan(f, i + 1, [acc EXCEPT !.out = Append(@, "bs")])       \* unknown escape: kept
    ELSE PrintfScan(f, i + 1, [acc EXCEPT !.out = Append(@, c)])
Printf(f) == IF Len(f) > 0 /\ f[1] = "hy" THEN [out |-> <<>>, bad |-> TRUE]        \* read as an option
             ELSE PrintfScan(f, 1, [out |-> <<>>, bad |-> FALSE])
RECURSIVE StripNl(_)
StripNl(s) == IF Len(s) > 0 /\ s[Len(s)] = "nl" THEN StripNl(SubSeq(s, 1, Len(s) - 1)) ELSE s   \* $( ) drops them

---------------------------------------------------------------------------
(* POSIX shell: split a source text into simple-command words.
   st = [i, mode ("u" unquoted, "s" in '...', "d" in "..."), cur, has, words, inj, here, stdin, nsub, pbad] *)
St0 == [i |-> 1, mode |-> "u", cur |-> <<>>, has |-> FALSE, words |-> <<>>, inj |-> FALSE,
        here |-> FALSE, stdin |-> <<>>, hasin |-> FALSE, nsub |-> 0, pbad |-> FALSE]
Flush(st) == IF ~st.has THEN st
             ELSE IF st.here THEN [st EXCEPT !.stdin = st.cur, !.hasin = TRUE, !.here = FALSE, !.cur = <<>>, !.has = FALSE]
             ELSE [st EXCEPT !.words = Append(@, st.cur), !.cur = <<>>, !.has = FALSE]

\* index of the ")" that closes a "$(" opened just before position j; q = quoting mode inside the substitution
\* ("u", "s" in single quotes, "d" in double quotes: a new quoting context starts inside $( )); 0 if none
RECURSIVE CloseParen(_, _, _)
CloseParen(src, j, q) ==
  IF j > Len(src) THEN 0
  ELSE IF q = "s" THEN CloseParen(src, j + 1, IF src[j] = "sq" THEN "u" ELSE "s")
  ELSE IF q = "d" THEN (IF src[j] = "bs" THEN CloseParen(src, j + 2, "d")
                        ELSE CloseParen(src, j + 1, IF src[j] = "dq" THEN "u" ELSE "d"))
  ELSE IF src[j] = "sq" THEN CloseParen(src, j + 1, "s")
  ELSE IF src[j] = "dq" THEN CloseParen(src, j + 1, "d")
  ELSE IF src[j] = "bs" THEN CloseParen(src, j + 2, "u")
  ELSE IF src[j] = "rp" THEN j
  ELSE CloseParen(src, j + 1, "u")

RECURSIVE Scan(_, _)
Scan(src, st) ==
  IF st.i > Len(src)
  THEN LET f == Flush(st) IN [f EXCEPT !.inj = @ \/ st.mode # "u" \/ f.here]
  ELSE
    LET c  == src[st.i]
        nx == IF st.i < Len(src) THEN src[st.i + 1] ELSE ""
        lit(x, k) == [st EXCEPT !.i = @ + k, !.cur = Append(@, x), !.has = TRUE] IN
    IF st.mode = "s" THEN
         IF c = "sq" THEN Scan(src, [st EXCEPT !.i = @ + 1, !.mode = "u"]) ELSE Scan(src, lit(c, 1))
    ELSE IF st.mode = "d" THEN
         IF c = "dq" THEN Scan(src, [st EXCEPT !.i = @ + 1, !.mode = "u"])
         ELSE IF c = "dl" /\ nx = "lp" THEN
              LET e == CloseParen(src, st.i + 2, "u") IN
              IF e = 0 THEN [st EXCEPT !.inj = TRUE, !.i = Len(src) + 1]
              ELSE LET inner == Scan(SubSeq(src, st.i + 2, e - 1), St0)
                       okcmd == ~inner.inj /\ Len(inner.words) = 2 /\ inner.words[1] = <<"P">> /\ ~inner.hasin
                       p == IF okcmd THEN Printf(inner.words[2]) ELSE [out |-> <<>>, bad |-> TRUE] IN
                   Scan(src, [st EXCEPT !.i = e + 1, !.cur = @ \o StripNl(p.out), !.has = TRUE,
                                        !.nsub = @ + 1, !.pbad = @ \/ p.bad, !.inj = @ \/ ~okcmd])
         ELSE IF c \in {"dl", "bt"} THEN Scan(src, [lit(c, 1) EXCEPT !.inj = TRUE])      \* expansion inside "..."
         ELSE IF c = "bs" /\ nx \in {"dl", "bt", "dq", "bs"} THEN Scan(src, lit(nx, 2))
         ELSE Scan(src, lit(c, 1))
    ELSE \* unquoted
         IF c = "sp" THEN Scan(src, [Flush(st) EXCEPT !.i = st.i + 1])
         ELSE IF c = "sq" THEN Scan(src, [st EXCEPT !.i = @ + 1, !.mode = "s", !.has = TRUE])
         ELSE IF c = "dq" THEN Scan(src, [st EXCEPT !.i = @ + 1, !.mode = "d", !.has = TRUE])
         ELSE IF c = "bs" /\ nx # "" THEN Scan(src, lit(nx, 2))
         ELSE IF c = "lt3" THEN Scan(src, [Flush(st) EXCEPT !.i = st.i + 1, !.here = TRUE])
         ELSE IF c \in SafeCh \cup {"CL0"} THEN Scan(src, lit(c, 1))
         ELSE Scan(src, [lit(c, 1) EXCEPT !.inj = TRUE])      \* an unquoted metacharacter: not one simple command
ShParse(src) == Scan(src, St0)

---------------------------------------------------------------------------
(* curl's reading of its arguments (manual): -H, -X, -d, URL globbing *)
SplitHeader(w) ==     \* "name: value" -> <<present, name, value>>
  LET k == IF \E i \in 1..Len(w) : w[i] = "co" THEN CHOOSE i \in 1..Len(w) : w[i] = "co" /\ \A j \in 1..(i-1) : w[j] # "co" ELSE 0
      name == IF k = 0 THEN w ELSE SubSeq(w, 1, k - 1)
      raw == IF k = 0 THEN <<>> ELSE SubSeq(w, k + 1, Len(w))
      val == IF Len(raw) > 0 /\ raw[1] = "sp" THEN Tail(raw) ELSE raw
      semi == k = 0 /\ Len(w) > 1 /\ w[Len(w)] = "semi"          \* "name;" sends the header with an empty value
  IN IF semi THEN <<TRUE, SubSeq(w, 1, Len(w) - 1), <<>>>>
     ELSE <<k # 0 /\ Len(val) > 0 /\ ~(Len(w) > 0 /\ w[1] = "at"), name, val>>

RECURSIVE CurlArgs(_, _, _)
CurlArgs(ws, i, d) ==   \* d = [method, hasX, url, hdrs, body, hasD]
  IF i > Len(ws) THEN d
  ELSE IF ws[i] = <<"oH">> /\ i < Len(ws) THEN
       LET h == SplitHeader(ws[i + 1]) IN
       CurlArgs(ws, i + 2, IF ws[i + 1] = <<"CL0">> \/ ~h[1] THEN d ELSE [d EXCEPT !.hdrs = Append(@, <<h[2], h[3]>>)])
  ELSE IF ws[i] = <<"oX">> /\ i < Len(ws) THEN CurlArgs(ws, i + 2, [d EXCEPT !.method = ws[i + 1], !.hasX = TRUE])
  ELSE IF ws[i] = <<"od">> /\ i < Len(ws) THEN CurlArgs(ws, i + 2, [d EXCEPT !.body = ws[i + 1], !.hasD = TRUE])
  ELSE IF ws[i] = <<"odr">> /\ i < Len(ws) THEN CurlArgs(ws, i + 2, [d EXCEPT !.body = ws[i + 1], !.hasD = TRUE, !.raw = TRUE])
  ELSE IF ws[i] = <<"oG">> THEN CurlArgs(ws, i + 1, [d EXCEPT !.goff = TRUE])
  ELSE CurlArgs(ws, i + 1, [d EXCEPT !.url = ws[i]])
CurlDecode(ws) ==
  LET d == CurlArgs(ws, 2, [method |-> <<>>, hasX |-> FALSE, url |-> <<>>, hdrs |-> <<>>, body |-> <<>>, hasD |-> FALSE,
                            raw |-> FALSE, goff |-> FALSE])
  IN [method |-> IF d.hasX THEN d.method ELSE IF d.hasD THEN <<"POST">> ELSE <<"GET">>,
      url |-> IF ~d.goff /\ \E i \in 1..Len(d.url) : d.url[i] = "lb" THEN <<"globbed">> ELSE d.url,
      hdrs |-> d.hdrs,
      body |-> IF ~d.raw /\ Len(d.body) > 0 /\ d.body[1] = "at" THEN <<"file">> ELSE d.body]

HttpieDecode(ws) ==
  [method |-> IF Len(ws) >= 2 THEN ws[2] ELSE <<>>,
   url |-> IF Len(ws) >= 3 THEN ws[3] ELSE <<>>,
   hdrs |-> [i \in 1..(IF Len(ws) > 3 THEN Len(ws) - 3 ELSE 0) |->
               LET h == SplitHeader(ws[i + 3]) IN <<h[2], h[3]>>],
   body |-> <<>>]

---------------------------------------------------------------------------
Base == [method |-> <<"a">>, host |-> <<"a">>, path |-> <<>>, hname |-> <<"a">>, hval |-> <<"a">>, body |-> <<>>]
Request(field, s) ==
  CASE field = "method" -> [Base EXCEPT !.method = s]
    [] field = "host" -> [Base EXCEPT !.host = s]
    [] field = "path" -> [Base EXCEPT !.path = s]
    [] field = "hname" -> [Base EXCEPT !.hname = s]
    [] field = "hval" -> [Base EXCEPT !.hval = s]
    [] field = "body" -> [Base EXCEPT !.body = s]
    [] field = "getbody" -> [Base EXCEPT !.method = <<"GET">>, !.body = s]
\* strings the request model can carry (the harness has the same restrictions, see README)
Admissible(field, s) ==     \* IF rather than \/ : inside an action TLC would explore both disjuncts
  IF field \in {"method", "host"} THEN Len(s) > 0
  ELSE IF field = "hname" THEN (IF Len(s) = 0 THEN FALSE ELSE s[1] \notin Blank /\ s[Len(s)] \notin Blank)
  ELSE IF field = "hval" THEN (IF Len(s) = 0 THEN TRUE ELSE s[1] \notin Blank /\ s[Len(s)] \notin Blank)
  ELSE IF field = "getbody" THEN Len(s) > 0
  ELSE TRUE

Tags(r) ==
  LET has(c) == \E i \in 1..Len(r.body) : r.body[i] = c
      all == << <<"body_at", Len(r.body) > 0 /\ r.body[1] = "at">>,
                <<"body_bs", has("bs")>>,
                <<"body_ctl", has("nl") \/ has("ct") \/ has("cw")>>,
                <<"body_hy", Len(r.body) > 0 /\ r.body[1] = "hy">>,
                <<"body_pct", has("pc")>>,
                <<"body_trail_nl", Len(r.body) > 0 /\ r.body[Len(r.body)] = "nl">>,
                <<"get_with_body", r.method = <<"GET">> /\ Len(r.body) > 0>>,
                <<"hdr_at", Len(r.hname) > 0 /\ r.hname[1] = "at">>,
                <<"hdr_empty_value", Len(r.hval) = 0>>,
                <<"url_glob", \E i \in 1..Len(Url(r)) : Url(r)[i] = "lb">> >>
      sel == SelectSeq(all, LAMBDA t : t[2])
  IN [i \in 1..Len(sel) |-> sel[i][1]]

Pair(w, g) == IF w = g THEN <<1, 1>> ELSE <<1, 2>>

Export(fmt, field, s) ==
  /\ Live /\ SameFlow(field, s) /\ Step(field, s)
  /\ \E w \in Work : w[1] = fmt /\ w[2] = field /\ Len(s) <= w[3]
  /\ Admissible(field, s)
  /\ IF Repaired /\ fmt = "curl" /\ field = "hname" /\ s[1] = "at"
     THEN Emit(<<[k |-> "refused", fmt |-> fmt, nth |-> nexp + 1, exc |-> "CommandError"]>>)
     ELSE
     LET r   == Request(field, s)
         src == IF fmt = "curl" THEN CurlCommand(r) ELSE HttpieCommand(r)
         p   == ShParse(src)
         dec == IF fmt = "curl" THEN CurlDecode(p.words) ELSE HttpieDecode(p.words)
         prog == IF Len(p.words) > 0 /\ p.words[1] = <<"C">> THEN "curl"
                 ELSE IF Len(p.words) > 0 /\ p.words[1] = <<"H">> THEN "http" ELSE "other"
         wantH == <<r.hname, r.hval>>
         wantCt == << <<"ctn">>, <<"ctv">> >>
         hid(h) == IF h = wantH THEN 1 ELSE IF h = wantCt THEN 2 ELSE 3
         gotB == IF fmt = "curl" THEN (IF p.pbad THEN <<"garbled">> ELSE dec.body)
                 ELSE (IF Len(r.body) = 0 THEN <<>> ELSE IF p.pbad THEN <<"garbled">>
                       ELSE p.stdin \o <<"nl">>)                                   \* <<< appends a newline
     IN Emit(<<[k |-> "run", fmt |-> fmt, nth |-> nexp + 1, field |-> (IF field = "getbody" THEN "body" ELSE field), cls |-> s,
                cmds |-> <<prog>> \o [i \in 1..p.nsub |-> "printf"],
                nprog |-> IF prog = "other" THEN 0 ELSE 1,
                other |-> IF p.inj THEN 1 ELSE 0,
                sherr |-> FALSE,
                m |-> Pair(r.method, dec.method), u |-> Pair(Url(r), dec.url),
                h_w |-> <<1, 2>>,
                h_g |-> [i \in 1..Len(dec.hdrs) |-> hid(dec.hdrs[i])],
                b |-> Pair(r.body, gotB), text |-> TRUE, tags |-> Tags(r)]>>)

\* raw export (assemble_request): the text is the request; admissible strings are those HTTP/1 can carry
RawAdmissible(field, s) ==
  LET noctl == \A i \in 1..Len(s) : s[i] \notin Ctl
      nosp == \A i \in 1..Len(s) : s[i] # "sp" IN
  IF field \in {"method", "hname"} THEN Len(s) > 0 /\ noctl /\ nosp
  ELSE IF field = "path" THEN noctl
  ELSE IF field = "hval" THEN noctl /\ (IF Len(s) = 0 THEN TRUE ELSE s[1] # "sp" /\ s[Len(s)] # "sp")
  ELSE IF field = "host" THEN Len(s) > 0 /\ noctl
  ELSE field \in {"body", "getbody"}
ExportRaw(field, s) ==
  /\ Live /\ SameFlow(field, s) /\ Step(field, s)
  /\ \E w \in Work : w[1] = "raw" /\ w[2] = field /\ Len(s) <= w[3]
  /\ RawAdmissible(field, s)
  /\ Emit(<<[k |-> "raw", nth |-> nexp + 1, field |-> (IF field = "getbody" THEN "body" ELSE field), cls |-> s, parsed |-> TRUE, m |-> <<1, 1>>, t |-> <<1, 1>>, v |-> <<1, 1>>,
             h_w |-> <<1, 2, 3>>, h_g |-> <<1, 2, 3>>, b |-> <<1, 1>>]>>)

MaxLen == CHOOSE n \in {w[3] : w \in Work} : \A w \in Work : w[3] <= n
Next == \/ \E fmt \in {"curl", "httpie"}, field \in {w[2] : w \in Work}, s \in Strings(MaxLen) : Export(fmt, field, s)
        \/ \E field \in {w[2] : w \in Work}, s \in Strings(MaxLen) : ExportRaw(field, s)
Spec == Init /\ [][Next]_vars
Report == mon.bad # <<>> => PrintT(<<"BAD", mon.bad>>)
=============================================================================
