----------------------------- MODULE AddonChain -----------------------------
(* Implementation-shaped model of mitmproxy.addonmanager.AddonManager (register/add, remove, clear, trigger,
   trigger_event, invoke_addon(_sync), _iter_hooks, traverse, safecall).  One action per public call (the library
   is sequential: the linearization point is the call's return); the loops of the code are the recursive operators. *)
EXTENDS Mon_AddonChain, TLC
CONSTANTS World,      \* [dfs, name, beh] as in the monitor
          Tops,       \* addons the environment adds / removes (top-level)
          MaxOps
VARIABLES chain, lookup, nops, mon, obs
vars == <<chain, lookup, nops, mon, obs>>
EvHooks == {"configure", "running", "update"}

\* invoke_addon(_sync)(addon, event): handlers in traverse order; the first exception leaves the loop
RECURSIVE Invoke(_, _, _)
Invoke(tr, h, sync) ==
  IF tr = <<>> THEN [d |-> <<>>, exc |-> ""]
  ELSE LET a == Head(tr)  b == World.beh[a][h] IN
       IF b = "none" THEN Invoke(Tail(tr), h, sync)
       ELSE IF b = "aok" /\ sync THEN [d |-> <<>>, exc |-> "AddonManagerError"]  \* iscoroutinefunction: not called
       ELSE IF b = "raise" THEN [d |-> <<a>>, exc |-> "RuntimeError"]
       ELSE IF b = "halt" THEN [d |-> <<a>>, exc |-> "AddonHalt"]
       ELSE IF b = "opterr" THEN [d |-> <<a>>, exc |-> "OptionsError"]
       ELSE LET r == Invoke(Tail(tr), h, sync) IN [r EXCEPT !.d = <<a>> \o @]

\* trigger / trigger_event: for i in chain: try: with safecall(): invoke  except AddonHalt: return
RECURSIVE Trig(_, _, _)
Trig(c, h, sync) ==
  IF c = <<>> THEN [d |-> <<>>, exc |-> ""]
  ELSE LET r == Invoke(World.dfs[Head(c)], h, sync) IN
       IF r.exc = "AddonHalt" THEN [d |-> r.d, exc |-> ""]
       ELSE IF r.exc = "OptionsError" THEN r                \* safecall re-raises it, nothing catches it
       ELSE LET t == Trig(Tail(c), h, sync) IN [t EXCEPT !.d = r.d \o @]   \* other exceptions are logged

RECURSIVE ClearAll(_)
ClearAll(c) ==
  IF c = <<>> THEN [d |-> <<>>, exc |-> ""]
  ELSE LET r == Invoke(World.dfs[Head(c)], "done", TRUE) IN
       IF r.exc # "" THEN r ELSE LET t == ClearAll(Tail(c)) IN [t EXCEPT !.d = r.d \o @]

Deliveries(d, h) == [i \in 1..Len(d) |-> [k |-> "deliver", a |-> d[i], h |-> h]]
Sorted(S) == SetToSortSeq(S, LAMBDA x, y : x < y)
RetEv(err, c, l) == [k |-> "ret", err |-> err, chain |-> c, names |-> Sorted(l)]
WorldEv == [k |-> "world", dfs |-> World.dfs, name |-> World.name, beh |-> World.beh]

Emit(evs) == obs' = evs /\ mon' = FoldEvents(MonStep, mon, evs)

Init == /\ chain = <<>> /\ lookup = {} /\ nops = 0
        /\ mon = MonStep(MonInit, WorldEv) /\ obs = <<WorldEv>>
Live == mon.bad = <<>> /\ nops < MaxOps

AddAddon(a) ==
  /\ Live
  /\ nops' = nops + 1
  /\ LET tr == World.dfs[a]
         dup == \E x \in ToSet(tr) : \E y \in lookup : World.name[x] = World.name[y]
         r == Invoke(tr, "load", TRUE)
         call == [k |-> "call", op |-> "add", a |-> a] IN
     IF dup THEN /\ UNCHANGED <<chain, lookup>>
                 /\ Emit(<<call, RetEv("AddonManagerError", chain, lookup)>>)
     ELSE IF r.exc # "" THEN /\ UNCHANGED <<chain, lookup>>
                             /\ Emit(<<call>> \o Deliveries(r.d, "load") \o <<RetEv(r.exc, chain, lookup)>>)
     ELSE /\ chain' = Append(chain, a) /\ lookup' = lookup \cup ToSet(tr)
          /\ Emit(<<call>> \o Deliveries(r.d, "load") \o <<RetEv("", chain', lookup')>>)

RemoveAddon(a) ==
  /\ Live
  \* outside the domain: removing an unregistered object whose NAME is registered (the code then unregisters the
  \* other addon's name); the environment never does that
  /\ a \in lookup \/ \A y \in lookup : World.name[y] # World.name[a]
  /\ nops' = nops + 1
  /\ LET call == [k |-> "call", op |-> "remove", a |-> a] IN
     IF a \notin lookup THEN /\ UNCHANGED <<chain, lookup>>
                             /\ Emit(<<call, RetEv("AddonManagerError", chain, lookup)>>)
     ELSE LET r == Invoke(World.dfs[a], "done", TRUE) IN
          /\ chain' = SelectSeq(chain, LAMBDA x : x \notin ToSet(World.dfs[a]))
          /\ lookup' = lookup \ ToSet(World.dfs[a])
          /\ Emit(<<call>> \o Deliveries(r.d, "done") \o <<RetEv(r.exc, chain', lookup')>>)

Trigger(h, sync) ==
  /\ Live
  /\ nops' = nops + 1
  /\ UNCHANGED <<chain, lookup>>
  /\ LET r == Trig(chain, h, sync) IN
     Emit(<<[k |-> "call", op |-> "trigger", h |-> h, sync |-> sync]>> \o Deliveries(r.d, h)
          \o <<RetEv(r.exc, chain, lookup)>>)

Clear ==
  /\ Live
  /\ nops' = nops + 1
  /\ LET r == ClearAll(chain) IN
     /\ IF r.exc = "" THEN chain' = <<>> /\ lookup' = {} ELSE UNCHANGED <<chain, lookup>>
     /\ Emit(<<[k |-> "call", op |-> "clear"]>> \o Deliveries(r.d, "done") \o <<RetEv(r.exc, chain', lookup')>>)

Next == \/ \E a \in Tops : AddAddon(a)
        \/ \E a \in Tops : RemoveAddon(a)
        \/ \E h \in EvHooks, s \in BOOLEAN : Trigger(h, s)
        \/ Clear
Spec == Init /\ [][Next]_vars

Report == mon.bad # <<>> => PrintT(<<"BAD", mon.bad>>)
NoBad == mon.bad = <<>>
\* design-level facts
RegisteredNamesUnique == \A x, y \in lookup : World.name[x] = World.name[y] => x = y
ChainRegistered == \A i \in 1..Len(chain) : ToSet(World.dfs[chain[i]]) \subseteq lookup
ChainNoDup == \A i, j \in 1..Len(chain) : chain[i] = chain[j] => i = j
=============================================================================
