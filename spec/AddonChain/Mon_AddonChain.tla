--------------------------- MODULE Mon_AddonChain ---------------------------
(* X01 (coverage extension, not one of the 54 given properties): the addon manager delivers lifecycle and
   event hooks to the registered addon tree in a fixed discipline.

   Statement judged here (from the docstrings of mitmproxy/addonmanager.py):
     - add registers an addon and all its sub-addons, delivering load to each, and appends it to the chain;
       an addon whose name (or a sub-addon's name) is already registered is refused and nothing changes;
     - remove unregisters the addon and all its sub-addons and delivers done to each;
     - trigger / trigger_event deliver a hook to every registered addon that has a handler for it, in chain
       order, parents before their sub-addons, each at most once; an exception in a handler is logged and ends
       the delivery to that top-level addon only; AddonHalt ends the whole trigger; OptionsError propagates;
     - a handler that is a coroutine function cannot be called from the synchronous trigger (logged, that
       top-level addon's remaining handlers are skipped);
     - an addon never receives a hook while it is not registered.

   The world (addon tree, names, which handlers exist and what they do) is the first event of every trace:
     [k |-> "world", dfs |-> <<traversal of addon 1, traversal of addon 2, ...>>, name |-> <<...>>,
      beh |-> << [load |-> .., done |-> .., configure |-> .., running |-> .., update |-> ..], ... >>]
   handler outcomes: "none" (no handler), "ok", "raise", "halt", "opterr", "aok" (coroutine function).
   Other events:
     [k |-> "call", op |-> "add"|"remove"|"trigger"|"clear", a |-> id, h |-> hook, sync |-> BOOLEAN]
     [k |-> "deliver", a |-> id, h |-> hook]
     [k |-> "ret", err |-> "" or exception class, chain |-> <<ids>>, names |-> <<ids registered, ascending>>]  *)
EXTENDS Verif

NoCall == [op |-> "none", a |-> 0, h |-> "", sync |-> FALSE]
NoWorld == [dfs |-> <<>>, name |-> <<>>, beh |-> <<>>]
MonInit == [bad |-> <<>>, wit |-> {}, w |-> NoWorld, chain |-> <<>>, names |-> {}, cur |-> NoCall, got |-> <<>>,
            removed |-> {}]

\* deliveries to ONE top-level addon (its traversal tr), as a fold: [d, stop, all, err]
SubStep(w, h, sync, st, a) ==
    IF st.stop THEN st ELSE
    LET b == w.beh[a][h] IN
      IF b = "none" THEN st
      ELSE IF b = "aok" /\ sync THEN [st EXCEPT !.stop = TRUE, !.cls = "async_in_sync"]
      ELSE IF b \in {"raise", "halt", "opterr"}
           THEN [st EXCEPT !.d = Append(@, a), !.stop = TRUE, !.cls = b]
      ELSE [st EXCEPT !.d = Append(@, a)]
RECURSIVE FoldSub(_, _, _, _, _)
FoldSub(w, h, sync, st, tr) ==
  IF tr = <<>> THEN st ELSE FoldSub(w, h, sync, SubStep(w, h, sync, st, Head(tr)), Tail(tr))
Sub(w, h, sync, a) == FoldSub(w, h, sync, [d |-> <<>>, stop |-> FALSE, cls |-> ""], w.dfs[a])

\* deliveries of a trigger over the chain: [d, cls] where cls is "halt"/"opterr" when the whole trigger ended early
RECURSIVE Over(_, _, _, _)
Over(w, h, sync, c) ==
  IF c = <<>> THEN [d |-> <<>>, cls |-> "", seen |-> {}]
  ELSE LET s == Sub(w, h, sync, Head(c)) IN
       IF s.cls \in {"halt", "opterr"} THEN [d |-> s.d, cls |-> s.cls, seen |-> {s.cls}]
       ELSE LET r == Over(w, h, sync, Tail(c)) IN
            [d |-> s.d \o r.d, cls |-> r.cls, seen |-> r.seen \cup (IF s.cls = "" THEN {} ELSE {s.cls})]

\* done hooks of clear: chain order, a failing handler aborts (worlds keep done handlers harmless)
RECURSIVE DoneAll(_, _)
DoneAll(w, c) == IF c = <<>> THEN <<>> ELSE Sub(w, "done", TRUE, Head(c)).d \o DoneAll(w, Tail(c))

Without(c, a) == SelectSeq(c, LAMBDA x : x # a)
NameSet(w, S) == {w.name[x] : x \in S}
Cls(got, exp) == IF got = exp THEN "" ELSE
                 IF Len(got) # Cardinality(ToSet(got)) THEN "delivered_twice"
                 ELSE IF ToSet(got) = ToSet(exp) THEN "order"
                 ELSE IF ToSet(got) \subseteq ToSet(exp) THEN "missing"
                 ELSE "extra"

Ret(m, ev) ==
  LET w == m.w  c == m.cur  names == ToSet(ev.names) IN
  CASE c.op = "trigger" ->
         LET e == Over(w, c.h, c.sync, m.chain)  k == Cls(m.got, e.d) IN
         IF k # "" THEN <<"X01.trigger_deliveries", k, IF c.sync THEN "sync" ELSE "async">>
         ELSE IF (e.cls = "opterr") # (ev.err = "OptionsError") THEN <<"X01.trigger_result", e.cls, ev.err>>
         ELSE IF ev.chain # m.chain \/ names # m.names THEN <<"X01.trigger_changed_registry">>
         ELSE <<>>
    [] c.op = "add" ->
         LET dup == \E x \in ToSet(w.dfs[c.a]) : w.name[x] \in NameSet(w, m.names)
             s == Sub(w, "load", TRUE, c.a) IN
         IF dup THEN (IF ev.err = "" \/ m.got # <<>> \/ ev.chain # m.chain \/ names # m.names
                      THEN <<"X01.duplicate_name_accepted">> ELSE <<>>)
         ELSE IF Cls(m.got, s.d) # "" THEN <<"X01.load_deliveries", Cls(m.got, s.d)>>
         ELSE IF s.stop THEN (IF ev.err = "" \/ ev.chain # m.chain \/ names # m.names
                              THEN <<"X01.failed_load_registered", s.cls>> ELSE <<>>)
         ELSE IF ev.err # "" \/ ev.chain # Append(m.chain, c.a) \/ names # m.names \cup ToSet(w.dfs[c.a])
              THEN <<"X01.add_result", ev.err>> ELSE <<>>
    [] c.op = "remove" ->
         IF c.a \notin m.names
         THEN (IF ev.err = "" \/ m.got # <<>> \/ ev.chain # m.chain \/ names # m.names
               THEN <<"X01.remove_unknown_accepted">> ELSE <<>>)
         ELSE IF Cls(m.got, Sub(w, "done", TRUE, c.a).d) # ""
              THEN <<"X01.done_deliveries", Cls(m.got, Sub(w, "done", TRUE, c.a).d)>>
         ELSE IF ev.err # "" \/ ev.chain # Without(m.chain, c.a) \/ names # m.names \ ToSet(w.dfs[c.a])
              THEN <<"X01.remove_result", ev.err>> ELSE <<>>
    [] c.op = "clear" ->
         IF Cls(m.got, DoneAll(w, m.chain)) # "" THEN <<"X01.done_deliveries", Cls(m.got, DoneAll(w, m.chain))>>
         ELSE IF ev.err # "" \/ ev.chain # <<>> \/ names # {} THEN <<"X01.clear_result", ev.err>> ELSE <<>>
    [] OTHER -> <<"X01.return_without_call">>

RetWit(m, ev) ==
  LET w == m.w  c == m.cur IN
  CASE c.op = "trigger" ->
         LET e == Over(w, c.h, c.sync, m.chain) IN
         {"trigger"} \cup {"trigger_" \o x : x \in e.seen}
         \cup (IF \E i \in 1..Len(m.chain) : Len(Sub(w, c.h, c.sync, m.chain[i]).d) > 1 THEN {"nested_delivery"} ELSE {})
         \cup (IF Len(m.chain) > 1 /\ e.d # <<>> THEN {"trigger_many"} ELSE {})
         \cup (IF \E a \in m.removed : w.beh[a][c.h] # "none" THEN {"trigger_after_remove"} ELSE {})
    [] c.op = "add" ->
         (IF \E x \in ToSet(w.dfs[c.a]) : w.name[x] \in NameSet(w, m.names) THEN {"add_duplicate"}
          ELSE IF Sub(w, "load", TRUE, c.a).stop THEN {"add_failed_load"} ELSE {"add"})
         \cup (IF c.a \in m.removed THEN {"readd"} ELSE {})
    [] c.op = "remove" -> IF c.a \in m.names THEN {"remove"} ELSE {"remove_unknown"}
    [] c.op = "clear" -> IF m.chain # <<>> THEN {"clear"} ELSE {}
    [] OTHER -> {}

MonStep(m, ev) ==
  IF m.bad # <<>> THEN m ELSE
  CASE ev.k = "world" -> [m EXCEPT !.w = [dfs |-> ev.dfs, name |-> ev.name, beh |-> ev.beh]]
    [] ev.k = "call" ->
         [m EXCEPT !.cur = [op |-> ev.op, a |-> Get(ev, "a", 0), h |-> Get(ev, "h", ""), sync |-> Get(ev, "sync", TRUE)],
                   !.got = <<>>,
                   !.bad = IF m.cur.op # "none" THEN <<"X01.nested_call">> ELSE <<>>]
    [] ev.k = "deliver" ->
         \* an addon never receives an event hook while it is not registered
         LET c == m.cur
             hk == IF c.op = "add" THEN "load" ELSE IF c.op \in {"remove", "clear"} THEN "done" ELSE c.h IN
         [m EXCEPT !.got = Append(@, ev.a),
                   !.bad = IF c.op = "none" THEN <<"X01.delivery_outside_call">>
                           ELSE IF ev.h # hk THEN <<"X01.wrong_hook", c.op>>
                           ELSE IF c.op = "trigger" /\ ev.a \notin m.names
                                THEN <<"X01.hook_to_unregistered", IF ev.a \in m.removed THEN "removed" ELSE "never_added">>
                           ELSE <<>>]
    [] ev.k = "ret" ->
         LET b == Ret(m, ev) IN
         [m EXCEPT !.bad = b, !.wit = @ \cup RetWit(m, ev), !.cur = NoCall, !.got = <<>>,
                   !.chain = ev.chain, !.names = ToSet(ev.names),
                   !.removed = IF m.cur.op = "remove" /\ m.cur.a \in m.names THEN @ \cup ToSet(m.w.dfs[m.cur.a])
                               ELSE IF m.cur.op = "clear" THEN @ \cup m.names
                               ELSE IF m.cur.op = "add" THEN @ \ ToSet(ev.names) ELSE @]
    [] OTHER -> m

Wit(m) == m.wit
=============================================================================
