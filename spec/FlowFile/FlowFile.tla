----------------------------- MODULE FlowFile -----------------------------
(* Implementation-shaped model of mitmproxy.io.FlowWriter.add / FlowReader.stream (mitmproxy/io/io.py) over an
   abstract file: a sequence of records, each the tnetstring image of one flow state, possibly damaged.

   file   : sequence of [s |-> state id, t |-> flow kind, d |-> "ok" or a damage class]
   Reading follows the structure of FlowReader.stream:
       HAR branch            first byte "{" (after an optional BOM): json + request_to_flow, `except Exception` -> FRE
       frame   stage         tnetstring.load(fo): only inside the OUTER try
       convert stage         isinstance(loaded, dict) / compat.migrate_flow / Flow.from_state: INNER try, then OUTER
       inner handler         except ValueError                      -> FlowReadException
       outer handler         except (ValueError, TypeError, IndexError): "empty file" -> clean end, else FRE
   Raises(d, last) is the exception the code raises on a record damaged in class d (a prediction, checked as drift).
   InnerMapped / OuterMapped are constants so that a repaired reader is a constant change ({"*"} = every class). *)
EXTENDS Mon_FlowFile, TLC
CONSTANTS Kinds,        \* flow kinds that may be written
          Damages,      \* damage classes that may be applied
          MaxFlows, MaxDamage,
          InnerMapped, OuterMapped
VARIABLES file, nadd, ndmg, phase, mon, obs
vars == <<file, nadd, ndmg, phase, mon, obs>>

Init == /\ file = <<>> /\ nadd = 0 /\ ndmg = 0 /\ phase = "write" /\ mon = MonInit /\ obs = <<>>
Emit(evs) == obs' = evs /\ mon' = FoldEvents(MonStep, mon, evs)
Live == mon.bad = <<>>

TruncClasses == {"trunc_digits", "trunc_colon", "trunc_after_colon", "trunc_payload", "trunc_tag", "trunc_boundary"}
FirstOnly == {"har_brace", "bom_brace"}

\* FlowWriter.add: d = f.get_state(); tnetstring.dump(d, fo)
Add(t) ==
  /\ Live /\ phase = "write" /\ Len(file) < MaxFlows
  /\ file' = Append(file, [s |-> nadd + 1, t |-> t, d |-> "ok"])
  /\ nadd' = nadd + 1
  /\ UNCHANGED <<ndmg, phase>>
  /\ Emit(<<[k |-> "add", s |-> nadd + 1, t |-> t]>>)

\* the environment damages record i of the file image (truncations drop everything behind the cut)
Damage(i, d) ==
  /\ Live /\ phase \in {"write", "damaged"} /\ ndmg < MaxDamage
  /\ i \in 1..Len(file) /\ file[i].d = "ok"
  /\ (d \in FirstOnly => i = 1)
  /\ LET cut == IF d \in TruncClasses THEN SubSeq(file, 1, i) ELSE file
     IN file' = [cut EXCEPT ![i].d = IF d = "trunc_boundary" THEN "ok" ELSE d]
  /\ ndmg' = ndmg + 1 /\ phase' = "damaged"
  /\ UNCHANGED nadd
  /\ Emit(<<[k |-> "damage", cls |-> d, at |-> i]>>)

\* <<stage, exception class>> raised while reading a record damaged in class d
Raises(d, last) ==
  CASE d \in {"har_brace", "bom_brace"}                       -> <<"har", "JSONDecodeError">>
    [] d \in {"trunc_digits", "trunc_colon"}                  -> <<"frame", "ValueError">>   \* c != b":"
    [] d \in {"trunc_after_colon", "trunc_payload", "trunc_tag"} -> <<"frame", "IndexError">>   \* read(1)[0] at EOF
    [] d \in {"tag_unknown", "digit_alpha", "prefix_long", "odd_dict", "bad_utf8", "bad_bool", "bad_int"}
                                                              -> <<"frame", "ValueError">>
    [] d = "len_minus"                                        -> <<"frame", "ValueError">>   \* tag byte = last payload byte
    [] d = "len_plus"  -> IF last THEN <<"frame", "IndexError">> ELSE <<"frame", "ValueError">>
    [] d = "unhashable_key"                                   -> <<"frame", "TypeError">>
    [] d = "deep_nest"                                        -> <<"frame", "RecursionError">>
    [] d \in {"tag_list", "tag_bytes"}                        -> <<"convert", "ValueError">>  \* not a dict
    [] d \in {"version_future", "version_str", "type_unknown"} -> <<"convert", "ValueError">>
    [] d \in {"drop_version", "version_float", "type_list", "conn_list", "msg_scalar"}
                                                              -> <<"convert", "TypeError">>
    [] d = "extra_key_conn"                                   -> <<"convert", "ValueError">>  \* Unexpected fields
    [] d \in {"drop_type", "drop_key", "drop_conn_field", "version_old"} -> <<"convert", "KeyError">>
    [] d = "extra_key"                                        -> <<"convert", "AssertionError">> \* assert state == {}
    [] d = "conn_scalar"                                      -> <<"convert", "AttributeError">> \* int has no pop
    [] OTHER                                                  -> <<"convert", "none">>        \* e.g. benign_change

Maps(S, e) == "*" \in S \/ e \in S
Handle(stage, exc) ==
  IF stage = "har" THEN "fre"
  ELSE IF stage = "convert" /\ Maps(InnerMapped, exc) THEN "fre"
  ELSE IF Maps(OuterMapped, exc) THEN "fre"
  ELSE "other"

\* FlowReader.stream(): yield flows until tnetstring.load reports the empty file, or an exception ends the loop
RECURSIVE Read(_, _, _)
Read(i, ids, fresh) ==
  IF i > Len(file) THEN [ids |-> ids, end |-> "clean", exc |-> ""]
  ELSE LET r == file[i] IN
       IF r.d = "ok" THEN Read(i + 1, Append(ids, r.s), fresh)
       ELSE LET e == Raises(r.d, i = Len(file)) IN
            IF e[2] = "none" THEN Read(i + 1, Append(ids, fresh), fresh + 1)
            ELSE LET h == Handle(e[1], e[2])
                 IN [ids |-> ids, end |-> h, exc |-> IF h = "fre" THEN "FlowReadException" ELSE e[2]]

Load ==
  /\ Live /\ phase \in {"write", "damaged"}
  /\ phase' = "done"
  /\ UNCHANGED <<file, nadd, ndmg>>
  /\ LET r == Read(1, <<>>, nadd + 1)
     IN Emit(<<[k |-> "load", ids |-> r.ids, end |-> r.end, exc |-> r.exc]>>)

Next == \/ \E t \in Kinds : Add(t)
        \/ \E i \in 1..MaxFlows, d \in Damages : Damage(i, d)
        \/ Load
Spec == Init /\ [][Next]_vars
Report == mon.bad # <<>> => PrintT(<<"BAD", mon.bad>>)
=============================================================================
