----------------------------- MODULE FlowCrash -----------------------------
(* Implementation-shaped model of writing a flow file and crashing at any point (C37).

   mode "save"   : explicit save (addons/save.py Save.save): `with open(path, mode) as f: FlowWriter(f).add(i) ...`
                   FlowWriter.add = tnetstring.dump -> ONE fo.write(dumps(state)) into Python's buffered file, no flush:
                   the bytes reach the disk whenever the buffer spills, i.e. the disk holds an arbitrary prefix.
   mode "stream" : stream saving (Save.request/response/tcp_end/... -> save_flow -> FilteredFlowWriter.add):
                   fo.write(dumps(state)); fo.flush() in one critical section: after a finishing hook returns the
                   disk holds the whole record.  Save.done() writes the still-active flows and closes.
   A record is 6 abstract units long: digits [0,2) colon 2 payload [3,5) tag 5; record i of the stream ends at 6*i.
   Crash(n, part): the file is cut after n complete records, inside part `part` of record n+1 ("boundary": none).
   Recover mirrors FlowReader.stream/tnetstring.load on the cut image: n flows, then
       boundary     -> read(1) == b""  -> ValueError("empty file") -> clean end
       digits/colon -> c != b":"       -> ValueError -> outer handler
       after_colon/payload/tag -> file_handle.read(1)[0] at EOF -> IndexError -> outer handler
   OuterMapped: the classes the outer handler of FlowReader.stream turns into FlowReadException.              *)
EXTENDS Mon_FlowCrash, TLC
CONSTANTS Kinds, Modes, MaxFlows, MaxCrash, OuterMapped
VARIABLES mode, flows, stream, ondisk, open, cut, ncrash, nid, mon, obs
vars == <<mode, flows, stream, ondisk, open, cut, ncrash, nid, mon, obs>>
\* flows  : sequence of [s, t, st] (st: "active" | "finished"), stream-mode flows in the order of their start hook
\* stream : sequence of [s, t]: the records handed to the file object so far, in order (the logical byte stream)
\* ondisk : number of records of `stream` that are certainly on disk (flushed)
\* cut    : <<>> or <<n, part>>: the crash image

Parts == {"boundary", "digits", "colon", "after_colon", "payload", "tag"}
Code(p) == CASE p = "boundary" -> 0 [] p = "digits" -> 1 [] p = "colon" -> 2 [] p = "after_colon" -> 3
             [] p = "payload" -> 4 [] p = "tag" -> 5

Init == /\ mode \in Modes /\ flows = <<>> /\ stream = <<>> /\ ondisk = 0 /\ open = TRUE /\ cut = <<>>
        /\ ncrash = 0 /\ nid = 0 /\ mon = MonInit /\ obs = <<>>
Emit(evs) == obs' = evs /\ mon' = FoldEvents(MonStep, mon, evs)
Live == mon.bad = <<>>

Ids(seq) == [i \in 1..Len(seq) |-> seq[i].s]
DiskEv(n) == [k |-> "disk", ids |-> Ids(SubSeq(stream', 1, n)), end |-> "clean", exc |-> ""]   \* what a reader sees on disk after the step

\* Save.save: FlowWriter.add -- buffered, nothing is promised to be on disk until close
SaveAdd(t) ==
  /\ Live /\ mode = "save" /\ open /\ cut = <<>> /\ Len(stream) < MaxFlows /\ ncrash = 0
  /\ stream' = Append(stream, [s |-> nid + 1, t |-> t]) /\ nid' = nid + 1
  /\ UNCHANGED <<mode, flows, ondisk, open, cut, ncrash>>
  /\ Emit(<<[k |-> "written", s |-> nid + 1, t |-> t, to |-> 6 * (Len(stream) + 1)]>>)

\* with-block exit: close() flushes everything
SaveClose ==
  /\ Live /\ mode = "save" /\ open /\ cut = <<>> /\ Len(stream) > 0 /\ ncrash = 0
  /\ open' = FALSE /\ ondisk' = Len(stream)
  /\ UNCHANGED <<mode, flows, stream, cut, ncrash, nid>>
  /\ Emit(<<>>)

\* Save.request / tcp_start / udp_start / dns_request: active_flows.add(flow); nothing is written
Start(t) ==
  /\ Live /\ mode = "stream" /\ open /\ cut = <<>> /\ Len(flows) < MaxFlows /\ ncrash = 0
  /\ flows' = Append(flows, [s |-> nid + 1, t |-> t, st |-> "active"]) /\ nid' = nid + 1
  /\ UNCHANGED <<mode, stream, ondisk, open, cut, ncrash>>
  /\ Emit(<<[k |-> "hook", name |-> "start"], DiskEv(ondisk)>>)

\* Save.response / error / websocket_end / tcp_end / udp_end / dns_response ...: save_flow ->
\* FilteredFlowWriter.add: write + flush (one critical section), then active_flows.discard
Finish(i) ==
  /\ Live /\ mode = "stream" /\ open /\ cut = <<>> /\ ncrash = 0
  /\ i \in 1..Len(flows) /\ flows[i].st = "active"
  /\ flows' = [flows EXCEPT ![i].st = "finished"]
  /\ stream' = Append(stream, [s |-> flows[i].s, t |-> flows[i].t])
  /\ ondisk' = Len(stream) + 1
  /\ UNCHANGED <<mode, open, cut, ncrash, nid>>
  /\ Emit(<<[k |-> "written", s |-> flows[i].s, t |-> flows[i].t, to |-> 6 * (Len(stream) + 1)],
            [k |-> "finished", s |-> flows[i].s, t |-> flows[i].t],
            DiskEv(Len(stream) + 1)>>)

\* Save.done(): write the active flows (set iteration order: the model only takes it with <= 1 active flow), close
Done ==
  /\ Live /\ mode = "stream" /\ open /\ cut = <<>> /\ Len(flows) > 0 /\ ncrash = 0
  /\ LET act == { i \in 1..Len(flows) : flows[i].st = "active" } IN
     /\ Cardinality(act) <= 1
     /\ IF act = {} THEN /\ stream' = stream /\ flows' = flows
                         /\ Emit(<<[k |-> "hook", name |-> "done"], DiskEv(Len(stream))>>)
        ELSE LET i == CHOOSE j \in act : TRUE IN
             /\ stream' = Append(stream, [s |-> flows[i].s, t |-> flows[i].t])
             /\ flows' = [flows EXCEPT ![i].st = "finished"]
             /\ Emit(<<[k |-> "written", s |-> flows[i].s, t |-> flows[i].t, to |-> 6 * (Len(stream) + 1)],
                       [k |-> "hook", name |-> "done"], DiskEv(Len(stream) + 1)>>)
  /\ open' = FALSE /\ ondisk' = Len(stream')
  /\ UNCHANGED <<mode, cut, ncrash, nid>>

\* the process dies: the file holds n complete records and record n+1 up to part p
Crash(n, p) ==
  /\ Live /\ ncrash < MaxCrash /\ Len(stream) > 0
  /\ n \in 0..Len(stream) /\ p \in Parts /\ (p # "boundary" => n < Len(stream))
  /\ cut' = <<n, p>> /\ ncrash' = ncrash + 1
  /\ UNCHANGED <<mode, flows, stream, ondisk, open, nid>>
  /\ Emit(<<[k |-> "crash", at |-> 6 * n + Code(p), part |-> p]>>)

Maps(S, e) == "*" \in S \/ e \in S
Recover ==
  /\ Live /\ cut # <<>>
  /\ LET n == cut[1]
         p == cut[2]
         exc == IF p \in {"digits", "colon"} THEN "ValueError" ELSE "IndexError"
         end == IF p = "boundary" THEN "clean" ELSE IF Maps(OuterMapped, exc) THEN "fre" ELSE "other"
     IN Emit(<<[k |-> "recover", ids |-> Ids(SubSeq(stream, 1, n)), end |-> end,
                exc |-> IF end = "clean" THEN "" ELSE IF end = "fre" THEN "FlowReadException" ELSE exc]>>)
  /\ cut' = <<>>
  /\ UNCHANGED <<mode, flows, stream, ondisk, open, ncrash, nid>>

Next == \/ \E t \in Kinds : SaveAdd(t)
        \/ SaveClose
        \/ \E t \in Kinds : Start(t)
        \/ \E i \in 1..MaxFlows : Finish(i)
        \/ Done
        \/ \E n \in 0..MaxFlows, p \in Parts : Crash(n, p)
        \/ Recover
Spec == Init /\ [][Next]_vars
Report == mon.bad # <<>> => PrintT(<<"BAD", mon.bad>>)
=============================================================================
