----------------------------- MODULE FlowCrash -----------------------------
(* Implementation-shaped model of writing a flow file and crashing at any point (C37).

   mode "save"   : explicit save (addons/save.py Save.save): `with open(path, mode) as f: FlowWriter(f).add(i) ...`
                   FlowWriter.add = tnetstring.dump -> ONE fo.write(dumps(state)) into Python's buffered file, no flush:
                   the bytes reach the disk whenever the buffer spills, i.e. the disk holds an arbitrary prefix.
   mode "stream" : stream saving (Save.request/response/tcp_end/... -> save_flow -> FilteredFlowWriter.add):
                   fo.write(dumps(state)); fo.flush() in one critical section: after a finishing hook returns the
                   disk holds the whole record.  Save.done() writes the still-active flows and closes.  Streaming is
                   switched on by an option update (OpenStream), may be stopped (Done) and resumed in append mode;
                   flows may start while it is off (not tracked) and may complete twice (response, then error).  The
                   file spec may be a strftime pattern: the file is rotated when the formatted name changes (Tick).
   A record is 6 abstract units long: digits [0,2) colon 2 payload [3,5) tag 5; record i of the stream ends at 6*i.
   Crash(n, part): the file is cut after n complete records, inside part `part` of record n+1 ("boundary": none).
   Recover mirrors FlowReader.stream/tnetstring.load on the cut image: n flows, then
       boundary     -> read(1) == b""  -> ValueError("empty file") -> clean end
       digits/colon -> c != b":"       -> ValueError -> outer handler
       after_colon/payload/tag -> file_handle.read(1)[0] at EOF -> IndexError -> outer handler
   OuterMapped: the classes the outer handler of FlowReader.stream turns into FlowReadException.              *)
EXTENDS Mon_FlowCrash, TLC
CONSTANTS Kinds, Modes, MaxFlows, MaxCrash, MaxOpen, AllowRefinish, PathSpecs, MaxRotate, OuterMapped
VARIABLES mode, flows, stream, ondisk, open, nopen, spec, nrot, cut, ncrash, nid, mon, obs
vars == <<mode, flows, stream, ondisk, open, nopen, spec, nrot, cut, ncrash, nid, mon, obs>>
\* flows  : sequence of [s, t, st] (st: "active" | "finished"), stream-mode flows in the order of their start hook
\* stream : sequence of [s, t]: the records handed to the file object so far, in order (the logical byte stream)
\* ondisk : number of records of `stream` that are certainly on disk (flushed)
\* cut    : <<>> or <<n, part>>: the crash image

Parts == {"boundary", "digits", "colon", "after_colon", "payload", "tag"}
Code(p) == CASE p = "boundary" -> 0 [] p = "digits" -> 1 [] p = "colon" -> 2 [] p = "after_colon" -> 3
             [] p = "payload" -> 4 [] p = "tag" -> 5

Init == /\ mode \in Modes /\ flows = <<>> /\ stream = <<>> /\ ondisk = 0 /\ open = (mode = "save") /\ nopen = 0 /\ spec = "literal" /\ nrot = 0 /\ cut = <<>>
        /\ ncrash = 0 /\ nid = 0 /\ mon = MonInit /\ obs = <<>>
Emit(evs) == obs' = evs /\ mon' = FoldEvents(MonStep, mon, evs)
Live == mon.bad = <<>>

Ids(seq) == [i \in 1..Len(seq) |-> seq[i].s]
DiskEv(n) == [k |-> "disk", ids |-> Ids(SubSeq(stream', 1, n)), end |-> "clean", exc |-> ""]   \* what a reader sees on disk after the step

\* Save.save: FlowWriter.add -- buffered, nothing is promised to be on disk until close
SaveAdd(t) ==
  /\ Live /\ mode = "save" /\ open /\ cut = <<>> /\ Len(stream) < MaxFlows /\ ncrash = 0
  /\ stream' = Append(stream, [s |-> nid + 1, t |-> t]) /\ nid' = nid + 1
  /\ UNCHANGED <<mode, flows, ondisk, open, nopen, spec, nrot, cut, ncrash>>
  /\ Emit(<<[k |-> "written", s |-> nid + 1, t |-> t, to |-> 6 * (Len(stream) + 1)]>>)

\* with-block exit: close() flushes everything
SaveClose ==
  /\ Live /\ mode = "save" /\ open /\ cut = <<>> /\ Len(stream) > 0 /\ ncrash = 0
  /\ open' = FALSE /\ ondisk' = Len(stream)
  /\ UNCHANGED <<mode, flows, stream, nopen, spec, nrot, cut, ncrash, nid>>
  /\ Emit(<<>>)

\* options update: save_stream_file set (first time "spec", after a stop "+spec"): maybe_rotate_to_new_file formats the
\* spec with strftime and opens that file.  p: the spec is a literal path, or a pattern with % directives.
OpenStream(p) ==
  /\ Live /\ mode = "stream" /\ ~open /\ nopen < MaxOpen /\ cut = <<>> /\ ncrash = 0
  /\ p \in PathSpecs /\ (nopen = 0 \/ p = spec)
  /\ open' = TRUE /\ nopen' = nopen + 1 /\ spec' = p
  /\ UNCHANGED <<mode, flows, stream, ondisk, nrot, cut, ncrash, nid>>
  /\ Emit(<<[k |-> "hook", name |-> IF nopen = 0 THEN "open" ELSE "resume", spec |-> p], DiskEv(Len(stream))>>)

\* the clock moves on so that a pattern spec formats to a NEW file name.  save_flow calls maybe_rotate_to_new_file before
\* every write: formatted name = current_path -> keep the stream, else open the new file and close the old one (done()
\* does not rotate).  The files of one stream are only ever appended to in sequence, so `stream` (their concatenation
\* in the order they were opened) is unaffected: a rotation loses nothing.
Tick ==
  /\ Live /\ mode = "stream" /\ spec = "pattern" /\ nopen > 0 /\ nrot < MaxRotate /\ cut = <<>> /\ ncrash = 0
  /\ nrot' = nrot + 1
  /\ UNCHANGED <<mode, flows, stream, ondisk, open, nopen, spec, cut, ncrash, nid>>
  /\ Emit(<<[k |-> "hook", name |-> "tick"], DiskEv(Len(stream))>>)

\* Save.request / tcp_start / udp_start / dns_request: `if self.stream: active_flows.add(flow)`; nothing is written.
\* While streaming is off (before it is enabled, or between a stop and a resume) the flow is NOT tracked ("early").
Start(t) ==
  /\ Live /\ mode = "stream" /\ cut = <<>> /\ Len(flows) < MaxFlows /\ ncrash = 0
  /\ flows' = Append(flows, [s |-> nid + 1, t |-> t, st |-> IF open THEN "active" ELSE "early"]) /\ nid' = nid + 1
  /\ UNCHANGED <<mode, stream, ondisk, open, nopen, spec, nrot, cut, ncrash>>
  /\ Emit(<<[k |-> "hook", name |-> IF open THEN "start" ELSE "early_start"]>>
          \o (IF nopen > 0 THEN <<DiskEv(Len(stream))>> ELSE <<>>))

\* Save.response / error / websocket_end / tcp_end / udp_end / dns_response ...: save_flow ->
\* FilteredFlowWriter.add: write + flush (one critical section), then active_flows.discard.  save_flow does not ask
\* whether the flow is tracked: early flows and flows already written at a stop are written (again) when they finish.
\* The flow has changed since its start hook (the response arrived): a fresh state id.
Finish(i) ==
  /\ Live /\ mode = "stream" /\ open /\ cut = <<>> /\ ncrash = 0
  /\ i \in 1..Len(flows) /\ flows[i].st \in {"active", "early", "stopped"}
  /\ flows' = [flows EXCEPT ![i].st = "finished", ![i].s = nid + 1] /\ nid' = nid + 1
  /\ stream' = Append(stream, [s |-> nid + 1, t |-> flows[i].t])
  /\ ondisk' = Len(stream) + 1
  /\ UNCHANGED <<mode, open, nopen, spec, nrot, cut, ncrash>>
  /\ Emit(<<[k |-> "written", s |-> nid + 1, t |-> flows[i].t, to |-> 6 * (Len(stream) + 1)],
            [k |-> "finished", s |-> nid + 1, t |-> flows[i].t],
            DiskEv(Len(stream) + 1)>>)

\* a second completion of the same flow (error after response): Save.error -> save_flow writes the flow again
Refinish(i) ==
  /\ Live /\ mode = "stream" /\ open /\ cut = <<>> /\ ncrash = 0
  /\ AllowRefinish /\ i \in 1..Len(flows) /\ flows[i].st = "finished"
  /\ flows' = [flows EXCEPT ![i].st = "finished2", ![i].s = nid + 1] /\ nid' = nid + 1
  /\ stream' = Append(stream, [s |-> nid + 1, t |-> flows[i].t])
  /\ ondisk' = Len(stream) + 1
  /\ UNCHANGED <<mode, open, nopen, spec, nrot, cut, ncrash>>
  /\ Emit(<<[k |-> "written", s |-> nid + 1, t |-> flows[i].t, to |-> 6 * (Len(stream) + 1)],
            [k |-> "hook", name |-> "second_completion"],
            [k |-> "finished", s |-> nid + 1, t |-> flows[i].t],
            DiskEv(Len(stream) + 1)>>)

\* Save.done() (save_stream_file unset): write the still-active flows (set iteration order: the model only takes it
\* with <= 1 active flow), close.  The flows written here are not finished ("stopped"): they may finish after a resume.
Done ==
  /\ Live /\ mode = "stream" /\ open /\ cut = <<>> /\ ncrash = 0
  /\ LET act == { i \in 1..Len(flows) : flows[i].st = "active" } IN
     /\ Cardinality(act) <= 1
     /\ IF act = {} THEN /\ stream' = stream /\ flows' = flows
                         /\ Emit(<<[k |-> "hook", name |-> "done"], DiskEv(Len(stream))>>)
        ELSE LET i == CHOOSE j \in act : TRUE IN
             /\ stream' = Append(stream, [s |-> flows[i].s, t |-> flows[i].t])
             /\ flows' = [flows EXCEPT ![i].st = "stopped"]
             /\ Emit(<<[k |-> "written", s |-> flows[i].s, t |-> flows[i].t, to |-> 6 * (Len(stream) + 1)],
                       [k |-> "hook", name |-> "done"], DiskEv(Len(stream) + 1)>>)
  /\ open' = FALSE /\ ondisk' = Len(stream')
  /\ UNCHANGED <<mode, nopen, spec, nrot, cut, ncrash, nid>>

\* the process dies: the file holds n complete records and record n+1 up to part p
Crash(n, p) ==
  /\ Live /\ ncrash < MaxCrash /\ Len(stream) > 0
  /\ n \in 0..Len(stream) /\ p \in Parts /\ (p # "boundary" => n < Len(stream))
  /\ cut' = <<n, p>> /\ ncrash' = ncrash + 1
  /\ UNCHANGED <<mode, flows, stream, ondisk, open, nopen, spec, nrot, nid>>
  /\ Emit(<<[k |-> "crash", at |-> 6 * n + Code(p), part |-> p]>>)

Maps(S, e) == "*" \in S \/ e \in S
Recover ==
  /\ Live /\ cut # <<>>
  /\ LET n == cut[1]
         p == cut[2]
         exc == IF p \in {"digits", "colon"} THEN "ValueError" ELSE "IndexError"
         end == IF p = "boundary" THEN "clean" ELSE IF Maps(OuterMapped, exc) THEN "fre" ELSE "other"
     IN Emit(<<[k |-> "recover", ids |-> Ids(SubSeq(stream, 1, n)), end |-> end,
                exc |-> IF end = "clean" THEN "" ELSE IF end = "fre" THEN "FlowReadException" ELSE exc]>>)
  /\ cut' = <<>>
  /\ UNCHANGED <<mode, flows, stream, ondisk, open, nopen, spec, nrot, ncrash, nid>>

Next == \/ \E t \in Kinds : SaveAdd(t)
        \/ SaveClose
        \/ \E p \in PathSpecs : OpenStream(p)
        \/ Tick
        \/ \E t \in Kinds : Start(t)
        \/ \E i \in 1..MaxFlows : Finish(i)
        \/ \E i \in 1..MaxFlows : Refinish(i)
        \/ Done
        \/ \E n \in 0..MaxFlows, p \in Parts : Crash(n, p)
        \/ Recover
Spec == Init /\ [][Next]_vars
Report == mon.bad # <<>> => PrintT(<<"BAD", mon.bad>>)
=============================================================================
