--------------------------- MODULE Mon_FlowFile ---------------------------
(* Monitor for C36: flow files round-trip every flow type, and reading never fails unexpectedly.

   Event records (projected from mitmproxy.io.FlowWriter / FlowReader by props/C36.py):
     [k |-> "add",    s |-> state id, t |-> flow kind]       FlowWriter.add(flow) returned; `s` is the flow's state
                                                             (get_state() and attribute view) interned to a small int
     [k |-> "raised", exc |-> class name]                    FlowWriter.add raised
     [k |-> "damage", cls |-> damage class, at |-> record]   the harness altered the file image (it is no longer
                                                             what the writer produced); cls is an abstract class name
     [k |-> "load",   ids |-> <<state ids>>, end |-> "clean" | "fre" | "other", exc |-> class name or ""]
                                                             FlowReader.stream() was consumed: the states of the flows
                                                             it yielded, in order, and how the iteration ended
   Clauses (only what the statement says):
     roundtrip_*           an undamaged file loads cleanly into flows with identical state in the same order
     write_failed          saving a flow raised
     read_other_exception  loading ANY bytes ends cleanly or with FlowReadException -- no other exception class   *)
EXTENDS Verif

MonInit == [bad |-> <<>>, wit |-> {}, written |-> <<>>, kinds |-> <<>>, cause |-> "none"]

Count(s, x) == Cardinality({ i \in 1..Len(s) : s[i] = x })
SameBag(a, b) == \A x \in ToSet(a) \cup ToSet(b) : Count(a, x) = Count(b, x)
FirstDiff(a, b) == CHOOSE i \in 1..Len(a) : a[i] # b[i] /\ \A j \in 1..(i - 1) : a[j] = b[j]

RoundTrip(m, ev) ==
  IF ev.end # "clean" THEN <<"C36.roundtrip_read_failed", ev.exc>>
  ELSE IF Len(ev.ids) # Len(m.written) THEN <<"C36.roundtrip_count">>
  ELSE IF ev.ids = m.written THEN <<>>
  ELSE IF SameBag(ev.ids, m.written) THEN <<"C36.roundtrip_order">>
  ELSE <<"C36.roundtrip_state", m.kinds[FirstDiff(ev.ids, m.written)]>>

LoadClause(m, ev) ==
  IF ev.end = "other" THEN <<"C36.read_other_exception", ev.exc, m.cause>>
  ELSE IF m.cause = "none" THEN RoundTrip(m, ev)
  ELSE <<>>

MonStep(m, ev) ==
  IF ev.k = "add" THEN
     [m EXCEPT !.written = Append(@, ev.s), !.kinds = Append(@, ev.t),
               !.wit = @ \cup {ev.t} \cup (IF Len(m.written) >= 1 THEN {"multi"} ELSE {})]
  ELSE IF ev.k = "raised" THEN
     [m EXCEPT !.bad = <<"C36.write_failed", ev.exc>>]
  ELSE IF ev.k = "damage" THEN
     [m EXCEPT !.cause = ev.cls, !.wit = @ \cup {"damage"}]
  ELSE IF ev.k = "load" THEN
     [m EXCEPT !.bad = LoadClause(m, ev),
               !.wit = @ \cup (IF m.cause = "none" THEN {"pristine_load"} ELSE {"damaged_load"})
                         \cup (IF m.cause # "none" /\ ev.end = "fre" THEN {"damaged_fre"} ELSE {})
                         \cup (IF m.cause # "none" /\ ev.end = "clean" THEN {"damaged_clean"} ELSE {})
                         \cup (IF m.cause # "none" /\ ev.end = "fre" /\ Len(ev.ids) > 0 THEN {"prefix_then_fre"} ELSE {})]
  ELSE m
Wit(m) == m.wit
=============================================================================
