--------------------------- MODULE Mon_FlowCrash ---------------------------
(* Monitor for C37: flow files are crash-consistent.

   Event records (projected by props/C37.py from FlowWriter / FilteredFlowWriter / the Save addon / FlowReader):
     [k |-> "written",  s |-> state id, t |-> kind, to |-> offset]   a writer call (FlowWriter.add, or the save hook
                                     that ends in FilteredFlowWriter.add) returned; the flow's record ends at byte
                                     offset `to` (exclusive) of the file's byte stream
     [k |-> "hook",     name |-> hook name]                          a Save-addon hook that does not finish a flow returned
                                     (open/resume carry spec |-> "literal" | "pattern": the kind of save_stream_file;
                                      "tick": the clock moved so that a pattern spec names a new file)
     [k |-> "finished", s |-> state id, t |-> kind]                  a Save-addon hook that finishes the flow returned
     [k |-> "disk",     ids, end, exc]        the stream file(s) as they are ON DISK right now (independent open + read;
                                              after a rotation: the files of the stream in the order they were opened)
     [k |-> "crash",    at |-> offset, part |-> class]   writing stopped: the file holds the first `at` bytes
     [k |-> "recover",  ids, end, exc]        the truncated file was loaded: states of the flows yielded, in order,
                                              and how the iteration ended ("clean" | "fre" | "other")
   Clauses (only what the statement says):
     complete_flow_lost / partial_flow_returned / recovered_wrong_flows
                                   the flows recovered are exactly those whose record ends at or before the crash point
     recover_other_exception       ... and then the reader ends cleanly or with FlowReadException
     stream_incomplete / stream_unreadable
                                   after every save hook the file on disk yields all finished flows, in order
                                   (every `finished` event is one completion; a flow that completes twice -- response,
                                   then error -- counts twice, with the state it had at each completion)          *)
EXTENDS Verif

MonInit == [bad |-> <<>>, wit |-> {}, written |-> <<>>, finished |-> <<>>, fkinds |-> <<>>, at |-> -1]

Complete(m) == LET sel == SelectSeq(m.written, LAMBDA w : w.to <= m.at)
               IN [i \in 1..Len(sel) |-> sel[i].s]
StrictPrefix(a, b) == Len(a) < Len(b) /\ IsPrefix(a, b)

RecoverClause(m, ev) ==
  IF ev.end = "other" THEN <<"C37.recover_other_exception", ev.exc>>
  ELSE IF m.at < 0 THEN <<>>                          \* no crash announced: nothing to judge
  ELSE LET c == Complete(m) IN
       IF ev.ids = c THEN <<>>
       ELSE IF StrictPrefix(ev.ids, c) THEN <<"C37.complete_flow_lost">>
       ELSE IF StrictPrefix(c, ev.ids) THEN <<"C37.partial_flow_returned">>
       ELSE <<"C37.recovered_wrong_flows">>

\* greedy in-order matching: how many of the finished flows are found, in order, among the flows read from disk
RECURSIVE Matched(_, _, _, _)
Matched(f, i, ids, j) == IF i > Len(f) \/ j > Len(ids) THEN i - 1
                         ELSE IF f[i] = ids[j] THEN Matched(f, i + 1, ids, j + 1) ELSE Matched(f, i, ids, j + 1)

\* the file may hold more records (flows written unfinished when streaming was stopped), never fewer
DiskClause(m, ev) ==
  IF ev.end = "other" THEN <<"C37.stream_unreadable", ev.exc>>
  ELSE LET k == Matched(m.finished, 1, ev.ids, 1) IN
       IF k = Len(m.finished) THEN <<>> ELSE <<"C37.stream_incomplete", m.fkinds[k + 1]>>

Ends(m) == { m.written[i].to : i \in 1..Len(m.written) }

MonStep(m, ev) ==
  IF ev.k = "written" THEN
     [m EXCEPT !.written = Append(@, [s |-> ev.s, to |-> ev.to]), !.wit = @ \cup {ev.t}]
  ELSE IF ev.k = "finished" THEN
     [m EXCEPT !.finished = Append(@, ev.s), !.fkinds = Append(@, ev.t), !.wit = @ \cup {"stream_finish"}]
  ELSE IF ev.k = "hook" THEN
     [m EXCEPT !.wit = @ \cup {ev.name} \cup (IF "spec" \in DOMAIN ev THEN {ev.spec} ELSE {})]
  ELSE IF ev.k = "disk" THEN
     [m EXCEPT !.bad = DiskClause(m, ev),
               !.wit = @ \cup {"disk_check"} \cup (IF Len(m.finished) > 0 THEN {"disk_with_finished"} ELSE {})]
  ELSE IF ev.k = "crash" THEN
     [m EXCEPT !.at = ev.at,
               !.wit = @ \cup (IF ev.at = 0 THEN {"crash_zero"}
                               ELSE IF ev.at \in Ends(m) THEN {"crash_boundary"} ELSE {"crash_mid"})
                         \cup (IF ev.at \notin Ends(m) /\ \E e \in Ends(m) : e < ev.at THEN {"crash_mid_after_complete"} ELSE {})]
  ELSE IF ev.k = "recover" THEN
     [m EXCEPT !.bad = RecoverClause(m, ev),
               !.wit = @ \cup (IF ev.end = "clean" THEN {"recover_clean"} ELSE {})
                         \cup (IF ev.end = "fre" THEN {"recover_fre"} ELSE {})
                         \cup (IF Len(ev.ids) > 0 /\ ev.end = "fre" THEN {"recover_some_then_fre"} ELSE {})]
  ELSE m
Wit(m) == m.wit
=============================================================================
