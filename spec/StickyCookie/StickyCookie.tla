--------------------------- MODULE StickyCookie ---------------------------
(* Implementation-shaped model of mitmproxy.addons.stickycookie.StickyCookie (response / request hooks).

   Strings are sequences of one-character strings (see Mon_StickyCookie).
   jar : the defaultdict  (domain, port, path) -> {name: value}, as a sequence (dict insertion order, which is the
         order of the Cookie header) of [key |-> <<domain, port, path>>, items |-> << <<name, token>>, ... >>]
   flt : the configured filter, "all" (".*") or "get" ("~m GET")
   The model transcribes what the code does:
     CodeDM    = stickycookie.domain_match: (since fix 7f27cbc3c: the dot-stripped domain must be a string suffix of
                 the host, and) http.cookiejar.domain_match tried with and without the dots (RFC 2965 rules: the
                 domain is located with rfind, a leading dot is required for sub-domains)
     CodePM    = stickycookie.path_match (RFC 6265 5.1.4 on the path without query); before the fix: startswith
   DomainRule / PathRule select the behaviour before ("rfind", "startswith") or after the fix ("suffix_and_rfind",
   "rfc"); props/C54.py passes the values that describe the tree under test.                                 *)
EXTENDS Mon_StickyCookie, TLC
CONSTANTS SetOps,     \* sequence of [host, hostid, port, cookies |-> <<[name, hasdom, dom, domid, haspath, path, expired]>>]
                      \* (hostid / domid: the same strings as atoms; the model's tables are lower case throughout)
          ReqOps,     \* sequence of [host, port, path, get |-> BOOLEAN]
          Filters,    \* subset of {"all", "get"}
          MaxOps,     \* bound on the history length
          MaxSets,    \* bound on the number of responses in a history
          DomainRule, \* "rfind" | "suffix_and_rfind" | "dotsuffix_and_rfind"
          PathRule    \* "startswith" | "rfc"
VARIABLES flt, jar, ntok, ops, nsets, mon, obs
vars == <<flt, jar, ntok, ops, nsets, mon, obs>>

Init == /\ flt \in Filters /\ jar = <<>> /\ ntok = 0 /\ ops = 0 /\ nsets = 0
        /\ mon = MonInit /\ obs = <<>>
Emit(evs) == obs' = evs /\ mon' = FoldEvents(MonStep, mon, evs)
Live == mon.bad = <<>>

(* ---- http.cookiejar ---- *)
\* IPV4_RE = "\.\d+$" : a dot followed by digits only, at the end
EndsDotDigits(t) == \E i \in 1..(Len(t) - 1) : t[i] = "." /\ \A j \in (i + 1)..Len(t) : t[j] \in Digits
\* is_HDN
HDN(t) == t # <<>> /\ ~EndsDotDigits(t) /\ t[1] # "." /\ t[Len(t)] # "."
\* A.rfind(B) > 0  (B occurs in A at a 0-based index >= 1; rfind = -1: absent; rfind = 0: only as a prefix)
RFindPositive(A, B) == \E i \in 2..Len(A) : OccursAt(A, B, i)
\* cookiejar.domain_match(A, B) (both already lower case)
CJ(A, B) ==
  IF A = B THEN TRUE
  ELSE IF ~HDN(A) THEN FALSE
  ELSE IF B = <<>> THEN FALSE        \* rfind("") = len(A), then B.startswith(".") fails
  ELSE IF ~RFindPositive(A, B) THEN FALSE
  ELSE IF B[1] # "." THEN FALSE
  ELSE HDN(Tail(B))
RECURSIVE LStrip(_), RStrip(_)
LStrip(s) == IF s # <<>> /\ s[1] = "." THEN LStrip(Tail(s)) ELSE s
RStrip(s) == IF s # <<>> /\ s[Len(s)] = "." THEN RStrip(Front(s)) ELSE s
\* stickycookie.domain_match(a, b)
\* "dotsuffix_and_rfind": the guard requires the stripped domain to equal the host or to end it after a "."
DotSuffix(d, a) == a = d \/ (d # <<>> /\ Len(d) < Len(a) /\ IsSuffix(d, a) /\ a[Len(a) - Len(d)] = ".")
CodeDM(a, b) == /\ DomainRule = "suffix_and_rfind" => IsSuffix(RStrip(LStrip(b)), a)
                /\ DomainRule = "dotsuffix_and_rfind" => DotSuffix(RStrip(LStrip(b)), a)
                /\ CJ(a, b) \/ CJ(a, RStrip(LStrip(b)))
\* stickycookie.path_match(request_path, cookie_path) / request.path.startswith(path)
CodePM(r, c) == IF PathRule = "startswith" THEN IsPrefix(c, r)
                ELSE \/ r = c
                     \/ IsPrefix(c, r) /\ ((c # <<>> /\ c[Len(c)] = "/") \/ (Len(r) > Len(c) /\ r[Len(c) + 1] = "/"))

(* ---- the jar ---- *)
KeyIdx(j, key) == IndexOf([i \in 1..Len(j) |-> j[i].key], key)
NameIdx(items, n) == IndexOf([i \in 1..Len(items) |-> items[i][1]], n)
\* self.jar[key][name] = value
JarSet(j, key, n, c) ==
  LET k == KeyIdx(j, key)
  IN IF k = 0 THEN Append(j, [key |-> key, items |-> << <<n, c>> >>])
     ELSE LET i == NameIdx(j[k].items, n)
          IN [j EXCEPT ![k].items = IF i = 0 THEN Append(@, <<n, c>>) ELSE [@ EXCEPT ![i] = <<n, c>>]]
\* self.jar[key].pop(name, None); drop the key when its dict is empty
JarPop(j, key, n) ==
  LET k == KeyIdx(j, key)
  IN IF k = 0 THEN j
     ELSE LET rest == SelectSeq(j[k].items, LAMBDA it : it[1] # n)
          IN IF rest = <<>> THEN SelectSeq(j, LAMBDA e : e.key # key)
             ELSE [j EXCEPT ![k].items = rest]
\* ckey(attrs, flow)
CKey(op, ck) == <<IF ck.hasdom THEN ck.dom ELSE op.host, op.port, IF ck.haspath THEN ck.path ELSE <<"/">> >>

\* StickyCookie.response: the loop over flow.response.cookies
RECURSIVE Store(_, _, _, _)
Store(j, op, i, c) ==
  IF i > Len(op.cookies) THEN j
  ELSE LET ck == op.cookies[i]
           key == CKey(op, ck)
           j2 == IF ~CodeDM(op.host, key[1]) THEN j
                 ELSE IF ck.expired THEN JarPop(j, key, ck.name)
                 ELSE JarSet(j, key, ck.name, c + i)
       IN Store(j2, op, i + 1, c)

Tokens(j) == UNION { { j[k].items[i][2] : i \in 1..Len(j[k].items) } : k \in 1..Len(j) }
SortedSeq(S) == SetToSortSeq(S, <)
SetEvent(op, i, c) ==
  LET ck == op.cookies[i]
  IN [k |-> "set", c |-> c + i, name |-> ck.name, host |-> op.host, port |-> op.port,
      hostid |-> op.hostid, domid |-> ck.domid,
      hasdom |-> ck.hasdom, dom |-> ck.dom, haspath |-> ck.haspath, path |-> ck.path, expired |-> ck.expired]

Response(s) ==
  /\ Live /\ ops < MaxOps /\ nsets < MaxSets
  /\ LET op == SetOps[s]
         j2 == Store(jar, op, 1, ntok)
     IN /\ jar' = j2
        /\ ntok' = ntok + Len(op.cookies)
        /\ Emit([i \in 1..Len(op.cookies) |-> SetEvent(op, i, ntok)]
                \o <<[k |-> "jar", held |-> SortedSeq(Tokens(j2))]>>)
  /\ ops' = ops + 1 /\ nsets' = nsets + 1
  /\ UNCHANGED flt

RECURSIVE Concat(_)
Concat(ss) == IF ss = <<>> THEN <<>> ELSE Head(ss) \o Concat(Tail(ss))
\* StickyCookie.request
Request(r) ==
  /\ Live /\ ops < MaxOps
  /\ LET op == ReqOps[r]
         matched == flt = "all" \/ op.get
         hit(e) == CodeDM(op.host, e.key[1]) /\ op.port = e.key[2] /\ CodePM(op.path, e.key[3])
         att == IF ~matched THEN <<>>
                ELSE Concat([k \in 1..Len(jar) |->
                               IF hit(jar[k]) THEN [i \in 1..Len(jar[k].items) |-> jar[k].items[i][2]] ELSE <<>>])
     IN Emit(<<[k |-> "req", host |-> op.host, port |-> op.port, path |-> op.path, flt |-> matched, att |-> att]>>)
  /\ ops' = ops + 1
  /\ UNCHANGED <<flt, jar, ntok, nsets>>

Next == \/ \E s \in 1..Len(SetOps) : Response(s)
        \/ \E r \in 1..Len(ReqOps) : Request(r)
Spec == Init /\ [][Next]_vars
Report == mon.bad # <<>> => PrintT(<<"BAD", mon.bad>>)
=============================================================================
