------------------------- MODULE Mon_StickyCookie -------------------------
(* Monitor for C54: sticky cookies are only sent to hosts and paths they belong to.

   Strings (hosts, Domain attribute values, paths) are sequences of one-character strings, lower-cased host
   names (RFC 6265 5.1.2), so that 5.1.3 / 5.1.4 can be written down literally.  A request path is the path
   without the query.  Every Set-Cookie pair carries a value that is unique in the trace; its number is the
   token id `c` (1, 2, ... in order of appearance).

   Event records (props/C54.py):
     [k |-> "set", c, name, host, port,             \* response from host:port carries Set-Cookie number c
                   hostid, domid,                   \* host and Domain value exactly as written (atomic strings)
                   hasdom, dom,                     \* Domain attribute present / its raw value (with leading dot)
                   haspath, path,                   \* Path attribute present / its value
                   expired]                         \* BOOLEAN: Max-Age <= 0 or Expires in the past
     [k |-> "jar", held |-> <<token ids in the jar after the response hook, ascending>>]
     [k |-> "req", host, port, path, flt |-> BOOLEAN (the request matches the configured stickycookie filter),
                   att |-> <<token ids in the Cookie header after the request hook>>]
     [k |-> "raised", exc |-> exception class name, at |-> "response" | "request"]                          *)
EXTENDS Verif

MonInit == [bad |-> <<>>,
            ck |-> <<>>,        \* token id -> the set record that introduced it
            dead |-> {},        \* tokens whose cookie was expired by a later (or the same) Set-Cookie
            foreign |-> {},     \* tokens whose Domain attribute does not domain-match the responding host
            held |-> {},        \* tokens reported by the last jar event
            wit |-> {}]

Digits == {"0", "1", "2", "3", "4", "5", "6", "7", "8", "9"}
IsIP(h) == \/ h # <<>> /\ \A i \in 1..Len(h) : h[i] \in Digits \cup {"."}
           \/ \E i \in 1..Len(h) : h[i] = ":"
\* RFC 6265 5.2.3: a leading dot of the attribute value is ignored
StripDot(d) == IF d # <<>> /\ d[1] = "." THEN Tail(d) ELSE d
\* RFC 6265 5.1.3: host h domain-matches domain d
DomainMatch(h, d) ==
  \/ h = d
  \/ /\ d # <<>> /\ Len(d) < Len(h) /\ IsSuffix(d, h)
     /\ h[Len(h) - Len(d)] = "."
     /\ ~IsIP(h)
\* RFC 6265 5.1.4: request path r path-matches cookie path c
PathMatch(r, c) ==
  \/ r = c
  \/ /\ c # <<>> /\ IsPrefix(c, r)
     /\ \/ c[Len(c)] = "/"
        \/ Len(r) > Len(c) /\ r[Len(c) + 1] = "/"

\* abstract features for signatures (how a non-matching host relates to the domain)
OccursAt(h, d, i) == i >= 1 /\ i + Len(d) - 1 <= Len(h) /\ SubSeq(h, i, i + Len(d) - 1) = d
DomRel(h, d) ==
  IF d = <<>> THEN "empty"
  ELSE IF IsSuffix(d, h) /\ Len(d) < Len(h) /\ IsIP(h) THEN "ip_suffix"
  ELSE IF IsSuffix(d, h) /\ \E i \in 2..Len(h) : OccursAt(h, d, i) /\ h[i - 1] = "." THEN "suffix_without_dot_and_inner"
  ELSE IF IsSuffix(d, h) THEN "suffix_without_dot"
  ELSE IF \E i \in 2..Len(h) : OccursAt(h, d, i) /\ h[i - 1] = "." /\ i + Len(d) <= Len(h) /\ h[i + Len(d)] = "."
       THEN "inner_labels"
  ELSE IF \E i \in 2..Len(h) : OccursAt(h, d, i) /\ h[i - 1] = "." THEN "inner_label_prefix"
  ELSE IF \E i \in 1..Len(h) : OccursAt(h, d, i) THEN "substring"
  ELSE IF IsSuffix(h, d) THEN "superdomain"
  ELSE "unrelated"
PathRel(r, c) == IF IsPrefix(c, r) THEN "string_prefix" ELSE "unrelated"

\* the cookie's domain: the Domain attribute if present (5.2.3), else the host that set it (5.3 step 6)
CkDom(s) == IF s.hasdom THEN StripDot(s.dom) ELSE s.host
IsForeign(s) == s.hasdom /\ ~DomainMatch(s.host, StripDot(s.dom))
\* which stored cookie a Set-Cookie expires: the one the same host set earlier on the same port with the same name
\* and the same Domain and Path attributes, host and attributes exactly as written (the weakest reading of "an
\* expired cookie": case or leading-dot variants are not demanded to denote the same cookie)
IdKey(s) == <<s.name, s.hostid, s.port, s.hasdom, s.domid, s.haspath, s.path>>

Known(m, c) == c \in 1..Len(m.ck)
MinOf(S) == CHOOSE x \in S : \A y \in S : x <= y

OnSet(m, ev) ==
  LET c == Len(m.ck) + 1
      same == { i \in 1..Len(m.ck) : IdKey(m.ck[i]) = IdKey(ev) }
  IN [m EXCEPT !.ck = Append(@, ev),
               !.foreign = IF IsForeign(ev) THEN @ \cup {c} ELSE @,
               !.dead = IF ev.expired /\ ~IsForeign(ev) THEN @ \cup same \cup {c} ELSE @,
               !.wit = @ \cup (IF ev.expired /\ ~IsForeign(ev) /\ same \cap m.held # {} THEN {"expire_live"} ELSE {})
                         \cup (IF IsForeign(ev) THEN {"foreign_set"} ELSE {})]

JarBad(m, ev) ==
  LET h == { c \in ToSet(ev.held) : Known(m, c) }
      f == h \cap m.foreign
      d == h \cap m.dead
  IN IF f # {} THEN LET c == MinOf(f) IN <<"C54.foreign_stored", DomRel(m.ck[c].host, StripDot(m.ck[c].dom))>>
     ELSE IF d # {} THEN <<"C54.expired_kept">>
     ELSE <<>>
OnJar(m, ev) ==
  LET h == ToSet(ev.held)
  IN [m EXCEPT !.bad = JarBad(m, ev),
               !.held = h,
               !.wit = @ \cup (IF h \ m.held # {} THEN {"stored"} ELSE {})
                         \cup (IF (m.held \cap m.dead) # {} /\ (m.held \cap m.dead) \cap h = {} THEN {"expired_removed"} ELSE {})
                         \cup (IF m.foreign # {} /\ m.foreign \cap h = {} THEN {"foreign_rejected"} ELSE {})]

AttBad(m, ev, c) ==
  LET s == m.ck[c]
  IN IF ~ev.flt THEN <<"C54.attached_unmatched">>
     ELSE IF ~DomainMatch(ev.host, CkDom(s)) THEN <<"C54.attached_domain", DomRel(ev.host, CkDom(s))>>
     ELSE IF ev.port # s.port THEN <<"C54.attached_port">>
     ELSE IF s.haspath /\ ~PathMatch(ev.path, s.path) THEN <<"C54.attached_path", PathRel(ev.path, s.path)>>
     ELSE IF c \in m.dead THEN <<"C54.expired_attached">>
     ELSE <<>>
ReqBad(m, ev) ==
  LET a == { c \in ToSet(ev.att) : Known(m, c) }
      b == { c \in a : AttBad(m, ev, c) # <<>> }
  IN IF b = {} THEN <<>> ELSE AttBad(m, ev, MinOf(b))
OnReq(m, ev) ==
  LET a == { c \in ToSet(ev.att) : Known(m, c) }
      skipped == { c \in m.held : Known(m, c) } \ a
  IN [m EXCEPT !.bad = ReqBad(m, ev),
               !.wit = @ \cup (IF a # {} THEN {"attach"} ELSE {})
                         \cup (IF \E c \in a : ev.host # CkDom(m.ck[c]) THEN {"attach_subdomain"} ELSE {})
                         \cup (IF \E c \in a : m.ck[c].haspath /\ ev.path # m.ck[c].path THEN {"attach_subpath"} ELSE {})
                         \cup (IF \E c \in skipped : ~DomainMatch(ev.host, CkDom(m.ck[c])) THEN {"skip_domain"} ELSE {})
                         \cup (IF \E c \in skipped : DomainMatch(ev.host, CkDom(m.ck[c])) /\ ev.port # m.ck[c].port
                               THEN {"skip_port"} ELSE {})
                         \cup (IF \E c \in skipped : m.ck[c].haspath /\ ~PathMatch(ev.path, m.ck[c].path)
                               THEN {"skip_path"} ELSE {})
                         \cup (IF ~ev.flt /\ m.held # {} THEN {"skip_filter"} ELSE {})]

MonStep(m, ev) ==
  IF ev.k = "set" THEN OnSet(m, ev)
  ELSE IF ev.k = "jar" THEN OnJar(m, ev)
  ELSE IF ev.k = "req" THEN OnReq(m, ev)
  ELSE IF ev.k = "raised" THEN [m EXCEPT !.bad = <<"C54.raised", Get(ev, "at", "")>>]
  ELSE m
Wit(m) == m.wit
=============================================================================
