----------------------------- MODULE DnsForward -----------------------------
(* Implementation-shaped model of forwarding through mitmproxy.proxy.layers.dns.DNSLayer when no addon changes
   the flow:  bytes -> DNSMessage.unpack -> flows[id] -> hook -> pack_message(...packed) -> SendData.

   A message carries one record of type class t whose RDATA has shape s (the case table of C26):
     plain     names (if any) written in full, no byte >= 0xC0 anywhere
     comp      every name position = labels + pointer to the (ASCII) question name
     comp_idn  the same, the question name has an xn-- label
     hibytes   bytes >= 0xC0 at a NON-name position that resolve nowhere (UTF-8 text, 0xFFFF, ...)
     ptrlike   bytes c0 0c at a NON-name position (an address 192.12.x.y, port 49164, text): a valid pointer value
   Code mirrored:
     InList     = domain_names.record_data_can_have_compression   (restricted to the alphabet; note TXT)
     Decompress = domain_names.decompress_from_record_data: scans EVERY byte of the RDATA; a byte with the two top
                  bits set whose 14-bit offset unpacks as a name is replaced by that name; growth is accounted with
                  len(text form) -- right for ASCII names, wrong for IDN ones, which corrupts a SECOND replacement
     Query/Reply = DNSLayer.state_query -> handle_request / handle_response, flows keyed by message id and never
                  removed: a query whose id already has a response is answered from that stale response instead of
                  being forwarded (handle_request: "if flow.response: handle_response").
   These deviations are part of the model because they are what the code does (drift must be 0); whether they are
   acceptable is the monitor's business.                                                              *)
EXTENDS Mon_DnsForward, TLC
CONSTANTS QRows, RRows, \* sets of <<type class, shape>>: records carried by queries / by replies
          Ids,         \* message ids in play
          MaxMsgs,     \* bound on the number of messages per behaviour
          Transports,
          ReplyAfter   \* exploration bound only: replies are explored after a query carrying one of these rows
VARIABLES tr, flows, last, n, mon, obs
vars == <<tr, flows, last, n, mon, obs>>

InList(t)   == t \in {"TXT", "CNAME", "NS", "PTR", "MX", "SOA", "SRV", "HINFO", "MINFO", "RP", "AFSDB", "NAPTR"}
\* RFC 1035 3.3 / RFC 3597 4 (+ KX, DNAME, never compressed by senders): RDATA defined to contain names
NamedT(t)   == t \in {"CNAME", "NS", "PTR", "MX", "SOA", "SRV", "MINFO", "RP", "AFSDB", "NAPTR", "KX", "DNAME"}
NamePos(t)  == IF t \in {"SOA", "MINFO", "RP"} THEN 2 ELSE IF NamedT(t) THEN 1 ELSE 0

\* <<raw RDATA unchanged, layout reading unchanged>> after unpack + packed
Decompress(t, s) ==
  IF ~InList(t) THEN <<TRUE, TRUE>>
  ELSE CASE s = "plain"    -> <<TRUE, TRUE>>
         [] s = "hibytes"  -> <<TRUE, TRUE>>       \* candidate pointer does not unpack: struct.error swallowed, skipped
         [] s = "comp"     -> <<FALSE, TRUE>>
         [] s = "comp_idn" -> <<FALSE, NamePos(t) < 2>>
         [] s = "ptrlike"  -> <<FALSE, FALSE>>

Pair(same) == IF same THEN <<1, 1>> ELSE <<1, 2>>
Fwd(dir, id, t, s) ==
  LET d == Decompress(t, s) IN
  [k |-> "fwd", dir |-> dir, tr |-> tr, id |-> id, nsent |-> 1, ref_ok |-> TRUE,
   hdr |-> <<1, 1>>, qs |-> <<1, 1>>, cnt |-> <<1, 1>>,
   rrs |-> << [t |-> t, shape |-> s, named |-> NamedT(t), meta |-> <<1, 1>>, raw |-> Pair(d[1]),
               exp |-> Pair(IF NamedT(t) THEN d[2] ELSE d[1])] >>]

Init == /\ tr \in Transports /\ flows = [i \in Ids |-> "none"] /\ last = <<>> /\ n = 0
        /\ mon = MonInit /\ obs = <<>>
Live == mon.bad = <<>>
Emit(evs) == obs' = evs /\ mon' = FoldEvents(MonStep, mon, evs)

\* client -> DNSLayer: state_query / handle_request
Query(id, t, s) ==
  /\ Live /\ n < MaxMsgs /\ n' = n + 1 /\ UNCHANGED tr /\ last' = <<t, s>>
  /\ IF flows[id] = "answered"
       THEN /\ UNCHANGED flows       \* flow.response still set: replayed to the client, nothing goes upstream
            /\ Emit(<<[k |-> "lost", dir |-> "query", tr |-> tr, id |-> id, exc |-> "", t |-> t, shape |-> s]>>)
       ELSE /\ flows' = [flows EXCEPT ![id] = "asked"]
            /\ Emit(<<Fwd("query", id, t, s)>>)

\* upstream -> DNSLayer: state_query / handle_response (only for ids the layer has a flow for: see C27 otherwise)
Reply(id, t, s) ==
  /\ Live /\ n < MaxMsgs /\ n' = n + 1 /\ UNCHANGED <<tr, last>>
  /\ flows[id] # "none" /\ last \in ReplyAfter
  /\ flows' = [flows EXCEPT ![id] = "answered"]
  /\ Emit(<<Fwd("reply", id, t, s)>>)

Next == \/ \E id \in Ids, r \in QRows : Query(id, r[1], r[2])
        \/ \E id \in Ids, r \in RRows : Reply(id, r[1], r[2])
Spec == Init /\ [][Next]_vars
Report == mon.bad # <<>> => PrintT(<<"BAD", mon.bad>>)
=============================================================================
