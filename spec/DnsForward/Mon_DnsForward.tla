--------------------------- MODULE Mon_DnsForward ---------------------------
(* Monitor for C26: forwarded DNS messages keep their meaning.

   Every event describes ONE message a peer sent through the real DNSLayer with no addon touching it, as read by
   the independent reference decoder (lib/vf/dnsref.py) before (index 1) and after (index 2) forwarding.  Values
   are interned per event: a pair <<1, 1>> means "equal", <<1, 2>> "different" (TLC only sees small integers).
     [k |-> "fwd", dir |-> "query"|"reply", tr |-> "udp"|"tcp", id |-> message id,
      nsent  |-> number of messages that reached the other side for this one input,
      ref_ok |-> the reference decoder can read the forwarded bytes,
      hdr, qs, cnt |-> pairs: header fields / question section / the three section counts,
      rrs |-> << [t |-> type class, shape |-> RDATA shape class (scenario label, signature only),
                  named |-> the type's RDATA is DEFINED to contain domain names (RFC 1035 3.3, RFC 3597 4),
                  meta |-> pair: owner name (case-folded), type, class, ttl,
                  raw  |-> pair: RDATA bytes,
                  exp  |-> pair: RDATA parsed by the type's field layout, names expanded and case-folded] ... >>]
     [k |-> "lost", dir, tr, id, exc |-> class name of an escaped exception or "", t, shape]
         the input produced no message on the other side
     [k |-> "end"]
   Clauses are what the statement says: same header, questions and records; RDATA unchanged apart from expanding
   compression where the type defines names; everything else byte-for-byte; and the message IS delivered.    *)
EXTENDS Verif

MonInit == [bad |-> <<>>, wit |-> {}, answered |-> {}]

RRBad(r) ==
  IF r.meta[1] # r.meta[2] THEN <<"C26.record_header_changed", r.t>>
  ELSE IF r.named THEN (IF r.exp[1] # r.exp[2] THEN <<"C26.rdata_meaning_changed", r.t, r.shape>> ELSE <<>>)
  ELSE IF r.raw[1] # r.raw[2] THEN <<"C26.rdata_changed", r.t, r.shape>>
  ELSE <<>>

FwdBad(ev) ==
  IF ev.nsent = 0 THEN <<"C26.not_delivered", ev.dir, "dropped">>
  ELSE IF ~ev.ref_ok THEN <<"C26.forwarded_not_decodable", ev.dir>>
  ELSE IF ev.hdr[1] # ev.hdr[2] THEN <<"C26.header_changed", ev.dir>>
  ELSE IF ev.qs[1] # ev.qs[2] THEN <<"C26.questions_changed", ev.dir>>
  ELSE IF ev.cnt[1] # ev.cnt[2] THEN <<"C26.record_count_changed", ev.dir>>
  ELSE LET idx == { i \in 1..Len(ev.rrs) : RRBad(ev.rrs[i]) # <<>> }
       IN IF idx = {} THEN <<>> ELSE RRBad(ev.rrs[CHOOSE i \in idx : \A j \in idx : i <= j])

Clause(m, ev) ==
  IF ev.k = "lost" THEN
     <<"C26.not_delivered", ev.dir,
       IF ev.exc # "" THEN ev.exc
       ELSE IF ev.dir = "query" /\ ev.id \in m.answered THEN "id_reused_after_reply"
       ELSE "dropped">>
  ELSE IF ev.k = "fwd" THEN FwdBad(ev)
  ELSE <<>>

RRWit(r) == (IF r.named /\ r.raw[1] # r.raw[2] /\ r.exp[1] = r.exp[2] THEN {"compression_expanded"} ELSE {})
       \cup (IF r.named /\ r.raw[1] = r.raw[2] THEN {"named_uncompressed"} ELSE {})
       \cup (IF ~r.named /\ r.shape \in {"hibytes", "ptrlike"} THEN {"unnamed_pointer_like_bytes"} ELSE {})
       \cup (IF r.shape = "comp_idn" THEN {"idn_target"} ELSE {})

MonStep(m, ev) ==
  IF ev.k = "fwd" THEN
    [m EXCEPT !.bad = IF @ # <<>> THEN @ ELSE Clause(m, ev),
              !.answered = IF ev.dir = "reply" THEN @ \cup {ev.id} ELSE @,
              !.wit = @ \cup {ev.dir, ev.tr} \cup UNION { RRWit(ev.rrs[i]) : i \in 1..Len(ev.rrs) }
                        \cup (IF Len(ev.rrs) > 1 THEN {"multi_record"} ELSE {})
                        \cup (IF ev.dir = "query" /\ ev.id \in m.answered THEN {"id_reused_after_reply"} ELSE {})]
  ELSE IF ev.k = "lost" THEN
    [m EXCEPT !.bad = IF @ # <<>> THEN @ ELSE Clause(m, ev),
              !.wit = @ \cup (IF ev.dir = "query" /\ ev.id \in m.answered THEN {"id_reused_after_reply"} ELSE {})]
  ELSE m
Wit(m) == m.wit
=============================================================================
