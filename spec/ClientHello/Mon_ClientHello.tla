--------------------------- MODULE Mon_ClientHello ---------------------------
(* Monitor for C13: ClientHello parsing is total and independent of segmentation.

   One trace = one input (the first bytes of a client) delivered in one or more segments.  After every segment
   the harness (props/C13.py) asks the real code twice: the function API (parse_client_hello /
   dtls_parse_client_hello on everything received so far: "fn") and a real ClientTLSLayer that was fed the
   segments one by one ("lay").  Event records:
     [k |-> "input", proto |-> "tls"|"dtls", valid |-> BOOLEAN, variant |-> string, nrec |-> Nat, ref |-> Fields]
         valid   : the harness wrote a well-formed ClientHello and a legal layout of it (records / fragments);
         variant : abstract class of the input (appears in violation signatures);
         nrec    : number of records that carry the hello;
         ref     : what the independent reader reads from the wire (present iff valid).
     [k |-> "seg", end |-> BOOLEAN, lay |-> Out, fn |-> Out, elay, efn, glay |-> Fields, gfn |-> Fields]
         end     : every byte of the input has now been delivered;
         Out     : "incomplete" | "hello" | "invalid" | "raised" (exception class in elay / efn);
         glay/gfn: the fields mitmproxy reports (hook data / return value) when Out = "hello".
   Fields == [sni |-> id (0: none), alpn |-> <<ids>>, suites |-> <<ints>>, exts |-> << <<type, id>> >>];
   byte strings are interned to small integers by the harness, equality is all the monitor needs.

   Clauses (nothing else is demanded):
     other_failure        an outcome other than incomplete / hello / invalid (any escaping exception but ValueError,
                          an accessor of the returned ClientHello raising)
     valid_hello_not_parsed  a well-formed hello is rejected as invalid at any point of its delivery, or is still
                          "incomplete" when all of its bytes have arrived (the split changed the result)
     fields_differ        sni / alpn / cipher suites / extensions reported for a well-formed hello differ from the
                          independent reader's                                                              *)
EXTENDS Verif

NoFields == [sni |-> 0, alpn |-> <<>>, suites |-> <<>>, exts |-> <<>>]
MonInit == [bad |-> <<>>, wit |-> {}, valid |-> FALSE, hasref |-> FALSE, proto |-> "", variant |-> "",
            ref |-> NoFields, nrec |-> 0, nseg |-> 0]

FieldDiff(got, ref) ==
  IF got.sni # ref.sni THEN "sni"
  ELSE IF got.alpn # ref.alpn THEN "alpn"
  ELSE IF got.suites # ref.suites THEN "suites"
  ELSE IF got.exts # ref.exts THEN "exts"
  ELSE ""

Judge(m, site, out, exc, got, end) ==
  IF out = "raised" THEN <<"C13.other_failure", site, exc>>
  ELSE IF out \notin {"incomplete", "hello", "invalid"} THEN <<"C13.other_failure", site, out>>
  ELSE IF ~m.valid THEN <<>>
  ELSE IF out = "invalid" THEN <<"C13.valid_hello_not_parsed", m.proto, m.variant, site, "invalid">>
  ELSE IF out = "incomplete" /\ end THEN <<"C13.valid_hello_not_parsed", m.proto, m.variant, site, "incomplete">>
  ELSE IF out = "hello" /\ m.hasref /\ FieldDiff(got, m.ref) # ""
    THEN <<"C13.fields_differ", m.proto, m.variant, site, FieldDiff(got, m.ref)>>
  ELSE <<>>

SegBad(m, ev) ==
  LET b1 == Judge(m, "fn", ev.fn, Get(ev, "efn", ""), Get(ev, "gfn", m.ref), ev.end) IN
  IF b1 # <<>> THEN b1
  ELSE Judge(m, "layer", ev.lay, Get(ev, "elay", ""), Get(ev, "glay", m.ref), ev.end)

SegWit(m, ev) ==
  (IF m.valid /\ ev.lay = "hello" /\ ev.fn = "hello"
     THEN {"hello_parsed"} \cup (IF m.nseg >= 1 THEN {"hello_after_incomplete"} ELSE {})
                           \cup (IF m.nrec > 1 THEN {"hello_multi_record"} ELSE {})
                           \cup (IF ~ev.end THEN {"hello_before_end"} ELSE {})
                           \cup (IF m.hasref THEN {"fields_compared"} ELSE {})
                           \cup (IF m.hasref /\ m.ref.sni # 0 THEN {"sni_compared"} ELSE {})
                           \cup (IF m.hasref /\ m.ref.sni = 0 THEN {"no_sni"} ELSE {})
                           \cup (IF m.hasref /\ m.ref.alpn # <<>> THEN {"alpn_compared"} ELSE {})
                           \cup (IF m.hasref /\ m.ref.exts = <<>> THEN {"no_extensions"} ELSE {})
     ELSE {})
  \cup (IF m.valid /\ ev.lay = "incomplete" /\ ~ev.end THEN {"prefix_incomplete"} ELSE {})
  \cup (IF ~m.valid /\ ev.lay = "invalid" THEN {"malformed_rejected"} ELSE {})
  \cup (IF ~m.valid /\ ev.lay = "hello" THEN {"malformed_accepted"} ELSE {})
  \cup (IF ~m.valid /\ ev.lay = "incomplete" /\ ev.end THEN {"malformed_incomplete"} ELSE {})

MonStep(m, ev) ==
  CASE ev.k = "input" ->
         [m EXCEPT !.valid = ev.valid, !.proto = ev.proto, !.variant = ev.variant, !.nrec = ev.nrec, !.nseg = 0,
                   !.hasref = "ref" \in DOMAIN ev, !.ref = Get(ev, "ref", NoFields),
                   !.wit = @ \cup {ev.proto} \cup (IF ev.valid THEN {"valid"} ELSE {"malformed"})]
    [] ev.k = "seg" ->
         [m EXCEPT !.bad = SegBad(m, ev), !.nseg = @ + 1, !.wit = @ \cup SegWit(m, ev)]
    [] OTHER -> m
Wit(m) == m.wit
=============================================================================
