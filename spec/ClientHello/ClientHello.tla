----------------------------- MODULE ClientHello -----------------------------
(* Implementation-shaped model of ClientHello reassembly in mitmproxy/proxy/layers/tls.py:
     ClientTLSLayer.receive_handshake_data  (recv_buffer.extend(data); parse; incomplete | hello | invalid)
     parse_client_hello / dtls_parse_client_hello, get_client_hello / get_dtls_client_hello,
     handshake_record_contents / dtls_handshake_record_contents.

   Lengths are counted in abstract units.  Record headers (RH = 5 / 13) and handshake headers (HH = 4 / 12) are
   byte-exact; a ClientHello body is a sequence of body units (tokens of the hello; the harness maps a unit to the
   bytes of that token), so every cut the model makes is a cut the harness can make in real bytes.

   An input (element of the constant sequence Inputs, enumerated by props/C13.py) is
     [proto, valid, variant, nrec,
      recs : sequence of [n |-> payload units, bad |-> BOOLEAN]   bad: the code's starts_like_(d)tls_record is
                                                                  false for this record header
      decl : body units announced by the length field the code reads (handshake length / DTLS fragment length)
      st   : wire offsets of the records (see RecStart)
      okc  : set of <<d, nx>>: a body cut after d units parses (kaitai) and then shows nx extensions ]
   State: cur (index of the chosen input), inp (its record; TLC re-evaluates a large constant on every
   reference, so the chosen element is copied into the state), got (wire units in recv_buffer), segs (segments delivered), done.            *)
EXTENDS Mon_ClientHello, TLC
CONSTANTS Inputs, MaxSegs, MaxUnits
VARIABLES cur, inp, got, segs, done, mon, obs
vars == <<cur, inp, got, segs, done, mon, obs>>

NoInput == [proto |-> "", recs |-> <<>>, st |-> <<0>>, decl |-> 0, okc |-> {}]
Init == cur = 0 /\ inp = NoInput /\ got = 0 /\ segs = 0 /\ done = FALSE /\ mon = MonInit /\ obs = <<>>
Live == mon.bad = <<>>
Emit(evs) == obs' = evs /\ mon' = FoldEvents(MonStep, mon, evs)

RH(p) == IF p = "dtls" THEN 13 ELSE 5
HH(p) == IF p = "dtls" THEN 12 ELSE 4
\* "if len(client_hello) >= 4" / ">= 13": bytes needed before the length field is consulted
MinAcc(p) == IF p = "dtls" THEN 13 ELSE 4

\* I.st[i] = wire offset of record i (st has one more entry: the end of the input), precomputed by the harness:
\* st[1] = 0, st[i + 1] = st[i] + RH + recs[i].n
RecStart(I, i) == I.st[i]
Total(I) == I.st[Len(I.recs) + 1]
RecEnds(I) == { I.st[i + 1] : i \in 1..Len(I.recs) }

\* ClientHello(client_hello[HH:]) on a body cut after d units: EOFError -> ValueError("Invalid ClientHello")
BodyParse(I, d) == IF \E c \in I.okc : c[1] = d
                   THEN [out |-> "hello", nx |-> (CHOOSE c \in I.okc : c[1] = d)[2]]
                   ELSE [out |-> "invalid", nx |-> 0]

\* get_client_hello driving the generator handshake_record_contents: i = next record, acc = units collected
RECURSIVE Walk(_, _, _, _)
Walk(I, i, acc, g) ==
  LET h == RH(I.proto) IN
  IF i > Len(I.recs) \/ g < RecStart(I, i) + h THEN [out |-> "incomplete", nx |-> 0]   \* len(data) < offset + 5
  ELSE IF I.recs[i].bad THEN [out |-> "invalid", nx |-> 0]                                \* Expected TLS record
  ELSE IF I.recs[i].n = 0 THEN [out |-> "invalid", nx |-> 0]                              \* Record must not be empty
  ELSE IF g < RecStart(I, i) + h + I.recs[i].n THEN [out |-> "incomplete", nx |-> 0]     \* record body incomplete
  ELSE LET acc2 == acc + I.recs[i].n IN
       IF acc2 >= MinAcc(I.proto) /\ acc2 >= I.decl + HH(I.proto)
         THEN BodyParse(I, I.decl)                                     \* client_hello[:client_hello_size]
         ELSE Walk(I, i + 1, acc2, g)

\* the harness picks what the client will send
Choose(i) ==
  /\ Live /\ cur = 0 /\ cur' = i /\ UNCHANGED <<got, segs, done>>
  /\ LET I == Inputs[i] IN
     /\ inp' = [proto |-> I.proto, recs |-> I.recs, st |-> I.st, decl |-> I.decl, okc |-> I.okc]
     /\ Emit(<<[k |-> "input", proto |-> I.proto, valid |-> I.valid, variant |-> I.variant, nrec |-> I.nrec]>>)

\* one DataReceived with the next n units: receive_handshake_data (layer) = parse_client_hello(buffer) (function)
Segment(n) ==
  /\ Live /\ cur # 0 /\ ~done
  /\ LET I == inp IN
     /\ n \in 1..(Total(I) - got)
     /\ (segs + 1 < MaxSegs \/ got + n = Total(I))          \* the last segment allowed delivers the rest
     /\ (I.proto = "dtls" => got + n \in RecEnds(I))        \* datagrams carry whole records
     /\ LET r == Walk(I, 1, 0, got + n) IN
        /\ got' = got + n /\ segs' = segs + 1 /\ done' = (r.out # "incomplete") /\ UNCHANGED <<cur, inp>>
        /\ Emit(<<[k |-> "seg", end |-> (got + n = Total(I)), lay |-> r.out, fn |-> r.out, nx |-> r.nx]>>)

Next == \/ \E i \in 1..Len(Inputs) : Choose(i)
        \/ \E n \in 1..MaxUnits : Segment(n)      \* constant bound: TLC then labels edges Segment(n)
Spec == Init /\ [][Next]_vars
Report == mon.bad # <<>> => PrintT(<<"BAD", mon.bad>>)
=============================================================================
