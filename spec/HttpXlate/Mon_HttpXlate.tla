--------------------------- MODULE Mon_HttpXlate ---------------------------
(* Monitor for C06: translating between HTTP versions preserves message semantics.

   One event record per translated message (props/C06.py sends one message of a given class through the real
   HttpLayer stack and decodes what reaches the next hop with an independent peer / reference parser):

     [k |-> "xlate",
      dir   |-> "req" | "resp",
      from  |-> "h1" | "h2" | "h3",      version the message was received over
      to    |-> "h1" | "h2" | "h3",      version of the next hop
      cls   |-> class of the message (see props/C06.py),  mode |-> "buffered" | "streamed",
      win   |-> "open" | "tight"         tight: the HTTP/2 next hop grants flow-control credit a few bytes at a time
      valid |-> BOOLEAN                  the message is a legitimate message of version "from"
      bodydef |-> BOOLEAN                FALSE: declared content-length and DATA sent disagree (no well-defined body)
      sent  |-> Msg                      semantic tuple of what the harness sent
      crashed |-> ""|exception class     an exception escaped from the proxy's layers while handling the message
      n     |-> number of messages the next hop read (HTTP/1: complete messages read by the reference parser)
      extra |-> HTTP/1 only: bytes emitted that belong to no complete message
      mal   |-> HTTP/1 only: "" or why the emitted head is not a well-formed head
      complete |-> the (first) message was received completely
      own   |-> responses only: what the client got is an error page made by the proxy, not a translation
      recv  |-> Msg                      semantic tuple the next hop decoded (all zero / empty if n = 0)]
     [k |-> "end"]

   Msg == [method, scheme, auth, host, path, status : interned strings (0 = absent),
           fields   : sequence of <<name, value>>, end-to-end fields only, names lower-cased before interning,
           cookies  : sequence of cookie lines, each a sequence of cookie pairs (split at "; "),
           body     : sequence of byte values,  trailers : sequence of <<name, value>>]                        *)
EXTENDS Verif

MonInit == [bad |-> <<>>, wit |-> {}]

Eff(x) == IF x.auth # 0 THEN x.auth ELSE x.host          \* authority the message is addressed to
RECURSIVE Flat(_)
Flat(ss) == IF ss = <<>> THEN <<>> ELSE Head(ss) \o Flat(Tail(ss))
Count(s, x) == Cardinality({i \in 1..Len(s) : s[i] = x})
BagEq(s, t) == Len(s) = Len(t) /\ \A i \in 1..Len(s) : Count(s, s[i]) = Count(t, s[i])
Carries(v) == v \in {"h2", "h3"}                          \* the hop's version can carry trailers (and a scheme)

\* first component of the semantic tuple that differs ("" if none)
Diff(ev) ==
  LET S == ev.sent  R == ev.recv IN
  IF S.method # 0 /\ R.method # S.method THEN "method"
  ELSE IF S.scheme # 0 /\ R.scheme # 0 /\ R.scheme # S.scheme THEN "scheme"
  ELSE IF Eff(S) # 0 /\ Eff(R) # Eff(S) THEN "authority"
  ELSE IF S.path # 0 /\ R.path # S.path THEN "path"
  ELSE IF R.status # S.status THEN "status"
  ELSE IF ~BagEq(S.fields, R.fields) THEN "fields"
  ELSE IF ~BagEq(Flat(S.cookies), Flat(R.cookies)) THEN "cookies"
  ELSE IF ev.to = "h1" /\ ev.from # "h1" /\ ev.dir = "req" /\ Len(R.cookies) > 1 THEN "cookies"
  ELSE IF ev.complete /\ ev.bodydef /\ R.body # S.body THEN "body"
  ELSE IF ev.complete /\ Carries(ev.to) /\ ~BagEq(S.trailers, R.trailers) THEN "trailers"
  ELSE ""

\* the abstract feature of the message that identifies the cause in a violation's signature
Feature(ev) == IF ev.sent.trailers # <<>> THEN "trailers" ELSE ev.cls
\* the next hop got (at least the head of) a translation of the message -- not nothing, not a proxy-made error page
Fwd(ev) == ev.n >= 1 /\ ~ev.own

Clause(ev) ==
  IF ev.k # "xlate" THEN <<>>
  ELSE IF ev.crashed # "" THEN <<"C06.crashed", ev.dir, ev.from, ev.to, Feature(ev)>>
  ELSE IF ev.to = "h1" /\ ev.from # "h1" /\ (ev.n > 1 \/ ev.extra > 0 \/ ev.mal # "")
       THEN <<"C06.h1_message_count_or_framing", ev.dir, ev.from, Feature(ev)>>
  ELSE IF Fwd(ev) /\ Diff(ev) # "" THEN <<"C06.semantics_changed", ev.dir, ev.from, ev.to, Feature(ev), Diff(ev)>>
  ELSE IF ev.valid /\ (~Fwd(ev) \/ ~ev.complete) THEN <<"C06.valid_message_lost", ev.dir, ev.from, ev.to, Feature(ev)>>
  ELSE <<>>

Pair(a, b) ==
  CASE a = "h1" /\ b = "h1" -> "h1_h1" [] a = "h1" /\ b = "h2" -> "h1_h2" [] a = "h1" /\ b = "h3" -> "h1_h3"
    [] a = "h2" /\ b = "h1" -> "h2_h1" [] a = "h2" /\ b = "h2" -> "h2_h2" [] a = "h2" /\ b = "h3" -> "h2_h3"
    [] a = "h3" /\ b = "h1" -> "h3_h1" [] a = "h3" /\ b = "h2" -> "h3_h2" [] a = "h3" /\ b = "h3" -> "h3_h3"
    [] OTHER -> "other"
W(c, name) == IF c THEN {name} ELSE {}

MonStep(m, ev) ==
  IF ev.k # "xlate" THEN m
  ELSE [m EXCEPT !.bad = Clause(ev),
                 !.wit = @ \cup W(Fwd(ev) /\ ev.complete, Pair(ev.from, ev.to))
                           \cup W(Fwd(ev) /\ ev.dir = "req", "request_forwarded") \cup W(Fwd(ev) /\ ev.dir = "resp", "response_forwarded")
                           \cup W(~Fwd(ev) /\ ~ev.valid, "invalid_rejected")
                           \cup W(Fwd(ev) /\ ~ev.valid, "invalid_forwarded")
                           \cup W(Fwd(ev) /\ ev.to = "h1" /\ ev.from # "h1" /\ Len(ev.sent.cookies) > 1, "cookies_to_h1")
                           \cup W(Fwd(ev) /\ ev.complete /\ Carries(ev.to) /\ ev.sent.trailers # <<>>, "trailers_carried")
                           \cup W(Fwd(ev) /\ ev.complete /\ ev.sent.body # <<>>, "body")
                           \cup W(Fwd(ev) /\ ev.to = "h1" /\ ev.from # "h1", "downgrade_to_h1") \cup W(ev.own, "proxy_error_page")
                           \cup W(ev.mode = "streamed", "streamed")
                           \cup W(Get(ev, "win", "open") = "tight" /\ Fwd(ev) /\ ev.complete /\ ev.sent.body # <<>>, "body_through_tight_window")]
Wit(m) == m.wit
=============================================================================
