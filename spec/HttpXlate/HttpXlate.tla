----------------------------- MODULE HttpXlate -----------------------------
(* Implementation-shaped model of what mitmproxy does with ONE message that is received over one HTTP version and
   handed to a next hop speaking another one.  It is a case table: Init is followed by one Translate(case) step per
   behaviour.  The operators transcribe, class by class, the decisions of the code:

     RejectedAtRecv   h2: hyper-h2 validate_inbound_headers (option validate_inbound_headers, default on), its
                          content-length tracking, split_pseudo_headers / parse_h2_*_headers (_http2.py);
                      h3: aioquic validate_request_headers / validate_response_headers + parse_h2_*_headers (_http3.py);
                      h1: read_request_head (net/http/http1/read.py)
     Crash            the places where the code under test raises instead of translating (named deviations, below)
     Recv             format_h2_request_headers / format_h2_response_headers / normalize_h1_headers (_http2.py, also used
                      by _http3.py), Http1Client.send (Host insertion, authority removal, Cookie joining), Http1Server.send,
                      assemble_request_head / assemble_response_head (net/http/http1/assemble.py)

   Cases (constant, produced by props/C06.py) are records
     [dir, from, to, cls, body, mode, win, valid, sent]   with sent the semantic tuple of the concrete message
   (Mon_HttpXlate).  win = "tight": the HTTP/2 next hop announced a 3-byte stream window beforehand (for requests: during
   an earlier exchange on the same connections) and opens it in steps of 1-3 bytes, so BufferedH2Connection parks and
   splits the body chunks; what finally arrives must be the same, so the predictions do not depend on win.

   Named deviations of the code (each makes the monitor reject the case; see findings_proposed/C06.md):
     TrailersToH1Crash     Http1Client.send / Http1Server.send raise AssertionError on Request/ResponseTrailers
     H1TrailersCrash       Http1Connection.read_body raises NotImplementedError for chunked trailers
     H1ToH3HostCrash       format_h2_request_headers pops Host as str; aioquic refuses non-bytes header values
     UnframedBodyToH1      a body without content-length received over h2/h3 is written after an HTTP/1 head that
                           announces no body
     PseudoSpaceToH1       a space inside :path / :method reaches the HTTP/1 request line
     NoContentBodyToH1     the body of a 204 response received over h2/h3 is written after the HTTP/1 head
     ExcessBodyToH1        streamed h3 request: DATA beyond the declared content-length is written after the complete
                           HTTP/1 message (aioquic compares the lengths only when the stream ends)                    *)
EXTENDS Mon_HttpXlate, TLC
CONSTANTS Cases
VARIABLES done, mon, obs
vars == <<done, mon, obs>>

ZeroMsg == [method |-> 0, scheme |-> 0, auth |-> 0, host |-> 0, path |-> 0, status |-> 0,
            fields |-> <<>>, cookies |-> <<>>, body |-> <<>>, trailers |-> <<>>]

H2ReqRejects == {"upper", "connhdr", "crlf_value", "lf_value", "nul_value", "ws_value", "crlf_path", "dup_pseudo",
                 "missing_path", "host_mismatch", "cl_short", "cl_long", "cl_short_mid"}
H3ReqRejects == {"upper", "crlf_value", "lf_value", "nul_value", "ws_value", "crlf_path", "dup_pseudo",
                 "missing_path", "host_only", "cl_short", "cl_long", "cl_short_mid"}
H2RespRejects == {"upper", "connhdr", "crlf_value", "lf_value", "nul_value", "cl_short", "cl_long", "dup_status", "bad_status"}
H3RespRejects == {"upper", "crlf_value", "lf_value", "nul_value", "cl_short", "cl_long", "dup_status", "bad_status"}

LengthMismatch(c) == c.cls \in {"cl_short", "cl_long", "cl_short_mid"}
\* a streamed message is forwarded head first; a length mismatch is only noticed while the body arrives
RejectedAtRecv(c) ==
  IF c.from = "h1" THEN c.cls = "space_path"
  ELSE IF LengthMismatch(c) /\ c.mode = "streamed" THEN FALSE
  ELSE IF c.dir = "req" THEN c.cls \in (IF c.from = "h2" THEN H2ReqRejects ELSE H3ReqRejects)
  ELSE c.cls \in (IF c.from = "h2" THEN H2RespRejects ELSE H3RespRejects)
Partial(c) == c.from # "h1" /\ LengthMismatch(c) /\ c.mode = "streamed"

HasTrailers(c) == c.sent.trailers # <<>>
Crash(c) ==
  IF RejectedAtRecv(c) THEN ""
  \* the harness delivers an HTTP/1 message in one piece, so read_body reaches the trailers within the same event
  ELSE IF c.from = "h1" /\ HasTrailers(c) THEN "NotImplementedError"                           \* H1TrailersCrash
  ELSE IF c.dir = "req" /\ c.from = "h1" /\ c.to = "h3" THEN "ValueError"                      \* H1ToH3HostCrash
  ELSE IF c.to = "h1" /\ c.from # "h1" /\ HasTrailers(c) /\ ~Partial(c) THEN "AssertionError"  \* TrailersToH1Crash
  ELSE ""

\* the semantic tuple the next hop decodes when the message is forwarded completely
Recv(c) ==
  LET S == c.sent IN
  [method |-> S.method, path |-> S.path, status |-> S.status,
   scheme |-> IF c.dir = "req" /\ c.to = "h1" THEN 0 ELSE S.scheme,                 \* origin-form request line
   auth |-> IF c.dir = "resp" \/ c.to = "h1" THEN 0                                  \* request.authority = ""
            ELSE IF c.from = "h1" THEN S.host                                        \* Host popped into :authority
            ELSE S.auth,
   host |-> IF c.dir = "resp" THEN 0
            ELSE IF c.to = "h1" THEN (IF S.host # 0 THEN S.host ELSE S.auth)         \* Host inserted from the authority
            ELSE IF c.from = "h1" THEN 0 ELSE S.host,
   fields |-> S.fields,
   cookies |-> IF c.dir = "req" /\ c.to = "h1" /\ c.from # "h1" /\ Len(S.cookies) > 1
               THEN <<Flat(S.cookies)>> ELSE S.cookies,                              \* "; ".join(cookie_headers)
   body |-> S.body,
   trailers |-> IF Carries(c.to) THEN S.trailers ELSE <<>>]

Outcome(c) ==
  LET base == [crashed |-> "", n |-> 0, extra |-> 0, mal |-> "", complete |-> FALSE, own |-> FALSE, recv |-> ZeroMsg] IN
  IF Crash(c) # "" THEN [base EXCEPT !.crashed = Crash(c)]
  ELSE IF RejectedAtRecv(c)
       THEN (IF c.dir = "resp" /\ c.from = "h2"
             THEN [base EXCEPT !.n = 1, !.complete = TRUE, !.own = TRUE]             \* 502 page made by the proxy
             ELSE base)
  ELSE IF Partial(c)
       THEN (IF c.to # "h1" THEN [base EXCEPT !.n = 1, !.recv = [Recv(c) EXCEPT !.body = <<>>, !.trailers = <<>>]]
             \* cl_short_mid: the first DATA frame fills the declared length, so the HTTP/1 message is complete; hyper-h2
             \* refuses the next frame, aioquic compares the lengths only at the end of the stream (ExcessBodyToH1)
             ELSE IF c.cls = "cl_short_mid"
                  THEN [base EXCEPT !.n = 1, !.complete = TRUE, !.extra = IF c.from = "h3" THEN 1 ELSE 0,
                                    !.recv = [Recv(c) EXCEPT !.body = SubSeq(c.sent.body, 1, 2)]]   \* the declared 2 bytes
             ELSE base)
  ELSE IF c.to = "h1" /\ c.from # "h1" /\ c.dir = "req" /\ c.cls \in {"space_path", "space_method"}
       THEN [base EXCEPT !.extra = 1, !.mal = "request_line"]                        \* PseudoSpaceToH1
  ELSE IF c.to = "h1" /\ c.from # "h1" /\ c.dir = "req" /\ c.cls = "nocl"
       THEN [base EXCEPT !.n = 1, !.extra = 1, !.complete = TRUE, !.recv = [Recv(c) EXCEPT !.body = <<>>]]   \* UnframedBodyToH1
  ELSE IF c.to = "h1" /\ c.from # "h1" /\ c.dir = "resp" /\ c.cls = "status204_body"
       THEN [base EXCEPT !.n = 1, !.extra = 1, !.complete = TRUE, !.recv = [Recv(c) EXCEPT !.body = <<>>]]   \* NoContentBodyToH1
  ELSE [base EXCEPT !.n = 1, !.complete = TRUE, !.recv = Recv(c)]

Init == done = FALSE /\ mon = MonInit /\ obs = <<>>
Live == mon.bad = <<>> /\ ~done
Emit(evs) == obs' = evs /\ mon' = FoldEvents(MonStep, mon, evs)

Translate(c) ==
  /\ Live /\ done' = TRUE
  /\ LET o == Outcome(c) IN
     Emit(<<[k |-> "xlate", dir |-> c.dir, from |-> c.from, to |-> c.to, cls |-> c.cls, mode |-> c.mode, body |-> c.body,
             win |-> c.win,
             valid |-> c.valid, bodydef |-> c.bodydef, sent |-> c.sent, crashed |-> o.crashed, n |-> o.n, extra |-> o.extra, mal |-> o.mal,
             complete |-> o.complete, own |-> o.own, recv |-> o.recv],
            [k |-> "end"]>>)

Next == \E c \in Cases : Translate(c)
Spec == Init /\ [][Next]_vars
Report == mon.bad # <<>> => PrintT(<<"BAD", mon.bad>>)
=============================================================================
