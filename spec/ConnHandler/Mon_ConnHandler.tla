--------------------------- MODULE Mon_ConnHandler ---------------------------
(* Monitor for C09: connection lifecycle events pair up and per-destination concurrency is bounded.

   One trace = one accepted client.  Event records (projected by props/C09.py from the hooks passed to
   handle_hook and from the fake network; c = connection id, 0 = the client, s = socket id, a = address name):
     [k |-> "accept", s, factory]                 the client socket exists; factory = "default" | "eager": the asyncio
                                                  task factory of the scenario (input; only used in signatures)
     [k |-> "hook", name, c, a]                   handle_hook(<name>) was called (the hook fires); server_connect also
                                                  carries kill: the scenario's addon sets server.error in this hook
     [k |-> "hook_end", name, c, how]             ... returned ("ok") or was cancelled inside ("cancelled")
     [k |-> "dial", c, a]                         an upstream connect was started
     [k |-> "sock_open", s, a, c]                 an upstream connect succeeded: socket s to address a exists
     [k |-> "sock_close", s]                      mitmproxy closed socket s
     [k |-> "end", hc_done, exc, tasks, ...]          the client is gone and everything the environment can do has been
                                                  done (hooks released, idle timeout elapsed): end-of-behaviour
     [k |-> "reply", c, ok]                       the layer received OpenConnectionCompleted for c (only used in signatures)
   Other kinds (open_cmd, wrapup) are ignored.
   Immediate clauses: a second client_connected / client_disconnected, a second outcome for an attempt, a second
   server_disconnected, more than K sockets to one address open at once.
   End-of-behaviour clauses: client hooks fired once each, every server_connect has an outcome, every
   server_connected has a server_disconnected, no socket is left open, no task is left running.             *)
EXTENDS Verif
CONSTANTS K

NoConn == [nc |-> 0, ok |-> 0, err |-> 0, disc |-> 0, dialed |-> FALSE, cancelled |-> "", killed |-> FALSE, replied |-> FALSE]
MonInit == [bad |-> <<>>, wit |-> {},
            cc |-> 0, cd |-> 0,        \* client_connected / client_disconnected fired
            conn |-> <<>>,             \* sequence of <<c, record>> : per upstream connection
            socks |-> {},              \* open sockets <<s, a>> (the client socket has a = "client")
            factory |-> "default"]

Has(m, c) == \E i \in 1..Len(m.conn) : m.conn[i][1] = c
Idx(m, c) == CHOOSE i \in 1..Len(m.conn) : m.conn[i][1] = c
Rec(m, c) == IF Has(m, c) THEN m.conn[Idx(m, c)][2] ELSE NoConn
Put(m, c, r) == IF Has(m, c) THEN [m.conn EXCEPT ![Idx(m, c)] = <<c, r>>] ELSE Append(m.conn, <<c, r>>)
OpenTo(socks, a) == Cardinality({x \in socks : x[2] = a})

FirstOutcome(r) == IF r.ok > 0 THEN "server_connected" ELSE "server_connect_error"

\* where an attempt without outcome / a connection without server_disconnected got lost (signature of the finding)
Stage(r) == IF r.cancelled # "" THEN r.cancelled \o "_hook_cancelled"
            ELSE IF r.killed THEN "killed_by_addon"
            ELSE IF r.ok > 0 /\ ~r.replied THEN "layer_not_told"
            ELSE IF r.dialed THEN "dialed" ELSE "not_dialed"

NoOutcome(m) == {i \in 1..Len(m.conn) : m.conn[i][2].nc > 0 /\ m.conn[i][2].ok + m.conn[i][2].err = 0}
NoDisc(m) == {i \in 1..Len(m.conn) : m.conn[i][2].ok > 0 /\ m.conn[i][2].disc = 0}
MinOf(S) == CHOOSE i \in S : \A j \in S : i <= j

EndClause(m, ev) ==
  IF ~ev.hc_done THEN <<"C09.client_handler_never_finished">>
  \* exc: class of the exception handle_client died of ("" if none)
  ELSE IF m.cc # 1 THEN <<"C09.client_connected_missing", Get(ev, "exc", ""), m.factory>>
  ELSE IF m.cd # 1 THEN <<"C09.client_disconnected_missing", Get(ev, "exc", ""), m.factory>>
  ELSE IF NoOutcome(m) # {} THEN <<"C09.attempt_without_outcome", Stage(m.conn[MinOf(NoOutcome(m))][2]), m.factory>>
  ELSE IF NoDisc(m) # {} THEN <<"C09.connected_without_disconnected", Stage(m.conn[MinOf(NoDisc(m))][2]), m.factory>>
  ELSE IF m.socks # {} THEN <<"C09.socket_left_open", IF \E x \in m.socks : x[2] = "client" THEN "client" ELSE "server", m.factory>>
  ELSE IF ev.tasks > 0 THEN <<"C09.task_left_running", m.factory>>
  ELSE <<>>

Clause(m, ev) ==
  CASE ev.k = "hook" /\ ev.name = "client_connected" ->
         IF m.cc > 0 THEN <<"C09.client_connected_twice">> ELSE <<>>
    [] ev.k = "hook" /\ ev.name = "client_disconnected" ->
         IF m.cc = 0 THEN <<"C09.client_disconnected_before_connected">>
         ELSE IF m.cd > 0 THEN <<"C09.client_disconnected_twice">> ELSE <<>>
    [] ev.k = "hook" /\ ev.name \in {"server_connected", "server_connect_error"} ->
         LET r == Rec(m, ev.c) IN
         IF r.ok + r.err > 0 THEN <<"C09.second_outcome", FirstOutcome(r), ev.name>> ELSE <<>>
    [] ev.k = "hook" /\ ev.name = "server_disconnected" ->
         IF Rec(m, ev.c).disc > 0 THEN <<"C09.server_disconnected_twice">> ELSE <<>>
    [] ev.k = "sock_open" ->
         IF OpenTo(m.socks \cup {<<ev.s, ev.a>>}, ev.a) > K
           THEN <<"C09.too_many_open",   \* signature: is a socket counted whose task died in a cancelled hook (a leaked socket)?
                  IF \E i \in 1..Len(m.conn) : m.conn[i][2].ok > 0 /\ m.conn[i][2].disc = 0 /\ m.conn[i][2].cancelled # ""
                  THEN "counting_socket_leaked_by_cancelled_hook" ELSE "no_leak", m.factory>>
         ELSE <<>>
    [] ev.k = "end" -> EndClause(m, ev)
    [] OTHER -> <<>>

Upd(m, ev) ==
  CASE ev.k = "accept" -> [m EXCEPT !.socks = @ \cup {<<ev.s, "client">>}, !.factory = Get(ev, "factory", "default")]
    [] ev.k = "reply" -> [m EXCEPT !.conn = Put(m, ev.c, [Rec(m, ev.c) EXCEPT !.replied = TRUE])]
    [] ev.k = "hook" /\ ev.name = "client_connected" -> [m EXCEPT !.cc = @ + 1]
    [] ev.k = "hook" /\ ev.name = "client_disconnected" -> [m EXCEPT !.cd = @ + 1]
    [] ev.k = "hook" /\ ev.name = "server_connect" ->
         [m EXCEPT !.conn = Put(m, ev.c, [Rec(m, ev.c) EXCEPT !.nc = @ + 1, !.killed = Get(ev, "kill", FALSE)])]
    [] ev.k = "hook" /\ ev.name = "server_connected" ->
         [m EXCEPT !.conn = Put(m, ev.c, [Rec(m, ev.c) EXCEPT !.ok = @ + 1]),
                   !.wit = @ \cup {"connected"}]
    [] ev.k = "hook" /\ ev.name = "server_connect_error" ->
         [m EXCEPT !.conn = Put(m, ev.c, [Rec(m, ev.c) EXCEPT !.err = @ + 1]),
                   !.wit = @ \cup {"connect_error"} \cup (IF m.cd > 0 THEN {"connect_error_after_client_gone"} ELSE {})
                             \cup (IF ~Rec(m, ev.c).dialed THEN {"connect_error_before_dial"} ELSE {})]
    [] ev.k = "hook" /\ ev.name = "server_disconnected" ->
         \* only a server_disconnected that FOLLOWS the server_connected counts for the pairing
         [m EXCEPT !.conn = IF Rec(m, ev.c).ok > 0 THEN Put(m, ev.c, [Rec(m, ev.c) EXCEPT !.disc = @ + 1]) ELSE @,
                   !.wit = @ \cup {"disconnected"} \cup (IF m.cd > 0 THEN {"disconnected_after_client_gone"} ELSE {"disconnected_before_client_gone"})]
    [] ev.k = "hook_end" /\ ev.how = "cancelled" /\ ev.c # 0 ->
         [m EXCEPT !.conn = Put(m, ev.c, [Rec(m, ev.c) EXCEPT !.cancelled = ev.name]),
                   !.wit = @ \cup {"hook_cancelled"}]
    [] ev.k = "dial" -> [m EXCEPT !.conn = Put(m, ev.c, [Rec(m, ev.c) EXCEPT !.dialed = TRUE])]
    [] ev.k = "sock_open" ->
         [m EXCEPT !.socks = @ \cup {<<ev.s, ev.a>>},
                   !.wit = @ \cup (IF OpenTo(m.socks \cup {<<ev.s, ev.a>>}, ev.a) = K THEN {"k_open"} ELSE {})]
    [] ev.k = "sock_close" -> [m EXCEPT !.socks = {x \in @ : x[1] # ev.s}]
    [] ev.k = "end" -> [m EXCEPT !.wit = @ \cup (IF m.cc = 1 /\ m.cd = 1 THEN {"client_pair"} ELSE {})
                                        \cup (IF Len(m.conn) > 0 THEN {"end_with_upstream"} ELSE {})]
    [] OTHER -> m

MonStep(m, ev) == [Upd(m, ev) EXCEPT !.bad = Clause(m, ev)]
Wit(m) == m.wit
=============================================================================
