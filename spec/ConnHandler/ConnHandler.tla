------------------------------ MODULE ConnHandler ------------------------------
(* Implementation-shaped model of mitmproxy/proxy/server.py: ConnectionHandler.handle_client / open_connection /
   handle_connection / drain_writers / close_connection / on_timeout, as the asyncio task system it is.

   Tasks: HC = handle_client, 0 = handle_connection(client), i >= 1 = open_connection of the i-th OpenConnection
   command (which runs handle_connection(server i) inside).  A task is either suspended at pc, or has an entry in the
   FIFO ready queue (asyncio's call_soon queue) saying how it will be resumed (wake = start | res | cancel).
   One model step of a task = one critical section of the code: from a resumption to the next await that really
   suspends (hooks suspend only when the scenario makes that hook slow; server_event never suspends: its lock is
   never contended on the default task factory).  Environment actions (socket activity, connect results, hook
   completion, idle timeout) only enqueue wake-ups; action Settle runs the ready queue to quiescence in FIFO order
   and emits the event records the harness logs (asyncio.wait costs one extra hop: entry "cb").
   With cfg.burst > 1 several environment actions happen before the loop runs (simultaneous completions).

   cfg (chosen in Init from Cfgs) is the scenario class: which hooks are slow, the layer policy, which connections an
   addon kills, which environment actions are enabled (feat), how many OpenConnection commands one message carries
   (batch), which addresses are used, how many environment actions may precede one run of the loop (burst), and the
   bounds (maxconns, maxops).

   Top layer = the scripted layer of props/C09.py: a command message on the client connection makes it issue
   OpenConnection(new server at address a) / CloseConnection(i) / CloseTcpConnection(i, half_close) / a flow-style
   StartHook whose completion makes it close connection i (op "hook": the hook_task path of server_event); on
   ConnectionClosed it closes that connection if the policy (cfg.seof / cfg.ceof) says so.

   Deviations of the code from the property are modelled as they are (constants say which way):
     SemCancelReports = FALSE : a task cancelled while waiting for the per-address semaphore ends without
                                server_connect_error (open_connection: "async with self.max_conns[...]" is outside try)
     HookCancelReports = FALSE: a task cancelled inside a slow server_connect / server_connected hook ends without
                                outcome / without server_disconnected and without closing the socket               *)
EXTENDS Mon_ConnHandler, TLC
CONSTANTS MaxConns, Addrs, Cap, Cfgs, SemCancelReports, HookCancelReports
VARIABLES cfg, s, burst, ops, mon, obs
vars == <<cfg, s, burst, ops, mon, obs>>

Ids == 0..MaxConns
NewTask == [pc |-> "none", wake |-> "", must |-> FALSE, a |-> "", st |-> "closed", rr |-> FALSE, got |-> FALSE,
            dres |-> "", sock |-> FALSE, intr |-> FALSE, hasw |-> FALSE, err |-> FALSE]
NoBuf == [data |-> <<>>, eof |-> FALSE, err |-> FALSE]
TE(i) == [k |-> "t", i |-> i]
CB(i) == [k |-> "cb", i |-> i]
HCE == [k |-> "hc", i |-> -1]
GatePcs == {"g_server_connect", "g_kill_error", "g_server_connect_error", "g_server_connected", "g_server_disconnected"}

Init == /\ cfg \in {Cfgs[j] : j \in 1..Len(Cfgs)}
        /\ s = [hc |-> [pc |-> "start", wake |-> "start"],
                t |-> [i \in Ids |-> IF i = 0 THEN [NewTask EXCEPT !.a = "client", !.st = "open", !.sock = TRUE,
                                                                   !.intr = TRUE, !.hasw = TRUE]
                                     ELSE NewTask],
                tr |-> <<0>>,                         \* keys of self.transports in insertion order
                sem |-> [a \in Addrs |-> Cap], semq |-> [a \in Addrs |-> <<>>],
                ready |-> <<HCE>>, hcWait |-> {},
                buf |-> [i \in Ids |-> NoBuf], broken |-> {}, nconn |-> 0, timedOut |-> FALSE]
        /\ burst = 1 /\ ops = 0 /\ mon = MonInit /\ obs = <<>>

Live == mon.bad = <<>>
Emit(evs) == obs' = evs /\ mon' = FoldEvents(MonStep, mon, evs)

\* ---------------------------------------------------------------------------------------------------------------
\* work record w = s plus: out (records emitted so far), cur (the running task; -2 none), cfg
Out(w, r) == [w EXCEPT !.out = Append(@, r)]
HookRec(name, c, a) == [k |-> "hook", name |-> name, c |-> c, a |-> a]
HookEnd(name, c, how) == [k |-> "hook_end", name |-> name, c |-> c, how |-> how]

\* Task.cancel() of task i
Cancel(w, i) ==
  LET x == w.t[i] IN
  IF x.pc \in {"done", "none"} THEN w
  ELSE IF w.cur = i THEN [w EXCEPT !.t[i].must = TRUE]
  ELSE IF x.wake # "" THEN [w EXCEPT !.t[i].wake = "cancel"]
  ELSE [w EXCEPT !.t[i].wake = "cancel", !.ready = Append(@, TE(i)),
                 !.semq = IF x.pc = "sem" THEN [@ EXCEPT ![x.a] = SelectSeq(@, LAMBDA j : j # i)] ELSE @]

\* the task suspends at pc; a pending self-cancellation (must) cancels the awaited future right away
Suspend(w, i, pc) ==
  IF w.t[i].must THEN [w EXCEPT !.t[i].pc = pc, !.t[i].must = FALSE, !.t[i].wake = "cancel", !.ready = Append(@, TE(i))]
  ELSE [w EXCEPT !.t[i].pc = pc]

\* asyncio.Semaphore
Locked(w, a) == w.sem[a] = 0 \/ w.semq[a] # <<>> \/ \E j \in 1..MaxConns : w.t[j].pc = "sem" /\ w.t[j].a = a /\ w.t[j].wake = "res"
WakeNext(w, a) ==
  IF w.semq[a] = <<>> THEN w
  ELSE LET j == Head(w.semq[a]) IN
       [w EXCEPT !.sem[a] = @ - 1, !.semq[a] = Tail(@), !.t[j].got = TRUE, !.t[j].wake = "res", !.ready = Append(@, TE(j))]
ReleaseSem(w, a) == WakeNext([w EXCEPT !.sem[a] = @ + 1], a)

\* the task function returns / raises: Task done; done-callbacks of asyncio.wait are scheduled
Finish(w, i) ==
  LET w1 == [w EXCEPT !.t[i].pc = "done", !.t[i].must = FALSE, !.t[i].wake = ""] IN
  IF i \in w.hcWait THEN [w1 EXCEPT !.ready = Append(@, CB(i))] ELSE w1

\* ConnectionHandler.close_connection (reached from server_event only if the connection is in self.transports)
CloseConn(w, i, half) ==
  IF ~w.t[i].intr THEN w
  ELSE LET st == w.t[i].st
           st2 == IF ~half THEN "closed"
                  ELSE IF st \notin {"open", "can_write"} THEN st
                  ELSE IF i \in w.broken THEN "closed"            \* write_eof raises OSError
                  ELSE IF st = "open" THEN "can_read" ELSE "closed"
           w1 == [w EXCEPT !.t[i].st = st2]
       IN IF half /\ st \notin {"open", "can_write"} THEN w
          ELSE IF st2 = "closed" THEN Cancel(w1, i) ELSE w1

\* the scripted layer's reaction to one command op carried by client data
RECURSIVE OpenN(_, _, _)
OpenN(w, a, n) ==
  IF n = 0 \/ w.nconn >= MaxConns THEN w
  ELSE LET i == w.nconn + 1 IN
       OpenN(Out([w EXCEPT !.nconn = i, !.t[i] = [NewTask EXCEPT !.pc = "new", !.wake = "start", !.a = a, !.intr = TRUE],
                           !.tr = Append(@, i), !.ready = Append(@, TE(i))],
                 [k |-> "open_cmd", c |-> i, a |-> a]), a, n - 1)
DoLop(w, lop) ==
  CASE lop.op = "open" -> OpenN(w, lop.a, lop.c)      \* lop.c OpenConnection commands in one event
    [] lop.op = "close" -> IF lop.c <= w.nconn THEN CloseConn(w, lop.c, FALSE) ELSE w
    [] lop.op = "half" -> IF lop.c <= w.nconn THEN CloseConn(w, lop.c, TRUE) ELSE w
    [] lop.op = "hook" -> [w EXCEPT !.ready = Append(@, [k |-> "hk", i |-> lop.c])]   \* StartHook -> create_task(hook_task)
RECURSIVE DoLops(_, _)
DoLops(w, lops) == IF lops = <<>> THEN w ELSE DoLops(DoLop(w, Head(lops)), Tail(lops))

\* drain_writers: a writer whose peer is gone raises OSError -> that transport's handler is cancelled
RECURSIVE DrainFrom(_, _)
DrainFrom(w, keys) ==
  IF keys = <<>> THEN w
  ELSE LET k == Head(keys) IN
       DrainFrom(IF w.t[k].hasw /\ w.t[k].intr /\ k \in w.broken THEN Cancel(w, k) ELSE w, Tail(keys))
Drain(w) == DrainFrom(w, w.tr)

\* server_event(ConnectionClosed(i)) -> the layer's policy
ClosedEvent(w, i) ==
  IF i = 0 THEN (IF w.cfg.ceof THEN CloseConn(w, 0, FALSE) ELSE w)
  ELSE (IF w.cfg.seof THEN CloseConn(w, i, FALSE) ELSE w)

\* tail of handle_connection: writer.close(); self.transports.pop(connection)
CloseWriter(w, i) ==
  Out([w EXCEPT !.t[i].sock = FALSE, !.t[i].intr = FALSE, !.tr = SelectSeq(@, LAMBDA k : k # i)],
      [k |-> "sock_close", s |-> i])

RECURSIVE Label(_, _, _), ReadLoop(_, _)
\* handle_hook(<name>) from task i; continues at label next when the hook returns
HookOrGate(w, i, name, gpc, next) ==
  LET w1 == Out(w, IF name = "server_connect" THEN HookRec(name, i, w.t[i].a) @@ [kill |-> i \in w.cfg.kill]
                      ELSE HookRec(name, i, w.t[i].a)) IN
  IF name \in w.cfg.slow THEN Suspend(w1, i, gpc)
  ELSE Label(Out(w1, HookEnd(name, i, "ok")), i, next)

\* handle_connection returned (or raised): client -> task done; server -> the finally block of open_connection
Returned(w, i) ==
  IF i = 0 THEN Finish(w, 0)
  ELSE HookOrGate(w, i, "server_disconnected", "g_server_disconnected", "release_finish")

\* handle_connection after the read loop ended by EOF / OSError
EofPath(w, i) ==
  LET st == w.t[i].st
      w1 == [w EXCEPT !.t[i].st = IF st = "open" THEN "can_write" ELSE IF st = "can_read" THEN "closed" ELSE st]
      w2 == ClosedEvent(w1, i)
  IN IF w2.t[i].st = "can_write" THEN Suspend(w2, i, "halfopen")
     ELSE Returned(CloseWriter(w2, i), i)

\* handle_connection: data = await reader.read(); server_event(DataReceived); drain_writers(); loop
ReadLoop(w, i) ==
  LET b == w.buf[i] IN
  IF b.err THEN EofPath(w, i)
  ELSE IF b.data # <<>>
    THEN LET w1 == [w EXCEPT !.buf[i].data = <<>>]
             w2 == IF i = 0 THEN DoLops(w1, b.data) ELSE w1
         IN ReadLoop(Drain(w2), i)
  ELSE IF b.eof THEN EofPath(w, i)
  ELSE Suspend(w, i, "read")

Label(w, i, l) ==
  LET a == w.t[i].a IN
  CASE l = "begin" ->            \* open_connection up to the first await that can suspend
         HookOrGate([w EXCEPT !.t[i].err = i \in w.cfg.kill], i, "server_connect", "g_server_connect", "after_connect")
    [] l = "after_connect" ->
         IF w.t[i].err THEN HookOrGate(w, i, "server_connect_error", "g_kill_error", "kill_reply")
         ELSE IF ~Locked(w, a) THEN Label([w EXCEPT !.sem[a] = @ - 1], i, "dial")
         ELSE IF w.t[i].must THEN Suspend(w, i, "sem")
         ELSE [w EXCEPT !.semq[a] = Append(@, i), !.t[i].pc = "sem"]
    [] l = "kill_reply" -> Finish(Out(w, [k |-> "reply", c |-> i, ok |-> FALSE]), i)
    [] l = "dial" -> Suspend(Out(w, [k |-> "dial", c |-> i, a |-> a]), i, "dial")
    [] l = "conn_ok" ->
         HookOrGate(Out([w EXCEPT !.t[i].sock = TRUE, !.t[i].hasw = TRUE, !.t[i].st = "open"],
                        [k |-> "sock_open", s |-> i, a |-> a, c |-> i]),
                    i, "server_connected", "g_server_connected", "after_connected")
    [] l = "conn_error" -> HookOrGate(w, i, "server_connect_error", "g_server_connect_error", "err_reply")
    [] l = "err_reply" -> Finish(ReleaseSem(Out(w, [k |-> "reply", c |-> i, ok |-> FALSE]), a), i)
    [] l = "after_connected" -> ReadLoop(Out(w, [k |-> "reply", c |-> i, ok |-> TRUE]), i)
    [] l = "cancel_path" ->      \* CancelledError inside reader.read()
         Returned(CloseWriter(ClosedEvent([w EXCEPT !.t[i].st = "closed"], i), i), i)
    [] l = "halfopen_cancelled" -> Returned(CloseWriter(w, i), i)
    [] l = "release_finish" -> Finish(ReleaseSem(w, a), i)
    [] l = "sem_cancelled" ->    \* CancelledError inside Semaphore.acquire()
         LET w1 == IF w.t[i].got THEN ReleaseSem(w, a) ELSE w IN
         IF SemCancelReports THEN HookOrGate(w1, i, "server_connect_error", "g_kill_error", "kill_reply")
         ELSE Finish(w1, i)

\* a task with an entry in the ready queue runs
TaskStep(w0, i) ==
  LET x == w0.t[i]
      c == x.wake = "cancel"
      w == [w0 EXCEPT !.t[i].wake = "", !.cur = i]
  IN CASE x.pc = "new" /\ c -> Finish(w, i)                         \* cancelled before it ever ran
       [] x.pc = "new" /\ i = 0 -> ReadLoop(w, 0)
       [] x.pc = "new" -> Label(w, i, "begin")
       [] x.pc = "read" -> IF c THEN Label(w, i, "cancel_path") ELSE ReadLoop(w, i)
       [] x.pc = "halfopen" -> Label(w, i, "halfopen_cancelled")
       [] x.pc = "sem" -> IF c THEN Label(w, i, "sem_cancelled")
                          ELSE Label(IF w.sem[x.a] > 0 THEN WakeNext(w, x.a) ELSE w, i, "dial")
       [] x.pc = "dial" -> IF c THEN Label([w EXCEPT !.t[i].rr = TRUE], i, "conn_error")
                           ELSE IF x.dres = "ok" THEN Label(w, i, "conn_ok") ELSE Label(w, i, "conn_error")
       [] x.pc = "g_server_connect" ->
            IF c THEN (IF HookCancelReports
                       THEN HookOrGate(Out(w, HookEnd("server_connect", i, "cancelled")), i, "server_connect_error", "g_kill_error", "kill_reply")
                       ELSE Finish(Out(w, HookEnd("server_connect", i, "cancelled")), i))
            ELSE Label(Out(w, HookEnd("server_connect", i, "ok")), i, "after_connect")
       [] x.pc = "g_kill_error" ->
            IF c THEN Finish(Out(w, HookEnd("server_connect_error", i, "cancelled")), i)
            ELSE Label(Out(w, HookEnd("server_connect_error", i, "ok")), i, "kill_reply")
       [] x.pc = "g_server_connect_error" ->
            IF c THEN Finish(ReleaseSem(Out(w, HookEnd("server_connect_error", i, "cancelled")), x.a), i)
            ELSE Label(Out(w, HookEnd("server_connect_error", i, "ok")), i, "err_reply")
       [] x.pc = "g_server_connected" ->
            IF c THEN (IF HookCancelReports
                       THEN Label(Out(w, HookEnd("server_connected", i, "cancelled")), i, "cancel_path")
                       ELSE Finish(ReleaseSem(Out(w, HookEnd("server_connected", i, "cancelled")), x.a), i))
            ELSE Label(Out(w, HookEnd("server_connected", i, "ok")), i, "after_connected")
       [] x.pc = "g_server_disconnected" ->
            Label(Out(w, HookEnd("server_disconnected", i, IF c THEN "cancelled" ELSE "ok")), i, "release_finish")

\* handle_client
RECURSIVE CancelAll(_, _), DoneCbs(_, _)
CancelAll(w, keys) == IF keys = <<>> THEN w ELSE CancelAll(Cancel(w, Head(keys)), Tail(keys))
DoneCbs(w, keys) == IF keys = <<>> THEN w
                    ELSE DoneCbs(IF w.t[Head(keys)].pc = "done" THEN [w EXCEPT !.ready = Append(@, CB(Head(keys)))] ELSE w, Tail(keys))
RECURSIVE HcLabel(_, _)
HcHook(w, name, gpc, next) ==
  LET w1 == Out(w, HookRec(name, 0, "")) IN
  IF name \in w.cfg.slow THEN [w1 EXCEPT !.hc.pc = gpc]
  ELSE HcLabel(Out(w1, HookEnd(name, 0, "ok")), next)
HcLabel(w, l) ==
  CASE l = "after_cc" ->
         IF w.cfg.killc
           THEN HcLabel(Out([w EXCEPT !.t[0].sock = FALSE, !.t[0].intr = FALSE, !.tr = SelectSeq(@, LAMBDA k : k # 0)],
                            [k |-> "sock_close", s |-> 0]), "disconnect")
           ELSE [w EXCEPT !.t[0].pc = "new", !.t[0].wake = "start", !.ready = Append(@, TE(0)),
                          !.hcWait = {0}, !.hc.pc = "wait_handler"]
    [] l = "disconnect" -> HcHook(w, "client_disconnected", "g_client_disconnected", "cancel_all")
    [] l = "cancel_all" ->
         IF w.tr = <<>> THEN [w EXCEPT !.hc.pc = "done"]
         ELSE LET w1 == CancelAll(w, w.tr)
                  w2 == [w1 EXCEPT !.hcWait = {k \in ToSet(w.tr) : w.t[k].pc # "none"}, !.hc.pc = "wait_transports"]
              IN DoneCbs(w2, w.tr)
HcStep(w0) ==
  LET w == [w0 EXCEPT !.hc.wake = "", !.cur = -1] IN
  CASE w0.hc.pc = "start" ->
         HcHook(Out(w, [k |-> "accept", s |-> 0, factory |-> "default"]), "client_connected", "g_client_connected", "after_cc")
    [] w0.hc.pc = "g_client_connected" -> HcLabel(Out(w, HookEnd("client_connected", 0, "ok")), "after_cc")
    [] w0.hc.pc = "wait_handler" -> HcLabel(w, "disconnect")
    [] w0.hc.pc = "g_client_disconnected" -> HcLabel(Out(w, HookEnd("client_disconnected", 0, "ok")), "cancel_all")
    [] w0.hc.pc = "wait_transports" -> [w EXCEPT !.hc.pc = "done"]
\* _on_completion of asyncio.wait
CbStep(w, i) ==
  LET left == w.hcWait \ {i} IN
  IF left = {} /\ w.hcWait # {} THEN [w EXCEPT !.hcWait = {}, !.hc.wake = "res", !.ready = Append(@, HCE)]
  ELSE [w EXCEPT !.hcWait = left]

RECURSIVE Run(_)
Run(w) ==
  IF w.ready = <<>> THEN w
  ELSE LET e == Head(w.ready)
           w1 == [w EXCEPT !.ready = Tail(@)]
       IN Run(CASE e.k = "hc" -> HcStep(w1) [] e.k = "cb" -> CbStep(w1, e.i) [] e.k = "t" -> TaskStep(w1, e.i)
                [] e.k = "hk" ->     \* hook_task: handle_hook (no slow addon), server_event(HookCompleted) -> layer closes conn i
                     (IF e.i <= w1.nconn THEN CloseConn([w1 EXCEPT !.cur = -2], e.i, FALSE) ELSE w1))

\* ---------------------------------------------------------------------------------------------------------------
Blocked == s.hc.pc \in {"g_client_connected", "g_client_disconnected"} \/ \E i \in 1..MaxConns : s.t[i].pc \in GatePcs
Env == Live /\ burst < cfg.burst /\ ops < cfg.maxops /\ s.hc.pc # "done"
On(f) == f \in cfg.feat
EnvDone(s2) == s' = s2 /\ burst' = burst + 1 /\ ops' = ops + 1 /\ UNCHANGED cfg /\ Emit(<<>>)
Wake(st, i) == IF st.t[i].pc = "read" /\ st.t[i].wake = ""
               THEN [st EXCEPT !.t[i].wake = "res", !.ready = Append(@, TE(i))] ELSE st
RECURSIVE SumOpens(_)
SumOpens(q) == IF q = <<>> THEN 0 ELSE (IF Head(q).op = "open" THEN Head(q).c ELSE 0) + SumOpens(Tail(q))

\* the client sends a command message (DataReceived on the client connection)
Cmd(lop) == /\ Env /\ s.t[0].sock /\ ~s.buf[0].eof
            /\ IF lop.op = "open" THEN lop.a \in cfg.addrs /\ lop.c = cfg.batch
                                        /\ s.nconn + SumOpens(s.buf[0].data) + lop.c <= cfg.maxconns
               ELSE lop.c <= s.nconn /\ On(lop.op)
            /\ EnvDone(Wake([s EXCEPT !.buf[0].data = Append(@, lop)], 0))
CEof == /\ Env /\ ~s.buf[0].eof
        /\ EnvDone(Wake([s EXCEPT !.buf[0].eof = TRUE], 0))
\* the pending connect of connection i completes
ConnOk(i) == /\ Env /\ s.t[i].pc = "dial" /\ s.t[i].wake = ""
             /\ EnvDone([s EXCEPT !.t[i].dres = "ok", !.t[i].wake = "res", !.ready = Append(@, TE(i))])
ConnFail(i) == /\ Env /\ On("fail") /\ s.t[i].pc = "dial" /\ s.t[i].wake = ""
               /\ EnvDone([s EXCEPT !.t[i].dres = "fail", !.t[i].wake = "res", !.ready = Append(@, TE(i))])
SockUp(i) == s.t[i].sock /\ ~s.buf[i].eof /\ ~s.buf[i].err
SData(i) == /\ Env /\ On("data") /\ SockUp(i) /\ s.buf[i].data = <<>>
            /\ EnvDone(Wake([s EXCEPT !.buf[i].data = <<[op |-> "data", a |-> "", c |-> i]>>], i))
SEof(i) == /\ Env /\ On("eof") /\ SockUp(i)
           /\ EnvDone(Wake([s EXCEPT !.buf[i].eof = TRUE], i))
SErr(i) == /\ Env /\ On("err") /\ SockUp(i)
           /\ EnvDone(Wake([s EXCEPT !.buf[i].err = TRUE], i))
\* the peer of socket i is gone for writing: the next drain raises OSError
Break(i) == /\ Env /\ On("break") /\ s.t[i].sock /\ i \notin s.broken
            /\ EnvDone([s EXCEPT !.broken = @ \cup {i}])
\* a slow hook returns
Release(i) == /\ Env /\ i >= 1 /\ s.t[i].pc \in GatePcs /\ s.t[i].wake = ""
              /\ EnvDone([s EXCEPT !.t[i].wake = "res", !.ready = Append(@, TE(i))])
ReleaseClient == /\ Env /\ s.hc.pc \in {"g_client_connected", "g_client_disconnected"} /\ s.hc.wake = ""
                 /\ EnvDone([s EXCEPT !.hc.wake = "res", !.ready = Append(@, HCE)])
\* tcp_timeout passes without activity: TimeoutWatchdog -> on_timeout -> client handler cancelled
Timeout == /\ Env /\ On("timeout") /\ burst = 0 /\ s.hc.pc = "wait_handler" /\ ~s.timedOut /\ ~Blocked /\ s.t[0].intr
           /\ \E w \in {Cancel([s EXCEPT !.timedOut = TRUE] @@ [out |-> <<>>, cur |-> -2, cfg |-> cfg], 0)} :
                /\ s' = [k \in DOMAIN s |-> w[k]] /\ ops' = ops + 1 /\ UNCHANGED cfg /\ Emit(<<>>)
                /\ burst' = cfg.burst          \* time passes only while the loop is idle: nothing else in this iteration

\* the event loop runs until nothing is runnable
Settle == /\ Live /\ burst > 0
          /\ \E w \in {Run(s @@ [out |-> <<>>, cur |-> -2, cfg |-> cfg])} :      \* (bound once: TLC re-evaluates LETs)
                s' = [k \in DOMAIN s |-> w[k]] /\ Emit(w.out)
          /\ burst' = 0 /\ UNCHANGED <<cfg, ops>>

\* the behaviour is complete: the client is gone, handle_client returned (end-of-behaviour obligations are judged)
End == /\ Live /\ burst = 0 /\ s.hc.pc = "done"
       /\ burst' = -1 /\ UNCHANGED <<cfg, s, ops>>
       /\ Emit(<<[k |-> "end", hc_done |-> TRUE, tasks |-> Cardinality({i \in Ids : s.t[i].pc \notin {"none", "done"}})]>>)

Lops == {[op |-> "open", a |-> a, c |-> n] : a \in Addrs, n \in 1..MaxConns} \cup {[op |-> o, a |-> "", c |-> c] : o \in {"close", "half", "hook"}, c \in Ids}
Next == \/ \E lop \in Lops : Cmd(lop)
        \/ CEof
        \/ \E i \in 1..MaxConns : ConnOk(i)
        \/ \E i \in 1..MaxConns : ConnFail(i)
        \/ \E i \in 1..MaxConns : SData(i)
        \/ \E i \in 1..MaxConns : SEof(i)
        \/ \E i \in 1..MaxConns : SErr(i)
        \/ \E i \in Ids : Break(i)
        \/ \E i \in 1..MaxConns : Release(i)
        \/ ReleaseClient
        \/ Timeout
        \/ Settle
        \/ End
Spec == Init /\ [][Next]_vars
Report == mon.bad # <<>> => PrintT(<<"BAD", mon.bad>>)
=============================================================================
