--------------------------- MODULE Mon_ErrorPage ---------------------------
(* Monitor for C12: error pages never reflect unescaped client/server input.

   One request per trace, driven through the real HttpLayer (props/C12.py).  A payload zqS ++ atoms ++ zqE is placed
   in a client- or server-controlled source; the same scenario is also run with a neutral payload (letters only).
   Every response mitmproxy generates itself is projected by independent readers (html.parser tokeniser, the
   harness's HTTP/1 response reader, an h2 client peer) into one record:
     [k |-> "page", site, proto, srck, status,
        ctype,        "html" | "other" | "none": media type declared by the response (text/html, application/xhtml+xml)
        html0,        the page generated for the NEUTRAL payload contains an <html> element (it is an HTML document)
        skel, skel0,  sequence of markup tokens (tags with attribute names, comments, declarations, ...) the
                      tokeniser sees in the page / in the neutral page
        nlt, nlt0,    number of raw "<" bytes in the page / in the neutral page
        refl,         both markers were found in the page's character data (the site reflects the source)
        inner,        markup tokens and foreign character references seen between the markers.  A reference is
                      foreign when it does not decode to one of < > & " ' (escaping never produces it, so it was
                      copied raw from the source)
        src, dec,     classes ("lt","gt","amp","quot","apos") of the markup-significant characters of the payload
                      as sent / of the character data decoded between the markers (witnesses, drift)
        prior         HTTP/1: what the harness's response reader found in front of the page on the client connection:
                      "none" | "complete" (only complete responses) | "open" (the page's bytes lie inside / behind a
                      response that is not finished, i.e. they are not a response of their own)
        parsed, has_len, chunked, delta, closed      HTTP/1 only: the reference reader parsed a status line and
                      header block; a single valid Content-Length is present; Transfer-Encoding: chunked;
                      delta = bytes sent after the header block minus the declared length (0: exact); the
                      connection was closed right after the response ]
     [k |-> "resp", status, complete]   any other response the reader finds on the client connection (interim 100,
        relayed upstream responses); complete = fully framed.  No obligations; they give the history.
     [k |-> "input", site, proto, srck, src, lines] (scenario description; lines = number of lines of the payload, > 1
     when it contains LF / CRLF; size = 0 short, 1 reflected text > 16 KiB, 2 > 64 KiB) and [k |-> "end"] carry no obligations.                   *)
EXTENDS Verif

MonInit == [bad |-> <<>>, wit |-> {}, pages |-> 0, lines |-> 1, size |-> 0, open |-> FALSE, interim |-> FALSE,
            done |-> 0]

IsHtml(ev) == ev.html0 \/ ev.ctype = "html"

\* HTTP/1: exactly one complete response: length-delimited (exact), chunked (nothing after the last chunk), or
\* close-delimited
Framed(ev) ==
  /\ ev.parsed
  /\ \/ ev.has_len /\ ev.delta = 0
     \/ ~ev.has_len /\ ev.chunked /\ ev.delta = 0
     \/ ~ev.has_len /\ ~ev.chunked /\ ev.closed

Clause(m, ev) ==
  IF ev.k # "page" \/ ~IsHtml(ev) THEN <<>>
  ELSE IF ev.skel # ev.skel0 THEN <<"C12.unescaped_reflection", "markup", ev.srck, ev.proto>>
  ELSE IF ev.nlt # ev.nlt0 THEN <<"C12.unescaped_reflection", "raw_lt", ev.srck, ev.proto>>
  ELSE IF ev.inner # <<>> THEN <<"C12.unescaped_reflection", "reference", ev.srck, ev.proto>>
  ELSE IF ev.ctype # "html" THEN <<"C12.no_html_content_type", ev.ctype, ev.proto>>
  ELSE IF ev.proto = "h1" /\ Get(ev, "prior", "none") = "open"
       THEN <<"C12.h1_bad_framing", "inside_other_response">>   \* not a response: bytes inside an unfinished one
  ELSE IF ev.proto = "h1" /\ ~Framed(ev)
       THEN <<"C12.h1_bad_framing",
              IF ~ev.parsed THEN "unparsable" ELSE IF ev.has_len \/ ev.chunked THEN "length_mismatch" ELSE "unterminated">>
  ELSE <<>>

Has(s, c) == \E i \in 1..Len(s) : s[i] = c
PageWit(ev) ==
  IF ~IsHtml(ev) THEN {"plain_page"}
  ELSE {"html_page", "html_page_" \o ev.proto}
       \cup (IF ev.refl THEN {"reflected"} ELSE {"not_reflected"})
       \cup (IF ev.refl /\ Has(ev.src, "lt") /\ Has(ev.dec, "lt") THEN {"escaped_lt"} ELSE {})
       \cup (IF ev.refl /\ Has(ev.src, "amp") /\ Has(ev.dec, "amp") THEN {"escaped_amp"} ELSE {})
       \cup (IF ev.refl /\ Has(ev.src, "quot") /\ Has(ev.dec, "quot") THEN {"escaped_quot"} ELSE {})
       \cup (IF ev.refl /\ Has(ev.src, "apos") /\ Has(ev.dec, "apos") THEN {"escaped_apos"} ELSE {})
       \cup (IF ev.proto = "h1" /\ ev.has_len /\ ev.delta = 0 THEN {"h1_length_exact"} ELSE {})
       \cup (IF ev.proto = "h1" /\ ev.closed THEN {"h1_closed"} ELSE {})

MonStep(m, ev) ==
  IF ev.k = "input" THEN [m EXCEPT !.lines = Get(ev, "lines", 1), !.size = Get(ev, "size", 0)]
  ELSE IF ev.k = "page"
    THEN [m EXCEPT !.bad = Clause(m, ev), !.pages = @ + 1,
                   !.wit = @ \cup PageWit(ev)
                           \cup (IF m.lines > 1 /\ IsHtml(ev) /\ ev.refl /\ Has(ev.src, "lt") /\ Has(ev.dec, "lt")
                                 THEN {"multiline_escaped_lt"} ELSE {})
                           \cup (IF IsHtml(ev) /\ ev.refl /\ ev.proto = "h1" /\ ev.has_len /\ ev.delta = 0
                                 THEN (IF m.size = 1 THEN {"long16_h1_exact"} ELSE IF m.size = 2 THEN {"long64_h1_exact"} ELSE {})
                                 ELSE {})
                           \cup (IF IsHtml(ev) /\ ev.refl /\ ev.proto = "h2" /\ m.size = 1 THEN {"long16_h2_page"} ELSE {})
                           \cup (IF IsHtml(ev) /\ m.done > 0 /\ Get(ev, "prior", "none") = "complete"
                                 THEN {"page_after_complete_exchange"} ELSE {})
                           \cup (IF IsHtml(ev) /\ m.done > 0 /\ m.interim /\ Get(ev, "prior", "none") = "complete"
                                 THEN {"page_after_earlier_interim"} ELSE {})]
  ELSE IF ev.k = "resp"
    THEN [m EXCEPT !.open = ~ev.complete, !.interim = @ \/ ev.status = 100,
                   !.done = IF ev.complete /\ ev.status >= 200 THEN @ + 1 ELSE @]
  ELSE IF ev.k = "end"
    THEN [m EXCEPT !.wit = @ \cup (IF m.pages = 0 THEN {"no_page"} ELSE {})
                              \cup (IF m.open /\ m.pages = 0 THEN {"fault_after_head_closed_only"} ELSE {})
                              \cup (IF m.open /\ m.pages = 0 /\ m.interim THEN {"fault_after_interim_and_head"} ELSE {})]
  ELSE m
Wit(m) == m.wit
=============================================================================
