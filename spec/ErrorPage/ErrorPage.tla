----------------------------- MODULE ErrorPage -----------------------------
(* Implementation-shaped model of how mitmproxy answers a request it cannot serve with a self-made page:
     mitmproxy/proxy/layers/http/_base.py     format_error (template, html.escape)
     mitmproxy/proxy/layers/http/_http1.py    Http1Server.read_headers (400 on unparsable head), Http1Server.send
                                              (ResponseProtocolError -> make_error_response + CloseConnection),
                                              make_error_response (Content-Type text/html, Connection: close,
                                              content-length from Response.make)
     mitmproxy/proxy/layers/http/_http2.py    Http2Connection._handle_event (ResponseProtocolError -> send_headers
                                              [:status, server, content-type] + send_data(format_error, end_stream))
     mitmproxy/proxy/layers/http/__init__.py  HttpStream: check_invalid, check_body_size, missing host,
                                              make_server_connection failure, handle_protocol_error (errors reported by
                                              the upstream connection), handle_connect_regular (eager connect failure)

   Sites[s] = [protos, status, srck, reflects, path, multiline, maxsize]: one entry per place that produces a page.
     path = "read_headers": Http1Server.read_headers catches ValueError and answers itself
            "stream":       HttpStream sends ResponseProtocolError(message, code) to the client connection object
            "connect":      handle_connect_regular builds a plain 502 response (no template, no content type)
            "exchange":     not a Request site: the page of an exchange whose upstream dies (see Exchange below)
   A client connection may carry up to MaxEx complete exchanges (with / without Expect: 100-continue, streamed or
   buffered) before the failing one; the failing one is a Request site or an exchange whose upstream closes early.
   A payload is a sequence of atoms; Atoms[a] = [cls, markup, nl] (nl: the atom is a line break; only sites with
   multiline = TRUE -- error text handed over by the connection attempt -- can carry one): cls = classes of its markup-significant characters,
   markup = tokens a tokeniser sees when the atom is copied raw (design variant only).
   Escape / CType are the two decisions of format_error / make_error_response; TRUE / "html" is the code as it is.  *)
EXTENDS Mon_ErrorPage, TLC
CONSTANTS Sites, Atoms, MaxAtoms, Escape, CType,
          MaxEx,          \* how many complete exchanges may precede the failing one on the same client connection
          StickyInterim   \* FALSE = the code.  TRUE: a design in which "an interim 100 was sent" stays remembered and
                          \* re-enables the error page (thorough requires the monitor to reject it)
VARIABLES pc, sc, pend, conn, xc, mon, obs
vars == <<pc, sc, pend, conn, xc, mon, obs>>

Template == <<"html", "head", "title", "/title", "/head", "body", "h1", "/h1", "p", "/p", "/body", "/html">>
AtomNames == DOMAIN Atoms
Payloads == UNION { [1..n -> AtomNames] : n \in 1..MaxAtoms }

RECURSIVE ClsOf(_), MarkupOf(_)
ClsOf(p) == IF p = <<>> THEN <<>> ELSE Atoms[Head(p)].cls \o ClsOf(Tail(p))
MarkupOf(p) == IF p = <<>> THEN <<>> ELSE Atoms[Head(p)].markup \o MarkupOf(Tail(p))
Lines(p) == 1 + Cardinality({ i \in 1..Len(p) : Atoms[p[i]].nl })   \* lines of the message part made of the payload
CountLt(s) == Cardinality({ i \in 1..Len(s) : s[i] = "lt" })
IsRef(t) == t = "ref"

NoSc == [site |-> "", proto |-> "", atoms |-> <<>>, sz |-> 0]
\* the HTTP/1 client connection: ex = exchanges completed on it; respSet = Http1Server.response is set (by the interim
\* 100 or by the relayed final head; reset by mark_done); wire = what precedes the next byte written to the client
\* ("none", "complete": only complete responses, "open": an unfinished response); interimEver: a 100 was ever sent
NoConn == [ex |-> 0, respSet |-> FALSE, wire |-> "none", interimEver |-> FALSE]
NoXc == [expect |-> FALSE, stream |-> FALSE, outcome |-> ""]
Init == pc = "idle" /\ sc = NoSc /\ pend = 0 /\ conn = NoConn /\ xc = NoXc /\ mon = MonInit /\ obs = <<>>
Live == mon.bad = <<>>
Emit(evs) == obs' = evs /\ mon' = FoldEvents(MonStep, mon, evs)

\* format_error(status, message) seen through the tokeniser
\* H2EndLost: BufferedH2Connection.send_data(data, end_stream=True) splits data longer than the peer's maximum frame
\* size (16 KiB) into chunks that are all sent with end_stream=False, so END_STREAM is never sent: an HTTP/2 error page
\* of size class >= 1 is not terminated (named deviation of the code; the statement demands completeness for HTTP/1 only)
H2EndLost(proto, sz) == proto = "h2" /\ sz > 0
Page(s, proto, atoms, sz) ==
  LET site == Sites[s]
      raw  == site.reflects /\ ~Escape          \* the message reaches the template unescaped
      mk   == IF raw THEN MarkupOf(atoms) ELSE <<>>
      tags == SelectSeq(mk, LAMBDA t : ~IsRef(t))
  IN [k |-> "page", site |-> s, proto |-> proto, srck |-> site.srck, status |-> site.status,
      ctype |-> CType, html0 |-> TRUE,
      skel |-> SubSeq(Template, 1, 9) \o tags \o SubSeq(Template, 10, 12), skel0 |-> Template,
      nlt |-> 12 + (IF raw THEN CountLt(ClsOf(atoms)) ELSE 0), nlt0 |-> 12,
      refl |-> site.reflects, inner |-> [i \in 1..Len(mk) |-> IF IsRef(mk[i]) THEN "ref" ELSE "markup"],
      src |-> ClsOf(atoms), dec |-> IF site.reflects THEN ClsOf(atoms) ELSE <<>>,
      parsed |-> ~H2EndLost(proto, sz), has_len |-> proto = "h1", chunked |-> FALSE, delta |-> 0,
      closed |-> proto = "h1", prior |-> IF proto = "h1" THEN conn.wire ELSE "none"]

\* handle_connect_regular: Response.make(502, "Cannot connect to ...: {err} ..."): plain text, no content type, sent
\* through the ordinary response path; the HTML projection does not apply to it
PlainPage(s, proto, atoms) ==
  [k |-> "page", site |-> s, proto |-> proto, srck |-> Sites[s].srck, status |-> Sites[s].status,
   ctype |-> "none", html0 |-> FALSE, skel |-> <<>>, skel0 |-> <<>>, nlt |-> 0, nlt0 |-> 0,
   refl |-> FALSE, inner |-> <<>>, src |-> ClsOf(atoms), dec |-> <<>>,
   parsed |-> TRUE, has_len |-> TRUE, chunked |-> FALSE, delta |-> 0, closed |-> FALSE, prior |-> conn.wire]

\* the client (and, for upstream sources, the server / the connect attempt) delivers the input
\* sz: size class of the reflected text (0 short, 1 > 16 KiB, 2 > 64 KiB); long texts only where the source can carry
\* them (Sites[s].maxsize), class 2 only towards HTTP/1 clients, and with single-atom payloads (keeps the table small)
Request(s, proto, atoms, sz) ==
  /\ Live /\ pc = "idle" /\ proto \in Sites[s].protos /\ Sites[s].path # "exchange"
  /\ (conn.ex > 0 => proto = "h1" /\ Len(atoms) = 1 /\ sz = 0)     \* after a history: HTTP/1, small table
  /\ sz <= Sites[s].maxsize /\ (sz = 2 => proto = "h1") /\ (sz > 0 => Len(atoms) = 1)
  /\ \A i \in 1..Len(atoms) : Atoms[atoms[i]].nl => Sites[s].multiline   \* only some sources can carry a line break
  /\ sc' = [site |-> s, proto |-> proto, atoms |-> atoms, sz |-> sz]
  /\ pc' = Sites[s].path /\ UNCHANGED <<pend, conn, xc>>
  /\ Emit(<<[k |-> "input", site |-> s, proto |-> proto, srck |-> Sites[s].srck, src |-> ClsOf(atoms),
             lines |-> Lines(atoms), size |-> sz]>>)

\* Http1Server.read_headers: except ValueError -> SendData(make_error_response(400, str(e))); CloseConnection
H1ReadHeadersError ==
  /\ Live /\ pc = "read_headers" /\ pc' = "done" /\ UNCHANGED <<sc, pend, conn, xc>>
  /\ Emit(<<Page(sc.site, "h1", sc.atoms, sc.sz)>>)

\* HttpStream: yield SendHttp(ResponseProtocolError(stream_id, message, code), client); code.http_status_code()
StreamError ==
  /\ Live /\ pc = "stream" /\ pc' = "send_" \o sc.proto /\ pend' = Sites[sc.site].status /\ UNCHANGED <<sc, conn, xc>>
  /\ Emit(<<>>)

\* Http1Server.send(ResponseProtocolError): no response started and a status -> make_error_response; CloseConnection
H1SendError ==
  /\ Live /\ pc = "send_h1" /\ pc' = "done" /\ UNCHANGED <<sc, pend, conn, xc>>
  /\ Emit(<<Page(sc.site, "h1", sc.atoms, sc.sz)>>)

\* Http2Connection: headers not sent yet and a status -> send_headers + send_data(format_error(...), end_stream=True)
H2SendError ==
  /\ Live /\ pc = "send_h2" /\ pc' = "done" /\ UNCHANGED <<sc, pend, conn, xc>>
  /\ Emit(<<Page(sc.site, "h2", sc.atoms, sc.sz)>>)

ConnectEagerFail ==
  /\ Live /\ pc = "connect" /\ pc' = "done" /\ UNCHANGED <<sc, pend, conn, xc>>
  /\ Emit(<<PlainPage(sc.site, sc.proto, sc.atoms)>>)

Finish == /\ Live /\ pc = "done" /\ pc' = "ended" /\ UNCHANGED <<sc, pend, conn, xc>> /\ Emit(<<[k |-> "end"]>>)

\* ---- histories on one HTTP/1 client connection -------------------------------------------------------------------
\* Exchange(expect, stream, outcome): the client sends a request (with or without Expect: 100-continue), an addon does
\* or does not stream the response, and the upstream answers completely ("ok"), closes before any response byte
\* ("before_head") or closes in the middle of the body ("mid_body").
Resp(st, c) == [k |-> "resp", status |-> st, complete |-> c]
Exchange(expect, stream, outcome) ==
  /\ Live /\ pc = "idle" /\ (outcome = "ok" => conn.ex < MaxEx)
  /\ xc' = [expect |-> expect, stream |-> stream, outcome |-> outcome]
  /\ pc' = "x_req" /\ UNCHANGED <<sc, pend, conn>>
  /\ Emit(<<[k |-> "input", site |-> "exchange", proto |-> "h1", srck |-> "none", src |-> <<>>, lines |-> 1, size |-> 0,
             expect |-> expect, stream |-> stream, outcome |-> outcome]>>)

\* HttpStream.state_wait_for_request_headers: expect: 100-continue -> SendHttp(ResponseHeaders(100 Continue));
\* Http1Server.send(ResponseHeaders): self.response = event.response  (also for the interim response)
XRequestHeaders ==
  /\ Live /\ pc = "x_req" /\ pc' = "x_upstream" /\ UNCHANGED <<sc, pend, xc>>
  /\ IF xc.expect
       THEN /\ conn' = [conn EXCEPT !.respSet = TRUE, !.wire = "complete", !.interimEver = TRUE]
            /\ Emit(<<Resp(100, TRUE)>>)
       ELSE /\ UNCHANGED conn /\ Emit(<<>>)

\* the whole response arrives and is relayed (buffered or streamed: same bytes); mark_done resets request/response
XUpstreamOk ==
  /\ Live /\ pc = "x_upstream" /\ xc.outcome = "ok" /\ pc' = "idle" /\ UNCHANGED <<sc, pend, xc>>
  /\ conn' = [conn EXCEPT !.ex = @ + 1, !.respSet = FALSE, !.wire = "complete"]
  /\ Emit(<<Resp(200, TRUE)>>)

\* the response head and part of the body arrive; with streaming the head (and the part) is already on the wire
XUpstreamPartial ==
  /\ Live /\ pc = "x_upstream" /\ xc.outcome # "ok" /\ pc' = "x_fault" /\ UNCHANGED <<sc, pend, xc>>
  /\ IF xc.outcome = "mid_body" /\ xc.stream
       THEN /\ conn' = [conn EXCEPT !.respSet = TRUE, !.wire = "open"]
            /\ Emit(<<Resp(200, FALSE)>>)
       ELSE /\ UNCHANGED conn /\ Emit(<<>>)

\* Http1Client: ConnectionClosed -> ResponseProtocolError(GENERIC_SERVER_ERROR); HttpStream.handle_protocol_error ->
\* SendHttp(event, client); Http1Server.send: "if not self.response and status is not None": page; CloseConnection
XFault ==
  /\ Live /\ pc = "x_fault" /\ pc' = "done" /\ UNCHANGED <<sc, pend, conn, xc>>
  /\ IF ~conn.respSet \/ (StickyInterim /\ conn.interimEver)
       THEN Emit(<<Page("upstream_closed", "h1", <<>>, 0)>>)
       ELSE Emit(<<>>)

Next == \/ \E s \in DOMAIN Sites, proto \in {"h1", "h2"}, atoms \in Payloads, sz \in 0..2 : Request(s, proto, atoms, sz)
        \/ H1ReadHeadersError
        \/ StreamError
        \/ H1SendError
        \/ H2SendError
        \/ ConnectEagerFail
        \/ \E e \in BOOLEAN, st \in BOOLEAN, o \in {"ok", "before_head", "mid_body"} : Exchange(e, st, o)
        \/ XRequestHeaders
        \/ XUpstreamOk
        \/ XUpstreamPartial
        \/ XFault
        \/ Finish
Spec == Init /\ [][Next]_vars
Report == mon.bad # <<>> => PrintT(<<"BAD", mon.bad>>)
=============================================================================
