------------------------------- MODULE DnsWire -------------------------------
(* Implementation-shaped model of mitmproxy's DNS codec: DNSMessage.unpack_from / .packed (mitmproxy/dns.py) with
   net/dns/domain_names.py underneath.

   Mode "wire": a message body is NSlots question names followed by at most one record.  A name slot is
        [lab |-> 0 | 1 own labels,  end |-> <<"zero", "", 0, FALSE>> | <<"ptr", tk, j, long>>]
   where the pointer targets  start j (slot j's first byte), mid j (inside slot j's label), term j (slot j's
   terminating zero byte), past (beyond the buffer);  long = the pointer first runs through a chain of > 1000
   pointers.  TLC enumerates ALL pointer graphs over the slots (forward, backward, self, cycles, ...).
     U       = domain_names.unpack_from_with_compression with its cache: cache[offset] = None while the offset is
               being unpacked (loop sentinel), the (name, length) afterwards; one Python frame per pointer hop
               (hence "rec": RecursionError, which is not struct.error);  ".".join(labels + [pointed name]) makes a
               name with an EMPTY last label when the pointed name is the root
     Decode  = unpack_from: the questions in order (struct.error -> parse error), then unpack_rrs;  for record types
               in record_data_can_have_compression, decompress_from_record_data tries every byte with the two top
               bits set as a pointer: struct.error is swallowed, other exceptions (RecursionError, pack()'s
               ValueError for an empty label) escape
     Reencode / Redecode = .packed (domain_names.pack raises ValueError on an empty label) / unpack again
   Mode "table": Decode(Encode(m)) for well-formed m over boundary classes of the fields; the record data of listed
   types is rewritten when it contains bytes that read as a pointer (TXT is in the list).
   The deviations are in the model because the code has them (drift must be 0); the monitor judges them.       *)
EXTENDS Mon_DnsWire, TLC
CONSTANTS Mode, NSlots,
          Ends,        \* slot terminators explored: <<"zero", "", 0, FALSE>> or <<"ptr", tk, j, long>>
          Rdatas,      \* trailing record: <<"none", "", 0, FALSE>> or <<"cname" | "txt" | "null", tk, j, long>>
          Rows         \* table mode: <<header class, name class, type class, rdata class, ttl class>>
VARIABLES layout, rdv, row, pc, dec, mon, obs
vars == <<layout, rdv, row, pc, dec, mon, obs>>

Lbl(j) == <<"s1", "s2", "s3", "s4", "s5">>[j]
Slots == { [lab |-> l, end |-> e] : l \in 0..1, e \in Ends }
TargetOk(l, e) == \/ e[1] \in {"zero", "none"} \/ e[2] = "past" \/ e[2] = "start"
                  \/ (e[2] = "mid" /\ l[e[3]].lab = 1)
                  \/ (e[2] = "term" /\ l[e[3]].end[1] = "zero")
Layouts == { l \in [1..NSlots -> Slots] : \A i \in 1..NSlots : TargetOk(l, l[i].end) }
NoLayout == [i \in 1..NSlots |-> [lab |-> 0, end |-> <<"zero", "", 0, FALSE>>]]

PosSet == ({"start", "mid", "term"} \X (1..NSlots)) \cup {<<"past", 0>>, <<"rdptr", 0>>}
Canon(l, p) == IF p[1] = "term" /\ l[p[2]].lab = 0 THEN <<"start", p[2]>> ELSE p     \* same offset
None == [s |-> "none", name |-> <<>>]
Busy == [s |-> "busy", name |-> <<>>]
Done(n) == [s |-> "done", name |-> n]
SlotAt(l, r, p) == IF p[1] = "rdptr" THEN [lab |-> 0, end |-> <<"ptr", r[2], r[3], r[4]>>] ELSE l[p[2]]
\* ".".join(own + [pointed]):  an empty pointed name leaves an empty last label
Join(own, pointed) == IF pointed = <<>> THEN (IF own = <<>> THEN <<>> ELSE own \o <<"">>) ELSE own \o pointed
HasEmptyLabel(n) == \E i \in 1..Len(n) : n[i] = ""

RECURSIVE U(_, _, _, _)
U(l, r, p, c) ==
  IF c[p].s = "busy" THEN [st |-> "err", why |-> "loop", name |-> <<>>, c |-> c]
  ELSE IF c[p].s = "done" THEN [st |-> "ok", why |-> "", name |-> c[p].name, c |-> c]
  ELSE LET c1 == [c EXCEPT ![p] = Busy] IN
    CASE p[1] = "past" -> [st |-> "err", why |-> "short_buffer", name |-> <<>>, c |-> c1]
      [] p[1] = "mid"  -> [st |-> "err", why |-> "label_len", name |-> <<>>, c |-> c1]
      [] p[1] = "term" -> [st |-> "ok", why |-> "", name |-> <<>>, c |-> [c1 EXCEPT ![p] = Done(<<>>)]]
      [] OTHER ->
         LET sl  == SlotAt(l, r, p)
             own == IF sl.lab = 1 THEN <<Lbl(p[2])>> ELSE <<>>
         IN IF sl.end[1] = "zero" THEN [st |-> "ok", why |-> "", name |-> own, c |-> [c1 EXCEPT ![p] = Done(own)]]
            ELSE IF sl.end[4] THEN [st |-> "rec", why |-> "recursion", name |-> <<>>, c |-> c1]
            ELSE LET x == U(l, r, Canon(l, <<sl.end[2], sl.end[3]>>), c1) IN
                 IF x.st # "ok" THEN x
                 ELSE LET nm == Join(own, x.name) IN
                      [st |-> "ok", why |-> "", name |-> nm, c |-> [x.c EXCEPT ![p] = Done(nm)]]

RECURSIVE Questions(_, _, _, _, _)
Questions(l, r, i, c, names) ==
  IF i > NSlots THEN [st |-> "ok", why |-> "", names |-> names, c |-> c]
  ELSE LET x == U(l, r, <<"start", i>>, c) IN
       IF x.st # "ok" THEN [st |-> x.st, why |-> x.why, names |-> names, c |-> x.c]
       ELSE Questions(l, r, i + 1, x.c, Append(names, x.name))

InListR(rt) == rt \in {"cname", "txt"}     \* record_data_can_have_compression
DecodeAll(l, r) ==
  LET q == Questions(l, r, 1, [p \in PosSet |-> None], <<>>) IN
  IF q.st = "err" THEN [out |-> "parse_error", exc |-> "", cls |-> q.why, names |-> <<>>]
  ELSE IF q.st = "rec" THEN [out |-> "exc", exc |-> "RecursionError", cls |-> q.why, names |-> <<>>]
  ELSE LET okcls == IF \E i \in 1..Len(q.names) : HasEmptyLabel(q.names[i]) THEN "root_suffix" ELSE "ok" IN
       IF ~InListR(r[1]) THEN [out |-> "msg", exc |-> "", cls |-> okcls, names |-> q.names]
       ELSE LET x == U(l, r, <<"rdptr", 0>>, q.c) IN
            IF x.st = "rec" THEN [out |-> "exc", exc |-> "RecursionError", cls |-> "rdata_recursion", names |-> <<>>]
            ELSE IF x.st = "ok" /\ HasEmptyLabel(x.name)
                 THEN [out |-> "exc", exc |-> "ValueError", cls |-> "rdata_empty_label", names |-> <<>>]
            ELSE [out |-> "msg", exc |-> "", cls |-> okcls, names |-> q.names]

NoDec == [out |-> "", exc |-> "", cls |-> "", names |-> <<>>]
Init == /\ IF Mode = "wire" THEN layout \in Layouts /\ rdv \in { r \in Rdatas : TargetOk(layout, r) } /\ row = <<>>
                            ELSE layout = NoLayout /\ rdv = <<"none", "", 0, FALSE>> /\ row \in Rows
        /\ pc = "start" /\ dec = NoDec /\ mon = MonInit /\ obs = <<>>
Live == mon.bad = <<>>
Emit(evs) == obs' = evs /\ mon' = FoldEvents(MonStep, mon, evs)

Decode ==
  /\ Live /\ Mode = "wire" /\ pc = "start"
  /\ LET d == DecodeAll(layout, rdv) IN
     /\ dec' = d /\ pc' = IF d.out = "msg" THEN "decoded" ELSE "done"
     /\ Emit(<<[k |-> "decode", src |-> "wire", out |-> d.out, exc |-> d.exc, same |-> <<1, 1>>, cls |-> d.cls]>>)
  /\ UNCHANGED <<layout, rdv, row>>

Reencode ==
  /\ Live /\ pc = "decoded"
  /\ LET bad == \E i \in 1..Len(dec.names) : HasEmptyLabel(dec.names[i]) IN
     /\ pc' = IF bad THEN "done" ELSE "reencoded"
     /\ Emit(<<[k |-> "encode", of |-> "decoded", out |-> IF bad THEN "exc" ELSE "bytes",
                exc |-> IF bad THEN "ValueError" ELSE "", cls |-> dec.cls]>>)
  /\ UNCHANGED <<layout, rdv, row, dec>>

Redecode ==
  /\ Live /\ pc = "reencoded" /\ pc' = "done"
  /\ Emit(<<[k |-> "decode", src |-> "reencoded", out |-> "msg", exc |-> "", same |-> <<1, 1>>, cls |-> dec.cls]>>)
  /\ UNCHANGED <<layout, rdv, row, dec>>

\* table mode
InListT(t) == t \in {"TXT", "CNAME", "MX", "HINFO"}
RoundTrip ==
  /\ Live /\ Mode = "table" /\ pc = "start" /\ pc' = "done"
  /\ LET cls == row[3] \o ":" \o row[4]
         same == ~(InListT(row[3]) /\ row[4] = "ptrlike")
     IN Emit(<<[k |-> "encode", of |-> "wellformed", out |-> "bytes", exc |-> "", cls |-> cls],
               [k |-> "decode", src |-> "encoded", out |-> "msg", exc |-> "",
                same |-> IF same THEN <<1, 1>> ELSE <<1, 2>>, cls |-> cls]>>)
  /\ UNCHANGED <<layout, rdv, row, dec>>

Next == Decode \/ Reencode \/ Redecode \/ RoundTrip
Spec == Init /\ [][Next]_vars
Report == mon.bad # <<>> => PrintT(<<"BAD", mon.bad>>)
=============================================================================
