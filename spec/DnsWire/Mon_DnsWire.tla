----------------------------- MODULE Mon_DnsWire -----------------------------
(* Monitor for C25: DNS wire encoding round-trips and decoding is total.

   Event records (props/C25.py, real mitmproxy.dns.DNSMessage.packed / .unpack):
     [k |-> "encode", of |-> "wellformed" | "decoded", out |-> "bytes" | "exc", exc |-> class name or "",
      cls |-> scenario class (signature only)]
         .packed of a well-formed message the harness built field by field / of a message unpack produced
     [k |-> "decode", src |-> "encoded" | "wire" | "reencoded",
      out |-> "msg" | "parse_error" (struct.error) | "exc" (any other exception) | "timeout" (did not finish),
      exc |-> class name or "", same |-> <<1, 1>> | <<1, 2>>, cls |-> scenario class]
         src = "encoded":   the bytes of the preceding encode;  same: decoded message vs. the one that was encoded
         src = "wire":      arbitrary bytes (layouts, mutations, random)
         src = "reencoded": the bytes of re-encoding a decoded message; same: vs. the message decoded first
     Messages are compared field by field (id, flags, every question and record incl. data bytes, no timestamp);
     equality is computed while interning (<<1, 1>> equal, <<1, 2>> different).
     [k |-> "end"]                                                                                   *)
EXTENDS Verif

MonInit == [bad |-> <<>>, wit |-> {}]

Clause(ev) ==
  IF ev.k = "encode" THEN
       IF ev.out = "bytes" THEN <<>>
       ELSE IF ev.of = "wellformed" THEN <<"C25.encode_failed", ev.exc, ev.cls>>
       ELSE <<"C25.reencode_failed", ev.exc, ev.cls>>
  ELSE IF ev.k = "decode" THEN
       IF ev.out \in {"exc", "timeout"} THEN <<"C25.decode_not_total", IF ev.out = "timeout" THEN "timeout" ELSE ev.exc, ev.cls>>
       ELSE IF ev.src = "encoded" /\ (ev.out # "msg" \/ ev.same # <<1, 1>>) THEN <<"C25.roundtrip_changed", ev.cls>>
       ELSE IF ev.src = "reencoded" /\ (ev.out # "msg" \/ ev.same # <<1, 1>>) THEN <<"C25.redecode_changed", ev.cls>>
       ELSE <<>>
  ELSE <<>>

EvWit(ev) ==
  IF ev.k = "encode" THEN {"encode_" \o ev.of}
  ELSE IF ev.k = "decode" THEN {"decode_" \o ev.src, "decode_" \o ev.src \o "_" \o ev.out}
  ELSE {}

MonStep(m, ev) == [m EXCEPT !.bad = IF @ # <<>> THEN @ ELSE Clause(ev), !.wit = @ \cup EvWit(ev)]
Wit(m) == m.wit
=============================================================================
