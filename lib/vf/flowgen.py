"""Flow concretiser, state canonicaliser and an independent tnetstring reference codec (used by C36, C37, C38).

Nothing in here calls mitmproxy.io.tnetstring or mitmproxy.io.compat: `ref_parse`/`ref_dump` are the harness's own
implementation of the typed-netstring framing (the oracle), `canon` is a type-strict canonical form of a state
tree (tuple == list, dict order ignored, int/float/bool/bytes/str/None all distinct, nan == nan), and `snapshot`
walks the public attributes of a flow without going through get_state().
"""
from __future__ import annotations

import random

KINDS = ("http", "httpresp", "httperr", "ws", "tcp", "tcperr", "udp", "dns", "dnsresp")
FLOW_TYPE = {"http": "http", "httpresp": "http", "httperr": "http", "ws": "http", "tcp": "tcp", "tcperr": "tcp",
             "udp": "udp", "dns": "dns", "dnsresp": "dns"}

# ------------------------------------------------------------------------------------------------------------
# canonical form / interning


def canon(x) -> str:
    if x is None:
        return "N"
    if x is True:
        return "T"
    if x is False:
        return "F"
    if isinstance(x, int):
        return "i%d" % x
    if isinstance(x, float):
        return "f" + repr(x)
    if isinstance(x, bytes):
        return "b" + x.hex()
    if isinstance(x, str):
        return "s" + x.encode("utf-8", "surrogatepass").hex()
    if isinstance(x, (list, tuple)):
        return "[" + ",".join(canon(i) for i in x) + "]"
    if isinstance(x, dict):
        return "{" + ",".join(sorted(canon(k) + ":" + canon(v) for k, v in x.items())) + "}"
    return "?" + type(x).__name__ + ":" + repr(x)


class Interner:
    """Byte strings / state trees never reach TLC: they are interned to small ints in first-seen order."""

    def __init__(self):
        self.ids: dict[str, int] = {}

    def __call__(self, key: str) -> int:
        return self.ids.setdefault(key, len(self.ids) + 1)


def snapshot(f) -> dict:
    """Attribute-level view of a flow, independent of get_state(): what a user of the loaded flow would see."""

    def fl(v):  # float-typed attributes: 1 and 1.0 are the same timestamp
        return None if v is None else float(v)

    def conn(c):
        d = {
            "id": c.id, "peername": c.peername, "sockname": c.sockname, "transport_protocol": c.transport_protocol,
            "error": c.error, "tls": c.tls, "certs": [x.fingerprint() for x in c.certificate_list],
            "alpn": c.alpn, "alpn_offers": list(c.alpn_offers), "cipher": c.cipher,
            "cipher_list": list(c.cipher_list), "tls_version": c.tls_version, "sni": c.sni,
            "ts": [fl(c.timestamp_start), fl(c.timestamp_end), fl(c.timestamp_tls_setup)],
        }
        if hasattr(c, "proxy_mode"):
            d["mitmcert"] = c.mitmcert.fingerprint() if c.mitmcert else None
            d["proxy_mode"] = c.proxy_mode.full_spec
        else:
            d["address"] = c.address
            d["via"] = c.via
            d["ts_tcp"] = fl(c.timestamp_tcp_setup)
        return d

    def hdrs(h):
        return None if h is None else [list(x) for x in h.fields]

    def msg(m):
        if m is None:
            return None
        d = {"http_version": m.data.http_version, "headers": hdrs(m.data.headers), "content": m.data.content,
             "trailers": hdrs(m.data.trailers), "ts": [fl(m.data.timestamp_start), fl(m.data.timestamp_end)]}
        for a in ("host", "port", "method", "scheme", "authority", "path", "status_code", "reason"):
            if hasattr(m.data, a):
                d[a] = getattr(m.data, a)
        return d

    def dnsmsg(m):
        if m is None:
            return None
        return {"id": m.id, "query": m.query, "op_code": m.op_code, "aa": m.authoritative_answer, "tc": m.truncation,
                "rd": m.recursion_desired, "ra": m.recursion_available, "reserved": m.reserved,
                "rcode": m.response_code, "q": [[q.name, q.type, q.class_] for q in m.questions],
                "an": [[r.name, r.type, r.class_, r.ttl, r.data] for r in m.answers],
                "ns": [[r.name, r.type, r.class_, r.ttl, r.data] for r in m.authorities],
                "ar": [[r.name, r.type, r.class_, r.ttl, r.data] for r in m.additionals], "ts": fl(m.timestamp)}

    d = {
        "type": f.type, "id": f.id, "error": [f.error.msg, fl(f.error.timestamp)] if f.error else None,
        "client": conn(f.client_conn), "server": conn(f.server_conn), "intercepted": f.intercepted,
        "is_replay": f.is_replay, "marked": f.marked, "metadata": f.metadata, "comment": f.comment,
        "created": fl(f.timestamp_created), "has_backup": f._backup is not None,
        # NOT f.modified(): it is derived (backup vs. state) and not part of the flow's state; after a load it
        # compares a list-based backup with a tuple-based get_state() (observation reported for C40, not judged here)
    }
    if f.type == "http":
        d["request"] = msg(f.request)
        d["response"] = msg(f.response)
        w = f.websocket
        d["ws"] = None if w is None else {
            "messages": [[int(m.type), m.from_client, m.content, fl(m.timestamp), m.dropped, m.injected] for m in w.messages],
            "closed_by_client": w.closed_by_client, "close_code": w.close_code, "close_reason": w.close_reason,
            "ts_end": fl(w.timestamp_end)}
    elif f.type in ("tcp", "udp"):
        d["messages"] = [[m.from_client, m.content, fl(m.timestamp)] for m in f.messages]
    elif f.type == "dns":
        d["request"] = dnsmsg(f.request)
        d["response"] = dnsmsg(f.response)
    return d


def flow_key(f) -> str:
    """What `identical state` is decided on: get_state() and the attribute view, both canonicalised."""
    return canon(f.get_state()) + "|" + canon(snapshot(f))


# ------------------------------------------------------------------------------------------------------------
# independent reference codec for typed netstrings

class RefError(Exception):
    pass


class Raw:
    """A pre-encoded (possibly ill-formed) element, spliced verbatim into the output of ref_dump."""

    def __init__(self, enc: bytes):
        self.enc = enc

    def __hash__(self):
        return hash(self.enc)

    def __eq__(self, o):
        return isinstance(o, Raw) and o.enc == self.enc


def ref_dump(v) -> bytes:
    if isinstance(v, Raw):
        return v.enc
    if v is None:
        return b"0:~"
    if v is True:
        return b"4:true!"
    if v is False:
        return b"5:false!"
    if isinstance(v, int):
        p, t = str(v).encode(), b"#"
    elif isinstance(v, float):
        p, t = repr(v).encode(), b"^"
    elif isinstance(v, bytes):
        p, t = v, b","
    elif isinstance(v, str):
        p, t = v.encode("utf-8"), b";"
    elif isinstance(v, (list, tuple)):
        p, t = b"".join(ref_dump(i) for i in v), b"]"
    elif isinstance(v, dict):
        p, t = b"".join(ref_dump(k) + ref_dump(x) for k, x in v.items()), b"}"
    else:
        raise RefError("unserialisable %r" % type(v))
    return str(len(p)).encode() + b":" + p + t


def ref_frame(data: bytes, pos: int = 0):
    """(payload_start, payload_end, tag_pos) of the record starting at pos; RefError if incomplete/ill-framed."""
    i = pos
    while i < len(data) and 48 <= data[i] <= 57:
        i += 1
    if i == pos or i >= len(data) or data[i] != 58:
        raise RefError("bad prefix")
    n = int(data[pos:i])
    if i + 1 + n >= len(data):
        raise RefError("short")
    return i + 1, i + 1 + n, i + 1 + n


def ref_parse(data: bytes):
    """Parse ONE complete value occupying all of `data` (iterative framing, recursive values)."""
    a, b, t = ref_frame(data, 0)
    if t != len(data) - 1:
        raise RefError("trailing data")
    return _ref_value(data[a:b], data[t:t + 1])


def _ref_value(p: bytes, tag: bytes):
    if tag == b",":
        return p
    if tag == b";":
        return p.decode("utf-8")
    if tag == b"#":
        return int(p)
    if tag == b"^":
        return float(p)
    if tag == b"!":
        if p == b"true":
            return True
        if p == b"false":
            return False
        raise RefError("bool")
    if tag == b"~":
        if p:
            raise RefError("null")
        return None
    if tag in (b"]", b"}"):
        items, pos = [], 0
        while pos < len(p):
            a, b, t = ref_frame(p, pos)
            items.append(_ref_value(p[a:b], p[t:t + 1]))
            pos = t + 1
        if tag == b"]":
            return items
        if len(items) % 2:
            raise RefError("odd dict")
        return {_hashable(items[i]): items[i + 1] for i in range(0, len(items), 2)}
    raise RefError("tag %r" % tag)


def _hashable(k):
    return tuple(k) if isinstance(k, list) else k


def ref_records(data: bytes):
    """Byte ranges [(start, end)] of the complete top-level records of a file image, and the offset where the
    framing stops being complete (== len(data) for a well-formed file)."""
    out, pos = [], 0
    while pos < len(data):
        try:
            _a, _b, t = ref_frame(data, pos)
        except RefError:
            break
        out.append((pos, t + 1))
        pos = t + 1
    return out, pos


def record_parts(data: bytes, start: int, end: int):
    """Offsets splitting a record into its framing parts: digits [start,c), colon c, payload (c, end-1), tag end-1."""
    c = data.index(b":", start)
    return {"digits": (start, c), "colon": c, "payload": (c + 1, end - 1), "tag": end - 1}


# ------------------------------------------------------------------------------------------------------------
# flows

_BYTES = [b"", b"x", b"hello world", b"\x00\x01\xfe\xff", b"line1\r\nline2\r\n", b"12:abc,", b"}{][,;#^!~",
          "snow☃".encode(), b"\xc3\x28", bytes(range(256))]
_TEXT = ["", "a", "comment with spaces", "héllo ☃ \U0001d11e", "tab\tnl\n", "12:abc,", "}", ":grapes:",
         "\x00nul", "‮ rtl"]
_HOSTS = ["example.com", "address", "127.0.0.1", "::1", "xn--bcher-kva.example", "bücher.example", "h"]
_PEM = None


def _pems():
    """Two throw-away self-signed certificates, built with `cryptography` (not with mitmproxy.certs)."""
    global _PEM
    if _PEM is None:
        import datetime

        from cryptography import x509
        from cryptography.hazmat.primitives import hashes, serialization
        from cryptography.hazmat.primitives.asymmetric import ec
        from cryptography.x509.oid import NameOID

        out = []
        for cn in ("leaf.example", "ünicode ca"):
            key = ec.generate_private_key(ec.SECP256R1())
            name = x509.Name([x509.NameAttribute(NameOID.COMMON_NAME, cn)])
            now = datetime.datetime(2020, 1, 1)
            cert = (x509.CertificateBuilder().subject_name(name).issuer_name(name).public_key(key.public_key())
                    .serial_number(x509.random_serial_number()).not_valid_before(now)
                    .not_valid_after(now + datetime.timedelta(days=3650))
                    .add_extension(x509.SubjectAlternativeName([x509.DNSName("leaf.example")]), critical=False)
                    .sign(key, hashes.SHA256()))
            out.append(cert.public_bytes(serialization.Encoding.PEM))
        _PEM = out
    return _PEM


def _ts(rng):
    return rng.choice([946681200, 946681200.5, 0, 0.0, 1e-7, 1.7e9 + rng.random(), 2 ** 40, -1.5, 123456789.123456789])


def _opt(rng, v, p=0.4):
    return v if rng.random() < p else None


def _meta_value(rng, depth=0):
    r = rng.random()
    if depth > 2 or r < 0.55:
        return rng.choice([None, True, False, 0, -7, 2 ** 70, 1.5, float("inf"), rng.choice(_BYTES), rng.choice(_TEXT)])
    if r < 0.8:
        return [_meta_value(rng, depth + 1) for _ in range(rng.randint(0, 3))]
    return {rng.choice(["k", "key two", "", "☃", "n%d" % rng.randint(0, 9)]): _meta_value(rng, depth + 1)
            for _ in range(rng.randint(0, 3))}


def _headers(rng, http):
    n = rng.choice([0, 1, 2, 5])
    names = [b"Host", b"content-length", b"Set-Cookie", b"X-Dup", b"X-Dup", b"x-\xff", b"", b"A" * 70]
    return http.Headers([(rng.choice(names), rng.choice(_BYTES)) for _ in range(n)])


def _client(rng, rich):
    from mitmproxy import certs, connection
    from mitmproxy.proxy.mode_specs import ProxyMode
    from mitmproxy.test import tflow

    c = tflow.tclient_conn()
    if not rich:
        return c
    c.peername = rng.choice([("127.0.0.1", 22), ("::1", 50000, 0, 0), ("fe80::1", 1, 5, 3), ("", 0)])
    c.sockname = rng.choice([("", 0), ("0.0.0.0", 8080), ("::", 8080, 0, 0)])
    c.transport_protocol = rng.choice(["tcp", "udp"])
    c.error = _opt(rng, rng.choice(_TEXT))
    c.tls = rng.random() < 0.5
    pems = _pems()
    c.certificate_list = [certs.Cert.from_pem(p) for p in pems[: rng.choice([0, 0, 1, 2])]]
    c.mitmcert = _opt(rng, certs.Cert.from_pem(pems[0]))
    c.alpn = _opt(rng, rng.choice([b"h2", b"http/1.1", b"", b"\xff"]))
    c.alpn_offers = rng.choice([[], [b"h2", b"http/1.1"], [b""]])
    c.cipher = _opt(rng, "TLS_AES_256_GCM_SHA384")
    c.cipher_list = rng.choice([[], ["A", "B"], ["TLS_AES_256_GCM_SHA384"]])
    c.tls_version = rng.choice([None, "TLSv1.3", "TLSv1.2", "QUICv1", "DTLSv1.2", "SSLv3"])
    c.sni = _opt(rng, rng.choice(_HOSTS))
    c.timestamp_start = _ts(rng)
    c.timestamp_end = _opt(rng, _ts(rng))
    c.timestamp_tls_setup = _opt(rng, _ts(rng))
    c.proxy_mode = ProxyMode.parse(rng.choice(["regular", "transparent", "socks5", "upstream:http://proxy:8080",
                                               "reverse:https://example.com@9000", "dns", "reverse:dns://8.8.8.8",
                                               "regular@127.0.0.1:8081", "wireguard", "local:curl"]))
    c.state = rng.choice(list(connection.ConnectionState))
    return c


def _server(rng, rich):
    from mitmproxy import certs, connection
    from mitmproxy.test import tflow

    s = tflow.tserver_conn()
    if not rich:
        return s
    s.address = rng.choice([None, ("example.com", 443), ("::1", 80), ("bücher.example", 65535)])
    s.peername = rng.choice([None, ("192.168.0.1", 22), ("2001:db8::1", 443, 0, 0)])
    s.sockname = rng.choice([None, ("10.0.0.1", 54321), ("::", 1, 0, 0)])
    s.transport_protocol = rng.choice(["tcp", "udp"])
    s.error = _opt(rng, rng.choice(_TEXT))
    s.tls = rng.random() < 0.5
    pems = _pems()
    s.certificate_list = [certs.Cert.from_pem(p) for p in pems[: rng.choice([0, 0, 1, 2])]]
    s.alpn = _opt(rng, rng.choice([b"h2", b"h3", b""]))
    s.alpn_offers = rng.choice([[], [b"h2"], [b"h3", b"\x00"]])
    s.cipher = _opt(rng, "ECDHE-RSA-AES128-GCM-SHA256")
    s.cipher_list = rng.choice([[], ["X"]])
    s.tls_version = rng.choice([None, "TLSv1.3", "TLSv1", "QUICv1"])
    s.sni = _opt(rng, rng.choice(_HOSTS))
    s.timestamp_start = _opt(rng, _ts(rng))
    s.timestamp_tcp_setup = _opt(rng, _ts(rng))
    s.timestamp_tls_setup = _opt(rng, _ts(rng))
    s.timestamp_end = _opt(rng, _ts(rng))
    s.via = rng.choice([None, None, ("http", ("proxy.example", 8080)), ("https", ("::1", 3128)), ("dns", ("1.1.1.1", 53))])
    s.state = rng.choice(list(connection.ConnectionState))
    return s


def make_flow(kind: str, rng: random.Random, rich: bool = True, small: bool = False):
    """Build a real mitmproxy flow of abstract kind `kind`; `rich` draws every serialised field from pools that
    include the presence classes of the property (None/empty/binary/unicode/ipv6/certs/via/backup...).
    `small` keeps bodies short (crash-offset enumeration is linear in the file size)."""
    from mitmproxy import dns, flow, http, tcp, udp, websocket
    from mitmproxy.test import tflow, tutils
    from wsproto.frame_protocol import Opcode

    cc, sc = _client(rng, rich), _server(rng, rich)
    body = (lambda: rng.choice(_BYTES[:6])) if small else (lambda: rng.choice(_BYTES + [b"z" * 9000, b"\x00" * 70000][: 1 if rng.random() < 0.9 else 2]))
    ftype = FLOW_TYPE[kind]
    if ftype == "http":
        req = tutils.treq()
        if rich:
            req.data.host = rng.choice(_HOSTS)
            req.data.port = rng.choice([0, 80, 443, 65535])
            req.data.method = rng.choice([b"GET", b"POST", b"", b"M\xff"])
            req.data.scheme = rng.choice([b"http", b"https", b""])
            req.data.authority = rng.choice([b"", b"example.com:443"])
            req.data.path = rng.choice([b"/", b"/p?q=1&\xff", b"*", b""])
            req.data.http_version = rng.choice([b"HTTP/1.1", b"HTTP/2.0", b"HTTP/3", b"HTTP/1.0"])
            req.data.headers = _headers(rng, http)
            req.data.content = rng.choice([None, body(), body()])
            req.data.trailers = _opt(rng, _headers(rng, http))
            req.data.timestamp_start = _ts(rng)
            req.data.timestamp_end = _opt(rng, _ts(rng), 0.7)
        resp = None
        if kind in ("httpresp", "ws"):
            resp = tutils.tresp()
            if rich:
                resp.data.status_code = rng.choice([200, 101, 204, 404, 599, 0, 999])
                resp.data.reason = rng.choice([b"OK", b"", b"Not \xff Found"])
                resp.data.http_version = rng.choice([b"HTTP/1.1", b"HTTP/2.0"])
                resp.data.headers = _headers(rng, http)
                resp.data.content = rng.choice([None, body(), body()])
                resp.data.trailers = _opt(rng, _headers(rng, http))
                resp.data.timestamp_start = _ts(rng)
                resp.data.timestamp_end = _opt(rng, _ts(rng), 0.7)
        f = http.HTTPFlow(cc, sc)
        f.request, f.response = req, resp
        if kind == "ws":
            ws = websocket.WebSocketData()
            n = rng.choice([0, 1, 2, 3]) if rich else 3
            ws.messages = [websocket.WebSocketMessage(rng.choice([Opcode.TEXT, Opcode.BINARY]), rng.random() < 0.5,
                                                      body() if rich else b"hello", _ts(rng), rng.random() < 0.3,
                                                      rng.random() < 0.3) for _ in range(n)]
            if rich:
                ws.closed_by_client = rng.choice([None, True, False])
                ws.close_code = rng.choice([None, 1000, 1006, 4999])
                ws.close_reason = rng.choice([None] + _TEXT)
                ws.timestamp_end = _opt(rng, _ts(rng))
            else:
                ws.closed_by_client, ws.close_code, ws.close_reason, ws.timestamp_end = False, 1000, "bye", 946681205
            f.websocket = ws
        if kind == "httperr":
            f.error = flow.Error(rng.choice(_TEXT) if rich else "error", _ts(rng))
    elif ftype in ("tcp", "udp"):
        cls, mcls = (tcp.TCPFlow, tcp.TCPMessage) if ftype == "tcp" else (udp.UDPFlow, udp.UDPMessage)
        f = cls(cc, sc)
        n = rng.choice([0, 1, 2, 4]) if rich else 2
        f.messages = [mcls(rng.random() < 0.5, body() if rich else b"hello", _ts(rng) or 1.0) for _ in range(n)]
        if kind == "tcperr":
            f.error = flow.Error(rng.choice(_TEXT) if rich else "error", _ts(rng))
    else:
        q = [dns.Question(rng.choice(["dns.google", "", "bücher.example", "a." * 30 + "b"]), rng.choice([1, 28, 16, 65, 65535]),
                          rng.choice([1, 3, 255])) for _ in range(rng.choice([0, 1, 2]) if rich else 1)]

        def rr():
            return dns.ResourceRecord(rng.choice(["dns.google", ""]), rng.choice([1, 28, 16, 5, 65]), 1,
                                      rng.choice([0, 32, 2 ** 31 - 1]), rng.choice([b"\x08\x08\x08\x08", b"", b"\x05a\xc0\x0cbc", bytes(16)]))

        req = tutils.tdnsreq(questions=q, id=rng.choice([0, 42, 65535]), timestamp=_opt(rng, _ts(rng), 0.8) if rich else 946681200)
        if rich:
            req.op_code = rng.choice([0, 2, 15])
            req.recursion_desired = rng.random() < 0.5
            req.additionals = [rr() for _ in range(rng.choice([0, 0, 1]))]
        f = dns.DNSFlow(cc, sc)
        f.request = req
        if kind == "dnsresp":
            f.response = tutils.tdnsresp(questions=q, answers=[rr() for _ in range(rng.choice([0, 1, 3]))],
                                         authorities=[rr() for _ in range(rng.choice([0, 0, 1]))] if rich else [],
                                         response_code=rng.choice([0, 2, 3, 15]) if rich else 0,
                                         timestamp=_opt(rng, _ts(rng), 0.8) if rich else 946681201)
    f.timestamp_created = _ts(rng)
    if rich:
        f.intercepted = rng.random() < 0.2
        f.is_replay = rng.choice([None, None, "request", "response"])
        f.marked = rng.choice(["", "", ":default:", ":grapes:", "x", "☃"])
        f.comment = rng.choice(_TEXT)
        f.metadata = {} if rng.random() < 0.4 else {rng.choice(["a", "key", "☃", ""]) + str(i): _meta_value(rng) for i in range(rng.randint(1, 3))}
        if rng.random() < 0.2 and f.error is None and kind not in ("httperr", "tcperr"):
            f.error = flow.Error(rng.choice(_TEXT), _ts(rng))
        if rng.random() < 0.3:
            f.backup()
            if rng.random() < 0.8:  # modified after the backup -> state["backup"] is a nested flow state
                f.comment = f.comment + " (edited)"
                if ftype == "http" and rng.random() < 0.5:
                    f.request.data.content = b"edited"
    f.live = rng.random() < 0.5
    return f


def safe_key(f) -> str:
    try:
        return flow_key(f)
    except Exception as e:  # noqa: BLE001 - a loaded flow the harness cannot even describe: a state of its own
        return "undescribable:" + type(e).__name__


def read_image(src, intern):
    """Consume mitmproxy.io.FlowReader(src).stream() -- the code under test -- where src is a bytes image or an open
    binary file.  Returns (state ids of the yielded flows, "clean" | "fre" | "other", exception class name)."""
    import io

    from mitmproxy import exceptions
    from mitmproxy.io import FlowReader

    fo = io.BytesIO(src) if isinstance(src, (bytes, bytearray)) else src
    ids, end, exc = [], "clean", ""
    try:
        for f in FlowReader(fo).stream():
            ids.append(intern(safe_key(f)))
    except exceptions.FlowReadException:
        end, exc = "fre", "FlowReadException"
    except Exception as e:  # noqa: BLE001 - the class of an escaping exception is an observation
        end, exc = "other", type(e).__name__
    return ids, end, exc


def fixed_flows():
    """The repo's own fixed test flows (every type), as a baseline population."""
    from mitmproxy.test import tflow

    return tflow.tflows()
