"""In-process driver for the real mitmweb application (mitmproxy.tools.web): a WebMaster plus tornado HTTPServer on a
loopback socket, and a raw HTTP/1.1 client that can send any method / header / body combination (C46, C47).

Nothing here judges anything; the driver sends bytes and returns what came back.  The client is deliberately
hand-written (not tornado's): requests the browser could never send (unknown methods, malformed Authorization
headers, forged cookies) must reach the server unchanged.
"""
from __future__ import annotations

import asyncio
import logging
import re

_STATUS = re.compile(rb"^HTTP/1\.[01] (\d{3})")
TIMEOUT = 120  # seconds; client and server share one event loop, so this only expires on a starved machine


class DriverTimeout(RuntimeError):
    """The server did not answer in time: a machinery failure (exit 2), never an observation."""



class Response:
    __slots__ = ("status", "headers", "body", "after", "reused")

    def __init__(self, status, headers, body, after=b""):
        self.reused = False  # the request went out on a connection that had carried earlier requests
        self.status = status  # int, 0 if no parsable response arrived
        self.headers = headers  # list[(name_lower, value)]
        self.body = body  # bytes
        self.after = after  # bytes received after a 101 (WebSocket frames)

    def cookies(self) -> dict:
        """name -> raw value of every Set-Cookie (last wins)."""
        out = {}
        for k, v in self.headers:
            if k == "set-cookie":
                nv = v.split(";", 1)[0]
                if "=" in nv:
                    n, val = nv.split("=", 1)
                    out[n.strip()] = val.strip()
        return out


class WebDriver:
    """One WebMaster + HTTP server per process; Application instances can be swapped (`restart`)."""

    def __init__(self, password: str = "pw"):
        for n in ("tornado.access", "tornado.application", "tornado.general", "mitmproxy.tools.web.webaddons",
                  "mitmproxy.tools.web.app"):
            logging.getLogger(n).disabled = True
        self.loop = asyncio.new_event_loop()
        asyncio.set_event_loop(self.loop)
        self.server = None
        self.port = 0
        self.master = None
        self.loop.run_until_complete(self._make(password))

    async def _make(self, password):
        from mitmproxy import options
        from mitmproxy.tools.web import master as webmaster

        o = options.Options(http2=False)
        self.master = webmaster.WebMaster(o, with_termlog=False)
        self.master.options.web_open_browser = False
        self.set_password(password)
        self._listen(self.master.app)

    def _listen(self, application):
        import tornado.httpserver
        import tornado.netutil

        if self.server is not None:
            self.server.stop()
        self.app = application
        self.server = tornado.httpserver.HTTPServer(application)
        socks = tornado.netutil.bind_sockets(0, "127.0.0.1")
        self.server.add_sockets(socks)
        self.port = socks[0].getsockname()[1]

    # --- environment actions -------------------------------------------------------------------------
    def set_password(self, password: str):
        self.master.options.web_password = password

    def restart(self):
        """A new Application object (fresh cookie_secret) for the same master: what a restart of mitmweb does to
        the web layer.  Cookies issued before are stale afterwards."""
        from mitmproxy.tools.web import app as webapp

        self.drop_connection()

        async def go():
            self._listen(webapp.Application(self.master, False))
            self.master.app = self.app

        self.loop.run_until_complete(go())

    def run(self, coro):
        return self.loop.run_until_complete(coro)

    # --- client --------------------------------------------------------------------------------------
    def request(self, method: str, target: str, headers=(), body: bytes = b"", ws_wait: float = 0.25,
                after_upgrade=None, conn: str = "close") -> Response:
        """conn = "close": one request on its own connection (Connection: close).
        conn = "new": open a fresh keep-alive connection (dropping a held one) and hold it afterwards.
        conn = "keep": send on the held keep-alive connection if it is still usable, else like "new"."""
        return self.loop.run_until_complete(self._request(method, target, headers, body, ws_wait, after_upgrade, conn))

    _held = None  # (reader, writer) of the client's keep-alive connection

    def drop_connection(self):
        async def go():
            if self._held is not None:
                try:
                    self._held[1].close()
                except Exception:
                    pass
                self._held = None
                await asyncio.sleep(0)
                await asyncio.sleep(0)

        self.loop.run_until_complete(go())

    async def _request(self, method, target, headers, body, ws_wait, after_upgrade, conn="close"):
        lines = [f"{method} {target} HTTP/1.1", "Host: 127.0.0.1:%d" % self.port,
                 "Connection: close" if conn == "close" else "Connection: keep-alive"]
        has_cl = False
        for k, v in headers:
            if k.lower() == "content-length":
                has_cl = True
            if k.lower() == "connection":
                lines[2] = f"Connection: {v}"
                continue
            lines.append(f"{k}: {v}")
        if (body or method not in ("GET", "HEAD", "OPTIONS")) and not has_cl:
            lines.append(f"Content-Length: {len(body)}")
        raw = ("\r\n".join(lines) + "\r\n\r\n").encode("utf-8", "surrogateescape") + body
        reused = False
        r = w = None
        if conn == "keep" and self._held is not None:
            r, w = self._held
            self._held = None
            if r.at_eof() or w.is_closing():
                r = w = None
            else:
                reused = True
        elif self._held is not None and conn != "close":
            try:
                self._held[1].close()
            except Exception:
                pass
            self._held = None
        if r is None:
            try:
                r, w = await asyncio.wait_for(asyncio.open_connection("127.0.0.1", self.port), TIMEOUT)
            except asyncio.TimeoutError:
                raise DriverTimeout("connect")
            except OSError:
                return Response(0, [], b"")
        hold = False
        try:
            w.write(raw)
            await w.drain()
            buf = b""
            while b"\r\n\r\n" not in buf:
                chunk = await asyncio.wait_for(r.read(65536), TIMEOUT)
                if not chunk:
                    break
                buf += chunk
            if reused and not buf:
                # the server had already closed the idle connection: not an answer to this request
                try:
                    w.close()
                except Exception:
                    pass
                return await self._request(method, target, headers, body, ws_wait, after_upgrade, "new")
            head, _, rest = buf.partition(b"\r\n\r\n")
            m = _STATUS.match(head)
            status = int(m.group(1)) if m else 0
            hdrs = []
            for ln in head.split(b"\r\n")[1:]:
                k, _, v = ln.partition(b":")
                hdrs.append((k.decode("latin-1").strip().lower(), v.decode("latin-1").strip()))
            after = b""
            if status == 101:
                # upgraded: give the server a moment to push frames, optionally trigger activity meanwhile
                if after_upgrade is not None:
                    after_upgrade()
                after = rest
                try:
                    while True:
                        chunk = await asyncio.wait_for(r.read(65536), ws_wait)
                        if not chunk:
                            break
                        after += chunk
                except asyncio.TimeoutError:
                    pass
                rest = b""
            else:
                # read exactly the body the headers announce (the server may keep the connection open)
                clen = None
                chunked = False
                for k, v in hdrs:
                    if k == "content-length" and v.isdigit():
                        clen = int(v)
                    if k == "transfer-encoding" and "chunked" in v.lower():
                        chunked = True
                nobody = method == "HEAD" or status in (204, 304) or 100 <= status < 200

                def complete():
                    if nobody:
                        return True
                    if chunked:
                        return rest.endswith(b"0\r\n\r\n")
                    if clen is not None:
                        return len(rest) >= clen
                    return False

                try:
                    while not complete():
                        chunk = await asyncio.wait_for(r.read(1 << 20), TIMEOUT)
                        if not chunk:
                            break
                        rest += chunk
                except ConnectionError:
                    pass
                if nobody:
                    rest = b""
            body_out = rest
            if any(k == "transfer-encoding" and "chunked" in v for k, v in hdrs):
                body_out = _dechunk(rest)
            if conn != "close" and status not in (0, 101) and (nobody or chunked or clen is not None) \
                    and not any(k == "connection" and "close" in v.lower() for k, v in hdrs) and not r.at_eof():
                hold = True
            resp = Response(status, hdrs, body_out, after)
            resp.reused = reused
            return resp
        except asyncio.TimeoutError:
            raise DriverTimeout(f"{method} {target}")
        except ConnectionError:
            if reused:
                return await self._request(method, target, headers, body, ws_wait, after_upgrade, "new")
            return Response(0, [], b"")
        finally:
            if hold:
                self._held = (r, w)
            else:
                try:
                    w.close()
                except Exception:
                    pass
            # let the server side notice the close (WebSocket on_close etc.)
            await asyncio.sleep(0)
            await asyncio.sleep(0)

    def settle(self, n: int = 3):
        async def go():
            for _ in range(n):
                await asyncio.sleep(0)

        self.loop.run_until_complete(go())


def _dechunk(data: bytes) -> bytes:
    out = b""
    while data:
        line, _, data = data.partition(b"\r\n")
        try:
            n = int(line.split(b";")[0].strip() or b"0", 16)
        except ValueError:
            break
        if n == 0:
            break
        out += data[:n]
        data = data[n + 2:]
    return out


_drv = None


def driver(password: str = "pw") -> WebDriver:
    """Process-wide driver (created lazily, after a possible fork)."""
    global _drv
    if _drv is None:
        _drv = WebDriver(password)
    return _drv
