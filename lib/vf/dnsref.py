"""Independent DNS wire-format reference decoder (RFC 1035 section 4, RFC 3597 section 4) and a small message builder.

Used as the projection oracle of C25/C26/C27 (and the DNS half of C50).  It shares no code with mitmproxy:
names are tuples of raw label byte strings (no IDNA, no text form), RDATA is kept raw, and -- for the record types
whose RDATA is *defined* to contain domain names -- additionally parsed by the type's field layout into a canonical
form in which every name is written uncompressed and lower-cased.  Nothing here guesses: a byte is a compression
pointer only at a position where the type's layout puts a domain name.
"""
from __future__ import annotations

import struct
from dataclasses import dataclass, field


class RefError(Exception):
    """The bytes are not a well-formed DNS message (by RFC 1035)."""


# --- record types whose RDATA contains domain names, with their field layouts -----------------------------------
# field kinds: name | u8 | u16 | u32 | str (character-string) | rest (opaque remainder)
A, NS, MD, MF, CNAME, SOA, MB, MG, MR, NULL, WKS, PTR, HINFO, MINFO, MX, TXT = range(1, 17)
RP, AFSDB, RT, SIG, PX, AAAA, NXT, SRV, NAPTR, KX, DNAME, OPT, RRSIG, HTTPS = 17, 18, 21, 24, 26, 28, 30, 33, 35, 36, 39, 41, 46, 65
LAYOUTS: dict[int, tuple[str, ...]] = {
    NS: ("name",), MD: ("name",), MF: ("name",), CNAME: ("name",), MB: ("name",), MG: ("name",), MR: ("name",),
    PTR: ("name",), DNAME: ("name",),
    SOA: ("name", "name", "u32", "u32", "u32", "u32", "u32"),
    MINFO: ("name", "name"), RP: ("name", "name"),
    MX: ("u16", "name"), AFSDB: ("u16", "name"), RT: ("u16", "name"), KX: ("u16", "name"),
    PX: ("u16", "name", "name"),
    SRV: ("u16", "u16", "u16", "name"),
    NAPTR: ("u16", "u16", "str", "str", "str", "name"),
    SIG: ("u16", "u8", "u8", "u32", "u32", "u32", "u16", "name", "rest"),
    NXT: ("name", "rest"),
}


def has_names(rtype: int) -> bool:
    """Is the RDATA of this type defined to contain (possibly compressed) domain names?"""
    return rtype in LAYOUTS


@dataclass
class RR:
    name: tuple
    type: int
    cls: int
    ttl: int
    rdata: bytes  # raw, as on the wire
    canon: bytes | None = None  # named types: layout-parsed, names expanded + lower-cased; None = does not parse


@dataclass
class Msg:
    id: int
    qr: int
    opcode: int
    aa: int
    tc: int
    rd: int
    ra: int
    z: int
    rcode: int
    questions: list = field(default_factory=list)  # (name, type, cls)
    answers: list = field(default_factory=list)
    authorities: list = field(default_factory=list)
    additionals: list = field(default_factory=list)
    length: int = 0

    def header(self):
        return (self.id, self.qr, self.opcode, self.aa, self.tc, self.rd, self.ra, self.z, self.rcode)

    def qsection(self):
        return tuple((lower(n), t, c) for n, t, c in self.questions)

    def records(self):
        return self.answers + self.authorities + self.additionals


def lower(name: tuple) -> tuple:
    return tuple(bytes(l).lower() for l in name)


def read_name(buf: bytes, off: int) -> tuple[tuple, int]:
    """RFC 1035 4.1.4.  Returns (labels, offset after the name *at the place it was written*)."""
    labels = []
    end = None
    seen = set()
    total = 0
    while True:
        if off >= len(buf):
            raise RefError("name runs past the end of the message")
        if off in seen:
            raise RefError("compression loop")
        seen.add(off)
        b = buf[off]
        if b & 0xC0 == 0xC0:
            if off + 1 >= len(buf):
                raise RefError("truncated pointer")
            if end is None:
                end = off + 2
            off = ((b & 0x3F) << 8) | buf[off + 1]
            continue
        if b & 0xC0:
            raise RefError("reserved label type")
        if b == 0:
            if end is None:
                end = off + 1
            return tuple(labels), end
        if off + 1 + b > len(buf):
            raise RefError("label runs past the end of the message")
        labels.append(bytes(buf[off + 1: off + 1 + b]))
        total += 1 + b
        if total > 254:
            raise RefError("name longer than 255 octets")
        off += 1 + b


def wire_name(labels) -> bytes:
    return b"".join(bytes([len(l)]) + bytes(l) for l in labels) + b"\x00"


def canon_rdata(buf: bytes, off: int, rdlen: int, rtype: int) -> bytes | None:
    """Canonical form of a named type's RDATA: fields in order, names uncompressed + lower-cased.
    None if the RDATA does not parse by the type's layout (or a name leaves the RDATA without a pointer)."""
    layout = LAYOUTS.get(rtype)
    if layout is None:
        return bytes(buf[off: off + rdlen])
    end = off + rdlen
    out = bytearray()
    p = off
    try:
        for kind in layout:
            if kind == "name":
                labels, nxt = read_name(buf, p)
                if nxt > end:
                    return None
                out += b"N" + wire_name(lower(labels))
                p = nxt
            elif kind == "rest":
                out += b"R" + bytes(buf[p:end])
                p = end
            elif kind == "str":
                if p >= end:
                    return None
                n = buf[p]
                if p + 1 + n > end:
                    return None
                out += b"S" + bytes(buf[p: p + 1 + n])
                p += 1 + n
            else:
                n = {"u8": 1, "u16": 2, "u32": 4}[kind]
                if p + n > end:
                    return None
                out += b"I" + bytes(buf[p: p + n])
                p += n
    except RefError:
        return None
    if p != end:
        return None
    return bytes(out)


def decode(buf: bytes, *, allow_trailing: bool = False) -> Msg:
    buf = bytes(buf)
    if len(buf) < 12:
        raise RefError("short header")
    mid, flags, qd, an, ns, ar = struct.unpack_from("!HHHHHH", buf, 0)
    m = Msg(id=mid, qr=flags >> 15, opcode=(flags >> 11) & 15, aa=(flags >> 10) & 1, tc=(flags >> 9) & 1,
            rd=(flags >> 8) & 1, ra=(flags >> 7) & 1, z=(flags >> 4) & 7, rcode=flags & 15)
    off = 12
    for _ in range(qd):
        name, off = read_name(buf, off)
        if off + 4 > len(buf):
            raise RefError("truncated question")
        t, c = struct.unpack_from("!HH", buf, off)
        off += 4
        m.questions.append((name, t, c))
    for section, count in ((m.answers, an), (m.authorities, ns), (m.additionals, ar)):
        for _ in range(count):
            name, off = read_name(buf, off)
            if off + 10 > len(buf):
                raise RefError("truncated record header")
            t, c, ttl, rdlen = struct.unpack_from("!HHIH", buf, off)
            off += 10
            if off + rdlen > len(buf):
                raise RefError("truncated record data")
            section.append(RR(name, t, c, ttl, bytes(buf[off: off + rdlen]), canon_rdata(buf, off, rdlen, t)))
            off += rdlen
    m.length = off
    if off != len(buf) and not allow_trailing:
        raise RefError("trailing bytes")
    return m


def try_decode(buf: bytes):
    try:
        return decode(buf)
    except (RefError, struct.error):
        return None


def split_tcp(stream: bytes):
    """Reference TCP framing (RFC 1035 4.2.2): (complete frames, malformed?, rest).  A zero length is malformed."""
    frames, off = [], 0
    while len(stream) - off >= 2:
        n = (stream[off] << 8) | stream[off + 1]
        if n == 0:
            return frames, True, stream[off:]
        if len(stream) - off - 2 < n:
            break
        frames.append(bytes(stream[off + 2: off + 2 + n]))
        off += 2 + n
    return frames, False, stream[off:]


# --- builder (concretiser; not an oracle) -------------------------------------------------------------------------
class Builder:
    """Assemble a DNS message byte by byte with explicit control over name compression.
    Offsets of everything written under a tag are remembered so later names can point at them."""

    def __init__(self, id=0, flags=0):
        self.buf = bytearray(12)
        self.id, self.flags = id, flags
        self.counts = [0, 0, 0, 0]
        self.marks: dict[str, int] = {}

    def mark(self, tag: str):
        self.marks[tag] = len(self.buf)
        return len(self.buf)

    @property
    def pos(self):
        return len(self.buf)

    def raw(self, b: bytes):
        self.buf += b
        return self

    def name(self, labels=(), ptr=None, tag=None):
        """labels, then a pointer to offset/tag `ptr`, or the root terminator when ptr is None."""
        if tag:
            self.mark(tag)
        self.buf += name_bytes(labels, self.marks.get(ptr, ptr) if isinstance(ptr, str) else ptr)
        return self

    def question(self, labels=(), qtype=1, qclass=1, ptr=None, tag=None):
        self.name(labels, ptr, tag)
        self.buf += struct.pack("!HH", qtype, qclass)
        self.counts[0] += 1
        return self

    def rr(self, section: int, labels=(), rtype=1, rclass=1, ttl=60, rdata=b"", ptr=None, tag=None):
        """section 1..3.  `rdata` may be bytes or a callable(builder) that appends the RDATA (to place pointers)."""
        self.name(labels, ptr, tag)
        self.buf += struct.pack("!HHI", rtype, rclass, ttl)
        lenpos = len(self.buf)
        self.buf += b"\x00\x00"
        if callable(rdata):
            rdata(self)
        else:
            self.buf += rdata
        struct.pack_into("!H", self.buf, lenpos, len(self.buf) - lenpos - 2)
        self.counts[section] += 1
        return self

    def bytes(self) -> bytes:
        struct.pack_into("!HHHHHH", self.buf, 0, self.id, self.flags, *self.counts)
        return bytes(self.buf)


def name_bytes(labels=(), ptr: int | None = None) -> bytes:
    out = b"".join(bytes([len(l)]) + (l if isinstance(l, bytes) else l.encode("ascii")) for l in labels)
    if ptr is None:
        return out + b"\x00"
    return out + struct.pack("!H", 0xC000 | ptr)


def flags(qr=0, opcode=0, aa=0, tc=0, rd=0, ra=0, z=0, rcode=0) -> int:
    return (qr << 15) | (opcode << 11) | (aa << 10) | (tc << 9) | (rd << 8) | (ra << 7) | (z << 4) | rcode
