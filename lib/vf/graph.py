"""TLC state graphs (-dump dot,actionlabels) and -simulate behaviour files -> behaviours.

A behaviour is a list of steps; a step is (action_name, args_tuple, state_dict_after).
The first element is ("Init", (), initial_state).
"""
from __future__ import annotations

import random
import re
from pathlib import Path

from . import tlaval

_EDGE = re.compile(r'^(-?\d+) -> (-?\d+) \[label="(.*?)",color', re.M)
_NODE = re.compile(r'^(-?\d+) \[label="((?:[^"\\]|\\.)*)"(,style = filled)?', re.M)


def _unescape(s: str) -> str:
    out, i = [], 0
    while i < len(s):
        c = s[i]
        if c == "\\" and i + 1 < len(s):
            nx = s[i + 1]
            out.append("\n" if nx == "n" else nx)
            i += 2
        else:
            out.append(c)
            i += 1
    return "".join(out)


def parse_label(lbl: str):
    lbl = lbl.strip()
    m = re.match(r"^(\w+)(?:\((.*)\))?$", lbl, re.S)
    if not m:
        return lbl, ()
    name, args = m.group(1), m.group(2)
    if args is None or args.strip() == "":
        return name, ()
    v = tlaval.parse_value("<<" + args + ">>")
    return name, v


class Graph:
    def __init__(self, dot: Path):
        txt = Path(dot).read_text()
        self.raw_states: dict[int, str] = {}
        self.init: list[int] = []
        for m in _NODE.finditer(txt):
            nid = int(m.group(1))
            self.raw_states[nid] = m.group(2)
            if m.group(3):
                self.init.append(nid)
        self.succ: dict[int, list[tuple[str, tuple, int]]] = {n: [] for n in self.raw_states}
        self.n_edges = 0
        for m in _EDGE.finditer(txt):
            a, b = int(m.group(1)), int(m.group(2))
            name, args = parse_label(_unescape(m.group(3)))
            self.succ.setdefault(a, []).append((name, args, b))
            self.n_edges += 1
        self._parsed: dict[int, dict] = {}

    def state(self, nid: int) -> dict:
        st = self._parsed.get(nid)
        if st is None:
            st = tlaval.parse_state(_unescape(self.raw_states[nid]))
            self._parsed[nid] = st
        return st

    def _mk(self, path):
        # path: list of (name,args,node)
        return [(n, a, self.state(nid)) for n, a, nid in path]

    def all_paths(self, max_depth: int, limit: int | None = None, keep=lambda name: True):
        """All maximal paths (to a leaf, or cut at max_depth) in DFS order."""
        out = []
        for i in self.init:
            stack = [(i, [("Init", (), i)])]
            while stack:
                node, path = stack.pop()
                succ = self.succ.get(node, [])
                if not succ or len(path) - 1 >= max_depth:
                    out.append(self._mk(path))
                    if limit and len(out) >= limit:
                        return out
                    continue
                for name, args, nxt in reversed(succ):
                    stack.append((nxt, path + [(name, args, nxt)]))
        return out

    def edge_cover(self, rng: random.Random, max_len: int = 40, tail: int = 6):
        """Paths from an initial state that together take every edge at least once
        (shortest path to the edge, then a random continuation of up to `tail` steps)."""
        # BFS tree
        parent: dict[int, tuple[int, str, tuple] | None] = {}
        order = []
        from collections import deque

        dq = deque()
        for i in self.init:
            parent[i] = None
            dq.append(i)
        while dq:
            n = dq.popleft()
            order.append(n)
            for name, args, nxt in self.succ.get(n, []):
                if nxt not in parent:
                    parent[nxt] = (n, name, args)
                    dq.append(nxt)

        def prefix(n):
            p = []
            while parent[n] is not None:
                pn, name, args = parent[n]
                p.append((name, args, n))
                n = pn
            p.append(("Init", (), n))
            p.reverse()
            return p

        covered = set()
        out = []
        for n in order:
            for idx, (name, args, nxt) in enumerate(self.succ.get(n, [])):
                if (n, idx) in covered:
                    continue
                path = prefix(n)
                covered.add((n, idx))
                path.append((name, args, nxt))
                cur = nxt
                steps = 0
                while steps < tail and len(path) < max_len:
                    succ = self.succ.get(cur, [])
                    if not succ:
                        break
                    fresh = [k for k in range(len(succ)) if (cur, k) not in covered]
                    k = rng.choice(fresh) if fresh else rng.randrange(len(succ))
                    covered.add((cur, k))
                    nm, ar, nx = succ[k]
                    path.append((nm, ar, nx))
                    cur = nx
                    steps += 1
                out.append(self._mk(path))
        return out

    def random_walks(self, rng: random.Random, num: int, max_len: int):
        out = []
        for _ in range(num):
            cur = rng.choice(self.init)
            path = [("Init", (), cur)]
            while len(path) - 1 < max_len:
                succ = self.succ.get(cur, [])
                if not succ:
                    break
                nm, ar, nx = rng.choice(succ)
                path.append((nm, ar, nx))
                cur = nx
            out.append(self._mk(path))
        return out


_SIM_HDR = re.compile(r"^\\\* <(.*?) line \d+, col \d+ to line \d+, col \d+ of module \w+>\s*$", re.M)


def parse_sim_file(path: Path):
    """One -simulate behaviour file -> behaviour (list of (name,args,state))."""
    txt = Path(path).read_text()
    parts = _SIM_HDR.split(txt)
    # parts: [preamble, hdr1, body1, hdr2, body2, ...]
    beh = []
    for k in range(1, len(parts), 2):
        hdr, body = parts[k], parts[k + 1]
        m = re.search(r"STATE_\d+ ==\s*\n(.*?)(?:\n\s*\n|\n=+|\Z)", body, re.S)
        if not m:
            continue
        st = tlaval.parse_state(m.group(1))
        name, args = parse_label(hdr)
        if not beh:
            name, args = "Init", ()
        beh.append((name, args, st))
    return beh


def load_sim_dir(d: Path, prefix="tr"):
    out = []
    for f in sorted(Path(d).glob(prefix + "_*")):
        b = parse_sim_file(f)
        if b:
            out.append(b)
    return out
