"""HTTP/1 environment for the real mitmproxy HttpLayer (regular mode), shared by C03 and C07.

Built on vf.sansio.Driver.  Adds what ConnectionHandler (mitmproxy/proxy/server.py) does around the layer and the
plain sans-io driver does not:

* close echo: when the layer closes a connection by command, close_connection() sets state = CLOSED and cancels the
  connection's handler task; the cancelled handle_connection() then still delivers ConnectionClosed(conn) to the
  layer (server.py handle_connection tail).  `*_echo()` delivers that event; it is pending from the moment the layer
  closed a connection whose ConnectionClosed had not been delivered yet.
* teardown: once the client handler has finished (client closed and its ConnectionClosed delivered), handle_client()
  cancels every other transport, which again delivers ConnectionClosed for connections that were still readable.
  `server_echo()` is therefore also enabled for an open server connection once the client is completely closed.

Also: an incremental HTTP/1 wire reader written for the harness (independent of mitmproxy's parsers) that splits
what the proxy wrote to a peer into messages (start line, declared framing, body bytes).
"""
from __future__ import annotations

from mitmproxy.connection import ConnectionState
from mitmproxy.proxy import commands, events

from . import sansio

HTTP_HOOKS = ("requestheaders", "request", "responseheaders", "response", "error", "http_connect", "http_connected",
              "http_connect_error")


class WireReader:
    """Incremental reader for a stream of HTTP/1 messages (requests if `requests` else responses).
    Own implementation: head up to CRLFCRLF, Content-Length or chunked (or until-close for responses)."""

    def __init__(self, requests: bool, single: bool = False):
        """single: the connection carries one message only; for Content-Length framing every byte after the head is
        then reported as body (the reader trusts the bytes, not the declared length)."""
        self.requests = requests
        self.single = single
        self.buf = b""
        self.msgs: list[dict] = []  # {"start": bytes, "headers": [(k,v)], "framing": "cl"|"chunked"|"close"|"none",
        #                               "declared": int, "body": bytearray, "complete": bool}
        self.cur: dict | None = None
        self.remaining = 0
        self.phase = "head"  # head | cl | chunk_size | chunk_data | chunk_crlf | trailer | close
        self.garbage = False

    def feed(self, data: bytes) -> bytes:
        """Returns the body bytes of the current message(s) contained in `data`."""
        self.buf += data
        got = bytearray()
        while True:
            if self.garbage:
                return bytes(got)
            if self.phase == "head":
                i = self.buf.find(b"\r\n\r\n")
                if i < 0:
                    return bytes(got)
                head, self.buf = self.buf[:i], self.buf[i + 4:]
                lines = head.split(b"\r\n")
                hdrs = []
                for ln in lines[1:]:
                    k, _, v = ln.partition(b":")
                    hdrs.append((k.strip().lower(), v.strip()))
                m = {"start": lines[0], "headers": hdrs, "body": bytearray(), "complete": False, "declared": -1}
                te = [v for k, v in hdrs if k == b"transfer-encoding"]
                cl = [v for k, v in hdrs if k == b"content-length"]
                status = 0
                if not self.requests:
                    try:
                        status = int(lines[0].split(b" ")[1])
                    except Exception:
                        self.garbage = True
                        return bytes(got)
                m["status"] = status
                if te and b"chunked" in te[-1].lower():
                    m["framing"] = "chunked"
                    self.phase = "chunk_size"
                elif cl:
                    m["framing"] = "cl"
                    m["declared"] = self.remaining = int(cl[0])
                    self.phase = "cl"
                elif self.requests or status in (204, 304) or 100 <= status < 200:
                    m["framing"] = "none"
                    m["complete"] = True
                    self.phase = "head"
                else:
                    m["framing"] = "close"
                    self.phase = "close"
                self.msgs.append(m)
                self.cur = m
                if self.phase == "cl" and self.remaining == 0:
                    m["complete"] = True
                    if not self.single:
                        self.phase = "head"
                continue
            assert self.cur is not None
            if self.phase == "cl" and self.single:
                self.cur["body"] += self.buf
                got += self.buf
                self.remaining -= len(self.buf)
                self.buf = b""
                if self.remaining <= 0:
                    self.cur["complete"] = True
                return bytes(got)
            if self.phase == "cl":
                take = self.buf[: self.remaining]
                self.buf = self.buf[len(take):]
                self.remaining -= len(take)
                self.cur["body"] += take
                got += take
                if self.remaining == 0:
                    self.cur["complete"] = True
                    self.phase = "head"
                    continue
                return bytes(got)
            if self.phase == "close":
                self.cur["body"] += self.buf
                got += self.buf
                self.buf = b""
                return bytes(got)
            if self.phase == "chunk_size":
                i = self.buf.find(b"\r\n")
                if i < 0:
                    return bytes(got)
                try:
                    n = int(self.buf[:i].split(b";")[0], 16)
                except ValueError:
                    self.garbage = True
                    return bytes(got)
                self.buf = self.buf[i + 2:]
                if n == 0:
                    self.phase = "trailer"
                else:
                    self.remaining = n
                    self.phase = "chunk_data"
                continue
            if self.phase == "chunk_data":
                take = self.buf[: self.remaining]
                self.buf = self.buf[len(take):]
                self.remaining -= len(take)
                self.cur["body"] += take
                got += take
                if self.remaining == 0:
                    self.phase = "chunk_crlf"
                    continue
                return bytes(got)
            if self.phase == "chunk_crlf":
                if len(self.buf) < 2:
                    return bytes(got)
                self.buf = self.buf[2:]
                self.phase = "chunk_size"
                continue
            if self.phase == "trailer":
                i = self.buf.find(b"\r\n")
                if i < 0:
                    return bytes(got)
                line, self.buf = self.buf[:i], self.buf[i + 2:]
                if line == b"":
                    self.cur["complete"] = True
                    self.phase = "head"
                continue


_OPTS: dict = {}


class HttpEnv:
    """The real HttpLayer(regular) with Http1Server / HttpStream / Http1Client between an abstract client and
    abstract servers.  All methods are total: they return False when the action is not enabled on the real objects
    and never let an exception of the code under test escape (it is appended to `self.raised` and reported through
    `on_raise`; the run continues, as it does under ConnectionHandler.server_event)."""

    def __init__(self, **opts):
        from mitmproxy.proxy.layers import http as mhttp

        o = {"connection_strategy": "lazy"}
        o.update(opts)
        key = tuple(sorted(o.items()))
        if key not in _OPTS:  # option objects are only read by the layers: share them between runs
            _OPTS[key] = sansio.make_options(**o)
        self.opts = _OPTS[key]
        self.ctx = sansio.make_context(self.opts)
        self.top = mhttp.HttpLayer(self.ctx, mhttp.HTTPMode.regular)
        self.drv = sansio.Driver(self.ctx, self.top, on_hook=self._on_hook)
        self.client = self.ctx.client
        self.flows: list = []  # flow objects in order of first appearance in a hook
        self.on_hook = None  # callback(name, fnum, flow)
        self.delivered: set[int] = set()  # id(conn) whose ConnectionClosed has been delivered to the layer
        self.raised: list[str] = []  # class names of exceptions that escaped from layer.handle_event
        self.on_raise = None  # callback(exc_class_name)
        self.servers: list = []  # server connections in order of OpenConnection
        self._sent_mark: dict[str, int] = {}
        self._guard(lambda: self.drv.start())

    # --- plumbing -----------------------------------------------------------------------------------
    def _guard(self, fn):
        """Run one feed.  An exception of the code under test is an observation, not a harness failure:
        ConnectionHandler.server_event logs "mitmproxy has crashed!" and keeps feeding later events, so do we."""
        try:
            fn()
        except Exception as e:
            self.raised.append(type(e).__name__)
            self.raised_msg = str(e)[:300]
            if self.on_raise is not None:
                self.on_raise(type(e).__name__)
        for c in self.drv.opens_pending():
            if c.connection not in self.servers:
                self.servers.append(c.connection)
        return True

    def _on_hook(self, drv, cmd):
        if cmd.name not in HTTP_HOOKS:
            return
        fl = cmd.args()[0]
        if not any(fl is x for x in self.flows):
            self.flows.append(fl)
        n = next(i for i, x in enumerate(self.flows) if x is fl) + 1
        if self.on_hook is not None:
            self.on_hook(cmd.name, n, fl)

    def fnum(self, fl) -> int:
        return next(i for i, x in enumerate(self.flows) if x is fl) + 1

    @property
    def server(self):
        return self.servers[-1] if self.servers else None

    def readable(self, conn) -> bool:
        return conn is not None and bool(conn.state & ConnectionState.CAN_READ) and id(conn) not in self.delivered

    def echo_pending(self, conn) -> bool:
        return conn is not None and conn.state is ConnectionState.CLOSED and id(conn) not in self.delivered \
            and conn.error is None and (conn is self.client or conn.timestamp_start is not None)

    def fully_closed(self, conn) -> bool:
        return conn.state is ConnectionState.CLOSED and (id(conn) in self.delivered or conn.error is not None
                                                         or (conn is not self.client and conn.timestamp_start is None))

    # --- environment actions ------------------------------------------------------------------------
    def send(self, conn, data: bytes) -> bool:
        if not self.readable(conn):
            return False
        return self._guard(lambda: self.drv.data(conn, data))

    def fin(self, conn) -> bool:
        """The peer closes its side (EOF read)."""
        if not self.readable(conn):
            return False
        self.delivered.add(id(conn))
        return self._guard(lambda: self.drv.peer_close(conn))

    def echo(self, conn) -> bool:
        """ConnectionClosed for a connection the proxy closed itself (or that is torn down after the client left)."""
        if conn is None or id(conn) in self.delivered:
            return False
        if self.echo_pending(conn):
            pass
        elif conn is not self.client and self.readable(conn) and self.fully_closed(self.client):
            conn.state = ConnectionState.CLOSED  # handle_client: cancel all transports
            self.drv.transports.discard(conn)
        else:
            return False
        self.delivered.add(id(conn))
        self.drv.log.append({"t": "closed_in", "c": self.drv.name(conn)})
        return self._guard(lambda: self.drv.feed(events.ConnectionClosed(conn)))

    def open_done(self, ok: bool) -> bool:
        p = self.drv.opens_pending()
        if not p:
            return False
        return self._guard(lambda: self.drv.complete(p[0], None if ok else "connect failed"))

    def pending_hook(self):
        p = [c for c in self.drv.hooks_pending() if c.name in HTTP_HOOKS]
        return p[0] if p else None

    def hook_done(self, policy=None) -> bool:
        """Complete the pending HTTP hook after applying `policy(name, flow)` (the addon)."""
        h = self.pending_hook()
        if h is None:
            return False
        fl = h.args()[0]
        if policy is not None:
            policy(h.name, fl)
        return self._guard(lambda: self.drv.complete(h))

    # --- projections --------------------------------------------------------------------------------
    def sent_new(self, name: str) -> bytes:
        """Bytes the proxy wrote to connection `name` since the last call."""
        b = self.drv.sent_to(name)
        off = self._sent_mark.get(name, 0)
        self._sent_mark[name] = len(b)
        return b[off:]

    def quiescent(self) -> bool:
        """The client connection and all server connections are closed and nothing is outstanding.  "Closed" is the
        connection's state (closed by the peer and by us, or closed by command) -- whether the ConnectionClosed
        notification for a close by command has already been fed to the layer does not matter: the property speaks
        of closed connections, not of consumed notifications.  A server that sent EOF and is only kept writable
        counts as closed (it is closed without an event when the client handler finishes)."""
        if self.drv.pending:
            return False
        if self.client.state is not ConnectionState.CLOSED:
            return False
        for s in self.servers:
            if s.state & ConnectionState.CAN_READ:
                return False
        return True

    def stream_of(self, fl):
        """The live HttpStream object handling flow `fl` (None once dropped)."""
        for s in self.top.streams.values():
            if getattr(s, "flow", None) is fl:
                return s
        return None


def apply_policy(policy: str):
    """Addon policies used by C03/C07 (the addon's action inside a hook)."""
    from mitmproxy import http

    def f(name, fl):
        if policy == "kill":
            if fl.killable:
                fl.kill()
        elif policy == "resp":
            fl.response = http.Response.make(200, b"resp")
        elif policy == "stream":
            if name == "requestheaders":
                fl.request.stream = True
            elif name == "responseheaders" and fl.response is not None:
                fl.response.stream = True

    return f
