"""Interception driver for C11: the real ProxyConnectionHandler (server_event, hook_task, handle_hook,
close_connection), the real Flow.intercept/resume/kill/wait_for_resume and the real protocol layers, run on an
asyncio loop with fake transports.

What is real:  ConnectionHandler.server_event dispatching the layer's commands, hook_task, ProxyConnectionHandler.
handle_hook (disarm, handle_lifecycle, wait_for_resume), Flow.*, the layer stacks (HttpLayer incl. HTTP/1 and HTTP/2
codecs, WebsocketLayer, TCPLayer, UDPLayer, DNSLayer).
What is the harness's:  the master (a scripted addon that intercepts / kills / passes per message), the transports
(writers that record what is written; a connection task that reports ConnectionClosed when cancelled, as
handle_connection does), open_connection (always succeeds), and the peers: byte strings are produced and everything the
proxy writes is decoded by *independent* codecs (h2, wsproto, own HTTP/1 / DNS / token scanners).

Abstract message n carries the tokens h<n>x (in its head, where the protocol has one) and b<n>x (in its body);
an edit turns both into <n + EDIT>.  A write is projected to the head / body tokens it contains, plus the messages
whose clean end the peer's decoder saw in it (fin: HTTP/2 END_STREAM, HTTP/1 last-chunk).
Streamed http messages (the addon sets .stream in requestheaders / responseheaders) are chunked on HTTP/1.
"""
from __future__ import annotations

import asyncio
import re
import struct

EDIT = 50
_OPTS = None
_HD = re.compile(rb"h(\d{1,5})x")
_BD = re.compile(rb"b(\d{1,5})x")


def hd(n: int) -> bytes:
    return b"h%dx" % n


def bd(n: int) -> bytes:
    return b"b%dx" % n


def scan(rx, data: bytes) -> list[int]:
    return [int(x) for x in rx.findall(bytes(data))]


# ---------------------------------------------------------------------------------------------------------
# protocol adapters
# ---------------------------------------------------------------------------------------------------------


class Adapter:
    proto = ""
    multiplexed = False
    transport = "tcp"
    preopen_server = True
    server_alpn = None

    def __init__(self, drv: "Driver"):
        self.drv = drv

    # the layer under test, given the handler's context (client = the handler's client connection)
    def make_layer(self, ctx):
        raise NotImplementedError

    async def setup(self):
        """Bring the connection to the state where messages can be exchanged (all hooks pass)."""

    def wire(self, m: dict) -> tuple[str, bytes]:
        """(arriving on connection 'c'|'s', bytes) for abstract message m = {n, f, to}."""
        raise NotImplementedError

    def message_of_hook(self, hook) -> tuple[object, int] | None:
        """(flow object, message number) if this hook is a message hook an intercept addon reacts to."""
        raise NotImplementedError

    def edit(self, flow, n: int, new: int, body: bool = True):
        raise NotImplementedError

    def project(self, to: str, data: bytes) -> list[dict]:
        """items: {"hd": [...], "bd": [...], "fin": [...]} and/or {"abort": f}"""
        return [{"hd": scan(_HD, data), "bd": scan(_BD, data), "fin": []}]

    def stream_hook(self, hook) -> None:
        """Called for every hook: the place where a streaming addon sets request.stream / response.stream."""

    def project_close(self, to: str, half: bool) -> list[dict]:
        return [{"abort": 0}] if not half else []


class _Raw(Adapter):
    def message_of_hook(self, hook):
        if hook.name not in ("tcp_message", "udp_message"):
            return None
        f = hook.args()[0]
        toks = scan(_BD, f.messages[-1].content) if f.messages else []
        return (f, toks[0] % EDIT if toks else 0)

    async def setup(self):
        from mitmproxy.proxy import events

        await self.drv.h.server_event(events.Start())
        await self.drv.settle()

    def wire(self, m):
        return ("c" if m["to"] == "s" else "s"), bd(m["n"])

    def edit(self, flow, n, new, body=True):
        flow.messages[-1].content = bd(new)


class TcpAdapter(_Raw):
    proto = "tcp"

    def make_layer(self, ctx):
        from mitmproxy.proxy.layers import tcp

        return tcp.TCPLayer(ctx)


class UdpAdapter(_Raw):
    proto = "udp"
    transport = "udp"

    def make_layer(self, ctx):
        from mitmproxy.proxy.layers import udp

        return udp.UDPLayer(ctx)


class WsAdapter(Adapter):
    proto = "ws"

    def make_layer(self, ctx):
        import wsproto
        import wsproto.connection
        from mitmproxy import http, websocket as mws
        from mitmproxy.proxy.layers import websocket

        flow = http.HTTPFlow(ctx.client, ctx.server)
        flow.request = http.Request.make("GET", "http://example.com/", headers={
            "Connection": "upgrade", "Upgrade": "websocket", "Sec-WebSocket-Version": "13"})
        flow.response = http.Response.make(101, headers={"Connection": "upgrade", "Upgrade": "websocket"})
        flow.websocket = mws.WebSocketData()
        flow.live = True
        self.flow = flow
        # independent endpoints: they produce the peers' frames and decode what the proxy writes to them
        self.peer = {"c": wsproto.connection.Connection(wsproto.ConnectionType.CLIENT),
                     "s": wsproto.connection.Connection(wsproto.ConnectionType.SERVER)}
        return websocket.WebsocketLayer(ctx, flow)

    async def setup(self):
        from mitmproxy.proxy import events

        await self.drv.h.server_event(events.Start())
        await self.drv.settle()

    def wire(self, m):
        import wsproto.events

        src = "c" if m["to"] == "s" else "s"
        return src, self.peer[src].send(wsproto.events.TextMessage(bd(m["n"]).decode()))

    def message_of_hook(self, hook):
        if hook.name != "websocket_message":
            return None
        f = hook.args()[0]
        toks = scan(_BD, f.websocket.messages[-1].content) if f.websocket.messages else []
        return (f, toks[0] % EDIT if toks else 0)

    def edit(self, flow, n, new, body=True):
        flow.websocket.messages[-1].content = bd(new)

    def project(self, to, data):
        import wsproto.events

        p = self.peer[to]
        p.receive_data(data)
        out = []
        try:
            for ev in p.events():
                if isinstance(ev, (wsproto.events.TextMessage, wsproto.events.BytesMessage)):
                    d = ev.data.encode() if isinstance(ev.data, str) else bytes(ev.data)
                    out.append({"hd": [], "bd": scan(_BD, d), "fin": []})
                elif isinstance(ev, wsproto.events.CloseConnection):
                    out.append({"abort": 0})
        except Exception:
            out.append({"hd": [], "bd": [0], "fin": []})
        return out


# --- DNS: a minimal independent codec (header, one question, optionally one A answer) ---------------------


def dns_name(name: str) -> bytes:
    return b"".join(bytes([len(p)]) + p.encode() for p in name.split(".") if p) + b"\0"


def dns_packet(ident: int, name: str, response: bool, rcode: int = 0) -> bytes:
    flags = (0x8180 if response else 0x0100) | rcode
    q = dns_name(name) + struct.pack("!HH", 1, 1)
    if not response:
        return struct.pack("!HHHHHH", ident, flags, 1, 0, 0, 0) + q
    ans = b"\xc0\x0c" + struct.pack("!HHIH", 1, 1, 60, 4) + bytes([10, 0, 0, 1])
    return struct.pack("!HHHHHH", ident, flags, 1, 1, 0, 0) + q + ans


def dns_parse(data: bytes):
    ident, flags, qd, _an, _ns, _ar = struct.unpack_from("!HHHHHH", data, 0)
    pos, labels = 12, []
    if qd:
        while pos < len(data) and data[pos] != 0 and data[pos] < 64:
            ln = data[pos]
            labels.append(data[pos + 1: pos + 1 + ln])
            pos += 1 + ln
    return {"id": ident, "response": bool(flags & 0x8000), "rcode": flags & 0xF, "name": b".".join(labels)}


class DnsAdapter(Adapter):
    proto = "dns"
    multiplexed = True
    transport = "udp"

    def make_layer(self, ctx):
        from mitmproxy.proxy.layers import dns

        return dns.DNSLayer(ctx)

    async def setup(self):
        from mitmproxy.proxy import events

        await self.drv.h.server_event(events.Start())
        await self.drv.settle()

    def wire(self, m):
        name = (bd(m["n"]) + b".example.com").decode()
        if m["to"] == "s":
            return "c", dns_packet(100 + m["f"], name, response=False)
        return "s", dns_packet(100 + m["f"], name, response=True)

    def message_of_hook(self, hook):
        if hook.name not in ("dns_request", "dns_response"):
            return None
        f = hook.args()[0]
        msg = f.request if hook.name == "dns_request" else f.response
        toks = scan(_BD, msg.questions[0].name.encode()) if msg and msg.questions else []
        return (f, toks[0] % EDIT if toks else 0)

    def edit(self, flow, n, new, body=True):
        msg = flow.response if flow.response is not None else flow.request
        msg.questions[0].name = (bd(new) + b".example.com").decode()

    def project(self, to, data):
        try:
            p = dns_parse(data)
        except Exception:
            return [{"hd": [], "bd": [0], "fin": []}]
        if p["response"] and p["rcode"] != 0:
            return [{"abort": p["id"] - 100}]
        return [{"hd": [], "bd": scan(_BD, p["name"]), "fin": []}]

    def project_close(self, to, half):
        return [{"abort": 0}]


class Http1Adapter(Adapter):
    proto = "http1"
    preopen_server = False

    def make_layer(self, ctx):
        from mitmproxy.proxy.layers import http

        self.last_head: dict[str, int] = {}  # newest message head written to each peer (HTTP/1 is sequential)
        return http.HttpLayer(ctx, http.HTTPMode.regular)

    async def setup(self):
        from mitmproxy.proxy import events

        await self.drv.h.server_event(events.Start())
        await self.drv.settle()

    def wire(self, m):
        n = m["n"]
        body = bd(n)
        if self.drv.bodiless(n):
            framing = b"\r\n" if m["to"] == "s" else b"Content-Length: 0\r\n\r\n"
        elif self.drv.streamed(n):  # a streamed message is only observable to its end if it is chunked
            framing = b"Transfer-Encoding: chunked\r\n\r\n%x\r\n" % len(body) + body + b"\r\n0\r\n\r\n"
        else:
            framing = b"Content-Length: %d\r\n\r\n" % len(body) + body
        if m["to"] == "s":
            method = b"GET" if self.drv.bodiless(n) else b"POST"
            return "c", method + b" http://example.com/" + hd(n) + b" HTTP/1.1\r\nHost: example.com\r\n" + framing
        return "s", b"HTTP/1.1 200 OK\r\nx-tok: " + hd(n) + b"\r\n" + framing

    @staticmethod
    def _head_token(msg, is_request) -> int:
        if msg is None:
            return 0
        src = msg.path.encode() if is_request else msg.headers.get("x-tok", "").encode()
        toks = scan(_HD, src)
        return toks[0] % EDIT if toks else 0

    def message_of_hook(self, hook):
        if hook.name not in ("request", "response"):
            return None
        f = hook.args()[0]
        return (f, self._head_token(f.request if hook.name == "request" else f.response, hook.name == "request"))

    def stream_hook(self, hook):
        if hook.name == "requestheaders":
            f = hook.args()[0]
            if self.drv.streamed(self._head_token(f.request, True)):
                f.request.stream = True
        elif hook.name == "responseheaders":
            f = hook.args()[0]
            if self.drv.streamed(self._head_token(f.response, False)):
                f.response.stream = True

    def project(self, to, data):
        heads = scan(_HD, data)
        if heads:
            self.last_head[to] = heads[-1] % EDIT
        last_chunk = data == b"0\r\n\r\n" or data.endswith(b"\r\n0\r\n\r\n")  # (not "Content-Length: 0")
        fin = [self.last_head[to]] if last_chunk and self.last_head.get(to) else []
        return [{"hd": heads, "bd": scan(_BD, data), "fin": fin}]

    def edit(self, flow, n, new, body=True):
        content = bd(new) if body else b""  # an edit may give a bodiless message a body or take the body away
        if flow.response is not None:
            flow.response.headers["x-tok"] = hd(new).decode()
            flow.response.content = content
        else:
            flow.request.path = "/" + hd(new).decode()
            flow.request.content = content


class Http2Adapter(Http1Adapter):
    proto = "http2"
    multiplexed = True
    server_alpn = b"h2"

    def make_layer(self, ctx):
        import h2.config
        import h2.connection
        from mitmproxy.proxy.layers import http

        ctx.client.alpn = b"h2"
        self.peer = {"c": h2.connection.H2Connection(h2.config.H2Configuration(client_side=True, header_encoding="utf-8")),
                     "s": h2.connection.H2Connection(h2.config.H2Configuration(client_side=False, header_encoding="utf-8"))}
        self.sid_of_flow: dict[int, int] = {}  # client stream id per flow
        self.flow_of_sid = {"c": {}, "s": {}}
        self.server_ready = False
        self.peer["c"].initiate_connection()
        return http.HttpLayer(ctx, http.HTTPMode.regular)

    async def setup(self):
        from mitmproxy.proxy import events

        await self.drv.h.server_event(events.Start())
        await self.drv.settle()
        c = self.peer["c"]
        await self.drv.deliver("c", c.data_to_send())
        await self.drv.settle()

    def wire(self, m):
        n, f = m["n"], m["f"]
        if m["to"] == "s":
            c = self.peer["c"]
            sid = c.get_next_available_stream_id()
            self.sid_of_flow[f] = sid
            self.flow_of_sid["c"][sid] = f
            nobody = self.drv.bodiless(n)
            c.send_headers(sid, [(":method", "GET" if nobody else "POST"), (":scheme", "http"),
                                 (":path", "/" + hd(n).decode()), (":authority", "example.com")], end_stream=nobody)
            if not nobody:
                c.send_data(sid, bd(n), end_stream=True)
            return "c", c.data_to_send()
        s = self.peer["s"]
        sid = next(k for k, v in self.flow_of_sid["s"].items() if v == f)
        nobody = self.drv.bodiless(n)
        s.send_headers(sid, [(":status", "200"), ("x-tok", hd(n).decode())], end_stream=nobody)
        if not nobody:
            s.send_data(sid, bd(n), end_stream=True)
        return "s", s.data_to_send()

    def project(self, to, data):
        import h2.events

        p = self.peer[to]
        out = []
        if to == "s" and not self.server_ready:
            self.server_ready = True
            p.initiate_connection()
        try:
            evs = p.receive_data(data)
        except Exception:
            return [{"hd": [], "bd": [0], "fin": []}]
        for ev in evs:
            if isinstance(ev, (h2.events.RequestReceived, h2.events.ResponseReceived)):
                toks = []
                for k, v in ev.headers:
                    toks += scan(_HD, v.encode() if isinstance(v, str) else v)
                if isinstance(ev, h2.events.RequestReceived) and toks:
                    # which flow a server-side stream belongs to: learned from the request head
                    self.flow_of_sid["s"][ev.stream_id] = self.drv.flow_of_message(toks[0] % EDIT)
                out.append({"hd": toks, "bd": [], "fin": []})
            elif isinstance(ev, h2.events.DataReceived):
                p.acknowledge_received_data(ev.flow_controlled_length, ev.stream_id)
                out.append({"hd": [], "bd": scan(_BD, ev.data), "fin": []})
            elif isinstance(ev, h2.events.StreamEnded):
                f = self.flow_of_sid[to].get(ev.stream_id, 0)
                if f:  # the request (to the server) or the response (to the client) of flow f ended cleanly
                    out.append({"hd": [], "bd": [], "fin": [2 * f - 1 if to == "s" else 2 * f]})
            elif isinstance(ev, h2.events.StreamReset):
                out.append({"abort": self.flow_of_sid[to].get(ev.stream_id, 0)})
            elif isinstance(ev, h2.events.ConnectionTerminated):
                out.append({"abort": 0})
        pending = p.data_to_send()
        if pending:
            self.drv.peer_out.append((to, pending))  # settings acks, window updates: a well-behaved peer
        return out


ADAPTERS = {a.proto: a for a in (TcpAdapter, UdpAdapter, WsAdapter, DnsAdapter, Http1Adapter, Http2Adapter)}


# ---------------------------------------------------------------------------------------------------------
# the driver
# ---------------------------------------------------------------------------------------------------------


class _Writer:
    def __init__(self, drv, name, info):
        self.drv, self.name, self.info, self.closed = drv, name, info, False

    def get_extra_info(self, k, default=None):
        return self.info.get(k, default)

    def write(self, data):
        self.drv.on_write(self.name, bytes(data))

    def is_closing(self):
        return self.closed

    def write_eof(self):
        pass

    def close(self):
        self.closed = True

    async def drain(self):
        pass


class Driver:
    """One client connection of a real ProxyConnectionHandler."""

    def __init__(self, proto: str, plan: dict, streams=(), nobody=()):
        self.proto = proto
        self.plan = plan  # message number (str) -> addon decision "pass" | "intercept" | "kill"
        self.streams = {int(x) for x in streams}  # http messages whose body the addon asks to stream
        self.nobody = {int(x) for x in nobody}  # http messages that arrive as a head without body
        self.trace: list[dict] = [{"k": "cfg", "proto": proto}]
        self.peer_out: list[tuple[str, bytes]] = []
        self.flows: dict[int, object] = {}  # flow index -> Flow object (learned at its first message hook)
        self.msgs: dict[int, dict] = {}  # message number -> {n, f, to}
        self.pending_hooks: dict[int, int] = {}  # id(hook) -> n
        self.crashed = False
        self.adapter: Adapter = ADAPTERS[proto](self)

    # --- construction (inside the running loop) -------------------------------------------------------
    def build(self):
        from mitmproxy import connection
        from mitmproxy.connection import ConnectionState
        from mitmproxy.proxy import context, mode_servers, server
        from mitmproxy.proxy.mode_specs import ProxyMode
        from vf import sansio

        drv = self
        ad = self.adapter

        class Addons:
            async def handle_lifecycle(self, hook):
                drv.addon(hook)

        class Master:
            addons = Addons()

        class Handler(mode_servers.ProxyConnectionHandler):
            async def handle_hook(self, hook):
                await super().handle_hook(hook)  # the real disarm / handle_lifecycle / wait_for_resume
                drv.on_hook_return(hook)

            async def open_connection(self, command):
                await drv.open_connection(command)

            def close_connection(self, conn, half_close=False):
                drv.on_close(conn, half_close)
                super().close_connection(conn, half_close)

            def log(self, message, level=20, exc_info=None):
                if "crashed" in message:
                    drv.crashed = True
                    drv.trace.append({"k": "raised", "exc": "crash"})

        global _OPTS
        if _OPTS is None:  # options are only read by the layers; building them costs ~1 ms per scenario
            _OPTS = sansio.make_options()
        opts = _OPTS
        cinfo = {"peername": ("client", 1234), "sockname": ("127.0.0.1", 8080), "transport_protocol": ad.transport}
        self.h = h = Handler(Master(), None, _Writer(self, "c", cinfo), opts, ProxyMode.parse("regular"))
        self.client = h.client
        self.server = connection.Server(address=("example.com", 80), transport_protocol=ad.transport)
        ctx = context.Context(h.client, opts)
        ctx.server = self.server
        if ad.preopen_server:
            self.server.state = ConnectionState.OPEN
            self.server.timestamp_start = 1605699330
            self.server.peername = ("example.com", 80)
            h.transports[self.server] = server.ConnectionIO(handler=None, reader=None,
                                                            writer=_Writer(self, "s", {}))
            h.transports[self.server].handler = asyncio.ensure_future(self.conn_task(self.server))
        h.transports[h.client].handler = asyncio.ensure_future(self.conn_task(h.client))
        h.layer = ad.make_layer(ctx)
        self.names = {id(h.client): "c"}

    def name(self, conn) -> str:
        return "c" if conn is self.client else "s"

    async def conn_task(self, conn):
        """Stands for handle_connection: when cancelled by close_connection it reports the close."""
        from mitmproxy.connection import ConnectionState
        from mitmproxy.proxy import events

        try:
            await asyncio.Event().wait()
        except asyncio.CancelledError:
            pass
        conn.state = ConnectionState.CLOSED
        await self.h.server_event(events.ConnectionClosed(conn))
        self.h.transports.pop(conn, None)

    async def open_connection(self, command):
        from mitmproxy.connection import ConnectionState
        from mitmproxy.proxy import events, server

        conn = command.connection
        conn.timestamp_start = 1605699330
        conn.state = ConnectionState.OPEN
        conn.peername = conn.address
        conn.sockname = ("127.0.0.1", 50000)
        if self.adapter.server_alpn:
            conn.alpn = self.adapter.server_alpn
        self.server = conn
        self.h.transports[conn] = server.ConnectionIO(handler=asyncio.current_task(), reader=None,
                                                      writer=_Writer(self, "s", {}))
        await self.h.server_event(events.OpenConnectionCompleted(command, None))
        await self.conn_task(conn)

    # --- observations ---------------------------------------------------------------------------------
    def streamed(self, n: int) -> bool:
        return n in self.streams and self.proto in ("http1", "http2")

    def bodiless(self, n: int) -> bool:
        return n in self.nobody and self.proto in ("http1", "http2") and not self.streamed(n)

    def flow_of_message(self, n: int) -> int:
        return self.msgs.get(n, {}).get("f", 0)

    def flow_index(self, flow) -> int:
        for k, v in self.flows.items():
            if v is flow:
                return k
        return 0

    def addon(self, hook):
        """The scripted intercept addon (plus a script that may kill inside the hook, plus a streaming addon)."""
        self.adapter.stream_hook(hook)
        mh = self.adapter.message_of_hook(hook)
        if mh is None:
            return
        flow, n = mh
        f = self.flow_of_message(n)
        if f and f not in self.flows:
            self.flows[f] = flow
        d = self.plan.get(str(n), "pass")
        self.pending_hooks[id(hook)] = n
        ok = d != "kill" or bool(flow.killable)
        self.trace.append({"k": "hook", "n": n, "f": f, "d": d, "ok": ok})
        if d == "intercept":
            flow.intercept()
        elif d == "kill" and ok:
            flow.kill()

    def on_hook_return(self, hook):
        n = self.pending_hooks.pop(id(hook), None)
        if n is not None:
            self.trace.append({"k": "release", "n": n, "f": self.flow_of_message(n)})

    def _add(self, to, items):
        for it in items:
            if "abort" in it:
                self.trace.append({"k": "abort", "to": to, "f": it["abort"]})
            elif it["hd"] or it["bd"] or it["fin"]:
                last = self.trace[-1]
                if last["k"] == "write" and last["to"] == to:  # consecutive writes to one peer are one record
                    last["hd"] += it["hd"]
                    last["bd"] += it["bd"]
                    last["fin"] += it["fin"]
                else:
                    self.trace.append({"k": "write", "to": to, "hd": list(it["hd"]), "bd": list(it["bd"]),
                                       "fin": list(it["fin"])})

    def on_write(self, to, data):
        self._add(to, self.adapter.project(to, data))

    def on_close(self, conn, half):
        self._add(self.name(conn), self.adapter.project_close(self.name(conn), half))

    # --- environment ----------------------------------------------------------------------------------
    async def settle(self):
        from vf import vloop

        for _ in range(50):
            await vloop.settle()
            if not self.peer_out:
                return
            out, self.peer_out = self.peer_out, []
            for to, data in out:
                await self.deliver(to, data)

    async def deliver(self, frm: str, data: bytes):
        from mitmproxy.proxy import events

        conn = self.client if frm == "c" else self.server
        if data and conn in self.h.transports:
            await self.h.server_event(events.DataReceived(conn, data))

    def conn_open(self, frm: str) -> bool:
        from mitmproxy.connection import ConnectionState

        conn = self.client if frm == "c" else self.server
        return conn in self.h.transports and bool(conn.state & ConnectionState.CAN_READ)

    async def op(self, op) -> bool:
        kind = op[0]
        if self.crashed:
            return False
        if kind == "arrive":
            m = {"n": op[1], "f": op[2], "to": op[3]}
            if m["n"] in self.msgs:
                return False
            frm = "c" if m["to"] == "s" else "s"
            if not self.conn_open(frm):
                return False
            self.msgs[m["n"]] = m
            try:
                frm, data = self.adapter.wire(m)
            except Exception:
                del self.msgs[m["n"]]
                return False  # the peer cannot produce this message now (e.g. no stream to answer on)
            self.trace.append({"k": "arrive", "n": m["n"], "f": m["f"], "to": m["to"], "str": self.streamed(m["n"]),
                               "body": not self.bodiless(m["n"])})
            await self.deliver(frm, data)
            await self.settle()
        elif kind == "resume":
            flow = self.flows.get(op[1])
            if flow is None:
                return False
            self.trace.append({"k": "resume", "f": op[1]})
            flow.resume()
        elif kind == "kill":
            flow = self.flows.get(op[1])
            if flow is None:
                return False
            ok = bool(flow.killable)
            self.trace.append({"k": "kill", "f": op[1], "ok": ok})
            if ok:  # what flow.kill / the web app / view.flows.remove do
                flow.kill()
        elif kind == "edit":
            f = op[1]
            flow = self.flows.get(f)
            held = [n for n in self.pending_hooks.values() if self.flow_of_message(n) == f and not self.streamed(n)]
            if flow is None or not held:  # (the body of a streamed message has left: there is nothing to edit)
                return False
            n = held[0]
            body = bool(op[2]) if len(op) > 2 else True
            if not body and self.proto not in ("http1", "http2"):
                return False
            self.trace.append({"k": "edit", "n": n, "f": f, "id": n + EDIT, "body": body})
            self.adapter.edit(flow, n, n + EDIT, body)
        elif kind == "run":
            self.trace.append({"k": "run"})
            await self.settle()
        else:
            return False
        return True

    def finish(self):
        fl = {}
        for f, flow in sorted(self.flows.items()):
            fl[str(f)] = {"err": flow.error is not None, "intercepted": bool(flow.intercepted),
                          "waiting": sum(1 for n in self.pending_hooks.values() if self.flow_of_message(n) == f)}
        self.trace.append({"k": "end", "flows": [dict(f=int(k), **v) for k, v in fl.items()]})
        return list(self.trace)  # (tasks cancelled during loop teardown must not add to the observation)


def run(proto: str, plan: dict, ops: list, choose=None, streams=(), nobody=()):
    """Run one scenario; `choose(drv)` (optional) yields further ops from the driver's state (random driver)."""
    from vf import vloop

    drv = Driver(proto, plan, streams, nobody)

    async def main(loop):
        drv.build()
        await drv.adapter.setup()
        for op in ops:
            if not await drv.op(op):
                break
        if choose is not None:
            while True:
                op = choose(drv)
                if op is None or not await drv.op(op):
                    break
        return drv.finish()

    return vloop.run(main)
