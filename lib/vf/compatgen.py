"""Harness-side BACKWARD converters for flow states (C38): state of format version v+1 -> a state of version v.

These are the harness's own inverse shape functions (written from the field lists of the shipped historical dumps,
see spec/Compat/README.md); they never call mitmproxy.io.compat.  Each takes and returns a plain tree
(dict/list/bytes/str/int/float/bool/None) with str keys.  Information that the newer format added is dropped;
information only the older format had is filled with the values the shipped dumps of that era carry.

CHAIN is the list of version labels, oldest first; BACK[label] converts a state of the NEXT label back to `label`.
"""
from __future__ import annotations

import copy

CHAIN = ["0.11", "0.12", "0.13", "0.14", "0.15", "0.16", "0.17", "0.18", "0.19", "1.0", "2.0", "3.0"] + [str(i) for i in range(4, 22)]
TUPLE_VERSIONS = {"0.11": (0, 11, 3), "0.12": (0, 12, 0), "0.13": (0, 13, 0), "0.14": (0, 14, 0), "0.15": (0, 15, 0),
                  "0.16": (0, 16, 0), "0.17": (0, 17, 0), "0.18": (0, 18, 2), "0.19": (0, 19, 0), "1.0": (1, 0, 0),
                  "2.0": (2, 0, 0), "3.0": (3, 0, 0)}


def version_value(label: str):
    return list(TUPLE_VERSIONS[label]) if label in TUPLE_VERSIONS else int(label)


def label_of(v) -> str:
    if isinstance(v, bool):
        return "bool"
    if isinstance(v, int):
        return str(v)
    if isinstance(v, (list, tuple)) and len(v) >= 2 and all(isinstance(x, int) for x in v[:2]):
        return "%d.%d" % (v[0], v[1])
    return "?"


def _conns(d):
    out = [d["client_conn"], d["server_conn"]]
    return out


def back_20(d):  # 21 -> 20 : QUICv1 was called QUIC
    for c in _conns(d):
        if c.get("tls_version") == "QUICv1":
            c["tls_version"] = "QUIC"


def back_19(d):  # 20 -> 19 : connection state was serialised
    d["client_conn"]["state"] = 0
    d["server_conn"]["state"] = 0


def back_18(d):  # 19 -> 18
    cc, sc = d["client_conn"], d["server_conn"]
    cc["address"] = cc.pop("peername")
    cc["tls_extensions"] = []
    sc["ip_address"] = sc.pop("peername")
    sc["source_address"] = sc.pop("sockname")
    sc["via2"] = sc.pop("via")
    sc["via"] = None
    for c in (cc, sc):
        c["tls_established"] = c.get("timestamp_tls_setup") is not None
        c["cipher_name"] = c.pop("cipher")
        c.pop("transport_protocol", None)


def back_17(d):  # 18 -> 17
    d["client_conn"].pop("proxy_mode")


def back_16(d):  # 17 -> 16
    d["mode"] = "regular"


def back_15(d):  # 16 -> 15
    d.pop("timestamp_created")


def back_14(d):  # 15 -> 14 : websocket messages had no `injected`
    if d.get("websocket"):
        d["websocket"]["messages"] = [m[:-1] for m in d["websocket"]["messages"]]


def back_13(d):  # 14 -> 13
    d.pop("comment")


def back_12(d):  # 13 -> 12 : marked was a bool
    d["marked"] = bool(d["marked"])


def back_11(d):  # 12 -> 11 : only for flows without websocket data (the websocket split is not inverted)
    d.pop("websocket", None)


def back_10(d):  # 11 -> 10
    for c in _conns(d):
        c["alpn_proto_negotiated"] = c.pop("alpn")


def back_9(d):  # 10 -> 9
    cc, sc = d["client_conn"], d["server_conn"]
    for c in (cc, sc):
        for k in ("state", "error", "tls", "alpn_offers", "cipher_list"):
            c.pop(k, None)
    cc.pop("sockname", None)
    cl = cc.pop("certificate_list", [])
    cc["clientcert"] = cl[0] if cl else None
    cl = sc.pop("certificate_list", [])
    sc["cert"] = cl[0] if cl else None
    sc.pop("cipher_name", None)
    sc.pop("via2", None)


def back_8(d):  # 9 -> 8
    rep = d.pop("is_replay", None)
    if "request" in d:
        d["request"]["first_line_format"] = "relative"
        d["request"].pop("authority", None)
        d["request"]["is_replay"] = rep == "request"
    if d.get("response"):
        d["response"]["is_replay"] = rep == "response"


def back_7(d):  # 8 -> 7
    for k in ("request", "response"):
        if d.get(k):
            d[k].pop("trailers", None)


def back_6(d):  # 7 -> 6
    d["client_conn"].pop("tls_extensions", None)


def back_5(d):  # 6 -> 5
    for c in _conns(d):
        c["ssl_established"] = c.pop("tls_established")
        c["timestamp_ssl_setup"] = c.pop("timestamp_tls_setup")


def back_4(d):  # 5 -> 4
    for c in _conns(d):
        c.pop("id", None)


def back_3_0(d):  # 4 -> (3,0): version scheme only
    pass


def back_2_0(d):  # (3,0) -> (2,0)
    d["client_conn"].pop("mitmcert", None)
    d["server_conn"].pop("tls_version", None)


def back_1_0(d):  # (2,0) -> (1,0): addresses were {"address": [host, port], "use_ipv6": bool}
    def wrap(a):
        return None if a is None else {"address": list(a[:2]), "use_ipv6": len(a) > 2 or ":" in str(a[0])}

    d["client_conn"]["address"] = wrap(d["client_conn"]["address"])
    sc = d["server_conn"]
    sc["address"] = wrap(sc["address"])
    sc["source_address"] = wrap(sc["source_address"]) or wrap(("", 0))
    sc["ip_address"] = wrap(sc["ip_address"])


def back_0_19(d):  # (1,0) -> (0,19): version only
    pass


def back_0_18(d):  # (0,19) -> (0,18)
    if "request" in d:
        d["request"]["stickyauth"] = False
        d["request"]["stickycookie"] = False
    for k in ("sni", "alpn_proto_negotiated", "cipher_name", "tls_version"):
        d["client_conn"].pop(k, None)
    d["server_conn"].pop("alpn_proto_negotiated", None)
    d.pop("mode", None)
    d.pop("metadata", None)


BACK = {"20": back_20, "19": back_19, "18": back_18, "17": back_17, "16": back_16, "15": back_15, "14": back_14,
        "13": back_13, "12": back_12, "11": back_11, "10": back_10, "9": back_9, "8": back_8, "7": back_7, "6": back_6,
        "5": back_5, "4": back_4, "3.0": back_3_0, "2.0": back_2_0, "1.0": back_1_0, "0.19": back_0_19,
        "0.18": back_0_18}
OLDEST_SYNTHETIC = "0.18"


def to_lists(t):
    if isinstance(t, dict):
        return {k: to_lists(v) for k, v in t.items()}
    if isinstance(t, (list, tuple)):
        return [to_lists(v) for v in t]
    return t


def downgrade(state: dict, target: str) -> dict | None:
    """Convert a CURRENT state (version CHAIN[-1]) back to format `target`.  None if not invertible for this state
    (websocket data below 12; flow types that did not exist yet)."""
    d = to_lists(copy.deepcopy(state))
    d.pop("backup", None) if CHAIN.index(target) < CHAIN.index("21") else None
    i = len(CHAIN) - 1
    t = CHAIN.index(target)
    ftype = d.get("type")
    while i > t:
        label = CHAIN[i - 1]
        if label == "11" and d.get("websocket"):
            return None
        if ftype in ("dns", "udp") and CHAIN.index(label) < CHAIN.index("18"):
            return None  # DNS/UDP flows did not exist before the proxy_mode era
        if ftype == "tcp" and CHAIN.index(label) < CHAIN.index("0.18"):
            return None
        BACK[label](d)
        i -= 1
        d["version"] = version_value(label)
    return d


def split_websocket(d: dict) -> list[dict]:
    """Inverse of convert_11_12 for an HTTP flow state of format 12 that carries WebSocket data: formats <= 11 stored
    the handshake as an HTTP record (metadata websocket=True) followed by a record of type "websocket" that refers
    to it (field list taken from the shipped dumpfile-7-websocket.mitm)."""
    import uuid

    ws = d.pop("websocket")
    hs = d
    hs["metadata"] = dict(hs.get("metadata") or {}, websocket=True)
    rec = {
        "type": "websocket", "id": str(uuid.UUID(int=(uuid.UUID(hs["id"]).int ^ 0xFFFF))), "version": hs["version"],
        "error": None, "intercepted": False, "marked": hs["marked"], "is_replay": hs.get("is_replay"),
        "metadata": {"websocket_handshake": hs["id"]},
        "client_conn": copy.deepcopy(hs["client_conn"]), "server_conn": copy.deepcopy(hs["server_conn"]),
        "messages": [list(m) for m in ws["messages"]],
        "close_sender": "client" if ws["closed_by_client"] else "server",
        "close_code": ws["close_code"], "close_reason": ws["close_reason"], "close_message": "(message missing)",
        "client_key": "psOeQKar8m7Otzq5uzGAhw==", "client_protocol": None, "client_extensions": "permessage-deflate",
        "server_accept": "KHQasWKt4lBrFLDDBlc9uW9oLDc=", "server_protocol": None, "server_extensions": None,
    }
    return [hs, rec]


OLDEST_WEBSOCKET_PAIR = "5"


def downgrade_records(state: dict, target: str) -> list[dict] | None:
    """Like downgrade(), but a flow with WebSocket data is split into its handshake + websocket records below 12."""
    if not state.get("websocket") or CHAIN.index(target) >= CHAIN.index("12"):
        d = downgrade(state, target)
        return None if d is None else [d]
    if CHAIN.index(target) < CHAIN.index(OLDEST_WEBSOCKET_PAIR):
        return None
    d12 = downgrade(state, "12")
    recs = split_websocket(d12)
    i = CHAIN.index("12")
    while i > CHAIN.index(target):
        label = CHAIN[i - 1]
        for r in recs:
            if label != "11":
                BACK[label](r)
            r["version"] = version_value(label)
        i -= 1
    for r in recs:
        if r["type"] == "websocket":
            r.pop("is_replay", None) if CHAIN.index(target) < CHAIN.index("9") else None
    return recs


# ---- shape facts ---------------------------------------------------------------------------------------------
def _s(k):
    return k.decode("ascii", "replace") if isinstance(k, bytes) else k


def shape_of(data: dict, universe) -> list[str]:
    """Which of the tracked key-presence facts hold for a (possibly old, possibly bytes-keyed) flow state."""
    facts = set()
    top = {_s(k): v for k, v in data.items()}
    for k, v in top.items():
        facts.add(k)
        if k in ("client_conn", "server_conn", "request", "response", "websocket") and isinstance(v, dict):
            pre = {"client_conn": "cc", "server_conn": "sc", "request": "rq", "response": "rs", "websocket": "ws"}[k]
            for kk in v:
                facts.add(pre + "." + _s(kk))
        if k == "response" and v is None:
            facts.discard("response")
        if k == "websocket" and v is None:
            facts.discard("websocket")
            facts.add("websocket:none")
    m = top.get("marked")
    if isinstance(m, bool):
        facts.add("marked:bool")
    elif isinstance(m, str):
        facts.add("marked:str")
    if any(isinstance(k, bytes) for k in data):
        facts.add("keys:bytes")
    return sorted(f for f in facts if f in universe)
