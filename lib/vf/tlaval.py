"""Parser for TLA+ values as TLC prints them (state dumps, PrintT output, -simulate files).

Python image of a TLA+ value:
  integer -> int, string -> str, TRUE/FALSE -> bool, model value / identifier -> Sym(name)
  <<a, b>> -> tuple, {a, b} -> frozenset, [f |-> v] -> dict (str keys), (k :> v @@ ...) -> dict
  a..b -> tuple(range)
"""
from __future__ import annotations


class Sym(str):
    """A model value / bare identifier."""

    def __repr__(self):
        return f"Sym({str.__repr__(self)})"


class FrozenDict(dict):
    def __hash__(self):  # type: ignore[override]
        return hash(tuple(sorted((repr(k), repr(v)) for k, v in self.items())))


class ParseError(ValueError):
    pass


class _P:
    def __init__(self, s: str):
        self.s = s
        self.i = 0

    def ws(self):
        s, n = self.s, len(self.s)
        while self.i < n and s[self.i] in " \t\r\n":
            self.i += 1

    def peek(self, k=1):
        return self.s[self.i : self.i + k]

    def expect(self, tok):
        self.ws()
        if not self.s.startswith(tok, self.i):
            raise ParseError(f"expected {tok!r} at {self.i}: {self.s[self.i:self.i+40]!r}")
        self.i += len(tok)

    def value(self):
        self.ws()
        s = self.s
        c = self.peek()
        if c == "":
            raise ParseError("unexpected end")
        if self.peek(2) == "<<":
            self.i += 2
            items = self.items(">>")
            return tuple(items)
        if c == "{":
            self.i += 1
            items = self.items("}")
            try:
                return frozenset(items)
            except TypeError:
                return tuple(items)
        if c == "[":
            self.i += 1
            d = FrozenDict()
            self.ws()
            if self.peek() == "]":
                self.i += 1
                return d
            while True:
                self.ws()
                j = self.i
                while self.i < len(s) and (s[self.i].isalnum() or s[self.i] == "_"):
                    self.i += 1
                key = s[j : self.i]
                self.expect("|->")
                d[key] = self.value()
                self.ws()
                if self.peek() == ",":
                    self.i += 1
                    continue
                self.expect("]")
                return d
        if c == "(":
            self.i += 1
            d = FrozenDict()
            while True:
                k = self.value()
                self.expect(":>")
                v = self.value()
                d[k] = v
                self.ws()
                if self.peek(2) == "@@":
                    self.i += 2
                    continue
                self.expect(")")
                return d
        if c == '"':
            self.i += 1
            out = []
            while True:
                if self.i >= len(s):
                    raise ParseError("unterminated string")
                ch = s[self.i]
                if ch == "\\":
                    nx = s[self.i + 1]
                    out.append({"n": "\n", "t": "\t", "r": "\r", "f": "\f"}.get(nx, nx))
                    self.i += 2
                elif ch == '"':
                    self.i += 1
                    return "".join(out)
                else:
                    out.append(ch)
                    self.i += 1
        if c == "-" or c.isdigit():
            j = self.i
            self.i += 1
            while self.i < len(s) and s[self.i].isdigit():
                self.i += 1
            n = int(s[j : self.i])
            if self.peek(2) == "..":
                self.i += 2
                m = self.value()
                return tuple(range(n, m + 1))
            return n
        if c.isalpha() or c == "_":
            j = self.i
            while self.i < len(s) and (s[self.i].isalnum() or s[self.i] == "_"):
                self.i += 1
            w = s[j : self.i]
            if w == "TRUE":
                return True
            if w == "FALSE":
                return False
            return Sym(w)
        raise ParseError(f"unexpected {c!r} at {self.i}: {s[self.i:self.i+40]!r}")

    def items(self, close):
        out = []
        self.ws()
        if self.s.startswith(close, self.i):
            self.i += len(close)
            return out
        while True:
            out.append(self.value())
            self.ws()
            if self.peek() == ",":
                self.i += 1
                continue
            self.expect(close)
            return out


def parse_value(s: str):
    p = _P(s)
    v = p.value()
    p.ws()
    if p.i != len(p.s):
        raise ParseError(f"trailing text at {p.i}: {p.s[p.i:p.i+40]!r}")
    return v


def parse_state(text: str) -> dict:
    """Parse a TLC state conjunction '/\\ x = v\\n/\\ y = w' into {var: value}."""
    p = _P(text)
    st = {}
    while True:
        p.ws()
        if p.i >= len(p.s):
            return st
        p.expect("/\\")
        p.ws()
        j = p.i
        while p.i < len(p.s) and (p.s[p.i].isalnum() or p.s[p.i] == "_"):
            p.i += 1
        name = p.s[j : p.i]
        p.expect("=")
        st[name] = p.value()


def to_tla(v) -> str:
    """Render a Python value as a TLA+ expression (inverse of parse_value, for cfg constants)."""
    if isinstance(v, bool):
        return "TRUE" if v else "FALSE"
    if isinstance(v, Sym):
        return str(v)
    if isinstance(v, int):
        return str(v)
    if isinstance(v, str):
        return '"' + v.replace("\\", "\\\\").replace('"', '\\"') + '"'
    if isinstance(v, (tuple, list)):
        return "<<" + ", ".join(to_tla(x) for x in v) + ">>"
    if isinstance(v, (set, frozenset)):
        return "{" + ", ".join(sorted(to_tla(x) for x in v)) + "}"
    if isinstance(v, dict):
        if all(isinstance(k, str) and not isinstance(k, Sym) and k.isidentifier() for k in v):
            return "[" + ", ".join(f"{k} |-> {to_tla(x)}" for k, x in v.items()) + "]"
        return "(" + " @@ ".join(f"{to_tla(k)} :> {to_tla(x)}" for k, x in v.items()) + ")"
    raise TypeError(type(v))


def to_py(v):
    """Strip parser wrappers: Sym -> str, FrozenDict -> dict, frozenset -> sorted list (JSON-able)."""
    if isinstance(v, bool) or isinstance(v, int):
        return v
    if isinstance(v, str):
        return str(v)
    if isinstance(v, tuple):
        return [to_py(x) for x in v]
    if isinstance(v, frozenset):
        return sorted((to_py(x) for x in v), key=repr)
    if isinstance(v, dict):
        return {str(k) if isinstance(k, str) else repr(k): to_py(x) for k, x in v.items()}
    return v
