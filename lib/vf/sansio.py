"""Sans-io driver for mitmproxy's real protocol layers.

Plays the role of mitmproxy.proxy.server.ConnectionHandler.server_event without any I/O: events are fed to
`layer.handle_event`, the commands are collected, blocking commands (hooks, OpenConnection) are kept in a table
and completed when the scenario says so.  Connection state bits are updated exactly where server.py updates them
(open_connection / handle_connection / close_connection), so layer code that consults them sees what it would see
live.  Everything observed is appended to `self.log` as small dict records for the property's projection.
"""
from __future__ import annotations

import logging
from typing import Any, Callable

from mitmproxy import connection, options
from mitmproxy.connection import ConnectionState
from mitmproxy.proxy import commands, context, events, layer
from mitmproxy.proxy.mode_specs import ProxyMode


def make_options(**kw) -> options.Options:
    from mitmproxy.addons.proxyserver import Proxyserver

    opts = options.Options()
    Proxyserver().load(opts)
    # options that individual addons add and that layers read
    from mitmproxy.addons import next_layer as _nl  # noqa: F401

    for k, v in kw.items():
        try:
            opts.update(**{k: v})
        except KeyError:
            # option owned by an addon that is not loaded in the harness: register it ad hoc
            opts.add_option(k, type(v) if v is not None else str | None, v, "")  # type: ignore
    return opts


def make_client(transport="tcp", mode="regular", peer=("client", 1234), sock=("127.0.0.1", 8080)) -> connection.Client:
    c = connection.Client(peername=peer, sockname=sock, timestamp_start=1605699329, state=ConnectionState.OPEN,
                          transport_protocol=transport)
    c.proxy_mode = ProxyMode.parse(mode)
    return c


def make_context(opts=None, **client_kw) -> context.Context:
    return context.Context(make_client(**client_kw), opts or make_options())


class Driver:
    def __init__(self, ctx: context.Context, top: layer.Layer, *, on_hook: Callable[["Driver", commands.StartHook], Any] | None = None,
                 auto_hooks: bool = False):
        self.ctx = ctx
        self.layer = top
        self.log: list[dict] = []  # chronological: {"t":"cmd"|"ev", ...}
        self.pending: list[commands.Command] = []  # outstanding blocking commands, in order of appearance
        self.transports: set = {ctx.client}
        self.sent: dict[Any, bytearray] = {}
        self.conn_names: dict[int, str] = {id(ctx.client): "client"}
        self._conns: dict[int, Any] = {id(ctx.client): ctx.client}
        self.on_hook = on_hook
        self.auto_hooks = auto_hooks
        self.commands: list[commands.Command] = []
        self.crashed: str | None = None

    # --- naming -------------------------------------------------------------------------------------
    def name(self, conn) -> str:
        n = self.conn_names.get(id(conn))
        if n is None:
            n = f"server{sum(1 for v in self.conn_names.values() if v.startswith('server')) + 1}"
            self.conn_names[id(conn)] = n
            self._conns[id(conn)] = conn
        return n

    def conn(self, name: str):
        for k, v in self.conn_names.items():
            if v == name:
                return self._conns[k]
        raise KeyError(name)

    # --- feeding ------------------------------------------------------------------------------------
    def feed(self, event: events.Event) -> list[commands.Command]:
        out = []
        for cmd in self.layer.handle_event(event):
            out.append(cmd)
            self._apply(cmd)
        if self.auto_hooks:
            while True:
                hooks = [c for c in self.pending if isinstance(c, commands.StartHook)]
                if not hooks:
                    break
                out += self.complete(hooks[0])
        return out

    def _apply(self, cmd: commands.Command):
        self.commands.append(cmd)
        if isinstance(cmd, commands.Log):
            if cmd.level >= logging.ERROR and "crashed" in cmd.message:
                self.crashed = cmd.message
            self.log.append({"t": "log", "msg": cmd.message, "level": cmd.level})
            return
        if isinstance(cmd, commands.OpenConnection):
            self.name(cmd.connection)
            self.transports.add(cmd.connection)
            self.pending.append(cmd)
            self.log.append({"t": "open", "c": self.name(cmd.connection), "cmd": cmd})
        elif isinstance(cmd, commands.RequestWakeup):
            self.pending.append(cmd)
            self.log.append({"t": "wakeup", "delay": cmd.delay, "cmd": cmd})
        elif isinstance(cmd, commands.ConnectionCommand) and cmd.connection not in self.transports:
            self.log.append({"t": "ignored", "c": self.name(cmd.connection), "cmd": cmd})
        elif isinstance(cmd, commands.SendData):
            self.sent.setdefault(self.name(cmd.connection), bytearray()).extend(cmd.data)
            self.log.append({"t": "send", "c": self.name(cmd.connection), "data": bytes(cmd.data), "cmd": cmd})
        elif isinstance(cmd, commands.CloseTcpConnection):
            self._close(cmd.connection, cmd.half_close)
            self.log.append({"t": "close", "c": self.name(cmd.connection), "half": cmd.half_close, "cmd": cmd})
        elif isinstance(cmd, commands.CloseConnection):
            self._close(cmd.connection, False)
            self.log.append({"t": "close", "c": self.name(cmd.connection), "half": False, "cmd": cmd})
        elif isinstance(cmd, commands.StartHook):
            self.log.append({"t": "hook", "name": cmd.name, "cmd": cmd, "data": cmd.args()[0] if cmd.args() else None})
            if cmd.blocking:
                self.pending.append(cmd)
            if self.on_hook is not None:
                self.on_hook(self, cmd)
        else:
            self.log.append({"t": "other", "cmd": cmd})

    def _close(self, conn, half: bool):
        # mirrors ConnectionHandler.close_connection (+ the handler task ending once fully closed)
        if half:
            if not conn.state & ConnectionState.CAN_WRITE:
                return
            conn.state &= ~ConnectionState.CAN_WRITE
        else:
            conn.state = ConnectionState.CLOSED
        if conn.state is ConnectionState.CLOSED:
            self.transports.discard(conn)

    # --- environment actions ------------------------------------------------------------------------
    def start(self):
        return self.feed(events.Start())

    def data(self, conn, data: bytes):
        if isinstance(conn, str):
            conn = self.conn(conn)
        self.log.append({"t": "in", "c": self.name(conn), "data": data})
        return self.feed(events.DataReceived(conn, data))

    def peer_close(self, conn):
        """The peer closed its side (EOF).  Mirrors the tail of handle_connection."""
        if isinstance(conn, str):
            conn = self.conn(conn)
        if conn.transport_protocol == "tcp":
            conn.state &= ~ConnectionState.CAN_READ
        else:
            conn.state = ConnectionState.CLOSED
        self.log.append({"t": "closed_in", "c": self.name(conn)})
        out = self.feed(events.ConnectionClosed(conn))
        if conn.state is not ConnectionState.CAN_WRITE:
            conn.state = ConnectionState.CLOSED
            self.transports.discard(conn)
        return out

    def hooks_pending(self, name: str | None = None):
        return [c for c in self.pending if isinstance(c, commands.StartHook) and (name is None or c.name == name)]

    def opens_pending(self):
        return [c for c in self.pending if isinstance(c, commands.OpenConnection)]

    def complete(self, cmd: commands.Command, reply=None):
        """Complete an outstanding blocking command (HookCompleted / OpenConnectionCompleted / Wakeup)."""
        self.pending.remove(cmd)
        if isinstance(cmd, commands.OpenConnection):
            if reply is None:
                cmd.connection.state = ConnectionState.OPEN
                cmd.connection.peername = cmd.connection.address
                cmd.connection.sockname = ("127.0.0.1", 50000)
                cmd.connection.timestamp_start = 1605699330
                cmd.connection.timestamp_tcp_setup = 1605699331
            else:
                cmd.connection.error = reply
                self.transports.discard(cmd.connection)
            self.log.append({"t": "open_done", "c": self.name(cmd.connection), "err": reply})
            return self.feed(events.OpenConnectionCompleted(cmd, reply))
        if isinstance(cmd, commands.RequestWakeup):
            return self.feed(events.Wakeup(cmd))
        assert isinstance(cmd, commands.StartHook)
        self.log.append({"t": "hook_done", "name": cmd.name, "cmd": cmd})
        return self.feed(events.HookCompleted(cmd))

    def inject(self, flow, message):
        return self.feed(events.MessageInjected(flow, message))

    # --- projections --------------------------------------------------------------------------------
    def hook_names(self):
        return [e["name"] for e in self.log if e["t"] == "hook"]

    def sent_to(self, name: str) -> bytes:
        return bytes(self.sent.get(name, b""))
