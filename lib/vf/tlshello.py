"""Independent ClientHello writer and reader (TLS and DTLS) for C13.

Nothing here imports mitmproxy.  The writer builds well-formed hellos from a small JSON-able spec and reports
the byte offsets of its tokens; the reader is a strict RFC 5246/6066/7301/6347 reader that honours every length
field, including record-layer reassembly (TLS: handshake bytes may span records; DTLS: handshake fragments,
each with its own 12-byte header).  The reader is the oracle of C13 for well-formed hellos only.
"""
from __future__ import annotations

import struct


class Malformed(Exception):
    pass


# ------------------------------------------------------------------------------------------------ writer
def _u8(n):
    return struct.pack("!B", n)


def _u16(n):
    return struct.pack("!H", n)


def _u24(n):
    return struct.pack("!I", n)[1:]


def enc_ext(ext) -> bytes:
    """ext: ["sni", host] | ["snilist", [[type, name], ...]] | ["alpn", [name, ...]] | ["raw", type, hexbody]
    (names/hosts are latin-1 strings; "alpn" with [] is an empty ProtocolNameList)"""
    kind = ext[0]
    if kind == "sni":
        host = ext[1].encode("latin-1")
        entry = b"\x00" + _u16(len(host)) + host
        body = _u16(len(entry)) + entry
        typ = 0
    elif kind == "snilist":  # ["snilist", [[name_type, name], ...]]: any ServerNameList, also empty / several names
        lst = b"".join(_u8(t) + _u16(len(n.encode("latin-1"))) + n.encode("latin-1") for t, n in ext[1])
        body = _u16(len(lst)) + lst
        typ = 0
    elif kind == "alpn":
        plist = b"".join(_u8(len(p.encode("latin-1"))) + p.encode("latin-1") for p in ext[1])
        body = _u16(len(plist)) + plist
        typ = 16
    else:
        typ = int(ext[1])
        body = bytes.fromhex(ext[2])
    return _u16(typ) + _u16(len(body)) + body


def build_body(spec) -> tuple[bytes, list[int]]:
    """ClientHello body (without handshake header) and the offsets of its token boundaries.

    spec: {"dtls": bool, "cver": [maj, min], "rand": int seed byte, "sid": int len, "cookie": int len,
           "suites": [int], "comp": [int], "exts": None | [ext, ...]}
    Token boundaries (offsets into the body, ascending, last = len(body)):
      after fixed part (version, random, session id, cookie) | after cipher suites | after compression methods |
      after (extensions length + first extension header) | after first extension | after each further extension.
    """
    out = bytearray()
    cuts = []
    out += bytes(spec["cver"])
    out += bytes((spec.get("rand", 7) + i) & 0xFF for i in range(32))
    sid = bytes((0xA0 + i) & 0xFF for i in range(spec.get("sid", 0)))
    out += _u8(len(sid)) + sid
    if spec.get("dtls"):
        ck = bytes((0xC0 + i) & 0xFF for i in range(spec.get("cookie", 0)))
        out += _u8(len(ck)) + ck
    cuts.append(len(out))
    out += _u16(2 * len(spec["suites"])) + b"".join(_u16(s) for s in spec["suites"])
    cuts.append(len(out))
    out += _u8(len(spec["comp"])) + bytes(spec["comp"])
    cuts.append(len(out))
    exts = spec.get("exts")
    if exts is not None:
        encs = [enc_ext(e) for e in exts]
        out += _u16(sum(len(e) for e in encs))
        for i, e in enumerate(encs):
            if i == 0:
                out += e[:4]
                cuts.append(len(out))
                out += e[4:]
            else:
                out += e
            cuts.append(len(out))
        if not encs:
            cuts.append(len(out))
    cuts = sorted(set(c for c in cuts if c > 0))
    if cuts[-1] != len(out):
        cuts.append(len(out))
    return bytes(out), cuts


def handshake_header(body_len: int, dtls: bool, *, msg_type=1, decl=None, seq=0, frag_off=0, frag_len=None) -> bytes:
    decl = body_len if decl is None else decl
    if not dtls:
        return _u8(msg_type) + _u24(decl)
    frag_len = decl if frag_len is None else frag_len
    return _u8(msg_type) + _u24(decl) + _u16(seq) + _u24(frag_off) + _u24(frag_len)


def record(payload: bytes, dtls: bool, *, ctype=0x16, ver=None, seq=0) -> bytes:
    if dtls:
        ver = ver or (0xFE, 0xFD)
        return _u8(ctype) + bytes(ver) + _u16(0) + struct.pack("!Q", seq)[2:] + _u16(len(payload)) + payload
    ver = ver or (0x03, 0x01)
    return _u8(ctype) + bytes(ver) + _u16(len(payload)) + payload


# ------------------------------------------------------------------------------------------------ reader
class _R:
    def __init__(self, b: bytes):
        self.b, self.i = b, 0

    def take(self, n: int) -> bytes:
        if n < 0 or self.i + n > len(self.b):
            raise Malformed(f"need {n} bytes at {self.i}, have {len(self.b) - self.i}")
        r = self.b[self.i: self.i + n]
        self.i += n
        return r

    def u8(self):
        return self.take(1)[0]

    def u16(self):
        return struct.unpack("!H", self.take(2))[0]

    def u24(self):
        return struct.unpack("!I", b"\x00" + self.take(3))[0]

    def vec(self, lenbytes: int) -> "_R":
        n = {1: self.u8, 2: self.u16, 3: self.u24}[lenbytes]()
        return _R(self.take(n))

    @property
    def eof(self):
        return self.i == len(self.b)


def read_hello(body: bytes, dtls: bool) -> dict:
    """Strict reader of a ClientHello body.  Returns {"sni": str|None, "alpn": [bytes], "suites": [int],
    "exts": [(type, body)]}."""
    r = _R(body)
    r.take(2)  # client_version
    r.take(32)  # random
    r.vec(1)  # session id
    if dtls:
        r.vec(1)  # cookie
    sv = r.vec(2)
    if len(sv.b) % 2:
        raise Malformed("odd cipher suite vector")
    suites = [sv.u16() for _ in range(len(sv.b) // 2)]
    r.vec(1)  # compression methods
    exts: list[tuple[int, bytes]] = []
    if not r.eof:
        ev = r.vec(2)
        if not r.eof:
            raise Malformed("bytes after extensions")
        while not ev.eof:
            typ = ev.u16()
            exts.append((typ, ev.vec(2).b))
    sni = None
    alpn: list[bytes] = []
    seen_sni = seen_alpn = False
    for typ, eb in exts:
        if typ == 0 and not seen_sni:
            seen_sni = True
            lst = _R(eb).vec(2)
            names = []
            while not lst.eof:
                nt = lst.u8()
                names.append((nt, lst.vec(2).b))
            hosts = [n for t, n in names if t == 0]
            if len(names) != 1 or len(hosts) != 1:
                raise Malformed("server_name list is not a single host_name")
            sni = hosts[0].decode("ascii")
        elif typ == 16 and not seen_alpn:
            seen_alpn = True
            lst = _R(eb).vec(2)
            while not lst.eof:
                alpn.append(lst.vec(1).b)
    return {"sni": sni, "alpn": alpn, "suites": suites, "exts": exts}


def reassemble(wire: bytes, dtls: bool) -> bytes | None:
    """Independent record-layer reassembly of the first handshake message.  Returns the message body (without
    handshake header) or None if the wire does not (yet) contain it.  Raises Malformed on a non-handshake record
    before the message is complete."""
    r = _R(wire)
    if not dtls:
        acc = bytearray()
        while True:
            if len(acc) >= 4:
                need = struct.unpack("!I", b"\x00" + bytes(acc[1:4]))[0]
                if len(acc) >= 4 + need:
                    return bytes(acc[4: 4 + need])
            if len(wire) - r.i < 5:
                return None
            ctype, maj, _min = r.u8(), r.u8(), r.u8()
            n = r.u16()
            if ctype != 0x16 or maj != 3:
                raise Malformed("not a TLS handshake record")
            if len(wire) - r.i < n:
                return None
            acc += r.take(n)
    # DTLS: every record carries whole fragments, each with its own header
    frags: dict[int, bytes] = {}
    total = None
    while True:
        if total is not None:
            buf = bytearray(total)
            have = [False] * total
            for off, fb in frags.items():
                buf[off: off + len(fb)] = fb
                for k in range(off, off + len(fb)):
                    have[k] = True
            if all(have):
                return bytes(buf)
        if len(wire) - r.i < 13:
            return None
        ctype, maj, _min = r.u8(), r.u8(), r.u8()
        r.take(8)
        n = r.u16()
        if ctype != 0x16 or maj != 0xFE:
            raise Malformed("not a DTLS handshake record")
        if len(wire) - r.i < n:
            return None
        rec = _R(r.take(n))
        while not rec.eof:
            rec.u8()
            ln = rec.u24()
            rec.u16()
            off = rec.u24()
            fl = rec.u24()
            total = ln if total is None else total
            frags[off] = rec.take(fl)
