"""Deterministic virtual-time asyncio loop.

`loop.time()` and (while `patched_time()` is active) `time.time()` return a virtual clock that only moves when the
loop would otherwise block: `select(timeout)` advances the clock by `timeout + EPS` instead of sleeping.  The clock is
strictly increasing (every select advances it by at least TICK), so code comparing timestamps with `<` cannot spin at
exact equality, and timers never fire early (real loops never wake early and usually wake late).

Scenario coroutines drive the code under test with `await settle()` (run everything runnable without advancing
time) and `await advance(dt)` (let virtual time pass).
"""
from __future__ import annotations

import asyncio
import contextlib
import selectors
import time as _time

EPS = 0.001
TICK = 1e-6
BASE = 1_600_000_000.0


class Stalled(RuntimeError):
    """Nothing is runnable and no timer is pending, but the scenario has not finished."""


class _VSelector(selectors.BaseSelector):
    def __init__(self, clock):
        self.clock = clock
        self._keys = {}

    def register(self, fileobj, events, data=None):
        key = selectors.SelectorKey(fileobj, fileobj if isinstance(fileobj, int) else fileobj.fileno(), events, data)
        self._keys[key.fd] = key
        return key

    def unregister(self, fileobj):
        fd = fileobj if isinstance(fileobj, int) else fileobj.fileno()
        return self._keys.pop(fd)

    def modify(self, fileobj, events, data=None):
        self.unregister(fileobj)
        return self.register(fileobj, events, data)

    def select(self, timeout=None):
        if timeout is None:
            raise Stalled("no runnable task and no timer")
        self.clock.now += (timeout + EPS) if timeout > 0 else TICK
        return []

    def get_map(self):
        return {k.fileobj: k for k in self._keys.values()}

    def close(self):
        self._keys.clear()


class Clock:
    def __init__(self):
        self.now = BASE

    def rel(self) -> float:
        return self.now - BASE

    def ms(self) -> int:
        return int(round((self.now - BASE) * 1000))


class VLoop(asyncio.SelectorEventLoop):
    def __init__(self):
        self.clock = Clock()
        super().__init__(selector=_VSelector(self.clock))

    def time(self):
        return self.clock.now


@contextlib.contextmanager
def patched_time(clock: Clock):
    real = _time.time
    _time.time = lambda: clock.now  # type: ignore[assignment]
    try:
        yield
    finally:
        _time.time = real  # type: ignore[assignment]


async def settle(limit: int = 10_000):
    """Run until nothing but timers is pending (does not advance time beyond TICKs)."""
    loop = asyncio.get_running_loop()
    for _ in range(limit):
        await asyncio.sleep(0)
        if not loop._ready:  # type: ignore[attr-defined]
            return
    raise Stalled("settle() did not converge")


async def advance(dt: float):
    """Let `dt` seconds of virtual time pass (timers due in that span fire in order), then settle."""
    await asyncio.sleep(dt)
    await settle()


def run(coro_fn, *args, **kw):
    """Run `await coro_fn(loop, *args)` to completion on a fresh virtual loop with time.time patched."""
    loop = VLoop()
    asyncio.set_event_loop(loop)
    try:
        with patched_time(loop.clock):
            return loop.run_until_complete(coro_fn(loop, *args, **kw))
    finally:
        try:
            pending = [t for t in asyncio.all_tasks(loop) if not t.done()]
            for t in pending:
                t.cancel()
            if pending:
                with patched_time(loop.clock), contextlib.suppress(Exception, Stalled):
                    loop.run_until_complete(asyncio.gather(*pending, return_exceptions=True))
        finally:
            asyncio.set_event_loop(None)
            loop.close()
