"""Real TLS interception stack for C14, driven without sockets.

    ServerTLSLayer -> ClientTLSLayer -> Inner (recording layer)          (all mitmproxy's, except Inner)
    tls_start_client / tls_start_server are answered by the real TlsConfig addon (own scratch confdir / CA).
    Peers are pyOpenSSL memory-BIO connections: a TLS client talking to ClientTLSLayer and a TLS server talking to
    ServerTLSLayer.  Everything mitmproxy sends to a peer is handed to the peer at once (`pump`); what a peer sends
    is kept as a byte stream of *items* (one item = the bytes one peer action produced) and delivered to mitmproxy
    only when the scenario says so, in the sizes the scenario says.

Application payloads are runs of a single byte value (the chunk id), so the projection of a plaintext stream is
its run-length encoding -- mechanical, no judgement.
"""
from __future__ import annotations

import os
import random
from pathlib import Path

_G: dict = {}


def _globals(confdir: str):
    """Per-process singletons: taddons context with a configured TlsConfig, server peer certificate."""
    if _G.get("confdir") == confdir:
        return _G
    from mitmproxy.addons import proxyserver, tlsconfig
    from mitmproxy.test import taddons

    ta = tlsconfig.TlsConfig()
    tctx = taddons.context(ta, proxyserver.Proxyserver())
    tctx.__enter__()
    tctx.options.update(confdir=confdir, ssl_insecure=True)
    tctx.configure(ta)
    ta.configure(["confdir"])
    _G.update(confdir=confdir, ta=ta, tctx=tctx)
    key, cert = _server_cert(confdir)
    _G.update(skey=key, scert=cert)
    return _G


def _server_cert(confdir: str):
    """Self-signed certificate of the upstream peer (own code; upstream verification is off: ssl_insecure)."""
    import datetime

    from cryptography import x509
    from cryptography.hazmat.primitives import hashes, serialization
    from cryptography.hazmat.primitives.asymmetric import ec
    from cryptography.x509.oid import NameOID
    from OpenSSL import crypto

    kp, cp = Path(confdir) / "peer-key.pem", Path(confdir) / "peer-cert.pem"
    if not kp.exists():
        key = ec.generate_private_key(ec.SECP256R1())
        name = x509.Name([x509.NameAttribute(NameOID.COMMON_NAME, "example.mitmproxy.org")])
        now = datetime.datetime(2020, 1, 1)
        cert = (x509.CertificateBuilder().subject_name(name).issuer_name(name).public_key(key.public_key())
                .serial_number(7).not_valid_before(now).not_valid_after(now + datetime.timedelta(days=36500))
                .add_extension(x509.SubjectAlternativeName([x509.DNSName("example.mitmproxy.org")]), False)
                .sign(key, hashes.SHA256()))
        tmp = f"{kp}.{os.getpid()}"
        Path(tmp).write_bytes(key.private_bytes(serialization.Encoding.PEM, serialization.PrivateFormat.PKCS8,
                                                serialization.NoEncryption()))
        os.replace(tmp, kp)
        tmp = f"{cp}.{os.getpid()}"
        Path(tmp).write_bytes(cert.public_bytes(serialization.Encoding.PEM))
        os.replace(tmp, cp)
    return (crypto.load_privatekey(crypto.FILETYPE_PEM, kp.read_bytes()),
            crypto.load_certificate(crypto.FILETYPE_PEM, cp.read_bytes()))


def rle(data: bytes) -> list[list[int]]:
    out: list[list[int]] = []
    for b in data:
        if out and out[-1][0] == b:
            out[-1][1] += 1
        else:
            out.append([b, 1])
    return out


class Peer:
    """A pyOpenSSL memory-BIO endpoint (the client in front of mitmproxy, or the upstream server)."""

    def __init__(self, role: str, version: str, g):
        from OpenSSL import SSL

        self.SSL = SSL
        self.role = role
        ctx = SSL.Context(SSL.TLS_METHOD)
        v = SSL.TLS1_3_VERSION if version == "1.3" else SSL.TLS1_2_VERSION
        ctx.set_min_proto_version(v)
        ctx.set_max_proto_version(v)
        if role == "server":
            ctx.use_privatekey(g["skey"])
            ctx.use_certificate(g["scert"])
        self.conn = SSL.Connection(ctx, None)
        if role == "client":
            self.conn.set_tlsext_host_name(b"example.mitmproxy.org")
            self.conn.set_connect_state()
        else:
            self.conn.set_accept_state()
        self.done = False
        self.got_close_notify = False

    def handshake(self):
        if self.done:
            return
        try:
            self.conn.do_handshake()
            self.done = True
        except self.SSL.WantReadError:
            pass

    def take(self) -> bytes:
        out = bytearray()
        while True:
            try:
                out += self.conn.bio_read(1 << 16)
            except self.SSL.WantReadError:
                return bytes(out)

    def give(self, data: bytes) -> bytes:
        """Ciphertext from mitmproxy -> plaintext the peer reads (handshake is advanced as a side effect)."""
        if data:
            self.conn.bio_write(data)
        self.handshake()
        plain = bytearray()
        if self.done:
            while True:
                try:
                    plain += self.conn.recv(1 << 16)
                except self.SSL.WantReadError:
                    break
                except self.SSL.ZeroReturnError:
                    self.got_close_notify = True
                    break
                except self.SSL.Error:
                    break
        return bytes(plain)


class World:
    def __init__(self, confdir: str, *, mode: str, vclient: str, vserver: str, cutseed: int = 0):
        from mitmproxy import connection
        from mitmproxy.proxy import commands, context, events, layer
        from mitmproxy.proxy.layers import tls

        from . import sansio

        self.g = g = _globals(confdir)
        self.commands, self.events, self.tls = commands, events, tls
        self.mode = mode
        self.trace: list[dict] = []
        self.rng = random.Random(cutseed)
        self.peers = {"client": Peer("client", vclient, g), "server": Peer("server", vserver, g)}
        self.items: dict[str, list[list]] = {"client": [], "server": []}  # [bytes, first-half length, offset]
        self.produced = {"client": 0, "server": 0}
        self.delivered = {"client": 0, "server": 0}
        self.fin = {"client": False, "server": False}
        self.opened = False
        self.inner_started = False
        self.failed = None
        world = self

        opts = g["tctx"].options
        client = sansio.make_client()
        self.ctx = ctx = context.Context(client, opts)
        ctx.server.address = ("example.mitmproxy.org", 443)
        self.conns = {"client": ctx.client, "server": ctx.server}

        class Do(events.Event):
            def __init__(self, cmd):
                self.cmd = cmd

        self.Do = Do

        class Inner(layer.Layer):
            def _handle_event(self, event):
                if isinstance(event, events.Start):
                    world.inner_started = True
                    world.trace.append({"k": "child_start"})
                elif isinstance(event, events.DataReceived):
                    world.trace.append({"k": "child_data", "c": world.name(event.connection), "runs": rle(event.data)})
                elif isinstance(event, events.ConnectionClosed):
                    world.trace.append({"k": "child_closed", "c": world.name(event.connection)})
                elif isinstance(event, Do):
                    if isinstance(event.cmd, commands.OpenConnection):
                        err = yield event.cmd
                        world.trace.append({"k": "open_done", "ok": not err})
                    else:
                        yield event.cmd
                yield from ()

        self.top = tls.ServerTLSLayer(ctx)
        self.ctls = tls.ClientTLSLayer(ctx)
        self.top.child_layer = self.ctls
        self.ctls.child_layer = Inner(ctx)
        self.pending: list = []

    def name(self, conn) -> str:
        return "server" if conn is self.ctx.server else "client" if conn is self.ctx.client else "other"

    # --- feeding mitmproxy and reacting like proxy/server.py would -----------------------------------------
    def feed(self, event):
        try:
            cmds = list(self.top.handle_event(event))
        except Exception as e:  # noqa: BLE001 - an observation
            self.trace.append({"k": "raised", "exc": type(e).__name__})
            self.failed = type(e).__name__
            return
        self.react(cmds)

    def react(self, cmds):
        from mitmproxy.connection import ConnectionState

        commands, events, tls = self.commands, self.events, self.tls
        queue = list(cmds)
        while queue:
            c = queue.pop(0)
            more = None
            if isinstance(c, commands.SendData):
                who = self.name(c.connection)
                if who in self.peers:
                    plain = self.peers[who].give(bytes(c.data))
                    if plain:
                        self.trace.append({"k": "peer_recv", "c": who, "runs": rle(plain)})
                    self.collect(who)
            elif isinstance(c, tls.TlsClienthelloHook):
                c.data.establish_server_tls_first = self.mode == "server_first"
                more = events.HookCompleted(c)
            elif isinstance(c, tls.TlsStartClientHook):
                self.g["ta"].tls_start_client(c.data)
                more = events.HookCompleted(c)
            elif isinstance(c, tls.TlsStartServerHook):
                self.g["ta"].tls_start_server(c.data)
                more = events.HookCompleted(c)
            elif isinstance(c, (tls.TlsEstablishedClientHook, tls.TlsEstablishedServerHook)):
                self.trace.append({"k": "established", "c": self.name(c.data.conn)})
                more = events.HookCompleted(c)
            elif isinstance(c, (tls.TlsFailedClientHook, tls.TlsFailedServerHook)):
                self.trace.append({"k": "tls_failed", "c": self.name(c.data.conn)})
                self.failed = "tls_failed"
                more = events.HookCompleted(c)
            elif isinstance(c, commands.StartHook):
                more = events.HookCompleted(c)
            elif isinstance(c, commands.OpenConnection):
                c.connection.state = ConnectionState.OPEN
                c.connection.peername = c.connection.address
                c.connection.sockname = ("127.0.0.1", 50000)
                c.connection.timestamp_start = 1605699330
                self.opened = True
                more = events.OpenConnectionCompleted(c, None)
            elif isinstance(c, commands.CloseConnection):
                self.trace.append({"k": "mitm_close", "c": self.name(c.connection)})
            if more is not None:
                try:
                    queue = list(self.top.handle_event(more)) + queue
                except Exception as e:  # noqa: BLE001
                    self.trace.append({"k": "raised", "exc": type(e).__name__})
                    self.failed = type(e).__name__
                    return

    def collect(self, who: str):
        """Whatever the peer wants to send now becomes one item of its outgoing stream."""
        out = self.peers[who].take()
        if out:
            n = len(out)
            first = 1 if n < 2 else self.rng.choice([self.rng.randint(1, min(5, n - 1)), self.rng.randint(1, n - 1), n - 1, n // 2 or 1])
            self.items[who].append([out, first, 0])
            self.produced[who] += n

    # --- scenario operations -------------------------------------------------------------------------
    def start(self):
        self.peers["client"].handshake()
        self.collect("client")
        self.feed(self.events.Start())

    def avail_units(self, who: str) -> int:
        u = 0
        for data, first, off in self.items[who]:
            u += 2 if off < first else 1
        return u

    def take_units(self, who: str, n: int) -> bytes:
        out = bytearray()
        for it in self.items[who]:
            while n > 0 and it[2] < len(it[0]):
                data, first, off = it
                end = first if off < first else len(data)
                out += data[off:end]
                it[2] = end
                n -= 1
            if n == 0:
                break
        self.items[who] = [it for it in self.items[who] if it[2] < len(it[0])]
        return bytes(out)

    def take_bytes(self, who: str, n: int) -> bytes:
        out = bytearray()
        for it in self.items[who]:
            if n <= 0:
                break
            data, first, off = it
            k = min(n, len(data) - off)
            out += data[off: off + k]
            it[2] = off + k
            n -= k
        self.items[who] = [it for it in self.items[who] if it[2] < len(it[0])]
        return bytes(out)

    def deliver(self, who: str, *, units: int | None = None, nbytes: int | None = None) -> bool:
        chunk = self.take_units(who, units) if units is not None else self.take_bytes(who, nbytes or 0)
        if not chunk:
            return False
        self.delivered[who] += len(chunk)
        part = bool(self.items[who]) and self.items[who][0][2] > 0
        self.trace.append({"k": "deliver", "c": who, "all": self.delivered[who] == self.produced[who], "part": part})
        self.feed(self.events.DataReceived(self.conns[who], chunk))
        return True

    def peer_send(self, who: str, chunks) -> bool:
        p = self.peers[who]
        if not p.done or self.fin[who]:
            return False
        payload = b"".join(bytes([i]) * n for i, n in chunks)
        try:
            p.conn.sendall(payload)
        except Exception:  # noqa: BLE001 - the peer already shut its sending side down
            return False
        for i, n in chunks:
            self.trace.append({"k": "peer_send", "c": who, "id": i, "len": n})
        self.collect(who)
        return True

    def peer_close_notify(self, who: str) -> bool:
        p = self.peers[who]
        if not p.done or self.fin[who]:
            return False
        try:
            p.conn.shutdown()
        except Exception:  # noqa: BLE001
            return False
        self.trace.append({"k": "peer_cn", "c": who})
        self.collect(who)
        return True

    def fin_from(self, who: str) -> bool:
        from mitmproxy.connection import ConnectionState

        if self.fin[who] or self.items[who] or (who == "server" and not self.opened):
            return False
        self.fin[who] = True
        conn = self.conns[who]
        conn.state &= ~ConnectionState.CAN_READ
        self.trace.append({"k": "fin", "c": who})
        self.feed(self.events.ConnectionClosed(conn))
        return True

    def child_send(self, who: str, i: int, n: int) -> bool:
        if not self.inner_started or (who == "server" and not self.opened):
            return False
        self.trace.append({"k": "child_send", "c": who, "id": i, "len": n})
        self.feed(self.Do(self.commands.SendData(self.conns[who], bytes([i]) * n)))
        return True

    def child_open(self) -> bool:
        if not self.inner_started or self.opened:
            return False
        self.trace.append({"k": "child_open"})
        self.feed(self.Do(self.commands.OpenConnection(self.ctx.server)))
        return True

    def end(self):
        self.trace.append({"k": "end"})
        return self.trace
