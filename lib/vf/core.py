"""Check driver: model check -> behaviours -> replay on real code -> trace validation -> verdict/evidence.

Verdict rule (DESIGN section 2): a VIOLATION is printed only when the TLA+ monitor (Mon_X.MonStep) rejects a
trace that was *observed on the real code*.  Python never evaluates a property: it concretises, runs the code,
projects observations to event records and hands them to TLC.
"""
from __future__ import annotations

import hashlib
import json
import os
import random
import shutil
import subprocess
import sys
import time
import traceback
from dataclasses import dataclass, field
from pathlib import Path

from . import graph as graphmod
from . import tlaval, tlc
from .tlc import MachineryError, RawTla  # noqa: F401

VERIF = Path(__file__).resolve().parents[2]
SPEC = VERIF / "spec"
EVID = VERIF / "evidence"
OUT = VERIF / "out"
FINDINGS = VERIF / "known_findings.json"


@dataclass
class ModelResult:
    module: str
    constants: dict
    states: int
    transitions: int
    depth: int
    wall_s: float
    coverage: dict
    bad: list  # distinct bad tuples reached by the model (design-level result)
    graph: graphmod.Graph | None = None
    exhaustive: bool = True


@dataclass
class Verdict:
    tid: int
    accepted: bool
    pos: int = 0
    bad: tuple = ()
    wit: frozenset = frozenset()


@dataclass
class Scenario:
    """One concrete execution to run on the real code.  `data` must be JSON-able (it is the replay file)."""
    data: dict
    predicted: list | None = None  # event records the model predicts (drift comparison only)
    source: str = "model"  # model | random | suite


class PropertyCheck:
    """Base class; subclasses live in /verif/props/Cxx.py (class Check)."""

    ID = "C00"
    SPEC_DIR = ""  # directory under /verif/spec
    MODEL = ""  # X      (X.tla: implementation-shaped model, EXTENDS Mon_X)
    MON = ""  # Mon_X  (monitor: MonInit, MonStep(m, ev), Wit(m))
    LEVEL = "model_checking"
    REQUIRED_WITNESSES: tuple = ()  # clause antecedents that must have been exercised (non-vacuity)
    REQUIRED_ACTIONS: tuple = ()  # model actions that must have non-zero coverage
    ASSUMPTIONS: tuple = ()
    PROCS = 1  # >1: scenarios are executed in a fork pool

    # --- to be provided by the property module ---------------------------------------------------
    def mon_constants(self, tier: str) -> dict:
        return {}

    def model_runs(self, ctx: "Ctx") -> list[ModelResult]:
        """Run TLC on the model(s).  Default: one exhaustive run with model_constants(tier)."""
        return [ctx.model_check(self.MODEL, self.model_constants(ctx.tier), dump=self.DUMP)]

    DUMP = True

    def model_constants(self, tier: str) -> dict:
        return self.mon_constants(tier)

    def scenarios(self, ctx: "Ctx", models: list[ModelResult]):
        raise NotImplementedError

    def execute(self, sc: dict) -> list[dict]:
        """Run one scenario on the real code; return the observed event records (the trace)."""
        raise NotImplementedError

    def setup(self, ctx: "Ctx"):
        pass

    def drift_view(self, trace: list) -> list:
        """Projection of an observed trace that is compared with Scenario.predicted (drift count only)."""
        return trace


def _jsonable(x):
    if isinstance(x, (str, int, bool)) or x is None:
        return x
    if isinstance(x, float):
        return x
    if isinstance(x, bytes):
        return x.decode("latin-1")
    if isinstance(x, (list, tuple)):
        return [_jsonable(i) for i in x]
    if isinstance(x, (set, frozenset)):
        return sorted((_jsonable(i) for i in x), key=repr)
    if isinstance(x, dict):
        return {str(k): _jsonable(v) for k, v in x.items()}
    return repr(x)


class Ctx:
    def __init__(self, check: PropertyCheck, tier: str, seed: int):
        self.check = check
        self.tier = tier
        self.seed = seed
        self.rng = random.Random(seed)
        self.scratch = VERIF / ".scratch" / f"{check.ID}-{os.getpid()}"
        self.scratch.mkdir(parents=True, exist_ok=True)
        self.t0 = time.time()
        self.workers = int(os.environ.get("VERIF_TLC_WORKERS", "8" if tier == "thorough" else "4"))
        self.notes: dict = {}

    @property
    def quick(self):
        return self.tier == "quick"

    def cleanup(self):
        shutil.rmtree(self.scratch, ignore_errors=True)

    # --- TLC: model ---------------------------------------------------------------------------------
    def spec_path(self, module: str) -> Path:
        p = SPEC / self.check.SPEC_DIR / f"{module}.tla"
        if not p.exists():
            raise MachineryError(f"missing spec {p}")
        return p

    def model_check(self, module: str, constants: dict, *, dump: bool = True, timeout: int | None = None,
                    invariants=("Report",), spec="Spec", view=None, constraints=(), workers=None,
                    tag: str = "") -> ModelResult:
        """Exhaustive TLC run of the model; collects reachable `bad` tuples; optionally dumps the state graph."""
        self.spec_path(module)
        mc, cfg = tlc.write_mc(module, self.scratch, tag, spec=spec, constants=constants, invariants=invariants,
                               view=view, constraints=constraints)
        dot = self.scratch / f"{module}{tag}-graph"
        timeout = timeout or (900 if self.quick else 3600)
        w = workers or (1 if dump else self.workers)
        r = tlc.run(mc, cfg, self.scratch, workers=w, timeout=timeout, dump=dot if dump else None, coverage=True,
                    libs=[SPEC / self.check.SPEC_DIR])
        tlc.require_ok(r, f"{module}{tag} exhaustive")
        g = None
        bad = []
        if dump:
            g = graphmod.Graph(Path(str(dot) + ".dot"))
            seen = set()
            for nid in g.raw_states:
                raw = g.raw_states[nid]
                if "bad |-> <<>>" in raw:
                    continue
                st = g.state(nid)
                b = st.get("mon", {}).get("bad", ())
                if b and b not in seen:
                    seen.add(b)
                    bad.append(b)
        for v in r.prints:
            if isinstance(v, tuple) and v and v[0] == "BAD" and v[1] not in bad:
                bad.append(v[1])
        for a in self.check.REQUIRED_ACTIONS:
            if r.coverage and r.coverage.get(a, (0, 0))[1] == 0:
                raise MachineryError(f"vacuous model run: action {a} never taken in {module}{tag}")
        return ModelResult(module=module, constants=dict(constants), states=r.distinct, transitions=r.generated,
                           depth=r.depth, wall_s=r.wall_s,
                           coverage={k: v[1] for k, v in r.coverage.items()}, bad=[tlaval.to_py(b) for b in bad],
                           graph=g)

    def simulate(self, module: str, constants: dict, *, num: int, depth: int, spec="Spec", tag="sim",
                 timeout=300):
        """tlc -simulate: `num` random behaviours of length <= depth, parsed."""
        self.spec_path(module)
        mc, cfg = tlc.write_mc(module, self.scratch, "_" + tag, spec=spec, constants=constants)
        d = self.scratch / f"{module}-{tag}"
        d.mkdir(exist_ok=True)
        r = tlc.run(mc, cfg, self.scratch, workers=1, timeout=timeout,
                    simulate=f"file={d}/tr,num={num}", depth=depth, seed=self.seed, libs=[SPEC / self.check.SPEC_DIR])
        tlc.require_ok(r, f"{module} simulate")
        behs = graphmod.load_sim_dir(d)
        shutil.rmtree(d, ignore_errors=True)
        return behs, r

    # --- TLC: trace validation ----------------------------------------------------------------------
    def validate(self, traces: list[list[dict]], mon: str | None = None, constants: dict | None = None,
                 batch: int = 4000) -> list[Verdict]:
        mon = mon or self.check.MON
        constants = self.check.mon_constants(self.tier) if constants is None else constants
        tmod = "Trace_" + mon[len("Mon_"):] if mon.startswith("Mon_") else "Trace_" + mon
        tpath = SPEC / self.check.SPEC_DIR / f"{tmod}.tla"
        if not tpath.exists():
            raise MachineryError(f"missing trace spec {tpath} (run tools/gen_trace_specs.py)")
        verdicts: list[Verdict] = []
        for off in range(0, len(traces), batch):
            chunk = traces[off: off + batch]
            tf = self.scratch / f"traces-{off}.json"
            tf.write_text(json.dumps(_jsonable(chunk)))
            mc, cfg = tlc.write_mc(tmod, self.scratch, "", spec="TraceSpec", constants=constants)
            r = tlc.run(mc, cfg, self.scratch, workers=1, timeout=900, env={"TRACE_FILE": str(tf)}, heap="6g",
                        libs=[SPEC / self.check.SPEC_DIR])
            tlc.require_ok(r, f"{tmod} batch@{off}")
            got: dict[int, Verdict] = {}
            for v in r.prints:
                if not (isinstance(v, tuple) and v):
                    continue
                if v[0] == "ACCEPT":
                    got[v[1]] = Verdict(tid=off + v[1] - 1, accepted=True, wit=frozenset(v[2]) if len(v) > 2 else frozenset())
                elif v[0] == "REJECT":
                    got[v[1]] = Verdict(tid=off + v[1] - 1, accepted=False, pos=v[2], bad=tuple(tlaval.to_py(v[3])),
                                        wit=frozenset(v[4]) if len(v) > 4 else frozenset())
            for i in range(1, len(chunk) + 1):
                if i not in got:
                    raise MachineryError(f"{tmod}: no verdict for trace {off + i - 1} (len {len(chunk[i-1])}); tail:\n{r.out[-1500:]}")
                verdicts.append(got[i])
            tf.unlink(missing_ok=True)
        return verdicts


# --------------------------------------------------------------------------------------------------


def load_findings(prop: str):
    """Entries of known_findings.json for `prop`.  VERIF_KF=<file> (self-tests only) merges extra entries for that run."""
    out = []
    files = [FINDINGS] + ([Path(os.environ["VERIF_KF"])] if os.environ.get("VERIF_KF") else [])
    for fp in files:
        if fp.exists():
            data = json.loads(fp.read_text())
            out += [f for f in data.get("findings", []) if f.get("property") == prop and not f.get("fixed")]
    return out


def finding_matches(f: dict, bad: tuple) -> bool:
    if not bad or f.get("clause") != bad[0]:
        return False
    sig = f.get("sig")
    if sig is None:
        return True
    rest = list(bad[1:])
    if len(sig) != len(rest):
        return False
    return all(s == "*" or s == r for s, r in zip(sig, rest))


def _run_one(args):
    check, data = args
    try:
        return ("ok", check.execute(data))
    except Exception:  # harness failure, not a verdict
        return ("err", traceback.format_exc())


def run_check(check: PropertyCheck, tier: str, seed: int, replay: str | None = None) -> int:
    ctx = Ctx(check, tier, seed)
    try:
        return _run_check(ctx, check, replay)
    except MachineryError as e:
        print(f"MACHINERY-ERROR property={check.ID}: {e}", file=sys.stderr)
        return 2
    finally:
        ctx.cleanup()


def _run_check(ctx: Ctx, check: PropertyCheck, replay: str | None) -> int:
    t0 = time.time()
    check.setup(ctx)
    if replay:
        doc = json.loads(Path(replay).read_text())
        tr = check.execute(doc["scenario"])
        v = ctx.validate([tr])[0]
        print(json.dumps({"scenario": doc["scenario"], "observed": _jsonable(tr),
                          "verdict": "ACCEPT" if v.accepted else ["REJECT", v.pos, list(v.bad)]}, indent=1))
        if v.accepted:
            return 0
        print(f"VIOLATION property={check.ID} replay={replay}")
        return 1

    models = check.model_runs(ctx)
    scs: list[Scenario] = list(check.scenarios(ctx, models))
    if not scs:
        raise MachineryError("no scenarios generated")
    t_exec = time.time()
    results = []
    if check.PROCS > 1 and len(scs) > 8:
        import multiprocessing as mp

        with mp.get_context("fork").Pool(check.PROCS) as pool:
            results = pool.map(_run_one, [(check, s.data) for s in scs], chunksize=max(1, len(scs) // (check.PROCS * 8)))
    else:
        results = [_run_one((check, s.data)) for s in scs]
    errs = [(s, r[1]) for s, r in zip(scs, results) if r[0] == "err"]
    if errs:
        s, tb = errs[0]
        raise MachineryError(f"{len(errs)} scenario(s) crashed the harness; first: {json.dumps(_jsonable(s.data))[:600]}\n{tb}")
    traces = [_jsonable(r[1]) for r in results]
    exec_s = time.time() - t_exec
    verdicts = ctx.validate(traces)

    # drift: observed vs. predicted (never a violation)
    drift, drift_sample = 0, None
    for s, tr in zip(scs, traces):
        if s.predicted is not None and _jsonable(s.predicted) != _jsonable(check.drift_view(tr)):
            drift += 1
            if drift_sample is None:
                drift_sample = {"scenario": _jsonable(s.data), "predicted": _jsonable(s.predicted), "observed": tr}

    findings = load_findings(check.ID)
    wit = set()
    known_hit: dict[int, int] = {}
    violations = []
    seen_bad = {}
    for s, tr, v in zip(scs, traces, verdicts):
        wit |= set(v.wit)
        if v.accepted:
            continue
        seen_bad.setdefault(tuple(map(str, v.bad)), 0)
        seen_bad[tuple(map(str, v.bad))] += 1
        idx = next((i for i, f in enumerate(findings) if finding_matches(f, v.bad)), None)
        if idx is not None:
            known_hit[idx] = known_hit.get(idx, 0) + 1
        else:
            violations.append((s, tr, v))

    for idx, n in sorted(known_hit.items()):
        f = findings[idx]
        print(f"KNOWN-FINDING: property={check.ID} {f.get('what','')} [{f.get('clause')} sig={f.get('sig')}; {n} trace(s)]")

    rc = 0
    reported = set()
    (OUT / "replay").mkdir(parents=True, exist_ok=True)
    for s, tr, v in violations:
        key = tuple(map(str, v.bad))
        if key in reported:
            continue
        reported.add(key)
        doc = {"property": check.ID, "clause": v.bad[0], "bad": list(v.bad), "pos": v.pos,
               "scenario": _jsonable(s.data), "observed": tr[: v.pos], "source": s.source, "seed": ctx.seed}
        h = hashlib.sha1(json.dumps(doc, sort_keys=True).encode()).hexdigest()[:10]
        path = OUT / "replay" / f"{check.ID}-{h}.json"
        path.write_text(json.dumps(doc, indent=1))
        print(f"VIOLATION property={check.ID} replay={path}")
        print(f"  clause={list(v.bad)} at event {v.pos}; scenario={json.dumps(_jsonable(s.data))[:400]}")
        rc = 1

    if rc == 0:
        # non-vacuity is only demanded of a run that reports no violation (a broken tree may never reach a clause)
        for w in check.REQUIRED_WITNESSES:
            if w not in wit:
                raise MachineryError(f"vacuous run: clause witness {w!r} never exercised (got {sorted(wit)})")

    model_bad = []
    for m in models:
        for b in m.bad:
            if b not in model_bad:
                model_bad.append(b)
    samples = []
    step = max(1, len(scs) // 3)
    for i in range(0, len(scs), step):
        samples.append({"scenario": _jsonable(scs[i].data), "observed_events": traces[i][:12], "source": scs[i].source})
        if len(samples) >= 4:
            break
    distinct_traces = len({json.dumps(t, sort_keys=True) for t in traces})
    ev = {
        "property_id": check.ID,
        "tier": ctx.tier,
        "seed": ctx.seed,
        "level": check.LEVEL,
        "coverage": {
            "states": sum(m.states for m in models),
            "transitions": sum(m.transitions for m in models),
            "traces_validated_against_impl": len(traces),
            "samples": samples,
            "exhaustive": all(m.exhaustive for m in models),
            "model_runs": [{"module": m.module, "constants": _jsonable(m.constants), "states": m.states,
                            "transitions": m.transitions, "diameter": m.depth, "tlc_wall_s": round(m.wall_s, 2),
                            "action_coverage": m.coverage, "model_reachable_bad": m.bad[:20]} for m in models],
            "scenarios_by_source": {k: sum(1 for s in scs if s.source == k) for k in sorted({s.source for s in scs})},
            "distinct_observed_traces": distinct_traces,
            "events_validated": sum(len(t) for t in traces),
            "clause_witnesses": sorted(wit),
            "drift": drift,
            "drift_sample": drift_sample,
            "rejected_by_clause": {" ".join(k): n for k, n in seen_bad.items()},
            "known_findings_matched": [findings[i].get("id", findings[i].get("clause")) for i in sorted(known_hit)],
            "replay_wall_s": round(exec_s, 2),
            **ctx.notes,
        },
        "assumptions": list(check.ASSUMPTIONS),
        "wall_s": round(time.time() - t0, 2),
        "violations": len(reported),
    }
    # self-test runs against a scratch copy (VERIF_REPO) must not overwrite the evidence of the real tree
    # coverage extensions (ids X..: specs of behaviour outside the 54 given properties) keep their evidence apart
    evdir = (OUT / "selftest_evidence") if os.environ.get("VERIF_REPO") else (EVID if check.ID.startswith("C") else VERIF / "evidence_extra")
    evdir.mkdir(parents=True, exist_ok=True)
    (evdir / f"{check.ID}.json").write_text(json.dumps(ev, indent=1))
    print(f"{check.ID} {ctx.tier}: model states={ev['coverage']['states']} transitions={ev['coverage']['transitions']} "
          f"traces={len(traces)} (distinct {distinct_traces}) drift={drift} known={sum(known_hit.values())} "
          f"violations={len(reported)} wall={ev['wall_s']}s")
    return rc


def predicted_events(beh) -> list:
    """Concatenate the model's `obs` of every step of a behaviour (the predicted event records)."""
    out = []
    for _name, _args, st in beh[1:]:
        out.extend(tlaval.to_py(st.get("obs", ())))
    return out
