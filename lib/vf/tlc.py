"""Run TLC and parse what it prints."""
from __future__ import annotations

import os
import re
import shutil
import subprocess
import time
from dataclasses import dataclass, field
from pathlib import Path

from . import tlaval

JAR = "/opt/veriftools/tla/tla2tools.jar:/opt/veriftools/tla/CommunityModules-deps.jar"
VERIF = Path(__file__).resolve().parents[2]
SPEC = VERIF / "spec"


class MachineryError(Exception):
    """The verification machinery itself failed (exit 2); never a verdict about the code."""


@dataclass
class TlcResult:
    rc: int
    out: str
    generated: int = 0
    distinct: int = 0
    depth: int = 0
    wall_s: float = 0.0
    prints: list = field(default_factory=list)  # parsed PrintT values
    coverage: dict = field(default_factory=dict)  # action name -> (distinct, total)
    error: str | None = None
    cmd: str = ""


_GEN = re.compile(r"(\d+) states generated, (\d+) distinct states found")
_DEPTH = re.compile(r"depth of the complete state graph search is (\d+)")
_SIMGEN = re.compile(r"The number of states generated: (\d+)")
_COV = re.compile(r"^<(\w+) line \d+, col \d+ to line \d+, col \d+ of module (\w+)>: (\d+):(\d+)", re.M)


def _balanced_values(out: str):
    """Yield every top-level '<<...>>' value printed on its own (PrintT output), by bracket matching."""
    i, n = 0, len(out)
    while True:
        j = out.find("<<", i)
        if j < 0:
            return
        # must start a line
        if j > 0 and out[j - 1] != "\n":
            i = j + 2
            continue
        depth, k, instr = 0, j, False
        while k < n:
            c = out[k]
            if instr:
                if c == "\\":
                    k += 1
                elif c == '"':
                    instr = False
            elif c == '"':
                instr = True
            elif out.startswith("<<", k):
                depth += 1
                k += 1
            elif out.startswith(">>", k):
                depth -= 1
                k += 1
                if depth == 0:
                    break
            k += 1
        txt = out[j : k + 1]
        try:
            yield tlaval.parse_value(txt)
        except tlaval.ParseError:
            pass
        i = k + 1


def write_mc(module: str, scratch: Path, tag: str, *, spec="Spec", constants: dict | None = None, **kw):
    """Write MC_<module><tag>.tla (EXTENDS module; one definition per constant) and its cfg into scratch.
    cfg files cannot express tuples/records, so every constant is substituted by a definition (K <- mc_K)."""
    mc = f"MC_{module}{tag}"
    defs = []
    subst = {}
    for k, v in (constants or {}).items():
        if isinstance(v, RawTla):
            subst[k] = RawTla(str(v))
        else:
            defs.append(f"mc_{k} == {tlaval.to_tla(v)}")
            subst[k] = RawTla(f"mc_{k}")
    body = f"---- MODULE {mc} ----\nEXTENDS {module}\n" + "\n".join(defs) + "\n====\n"
    tla = scratch / f"{mc}.tla"
    tla.write_text(body)
    cfg = scratch / f"{mc}.cfg"
    write_cfg(cfg, spec=spec, constants=subst, **kw)
    return tla, cfg


def write_cfg(path: Path, *, spec="Spec", constants: dict | None = None, invariants=(), constraints=(),
              view=None, postcondition=None, properties=(), deadlock=False, extra=""):
    lines = [f"SPECIFICATION {spec}"]
    if constants:
        lines.append("CONSTANTS")
        for k, v in constants.items():
            lines.append(f"  {k} = {tlaval.to_tla(v)}" if not isinstance(v, RawTla) else f"  {k} <- {v}")
    for inv in invariants:
        lines.append(f"INVARIANT {inv}")
    for c in constraints:
        lines.append(f"CONSTRAINT {c}")
    for p in properties:
        lines.append(f"PROPERTY {p}")
    if view:
        lines.append(f"VIEW {view}")
    if postcondition:
        lines.append(f"POSTCONDITION {postcondition}")
    lines.append(f"CHECK_DEADLOCK {'TRUE' if deadlock else 'FALSE'}")
    if extra:
        lines.append(extra)
    path.write_text("\n".join(lines) + "\n")
    return path


class RawTla(str):
    """A cfg substitution 'K <- Name' (Name defined in the module)."""


def run(tla: Path, cfg: Path, scratch: Path, *, workers: int | str = 4, timeout: int = 900,
        dump: Path | None = None, simulate: str | None = None, depth: int | None = None, seed: int | None = None,
        coverage: bool = False, env: dict | None = None, heap: str = "4g", extra_args=(), libs=()) -> TlcResult:
    meta = scratch / f"meta-{os.getpid()}-{time.time_ns()}"
    libs = [str(SPEC / "common"), str(tla.parent)] + [str(x) for x in libs]
    cmd = ["java", "-XX:+UseParallelGC", f"-Xmx{heap}", f"-DTLA-Library={os.pathsep.join(libs)}",
           "-cp", JAR, "tlc2.TLC", "-noGenerateSpecTE", "-metadir", str(meta), "-config", str(cfg),
           "-workers", str(workers)]
    if coverage:
        cmd += ["-coverage", "1"]
    if dump is not None:
        cmd += ["-dump", "dot,actionlabels", str(dump)]
    if simulate is not None:
        cmd += ["-simulate", simulate]
    if depth is not None:
        cmd += ["-depth", str(depth)]
    if seed is not None:
        cmd += ["-seed", str(seed)]
    cmd += list(extra_args)
    cmd.append(str(tla))
    e = dict(os.environ)
    e.pop("JAVA_TOOL_OPTIONS", None)
    if env:
        e.update(env)
    t0 = time.time()
    try:
        p = subprocess.run(cmd, capture_output=True, text=True, timeout=timeout, env=e, cwd=str(scratch))
        out, rc = p.stdout + p.stderr, p.returncode
    except subprocess.TimeoutExpired as ex:
        out = (ex.stdout or b"").decode(errors="replace") if isinstance(ex.stdout, bytes) else (ex.stdout or "")
        rc = 124
    finally:
        shutil.rmtree(meta, ignore_errors=True)
    r = TlcResult(rc=rc, out=out, wall_s=time.time() - t0, cmd=" ".join(cmd))
    m = _GEN.findall(out)
    if m:
        r.generated, r.distinct = int(m[-1][0]), int(m[-1][1])
    else:
        m2 = _SIMGEN.findall(out)
        if m2:
            r.generated = int(m2[-1])
    m = _DEPTH.findall(out)
    if m:
        r.depth = int(m[-1])
    for name, _mod, a, b in _COV.findall(out):
        pa, pb = r.coverage.get(name, (0, 0))
        r.coverage[name] = (pa + int(a), pb + int(b))
    r.prints = list(_balanced_values(out))
    if rc == 124:
        r.error = "timeout"
    elif "Error:" in out or rc not in (0,):
        # TLC exit codes: 0 ok, 10 assumption, 11 deadlock, 12 safety violation, 13 liveness, >=150 errors
        em = re.search(r"Error: (.*(?:\n(?!\n).*){0,6})", out)
        r.error = em.group(1) if em else f"rc={rc}"
    return r


def require_ok(r: TlcResult, what: str):
    if r.error:
        raise MachineryError(f"TLC failed for {what}: {r.error}\n--- tail ---\n{r.out[-3000:]}\ncmd: {r.cmd}")
    return r
