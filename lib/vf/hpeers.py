"""In-memory HTTP/1, HTTP/2 and HTTP/3 peers for driving mitmproxy's HttpLayer sans-io (used by props/C06.py).

Nothing here uses mitmproxy's own parsers/serialisers for the job being checked:
  * HTTP/1: `H1Ref` is a small reference parser written for this purpose (RFC 9112 framing rules);
  * HTTP/2: hyper-h2 `H2Connection` objects owned by the harness, with *their* header validation/normalisation
    switched off so that adversarial header blocks reach mitmproxy and so that whatever mitmproxy emits is decoded;
  * HTTP/3: aioquic `H3Connection` objects over a fake QUIC connection (`FakeQuic`) that only moves stream data.
"""
from __future__ import annotations

import re
from dataclasses import dataclass, field

# ------------------------------------------------------------------------------------------------------------------
# HTTP/1 reference parser

_TOKEN = re.compile(rb"^[!#$%&'*+\-.^_`|~0-9A-Za-z]+$")


@dataclass
class H1Msg:
    start: tuple = ()  # request: (method, target, version)   response: (version, status, reason)
    fields: list = field(default_factory=list)  # [(name, value)] as on the wire (value stripped of OWS)
    framing: str = "none"  # none | cl | chunked | eof
    body: bytes = b""
    complete: bool = False
    malformed: str = ""  # why the head cannot be read as exactly what a strict recipient expects
    head_len: int = 0


def _split_head(data: bytes):
    i = data.find(b"\r\n\r\n")
    if i < 0:
        return None, data
    return data[:i], data[i + 4:]


def h1_parse(data: bytes, *, request: bool, eof: bool, head_only_response: bool = False) -> tuple[list[H1Msg], bytes]:
    """Read as many HTTP/1 messages as `data` holds.  Returns (messages, stray bytes).  The last message may be
    incomplete (well-formed head, body cut short: its bytes are not stray).  Stray bytes are bytes that are neither
    part of a message nor of such a trailing incomplete message: a malformed head, or bytes after the last complete
    message that do not even form a head."""
    msgs: list[H1Msg] = []
    rest = data
    while rest:
        head, after = _split_head(rest)
        if head is None:
            break
        m = H1Msg(head_len=len(head) + 4)
        lines = head.split(b"\r\n")
        sl = lines[0]
        if any(c in head for c in (b"\x00",)) or b"\r" in head.replace(b"\r\n", b"") or b"\n" in head.replace(b"\r\n", b""):
            m.malformed = "ctl_in_head"
        parts = sl.split(b" ")
        if request:
            if len(parts) != 3 or not _TOKEN.match(parts[0]) or not re.match(rb"^HTTP/1\.[01]$", parts[2]) or not parts[1]:
                m.malformed = m.malformed or "request_line"
            m.start = tuple(parts)
        else:
            p = sl.split(b" ", 2)
            if len(p) < 2 or not re.match(rb"^HTTP/1\.[01]$", p[0]) or not re.match(rb"^\d{3}$", p[1]):
                m.malformed = m.malformed or "status_line"
            m.start = tuple(p)
        for ln in lines[1:]:
            if b":" not in ln:
                m.malformed = m.malformed or "field_line"
                continue
            n, v = ln.split(b":", 1)
            if not _TOKEN.match(n):
                m.malformed = m.malformed or "field_name"
            m.fields.append((n, v.strip(b" \t")))
        if m.malformed:
            msgs.append(m)
            return msgs, rest
        te = [v for n, v in m.fields if n.lower() == b"transfer-encoding"]
        cl = [v for n, v in m.fields if n.lower() == b"content-length"]
        status = int(m.start[1]) if not request else 0
        nobody = (not request) and (head_only_response or 100 <= status < 200 or status in (204, 304))
        if nobody:
            m.framing, m.complete = "none", True
            rest = after
        elif te:
            if len(te) > 1 or cl or te[0].lower().replace(b" ", b"").split(b",")[-1] != b"chunked":
                m.malformed = "te"
                msgs.append(m)
                return msgs, rest
            m.framing = "chunked"
            body, after2, ok = _dechunk(after)
            m.body = body
            if not ok:
                msgs.append(m)
                return msgs, b""
            m.complete = True
            rest = after2
        elif cl:
            if len(set(cl)) > 1 or not re.match(rb"^\d+$", cl[0]):
                m.malformed = "cl"
                msgs.append(m)
                return msgs, rest
            n = int(cl[0])
            m.framing = "cl"
            m.body = after[:n]
            if len(after) < n:
                msgs.append(m)
                return msgs, b""
            m.complete = True
            rest = after[n:]
        elif request:
            m.framing, m.complete = "none", True
            rest = after
        else:
            m.framing = "eof"
            m.body = after
            m.complete = eof
            rest = b""
            if not eof:
                msgs.append(m)
                return msgs, b""
        msgs.append(m)
    return msgs, rest


def _dechunk(data: bytes):
    out = b""
    while True:
        i = data.find(b"\r\n")
        if i < 0:
            return out, data, False
        size_s = data[:i].split(b";")[0].strip()
        if not re.match(rb"^[0-9a-fA-F]+$", size_s):
            return out, data, False
        n = int(size_s, 16)
        data = data[i + 2:]
        if n == 0:
            # trailer section
            j = data.find(b"\r\n")
            while j > 0:
                data = data[j + 2:]
                j = data.find(b"\r\n")
            if j < 0:
                return out, data, False
            return out, data[2:], True
        if len(data) < n + 2:
            return out, data, False
        out += data[:n]
        data = data[n + 2:]


# ------------------------------------------------------------------------------------------------------------------
# HTTP/2 peers


def h2_peer(client_side: bool):
    import h2.config
    import h2.connection

    return h2.connection.H2Connection(h2.config.H2Configuration(
        client_side=client_side, header_encoding=False, validate_outbound_headers=False,
        normalize_outbound_headers=False, validate_inbound_headers=False, normalize_inbound_headers=False))


# ------------------------------------------------------------------------------------------------------------------
# HTTP/3 peers


class FakeQuic:
    """The part of aioquic's QuicConnection that H3Connection uses; stream data is collected in `out`."""

    def __init__(self, is_client: bool):
        from aioquic.quic.configuration import QuicConfiguration

        self.configuration = QuicConfiguration(is_client=is_client)
        self._quic_logger = None
        self._remote_max_datagram_frame_size = 0
        self._is_client = is_client
        self._next = [0, 1, 2, 3]
        self.out: list[tuple] = []  # ("data", stream_id, bytes, fin) | ("reset", sid, code) | ("stop", sid, code) | ("close", code, reason)
        self.closed = None

    def get_next_available_stream_id(self, is_unidirectional: bool = False) -> int:
        index = (int(is_unidirectional) << 1) | int(not self._is_client)
        sid = self._next[index]
        self._next[index] = sid + 4
        return sid

    def send_stream_data(self, stream_id: int, data: bytes, end_stream: bool = False) -> None:
        self.out.append(("data", stream_id, bytes(data), end_stream))

    def reset_stream(self, stream_id: int, error_code: int) -> None:
        self.out.append(("reset", stream_id, error_code))

    def stop_send(self, stream_id: int, error_code: int) -> None:
        self.out.append(("stop", stream_id, error_code))

    def close(self, error_code=0, frame_type=None, reason_phrase="") -> None:
        self.closed = (error_code, reason_phrase)
        self.out.append(("close", error_code, reason_phrase))


class H3Peer:
    def __init__(self, is_client: bool):
        from aioquic.h3.connection import H3Connection

        self.quic = FakeQuic(is_client)
        self.h3 = H3Connection(self.quic)

    def take(self) -> list[tuple]:
        out, self.quic.out = self.quic.out, []
        return out

    def receive(self, stream_id: int, data: bytes, fin: bool) -> list:
        from aioquic.quic.events import StreamDataReceived

        return self.h3.handle_event(StreamDataReceived(data=data, end_stream=fin, stream_id=stream_id))
