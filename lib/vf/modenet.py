"""Fake operating-system network layer and executor for X02 (proxy mode specs, server instances, Servers.update).

The real code under test: mitmproxy.proxy.mode_specs.ProxyMode.parse, mitmproxy.proxy.mode_servers.ServerInstance /
AsyncioServerInstance (start, stop, listen, listen_addrs, is_running, last_exception), mitmproxy.addons.proxyserver
(Proxyserver.configure / running / setup_servers, Servers.update) behind the real Options + AddonManager.

What is replaced (the trusted base): asyncio.start_server, mitmproxy_rs.udp.start_udp_server, the class name
mitmproxy_rs.udp.UdpServer (so that listen_addrs takes its UDP branch for the fake server) and
mode_servers.get_free_port.  They bind in a table (`FakeOS`) with the conflict rules of a dual-family host:
same transport, same port, same address family and (equal address or one of them the wildcard) collide; ports below
1024 need `root`; only a few addresses are local.  Binding may be delayed per server instance (`slow`) until the scenario
releases it, which is how update tasks overlap.

Spec texts are sequences of tokens {"t": "w"|"n"|"c"|"a", "s": text, "n": number}: word, decimal number, ":" and "@".
"""
from __future__ import annotations

import asyncio
import errno
import logging
import re
import socket

WILD = ("0.0.0.0", "::")
LOCAL = ("0.0.0.0", "::", "127.0.0.1", "::1", "127.0.0.2")
EPH0 = 40000
DFLT_HOST = "dflt.example"
DFLT_PORT = 4424
VIA = {"ProxyMode": "ProxyMode", "regular": "RegularMode", "socks5": "Socks5Mode", "reverse": "ReverseMode",
       "dns": "DnsMode", "upstream": "UpstreamMode", "wireguard": "WireGuardMode"}


# ---------------------------------------------------------------------------------------------- tokens
def W(s):
    return {"t": "w", "s": s, "n": 0}


def N(n):
    return {"t": "n", "s": "", "n": n}


C = {"t": "c", "s": "", "n": 0}
A = {"t": "a", "s": "", "n": 0}


def render(toks) -> str:
    out = []
    for t in toks:
        out.append({"w": t["s"], "n": str(t["n"]), "c": ":", "a": "@"}[t["t"]])
    return "".join(out)


_CANON = re.compile(r"^(0|[1-9][0-9]{0,5})$")


def tokenize(s: str) -> list:
    """Inverse of render for texts whose numbers are canonical decimals below 10^6 (everything else is a word)."""
    out = []
    for part in re.split(r"([:@])", s):
        if part == ":":
            out.append(dict(C))
        elif part == "@":
            out.append(dict(A))
        elif part == "":
            continue
        elif _CANON.match(part) and part.isascii():
            out.append(N(int(part)))
        else:
            out.append(W(part))
    return out


def T(text: str) -> list:
    toks = tokenize(text)
    assert render(toks) == text, text
    return toks


# ---------------------------------------------------------------------------------------------- fake OS
def fam(host):
    return 6 if ":" in host else 4


class FakeSock:
    def __init__(self, os_, sid, gen, tp, host, port):
        self.os, self.sid, self.gen, self.tp, self.host, self.port, self.open = os_, sid, gen, tp, host, port, True

    def getsockname(self):
        return (self.host, self.port, 0, 0) if fam(self.host) == 6 else (self.host, self.port)

    def close(self):
        if self.open:
            self.open = False
            self.os.trace.append({"k": "close", "sid": self.sid, "gen": self.gen})


class FakeServer:
    """Stands for asyncio.Server."""

    def __init__(self, socks):
        self._socks = socks

    @property
    def sockets(self):
        return tuple(s for s in self._socks if s.open)

    def close(self):
        for s in self._socks:
            s.close()

    async def wait_closed(self):
        return None

    def is_serving(self):
        return any(s.open for s in self._socks)


class FakeUdpServer:
    """Stands for mitmproxy_rs.udp.UdpServer (the name is patched, so isinstance() in listen_addrs holds)."""

    def __init__(self, sock):
        self._sock = sock

    def getsockname(self):
        return self._sock.getsockname()

    def close(self):
        self._sock.close()

    async def wait_closed(self):
        return None


class FakeOS:
    def __init__(self, world, trace, gen_of):
        self.world, self.trace, self.gen_of = world, trace, gen_of
        self.socks: list[FakeSock] = []
        self.ext: list[tuple] = []  # (tp, host, port) held by another process
        self.nsid = 0
        self.eph = 0
        self.gates: dict[int, asyncio.Event] = {}  # gen -> event (start of that instance is blocked)
        self.gated_done: set[int] = set()
        self.nogate: set[int] = set()

    # -- table
    @staticmethod
    def clash(tp, host, port, tp2, host2, port2):
        return tp == tp2 and port == port2 and fam(host) == fam(host2) and (host == host2 or host in WILD or host2 in WILD)

    def holder(self, tp, host, port):
        """gen of the holder of a colliding socket: -1 another process, 0 nobody."""
        for e in self.ext:
            if self.clash(tp, host, port, *e):
                return -1
        for s in self.socks:
            if s.open and self.clash(tp, host, port, s.tp, s.host, s.port):
                return s.gen
        return 0

    def bind(self, gen, tp, host, port):
        """-> FakeSock, or raises OSError.  Logs one bind record."""
        req = port
        res, hold, sid = "ok", 0, 0
        lit = host in LOCAL or re.match(r"^[0-9.]+$", host) or (":" in host and "[" not in host)
        if not lit:
            res = "EAI"
        else:
            if port == 0:
                self.eph += 1
                port = EPH0 + self.eph
            if port < 1024 and not self.world.get("root"):
                res = "EACCES"
            elif host not in LOCAL or (fam(host) == 6 and self.world.get("nov6")):
                res = "EADDRNOTAVAIL"
            else:
                hold = self.holder(tp, host, port)
                if hold:
                    res = "EADDRINUSE"
        if res == "ok":
            self.nsid += 1
            sid = self.nsid
        self.trace.append({"k": "bind", "gen": gen, "tp": tp, "host": host, "req": req, "port": port, "res": res,
                           "hold": hold, "sid": sid})
        if res == "ok":
            s = FakeSock(self, sid, gen, tp, host, port)
            self.socks.append(s)
            return s
        if res == "EAI":
            raise socket.gaierror(socket.EAI_NONAME, "Name or service not known")
        code = getattr(errno, res)
        raise OSError(code, f"error while attempting to bind on address {(host, port)!r}: {errno.errorcode[code]}")

    def ext_bind(self, tp, host, port, auto=False) -> bool:
        if (tp, host, port) in self.ext or self.holder(tp, host, port):
            return False
        self.ext.append((tp, host, port))
        self.trace.append({"k": "ext_bind", "tp": tp, "host": host, "port": port, "auto": auto})
        return True

    def ext_free(self, tp, host, port) -> bool:
        if (tp, host, port) not in self.ext:
            return False
        self.ext.remove((tp, host, port))
        self.trace.append({"k": "ext_free", "tp": tp, "host": host, "port": port})
        return True

    # -- the replaced entry points
    async def _gate(self, inst):
        gen = self.gen_of(inst)
        if gen in self.gated_done or gen in self.nogate:
            return gen
        self.gated_done.add(gen)
        if self.spec_of(inst) in self.world.get("slow", ()):
            ev = self.gates.setdefault(gen, asyncio.Event())
            await ev.wait()
            self.gates.pop(gen, None)
        return gen

    def spec_of(self, inst):
        return self.world["_text2id"].get(inst.mode.full_spec, 0)

    async def start_server(self, cb, host=None, port=None, **kw):
        inst = cb.__self__
        gen = await self._gate(inst)
        if host == "" or host is None:
            hosts = ["0.0.0.0"] + ([] if self.world.get("nov6") else ["::"])
        else:
            hosts = [host]
        done = []
        try:
            for h in hosts:
                done.append(self.bind(gen, "tcp", h, port))
        except OSError:
            for s in done:
                s.close()
            raise
        return FakeServer(done)

    async def start_udp_server(self, host, port, cb, *a, **kw):
        inst = cb.__self__
        gen = await self._gate(inst)
        try:
            s = self.bind(gen, "udp", host, port)
        except OSError as e:
            # mitmproxy_rs reports bind failures as RuntimeError
            raise RuntimeError(f"Failed to bind UDP socket to {host}:{port}\n\nCaused by:\n    {e}") from None
        return FakeUdpServer(s)

    def get_free_port(self):
        """A port that is free for TCP and UDP on IPv4 (what mitmproxy.net.free_port promises)."""
        self.eph += 1
        p = EPH0 + self.eph
        if self.world.get("fp6"):
            self.ext_bind("tcp", "::", p, auto=True)  # somebody else holds it on IPv6
        return p


# ---------------------------------------------------------------------------------------------- executor
class _Master:
    pass


class _Trace(list):
    """The event log; records arriving after the scenario's end (wrap-up, task cancellation) are dropped."""
    frozen = False

    def append(self, x):
        if not self.frozen:
            super().append(x)


def run(sc: dict) -> list[dict]:
    """Run one scenario {"world": ..., "ops": [...]} on the real code; return the trace."""
    from vf import vloop

    import mitmproxy_rs
    from mitmproxy import addonmanager, command, exceptions, hooks, options
    from mitmproxy import ctx as mctx
    from mitmproxy.addons import proxyserver
    from mitmproxy.proxy import mode_servers, mode_specs

    logging.disable(logging.CRITICAL)
    world = dict(sc["world"])
    specs = world["specs"]
    texts = [render(s["toks"]) for s in specs]
    world["_text2id"] = {}
    for i, t in enumerate(texts):
        world["_text2id"].setdefault(t, i + 1)
    trace = _Trace()
    gens: dict[int, tuple] = {}  # id(obj) -> (obj, gen)

    def gen_of(inst):
        e = gens.get(id(inst))
        if e is None:
            e = gens[id(inst)] = (inst, len(gens) + 1)
        return e[1]

    fos = FakeOS(world, trace, gen_of)
    trace.append({"k": "world", "good": list(world.get("good", [])), "goods": list(world.get("goods", [])), "opt_host": world.get("opt_host", ""),
                  "opt_port": world.get("opt_port", 0), "root": bool(world.get("root")), "nspecs": len(specs)})

    m = _Master()
    m.options = options.Options()
    m.commands = command.CommandManager(m)
    m.addons = addonmanager.AddonManager(m)
    saved_ctx = (getattr(mctx, "master", None), getattr(mctx, "options", None))
    mctx.master, mctx.options = m, m.options
    opts = m.options

    def addr_view(a):
        return [a[0], a[1]]

    def inst_view(inst, full=True):
        d = {"spec": fos.spec_of(inst), "gen": gen_of(inst), "run": False}
        try:
            d["run"] = bool(inst.is_running)
        except Exception as e:  # noqa: BLE001
            d["run"] = False
            d["bad"] = type(e).__name__
        if full:
            try:
                d["addrs"] = [addr_view(a) for a in inst.listen_addrs]
            except Exception as e:  # noqa: BLE001
                d["addrs"] = []
                d["bad"] = type(e).__name__
            le = inst.last_exception
            d["exc"] = type(le).__name__ if le is not None else ""
            d["hint"] = bool(le is not None and "Try specifying a different port" in str(le))
            try:
                j = inst.to_json()
                d["json"] = {"run": bool(j["is_running"]), "addrs": [addr_view(a) for a in j["listen_addrs"]],
                             "exc": bool(j["last_exception"]), "spec": tokenize(j["full_spec"]) == specs[d["spec"] - 1]["toks"]
                             if d["spec"] else False}
            except Exception as e:  # noqa: BLE001
                d["json"] = {"run": False, "addrs": [], "exc": False, "spec": False}
                d["bad"] = type(e).__name__
        return d

    def parse_event(i, s):
        text = texts[i]
        ev = {"k": "spec", "id": i + 1, "toks": s["toks"], "via": s.get("via", "ProxyMode"), "res": "ok", "type": "",
              "full": [], "data": [], "hashost": False, "chost": [], "cport": -1, "lh0": [], "lh1": [], "lp0": -1,
              "lp1": -1, "tp": "", "lhost": "", "lport": -1}
        try:
            cls = getattr(mode_specs, VIA[ev["via"]])
            md = cls.parse(text)
        except ValueError:
            ev["res"] = "ValueError"
            return ev
        except Exception as e:  # noqa: BLE001
            ev["res"] = type(e).__name__
            return ev
        try:
            ev["type"] = str(md.type_name)
            ev["full"] = tokenize(md.full_spec)
            ev["data"] = tokenize(md.data)
            ev["hashost"] = md.custom_listen_host is not None
            ev["chost"] = tokenize(md.custom_listen_host or "")
            ev["cport"] = -1 if md.custom_listen_port is None else int(md.custom_listen_port)
            ev["lh0"] = tokenize(md.listen_host())
            ev["lh1"] = tokenize(md.listen_host(DFLT_HOST))
            p0, p1 = md.listen_port(), md.listen_port(DFLT_PORT)
            ev["lp0"] = -1 if p0 is None else int(p0)
            ev["lp1"] = -1 if p1 is None else int(p1)
            ev["tp"] = str(md.transport_protocol)
            ev["lhost"] = md.listen_host(world.get("opt_host", ""))
            lp = md.listen_port(world.get("opt_port") or None)
            ev["lport"] = -1 if lp is None else int(lp)
        except Exception as e:  # noqa: BLE001
            ev["res"] = "accessor:" + type(e).__name__
        return ev

    state = {"begun": 0, "ended": 0, "alone": None}

    async def main(loop):
        if world.get("eager"):
            loop.set_task_factory(asyncio.eager_task_factory)
        ps = proxyserver.Proxyserver()
        m.addons.add(ps)
        opts.update(mode=[])  # start from an empty mode list (the default would be ["regular"])
        if world.get("opt_host"):
            opts.update(listen_host=world["opt_host"])
        if world.get("opt_port"):
            opts.update(listen_port=world["opt_port"])
        for i, s in enumerate(specs):
            trace.append(parse_event(i, s))

        real_update = ps.servers.update

        async def update(modes):
            state["begun"] += 1
            try:
                r = await real_update(modes)
                trace.append({"k": "upd", "res": bool(r), "exc": "", "insts": [inst_view(x, False) for x in ps.servers]})
                return r
            except BaseException as e:  # noqa: BLE001
                trace.append({"k": "upd", "res": False, "exc": type(e).__name__,
                              "insts": [inst_view(x, False) for x in ps.servers]})
                raise
            finally:
                state["ended"] += 1

        ps.servers.update = update  # instance attribute: a probe around the real coroutine

        def on_changed():
            trace.append({"k": "changed", "insts": [inst_view(x, False) for x in ps.servers]})

        ps.servers.changed.connect(on_changed)

        def snapshot():
            modes = []
            for t in opts.mode:
                modes.append(world["_text2id"].get(t, 0))
            alone = state["alone"]
            trace.append({"k": "state", "mode": modes, "server": bool(opts.server), "psrun": bool(ps.is_running),
                          "busy": state["begun"] != state["ended"] or bool(ps.servers.is_updating),
                          "insts": [inst_view(x) for x in ps.servers],
                          "alone": [inst_view(alone)] if alone is not None else [],
                          "blocked": sorted(fos.gates)})

        def set_option(**kw):
            try:
                opts.update(**kw)
                return ""
            except exceptions.OptionsError:
                return "OptionsError"
            except Exception as e:  # noqa: BLE001
                return type(e).__name__

        bg: list = []
        for op in sc["ops"]:
            kind = op[0]
            if kind == "set_mode":
                trace.append({"k": "op", "op": "set_mode", "cfg": list(op[1])})
                err = set_option(mode=[texts[i - 1] for i in op[1]])
                trace.append({"k": "ret", "err": err})
            elif kind == "set_server":
                trace.append({"k": "op", "op": "set_server", "on": bool(op[1])})
                err = set_option(server=bool(op[1]))
                trace.append({"k": "ret", "err": err})
            elif kind == "running":
                trace.append({"k": "op", "op": "running"})
                err = ""
                try:
                    m.addons.trigger(hooks.RunningHook())
                except Exception as e:  # noqa: BLE001
                    err = type(e).__name__
                trace.append({"k": "ret", "err": err})
            elif kind == "setup":
                trace.append({"k": "op", "op": "setup"})
                bg.append(asyncio.ensure_future(ps.setup_servers()))
                trace.append({"k": "ret", "err": ""})
            elif kind in ("release", "release_any"):
                if kind == "release_any":
                    g = min(fos.gates, default=None)
                    if g is None:
                        continue
                    op = ["release", fos.spec_of(_obj(gens, g))]
                g = next((g for g in sorted(fos.gates) if gens and fos.spec_of(_obj(gens, g)) == op[1]), None)
                if g is None:
                    break  # not enabled on the real object
                trace.append({"k": "op", "op": "release", "spec": op[1], "gen": g})
                fos.gates[g].set()
                trace.append({"k": "ret", "err": ""})
            elif kind == "connect":
                from mitmproxy import connection
                from mitmproxy.proxy import server_hooks

                _c, host, port, tp = op
                srv = connection.Server(address=(host, port), transport_protocol=tp)
                cl = connection.Client(peername=("198.51.100.7", 40000), sockname=("127.0.0.1", 8080), timestamp_start=0)
                err = ""
                try:
                    ps.server_connect(server_hooks.ServerConnectionHookData(server=srv, client=cl))
                except Exception as e:  # noqa: BLE001
                    err = type(e).__name__
                trace.append({"k": "connect", "host": host, "port": port, "tp": tp, "refused": srv.error is not None, "err": err})
            elif kind == "ext_bind":
                if not fos.ext_bind(op[1], op[2], op[3]):
                    break
            elif kind == "ext_free":
                if not fos.ext_free(op[1], op[2], op[3]):
                    break
            elif kind == "make":
                trace.append({"k": "op", "op": "make", "spec": op[1]})
                err = ""
                try:
                    inst = mode_servers.ServerInstance.make(texts[op[1] - 1], ps)
                    state["alone"] = inst
                    fos.nogate.add(gen_of(inst))
                except Exception as e:  # noqa: BLE001
                    err = type(e).__name__
                trace.append({"k": "ret", "err": err, "gen": gen_of(state["alone"]) if not err else 0})
                if err:
                    break
            elif kind in ("istart", "istop", "itoggle"):
                inst = state["alone"]
                if kind == "itoggle" and inst is not None:
                    kind = "istop" if inst.is_running else "istart"
                if inst is None or bool(inst.is_running) != (kind == "istop"):
                    break  # outside the domain: start of a running / stop of a stopped instance
                trace.append({"k": "op", "op": kind, "gen": gen_of(inst)})
                err = ""
                try:
                    await (inst.start() if kind == "istart" else inst.stop())
                except Exception as e:  # noqa: BLE001
                    err = type(e).__name__
                trace.append({"k": "ret", "err": err})
            else:
                raise ValueError(op)
            try:
                await vloop.settle()
            except vloop.Stalled:
                trace.append({"k": "stalled"})
                break
            snapshot()
        trace.append({"k": "end"})
        # wrap-up: let blocked starts finish so that no task is left pending (not part of the trace)
        trace.frozen = True
        for _i in range(50):
            if not fos.gates:
                break
            for ev in list(fos.gates.values()):
                ev.set()
            try:
                await vloop.settle()
            except vloop.Stalled:
                break
        for t in bg:
            if not t.done():
                t.cancel()

    old = (asyncio.start_server, mitmproxy_rs.udp.start_udp_server, mitmproxy_rs.udp.UdpServer, mode_servers.get_free_port)
    asyncio.start_server = fos.start_server
    mitmproxy_rs.udp.start_udp_server = fos.start_udp_server
    mitmproxy_rs.udp.UdpServer = FakeUdpServer
    mode_servers.get_free_port = fos.get_free_port
    try:
        vloop.run(main)
    finally:
        (asyncio.start_server, mitmproxy_rs.udp.start_udp_server, mitmproxy_rs.udp.UdpServer,
         mode_servers.get_free_port) = old
        mctx.master, mctx.options = saved_ctx
        logging.disable(logging.NOTSET)
    return list(trace)


def _obj(gens, g):
    for obj, gg in gens.values():
        if gg == g:
            return obj
    return None
