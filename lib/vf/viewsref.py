"""Independent reference decoders for C34 (query / urlencoded form / cookies / set-cookie / multipart / path).

None of these call mitmproxy (or urllib.parse / http.cookies / email): they are small hand-written parsers of the wire
formats, used only to *project* a message before and after a view write-back so the monitor can compare meanings.
All results are bytes (or tuples of bytes).
"""
from __future__ import annotations

import re

_HEX = b"0123456789abcdefABCDEF"


def pct_decode(b: bytes, plus: bool = False) -> bytes:
    out = bytearray()
    i, n = 0, len(b)
    while i < n:
        c = b[i]
        if c == 0x25 and i + 2 < n and b[i + 1] in _HEX and b[i + 2] in _HEX:
            out.append(int(b[i + 1:i + 3], 16))
            i += 3
        elif c == 0x2B and plus:
            out.append(0x20)
            i += 1
        else:
            out.append(c)
            i += 1
    return bytes(out)


def urlencoded_pairs(q: bytes):
    """application/x-www-form-urlencoded: split on '&', drop empty segments, first '=' separates, '+' is a space."""
    out = []
    for seg in q.split(b"&"):
        if not seg:
            continue
        k, eq, v = seg.partition(b"=")
        out.append((pct_decode(k, True), pct_decode(v, True)))
    return out


_CHARSET = re.compile(r'charset\s*=\s*"?([A-Za-z0-9_.:-]+)"?', re.I)


def form_bytes(content_type: str, body: bytes) -> bytes:
    """The octets of a urlencoded form as an ASCII-compatible byte string: a body in a declared UTF-16 / UTF-32
    encoding is transcoded to UTF-8 first (every other declared charset is ASCII-compatible for the characters the
    format itself uses, so its bytes are taken as they are)."""
    m = _CHARSET.search(content_type or "")
    cs = m.group(1).lower().replace("_", "-") if m else ""
    if cs.startswith(("utf-16", "utf16", "utf-32", "utf32", "ucs-2", "ucs-4")):
        try:
            return body.decode(cs).encode("utf-8", "surrogatepass")
        except (UnicodeError, LookupError):
            return b"<undecodable:" + cs.encode() + b">" + body
    return body


def split_target(path: bytes):
    """request-target (origin form) -> (path part, ';params' of the last segment, query or None, fragment or None)."""
    frag = None
    if b"#" in path:
        path, _, frag = path.partition(b"#")
    query = None
    if b"?" in path:
        path, _, query = path.partition(b"?")
    params = b""
    last = path.rsplit(b"/", 1)[-1]
    if b";" in last:
        cut = len(path) - len(last) + last.index(b";")
        path, params = path[:cut], path[cut:]
    return path, params, query, frag


def path_segments(p: bytes):
    """All segments of the path part (empty ones included: '/a//b/' has segments a, '', b, ''), percent-decoded."""
    if p.startswith(b"/"):
        p = p[1:]
    return [pct_decode(s) for s in p.split(b"/")] if p != b"" else []


def _quoted(s: str, i: int):
    """s[i] is a double quote: read a quoted-string with backslash escapes; returns (value, index after it)."""
    out = []
    i += 1
    while i < len(s):
        c = s[i]
        if c == "\\" and i + 1 < len(s):
            out.append(s[i + 1])
            i += 2
        elif c == '"':
            return "".join(out), i + 1
        else:
            out.append(c)
            i += 1
    return "".join(out), i


def _av_pairs(s: str):
    """'a=1; b="x;y"; c' -> [(a,1),(b,x;y),(c,None)] ; values may be quoted-strings (RFC 2109 style) or raw up to ';'."""
    out = []
    i, n = 0, len(s)
    while i < n:
        j = i
        while j < n and s[j] not in ";=":
            j += 1
        name = s[i:j].strip(" \t")
        val = None
        if j < n and s[j] == "=":
            j += 1
            if j < n and s[j] == '"':
                val, j = _quoted(s, j)
                while j < n and s[j] != ";":
                    j += 1
            else:
                k = j
                while k < n and s[k] != ";":
                    k += 1
                val, j = s[j:k], k
        if name or val:
            out.append((name, val))
        i = j + 1
    return out


def cookie_pairs(header_values):
    """Cookie header values -> [(name, value)]; a name without '=' has the empty value."""
    out = []
    for h in header_values:
        for k, v in _av_pairs(h):
            out.append((k, v if v is not None else ""))
    return out


def set_cookie_meaning(header_values):
    """Set-Cookie header values (one cookie per header, RFC 6265) -> [(name, value, ((attr, value|None), ...))]."""
    out = []
    for h in header_values:
        av = _av_pairs(h)
        if not av:
            continue
        (name, value), attrs = av[0], av[1:]
        out.append((name, value, tuple(attrs)))
    return out


_BOUNDARY = re.compile(r'boundary\s*=\s*(?:"([^"]*)"|([^;\s]*))', re.I)
_NAME = re.compile(rb'(?:^|[;\s])name="((?:[^"\\]|\\.)*)"', re.I)
_FILENAME = re.compile(rb'(?:^|[;\s])filename="((?:[^"\\]|\\.)*)"', re.I)


def multipart_parts(content_type: str, body: bytes):
    """RFC 2046 / 7578 body -> [(name, filename, content)] or None if there is no usable boundary.
    The delimiter is CRLF '--' boundary; a part's content is everything between the blank line after its headers and
    the CRLF that precedes the next delimiter (so line breaks inside and at the end of values are kept)."""
    m = _BOUNDARY.search(content_type or "")
    if not m:
        return None
    boundary = (m.group(1) if m.group(1) is not None else m.group(2)).encode("utf-8", "surrogateescape")
    if not boundary:
        return None
    delim = b"--" + boundary
    data = b"\r\n" + body
    chunks = data.split(b"\r\n" + delim)
    parts = []
    for ch in chunks[1:]:
        if ch.startswith(b"--"):
            break  # close delimiter
        # transport padding, then CRLF
        rest = ch.lstrip(b" \t")
        if not rest.startswith(b"\r\n"):
            continue
        rest = rest[2:]
        if rest.startswith(b"\r\n"):
            head, content = b"", rest[2:]
        else:
            head, sep, content = rest.partition(b"\r\n\r\n")
            if not sep:
                head, content = rest, b""
        name = filename = None
        for line in head.split(b"\r\n"):
            if line.lower().startswith(b"content-disposition:"):
                mm = _NAME.search(line)
                if mm:
                    name = mm.group(1)
                mf = _FILENAME.search(line)
                if mf:
                    filename = mf.group(1)
        parts.append((name if name is not None else b"<noname>", filename if filename is not None else b"", content))
    return parts
