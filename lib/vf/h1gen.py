"""Concretiser for the abstract HTTP/1 message classes of spec/Http1Conn (C01, C02): class record -> bytes.

A class fixes what decides framing (Transfer-Encoding class, Content-Length class, field-name class, version, method,
body / chunk shape); the concretiser picks one of several spellings per class from a seeded RNG (header case, OWS,
order of the framing fields, request-target form).  Every message i carries `X-Id: i` (requests) / `X-Re: i`
(responses: the origin-server peer echoes the id of the request it answers) and a body that is unique to i.
"""
from __future__ import annotations

import random

TE_REQ = ("none", "chunked", "gzip_chunked", "two_fields", "gzip", "identity", "unknown_chunked", "chunked_twice",
          "chunked_gzip", "nonascii", "empty")
CL_ALL = ("none", "n", "zero", "ws", "plus", "hex", "padded", "neg", "list_same", "two_same", "two_diff", "empty")
NM_ALL = ("ok", "fold", "sp_colon", "ctl", "nonascii", "sp_colon_cl", "sp_colon_te", "empty", "nocolon", "lead_fold")
SHAPES = ("plain", "ext", "ext_bws", "upper", "zero", "badhex", "lf")

TE_CHUNKED_INTENT = ("chunked", "gzip_chunked", "two_fields", "unknown_chunked", "chunked_twice", "nonascii")
CL_SIZED = ("n", "ws", "plus", "hex", "padded", "list_same", "two_same", "two_diff")


def payload(i: int, resp: bool = False) -> bytes:
    return ((b"rbody%d-" if resp else b"body%d-") % i).ljust(9, b"x")[:9]


def _case(rng, name: bytes) -> bytes:
    return rng.choice([name, name.lower(), name.upper()])


def _te_lines(rng, te: str) -> list:
    N = _case(rng, b"Transfer-Encoding")
    if te == "none":
        return []
    if te == "chunked":
        return [N + b": " + rng.choice([b"chunked", b"Chunked", b"CHUNKED", b"chunked  ", b"\tchunked"])]
    if te == "gzip_chunked":
        return [N + b": " + rng.choice([b"gzip, chunked", b"gzip,chunked", b"GZIP ,\tchunked", b"deflate, chunked"])]
    if te == "two_fields":
        return [N + b": gzip", _case(rng, b"Transfer-Encoding") + b": chunked"]
    if te == "gzip":
        return [N + b": " + rng.choice([b"gzip", b"deflate", b"Compress"])]
    if te == "identity":
        return [N + b": " + rng.choice([b"identity", b"Identity"])]
    if te == "unknown_chunked":
        return [N + b": " + rng.choice([b"foo, chunked", b"br, chunked", b"x-custom,chunked"])]
    if te == "chunked_twice":
        return [N + b": " + rng.choice([b"chunked, chunked", b"chunked,chunked", b"Chunked, chunked"])]
    if te == "chunked_gzip":
        return [N + b": " + rng.choice([b"chunked, gzip", b"chunked,identity"])]
    if te == "nonascii":  # U+212A KELVIN SIGN lower-cases to "k"; U+017F LONG S upper-cases to "S"
        return [N + b": " + rng.choice(["chunKed".encode(), "gzip, chunKed".encode()])]
    if te == "empty":
        return [N + b":" + rng.choice([b"", b" ", b"  "])]
    raise ValueError(te)


def _cl_lines(rng, cl: str, n: int) -> list:
    N = _case(rng, b"Content-Length")
    d = b"%d" % n
    if cl == "none":
        return []
    if cl == "n":
        return [N + b": " + d]
    if cl == "zero":
        return [N + b": 0"]
    if cl == "ws":
        return [N + rng.choice([b":" + d, b":  " + d + b" ", b":\t" + d + b"\t"])]
    if cl == "plus":
        return [N + b": +" + d]
    if cl == "hex":
        return [N + b": " + rng.choice([b"0x%x" % n, b"%dabc" % n, d + b".0"])]
    if cl == "padded":
        return [N + b": " + rng.choice([b"0" + d, b"00" + d])]
    if cl == "neg":
        return [N + b": -" + d]
    if cl == "list_same":
        return [N + b": " + rng.choice([d + b", " + d, d + b"," + d])]
    if cl == "two_same":
        return [N + b": " + d, _case(rng, b"Content-Length") + b": " + d]
    if cl == "two_diff":
        k = rng.choice([0, 1])
        vals = [d, b"%d" % (n + 1)]
        return [N + b": " + vals[k], _case(rng, b"Content-Length") + b": " + vals[1 - k]]
    if cl == "empty":
        return [N + b":" + rng.choice([b"", b" "])]
    raise ValueError(cl)


def _nm_lines(rng, nm: str, n: int) -> tuple:
    """-> (lines to put first, lines to put among the other fields)."""
    if nm == "ok":
        return [], []
    if nm == "fold":
        return [], [b"X-Fold: part1\r\n" + rng.choice([b" ", b"\t", b"   "]) + b"part2"]
    if nm == "sp_colon":
        return [], [rng.choice([b"X-Bad : v", b"X-Bad\t: v"])]
    if nm == "ctl":
        return [], [rng.choice([b"X-B\x01ad: v", b"X Bad: v", b"X-Bad(1): v", b"X\x7fBad: v"])]
    if nm == "nonascii":
        return [], [rng.choice(["X-Bäd: v".encode(), b"X-B\xffd: v"])]
    if nm == "sp_colon_cl":
        return [], [rng.choice([b"Content-Length : %d" % n, b"Content-Length\t: %d" % n])]
    if nm == "sp_colon_te":
        return [], [rng.choice([b"Transfer-Encoding : chunked", b"Transfer-Encoding\t: chunked"])]
    if nm == "empty":
        return [], [rng.choice([b": v", b":v"])]
    if nm == "nocolon":
        return [], [rng.choice([b"garbage line", b"X-NoColon"])]
    if nm == "lead_fold":
        return [rng.choice([b" leading: fold", b"\tX-Lead: v"])], []
    raise ValueError(nm)


def chunked(rng, data: bytes, shape: str) -> bytes:
    if shape == "zero" or not data:
        return b"0\r\n\r\n"
    k = max(1, len(data) // 2)
    parts = [data[:k], data[k:]] if len(data) > 1 and rng.random() < 0.8 else [data]
    parts = [p for p in parts if p]
    out = b""
    for j, p in enumerate(parts):
        size = b"%x" % len(p)
        if shape == "upper":
            size = (b"%X" % (len(p) + 10))  # forces a hex letter below
            p = p + b"Q" * 10
        if shape == "ext" and j == 0:
            size += rng.choice([b";ext=1", b";a", b";x=\"y z\""])
        if shape == "ext_bws" and j == 0:  # BWS before the semicolon: allowed by RFC 9112 7.1.1, refused by h11
            size += rng.choice([b" ;x=\"y\"", b"\t;a=1"])
        if shape == "badhex" and j == len(parts) - 1:
            size = rng.choice([b"zz", b"0x" + size, b"-1", b""])
        if shape == "lf" and j == len(parts) - 1:
            out += size + b"\n" + p + b"\r\n"
            continue
        out += size + b"\r\n" + p + b"\r\n"
    return out + b"0\r\n\r\n"


def chunk_body(data: bytes, shape: str) -> bytes:
    """The payload the chunk shape carries (shape "upper" pads every chunk)."""
    return data


def _assemble(rng, start: bytes, first: list, groups: list) -> bytes:
    """groups: list of lists of lines that must stay in order internally; the groups are shuffled."""
    rng.shuffle(groups)
    lines = list(first)
    for g in groups:
        lines += g
    return start + b"\r\n" + b"".join(x + b"\r\n" for x in lines) + b"\r\n"


def request_bytes(rc: dict, i: int, rng: random.Random, host: bytes = b"h.example") -> bytes:
    pay = payload(i)
    n = len(pay)
    path = b"/m%d" % i
    form = rng.choice(["abs", "abs", "origin"])
    target = (b"http://" + host + path) if form == "abs" else path
    start = rc["m"].encode() + b" " + target + b" HTTP/" + rc["v"].encode()
    first, among = _nm_lines(rng, rc["nm"], n)
    base = [[b"Host: " + host], [b"X-Id: %d" % i], [b"X-Drop: d"]]
    te_l, cl_l = _te_lines(rng, rc["te"]), _cl_lines(rng, rc["cl"], n)
    groups = base + ([te_l] if te_l else []) + ([cl_l] if cl_l else []) + [[x] for x in among]
    if rc.get("exp"):
        groups.append([rng.choice([b"Expect: 100-continue", b"expect: 100-Continue"])])
    # a continuation line must follow a field of its own group: keep host first when a fold is present
    head = _assemble(rng, start, first, groups)
    return head + request_body(rc, i, rng)


def request_body(rc: dict, i: int, rng) -> bytes:
    pay = payload(i)
    if rc["te"] in TE_CHUNKED_INTENT or rc["nm"] == "sp_colon_te":
        return chunked(rng, pay, rc["body"])
    if rc["cl"] in CL_SIZED or rc["nm"] == "sp_colon_cl":
        return pay
    return b""


def response_bytes(sc: dict, i: int, rng: random.Random) -> bytes:
    pay = payload(i, True)
    n = len(pay)
    st = int(sc["st"])
    reason = {100: b"Continue", 103: b"Early Hints", 200: b"OK", 204: b"No Content", 304: b"Not Modified",
              404: b"Not Found"}.get(st, b"Status")
    start = b"HTTP/" + sc["v"].encode() + b" %d " % st + reason
    first, among = _nm_lines(rng, sc["nm"], n)
    base = [[b"X-Re: %d" % i], [b"X-Drop: d"], [b"Server: peer"]]
    te_l, cl_l = _te_lines(rng, sc["te"]), _cl_lines(rng, sc["cl"], n)
    groups = base + ([te_l] if te_l else []) + ([cl_l] if cl_l else []) + [[x] for x in among]
    head = _assemble(rng, start, first, groups)
    return head + response_body(sc, i, rng)


def response_body(sc: dict, i: int, rng) -> bytes:
    """What the origin server appends after the head.  It knows the request method: no body after HEAD / 1xx / 204 /
    304 (sc["nobody"] set by the caller for those)."""
    if sc.get("nobody"):
        return b""
    pay = payload(i, True)
    if sc["te"] in TE_CHUNKED_INTENT or sc["nm"] == "sp_colon_te":
        return chunked(rng, pay, sc["body"])
    if sc["cl"] in CL_SIZED or sc["nm"] == "sp_colon_cl":
        return pay
    if sc["cl"] in ("zero", "neg", "empty"):
        return b""
    if sc.get("close"):
        return pay  # delimited by close
    return b""


def lat(b: bytes) -> str:
    return b.decode("latin-1")


def unlat(s: str) -> bytes:
    return s.encode("latin-1")
