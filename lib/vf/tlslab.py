"""Shared pieces of the TLS property checks C15 / C16 / C18 (owner: these three checks).

* `Lab`          the real addons TlsConfig + NextLayer (+ Proxyserver for its options) inside a taddons context, so
                 that `mitmproxy.ctx.options` is what the addons read; one per process.
* `SslPeer`      an in-memory TLS peer built on Python's `ssl` module (its own libssl, independent of the pyOpenSSL
                 objects mitmproxy uses); client or server side.
* `FullStack`    drives the real layer stack of one client connection sans-io: mode layer -> real NextLayer addon ->
                 ClientTLSLayer/ServerTLSLayer/HttpLayer, with the real TlsConfig answering the TLS hooks.
"""
from __future__ import annotations

import ssl
from pathlib import Path
from typing import Any, Callable

from . import sansio

_LAB = None


class Lab:
    def __init__(self, confdir: str | Path):
        from mitmproxy.addons import next_layer, proxyserver, tlsconfig
        from mitmproxy.test import taddons

        self.nl = next_layer.NextLayer()
        self.ta = tlsconfig.TlsConfig()
        self.ps = proxyserver.Proxyserver()
        self.tctx = taddons.context(self.ps, self.nl, self.ta)
        self.confdir = str(confdir)
        Path(self.confdir).mkdir(parents=True, exist_ok=True)
        self.tctx.options.update(confdir=self.confdir, connection_strategy="lazy")
        self.ta.configure({"confdir"})
        self.defaults = {k: getattr(self.tctx.options, k) for k in self.tctx.options.keys()}

    @property
    def options(self):
        return self.tctx.options

    def set(self, **kw):
        """Set options (the addons' configure hooks run as they do in mitmproxy)."""
        upd = {k: v for k, v in kw.items() if getattr(self.tctx.options, k) != v}
        if upd:
            self.tctx.options.update(**upd)

    def reset(self, keep=("confdir", "connection_strategy")):
        upd = {k: v for k, v in self.defaults.items() if k not in keep and getattr(self.tctx.options, k) != v}
        if upd:
            self.tctx.options.update(**upd)


def lab(confdir: str | Path | None = None) -> Lab:
    global _LAB
    if _LAB is None:
        if confdir is None:
            raise RuntimeError("tlslab.lab(): first call needs a confdir")
        _LAB = Lab(confdir)
    return _LAB


class SslPeer:
    """Python-ssl memory-BIO peer."""

    def __init__(self, *, server_side: bool = False, alpn: list[str] | None = None, sni: str | None = None,
                 certfile: str | None = None, keyfile: str | None = None, cafile: str | None = None,
                 verify: bool = False, max_version=None, min_version=None, alpn_select: str | None = None):
        self.inc = ssl.MemoryBIO()
        self.out = ssl.MemoryBIO()
        self.ctx = ssl.SSLContext(ssl.PROTOCOL_TLS_SERVER if server_side else ssl.PROTOCOL_TLS_CLIENT)
        if not server_side:
            self.ctx.check_hostname = bool(verify)
            self.ctx.verify_mode = ssl.CERT_REQUIRED if verify else ssl.CERT_NONE
            if cafile:
                self.ctx.load_verify_locations(cafile=cafile)
        if certfile:
            self.ctx.load_cert_chain(certfile=certfile, keyfile=keyfile)
        if alpn:
            self.ctx.set_alpn_protocols(alpn)
        if max_version:
            self.ctx.maximum_version = max_version
        if min_version:
            self.ctx.minimum_version = min_version
        self.obj = self.ctx.wrap_bio(self.inc, self.out, server_side=server_side,
                                     server_hostname=None if server_side else sni)
        self.done = False
        self.error: str | None = None

    def handshake_step(self) -> bool:
        """Advance the handshake; True once complete.  Errors are kept in self.error."""
        if self.done or self.error:
            return self.done
        try:
            self.obj.do_handshake()
            self.done = True
        except ssl.SSLWantReadError:
            pass
        except (ssl.SSLError, OSError) as e:
            self.error = f"{type(e).__name__}: {e}"
        return self.done

    def take(self) -> bytes:
        return self.out.read()

    def give(self, data: bytes):
        if data:
            self.inc.write(data)

    def read_app(self) -> bytes:
        """Decrypt whatever application data has arrived."""
        buf = bytearray()
        while True:
            try:
                d = self.obj.read(65536)
            except (ssl.SSLWantReadError, ssl.SSLZeroReturnError):
                break
            except (ssl.SSLError, OSError) as e:
                self.error = self.error or f"{type(e).__name__}: {e}"
                break
            if not d:
                break
            buf.extend(d)
        return bytes(buf)

    def write_app(self, data: bytes):
        self.obj.write(data)


MODE_SPECS = {
    "swp_outer": "regular", "swp_inner": "regular", "regular_inner": "regular",
    "upstream_outer": "upstream:https://upstream-proxy.example:3128",
    "transparent": "transparent",
    "reverse_https": "reverse:https://reverse-target.example:443",
    "reverse_http": "reverse:http://reverse-target.example:80",
}


class FullStack:
    """One client connection through the real layers.  `on_tls(hook_name, data, nth)` lets the scenario act as
    an addon that runs before/after TlsConfig (nth = how many tls_clienthello hooks were seen so far)."""

    def __init__(self, lb: Lab, mode: str, *, sockname=("127.0.0.1", 8080), server_address=("203.0.113.5", 443),
                 before: Callable[[str, Any, int], None] | None = None,
                 after: Callable[[str, Any, int], None] | None = None):
        from mitmproxy import connection
        from mitmproxy.proxy import context
        from mitmproxy.proxy.layers import modes
        from mitmproxy.proxy.mode_specs import ProxyMode

        self.lab = lb
        self.mode = mode
        c = connection.Client(peername=("192.0.2.99", 51234), sockname=sockname, timestamp_start=1605699329,
                              state=connection.ConnectionState.OPEN)
        c.proxy_mode = ProxyMode.parse(MODE_SPECS[mode])
        self.ctx = context.Context(c, lb.options)
        if mode in ("swp_outer", "swp_inner", "regular_inner"):
            top = modes.HttpProxy(self.ctx)
        elif mode == "upstream_outer":
            top = modes.HttpUpstreamProxy(self.ctx)
        elif mode == "transparent":
            self.ctx.server.address = server_address
            top = modes.TransparentProxy(self.ctx)
        else:
            top = modes.ReverseProxy(self.ctx)
        self.before, self.after = before, after
        self.n_hello = 0
        self.raised: str | None = None
        self.crashed: str | None = None
        self.tls_starts: list = []  # TlsData of every tls_start_client, in order
        self.hooks: list[str] = []
        # upstream side: server_peer_factory(conn) -> object with give(bytes) / take() -> bytes / closes: bool,
        # made when the first bytes are written to a server connection; none = servers stay silent
        self.server_peer_factory: Callable[[Any], Any] | None = None
        self.server_peers: dict[str, Any] = {}
        self._server_mark: dict[str, int] = {}
        self.driver = sansio.Driver(self.ctx, top, on_hook=self._on_hook, auto_hooks=True)
        self.driver.start()

    # the real addons answer the hooks (what AddonManager.handle_lifecycle would do for these three addons)
    def _on_hook(self, d, cmd):
        name = cmd.name
        self.hooks.append(name)
        data = getattr(cmd, "data", None)
        if name == "tls_clienthello":
            self.n_hello += 1
        try:
            if self.before and name.startswith("tls_"):
                self.before(name, data, self.n_hello)
            if name == "next_layer":
                self.lab.nl.next_layer(data)
            elif name == "tls_clienthello":
                self.lab.ta.tls_clienthello(data)
            elif name == "tls_start_client":
                self.tls_starts.append(data)
                self.lab.ta.tls_start_client(data)
            elif name == "tls_start_server":
                self.lab.ta.tls_start_server(data)
            if self.after and name.startswith("tls_"):
                self.after(name, data, self.n_hello)
        except Exception as e:  # an exception escaping an addon hook: mitmproxy logs it and carries on
            self.raised = self.raised or type(e).__name__

    def feed_client(self, data: bytes) -> bytes:
        """Bytes from the client; returns what mitmproxy sent back to the client meanwhile."""
        n0 = len(self.driver.sent.get("client", b""))
        if self.crashed:
            return b""
        try:
            self.driver.data(self.ctx.client, data)
            self.settle()
        except Exception as e:  # server.py: "mitmproxy has crashed!" -- the connection is dead from here on
            self.crashed = f"{type(e).__name__}: {e}"
        return bytes(self.driver.sent.get("client", b""))[n0:]

    def settle(self):
        """Complete pending OpenConnections and move bytes between server connections and their peers."""
        from mitmproxy.connection import ConnectionState

        d = self.driver
        for _ in range(60):
            moved = False
            for op in list(d.opens_pending()):
                d.complete(op)
                moved = True
            if self.server_peer_factory is not None:
                for name in [n for n in list(d.sent) if n.startswith("server")]:
                    out = bytes(d.sent[name])
                    new = out[self._server_mark.get(name, 0):]
                    self._server_mark[name] = len(out)
                    if not new:
                        continue
                    moved = True
                    conn = d.conn(name)
                    peer = self.server_peers.get(name)
                    if peer is None:
                        peer = self.server_peers[name] = self.server_peer_factory(conn)
                    peer.give(new)
                    if getattr(peer, "closes", False):
                        if conn.state is not ConnectionState.CLOSED:
                            d.peer_close(conn)
                        continue
                    back = peer.take()
                    if back and conn.state & ConnectionState.CAN_READ:
                        d.data(conn, back)
            if not moved:
                break

    def connect_request(self, host: str, port: int = 443) -> bytes:
        return f"CONNECT {host}:{port} HTTP/1.1\r\nHost: {host}:{port}\r\n\r\n".encode()


def pump_client_handshake(fs: FullStack, peer: SslPeer, wrap: SslPeer | None = None, rounds: int = 12) -> bool:
    """Run `peer`'s handshake against the stack; if `wrap` is given, peer's records travel inside wrap's
    (already established) TLS session (TLS-over-TLS through a secure web proxy)."""
    for _ in range(rounds):
        done = peer.handshake_step()
        data = peer.take()
        if data:
            if wrap is not None:
                wrap.write_app(data)
                data = wrap.take()
            back = fs.feed_client(data)
            if wrap is not None:
                wrap.give(back)
                back = wrap.read_app()
            peer.give(back)
        if done or peer.error:
            # flush a possible last flight (TLS 1.3 Finished) so mitmproxy completes as well
            return done
    return False


# ------------------------------------------------------------------------------------------------------------
# Certificate minting (cryptography only; nothing from mitmproxy) -- used to play upstream servers and custom CAs.


class Mint:
    """Makes CAs and leaf certificates on demand; keys are cached by label so runs are cheap."""

    def __init__(self):
        self._keys: dict[str, object] = {}
        self._cas: dict[tuple, tuple] = {}

    def key(self, label: str, kind: str = "ec"):
        from cryptography.hazmat.primitives.asymmetric import ec, rsa

        k = self._keys.get(label)
        if k is None:
            k = ec.generate_private_key(ec.SECP256R1()) if kind == "ec" else rsa.generate_private_key(65537, 2048)
            self._keys[label] = k
        return k

    @staticmethod
    def now():
        import datetime

        return datetime.datetime.now(datetime.timezone.utc).replace(microsecond=0)

    def ca(self, label: str, issuer: tuple | None = None, *, days_before: int = 30, days_after: int = 3650,
           is_ca: bool = True, ski: str = "sha1", path_length=None, kind: str = "ec", key_cert_sign: bool = True,
           eku_server: bool | None = None):
        """A CA certificate (self-signed unless `issuer` = (cert, key)).  ski: "sha1" | "rfc7093" | "none"."""
        import datetime

        from cryptography import x509
        from cryptography.hazmat.primitives import hashes, serialization
        from cryptography.x509.oid import ExtendedKeyUsageOID, NameOID

        ck = (label, None if issuer is None else issuer[0].serial_number, days_before, days_after, is_ca, ski,
              path_length, kind, key_cert_sign, eku_server)
        if ck in self._cas:
            return self._cas[ck]
        key = self.key("ca:" + label, kind)
        name = x509.Name([x509.NameAttribute(NameOID.COMMON_NAME, f"verif {label}"),
                          x509.NameAttribute(NameOID.ORGANIZATION_NAME, "verif lab")])
        now = self.now()
        b = (x509.CertificateBuilder().subject_name(name)
             .issuer_name(name if issuer is None else issuer[0].subject)
             .public_key(key.public_key()).serial_number(x509.random_serial_number())
             .not_valid_before(now - datetime.timedelta(days=days_before))
             .not_valid_after(now + datetime.timedelta(days=days_after)))
        if is_ca is not None:
            b = b.add_extension(x509.BasicConstraints(ca=is_ca, path_length=path_length if is_ca else None), critical=True)
        b = b.add_extension(x509.KeyUsage(digital_signature=not key_cert_sign, content_commitment=False,
                                          key_encipherment=False, data_encipherment=False, key_agreement=False,
                                          key_cert_sign=key_cert_sign, crl_sign=key_cert_sign, encipher_only=False,
                                          decipher_only=False), critical=True)
        if eku_server is not None:
            b = b.add_extension(x509.ExtendedKeyUsage(
                [ExtendedKeyUsageOID.SERVER_AUTH if eku_server else ExtendedKeyUsageOID.CLIENT_AUTH]), critical=False)
        if ski == "sha1":
            b = b.add_extension(x509.SubjectKeyIdentifier.from_public_key(key.public_key()), critical=False)
        elif ski == "rfc7093":
            der = key.public_key().public_bytes(serialization.Encoding.DER, serialization.PublicFormat.SubjectPublicKeyInfo)
            h = hashes.Hash(hashes.SHA256())
            h.update(der)
            b = b.add_extension(x509.SubjectKeyIdentifier(h.finalize()[:20]), critical=False)
        if issuer is not None:
            try:
                iski = issuer[0].extensions.get_extension_for_class(x509.SubjectKeyIdentifier).value
                b = b.add_extension(x509.AuthorityKeyIdentifier.from_issuer_subject_key_identifier(iski), critical=False)
            except x509.ExtensionNotFound:
                pass
        cert = b.sign(key if issuer is None else issuer[1], hashes.SHA256())
        self._cas[ck] = (cert, key)
        return cert, key

    def leaf(self, issuer: tuple, *, cn: str | None = None, sans=(), org: str | None = None, crl: str | None = None,
             days_before: int = 1, days_after: int = 30, eku: str | None = "server", key_label: str = "leaf",
             basic_ca: bool | None = False, san_critical: bool = False):
        """A leaf certificate.  sans: iterable of x509.GeneralName.  eku: "server" | "client" | None."""
        import datetime

        from cryptography import x509
        from cryptography.hazmat.primitives import hashes
        from cryptography.x509.oid import ExtendedKeyUsageOID, NameOID

        key = self.key(key_label)
        subj = []
        if cn is not None:
            subj.append(x509.NameAttribute(NameOID.COMMON_NAME, cn, _validate=False))
        if org is not None:
            subj.append(x509.NameAttribute(NameOID.ORGANIZATION_NAME, org, _validate=False))
        now = self.now()
        b = (x509.CertificateBuilder().subject_name(x509.Name(subj)).issuer_name(issuer[0].subject)
             .public_key(key.public_key()).serial_number(x509.random_serial_number())
             .not_valid_before(now - datetime.timedelta(days=days_before))
             .not_valid_after(now + datetime.timedelta(days=days_after)))
        if basic_ca is not None:
            b = b.add_extension(x509.BasicConstraints(ca=basic_ca, path_length=None), critical=True)
        sans = list(sans)
        if sans:  # RFC 5280 4.2.1.6: critical exactly when the subject is empty
            b = b.add_extension(x509.SubjectAlternativeName(sans), critical=san_critical or not subj)
        if eku:
            b = b.add_extension(x509.ExtendedKeyUsage(
                [ExtendedKeyUsageOID.SERVER_AUTH if eku == "server" else ExtendedKeyUsageOID.CLIENT_AUTH]), critical=False)
        if crl:
            b = b.add_extension(x509.CRLDistributionPoints([x509.DistributionPoint(
                [x509.UniformResourceIdentifier(crl)], relative_name=None, crl_issuer=None, reasons=None)]), critical=False)
        try:
            iski = issuer[0].extensions.get_extension_for_class(x509.SubjectKeyIdentifier).value
            b = b.add_extension(x509.AuthorityKeyIdentifier.from_issuer_subject_key_identifier(iski), critical=False)
        except x509.ExtensionNotFound:
            pass
        return b.sign(issuer[1], hashes.SHA256()), key


def pem_cert(cert) -> bytes:
    from cryptography.hazmat.primitives import serialization

    return cert.public_bytes(serialization.Encoding.PEM)


def pem_key(key) -> bytes:
    from cryptography.hazmat.primitives import serialization

    return key.private_bytes(serialization.Encoding.PEM, serialization.PrivateFormat.TraditionalOpenSSL,
                             serialization.NoEncryption())


def strict_verify(leaf, intermediates, roots, subject: str, when=None) -> str:
    """cryptography's WebPKI server verifier (independent of OpenSSL and of mitmproxy): "ok" or the reason."""
    import datetime
    import ipaddress

    from cryptography import x509
    from cryptography.x509 import verification

    try:
        subj = x509.IPAddress(ipaddress.ip_address(subject))
    except ValueError:
        try:
            subj = x509.DNSName(subject)
        except Exception as e:
            return f"bad_subject: {e}"
    try:
        v = (verification.PolicyBuilder().store(verification.Store(list(roots)))
             .time(when or datetime.datetime.now(datetime.timezone.utc)).build_server_verifier(subj))
        v.verify(leaf, list(intermediates))
        return "ok"
    except Exception as e:
        return f"{type(e).__name__}: {e}"


class OsslClient:
    """pyOpenSSL memory-BIO TLS client that sends ANY byte string as SNI (Python's ssl refuses IP literals and
    non-hostnames) and keeps the certificate chain the server presented.  Used as a stimulus generator and to capture
    bytes; it verifies nothing itself."""

    def __init__(self, sni: bytes | None, alpn: list[bytes] | None = None):
        from OpenSSL import SSL

        self._SSL = SSL
        ctx = SSL.Context(SSL.TLS_CLIENT_METHOD)
        ctx.set_verify(SSL.VERIFY_NONE, None)
        if alpn:
            ctx.set_alpn_protos(alpn)
        self.c = SSL.Connection(ctx)
        if sni is not None:
            self.c.set_tlsext_host_name(sni)
        self.c.set_connect_state()
        self.done = False
        self.error: str | None = None

    def handshake_step(self) -> bool:
        if self.done or self.error:
            return self.done
        try:
            self.c.do_handshake()
            self.done = True
        except self._SSL.WantReadError:
            pass
        except self._SSL.Error as e:
            self.error = repr(e)
        return self.done

    def take(self) -> bytes:
        try:
            return self.c.bio_read(65536)
        except self._SSL.WantReadError:
            return b""

    def give(self, data: bytes):
        if data:
            self.c.bio_write(data)

    def write_app(self, data: bytes):
        self.c.send(data)

    def read_app(self) -> bytes:
        buf = bytearray()
        while True:
            try:
                d = self.c.recv(65536)
            except (self._SSL.WantReadError, self._SSL.ZeroReturnError):
                break
            except self._SSL.Error as e:
                self.error = self.error or repr(e)
                break
            if not d:
                break
            buf.extend(d)
        return bytes(buf)

    def chain(self):
        """The presented chain as cryptography certificates (leaf first)."""
        return [x.to_cryptography() for x in (self.c.get_peer_cert_chain() or [])]
